import UPVerif.Spec.Conformant
/-!
# Model of `unified_planning/engines/compilers/ks0_compiler.py` (K_S0 translation), C30

Executable, total, Mathlib-free.  The model starts where the Python code has the *prepared normalised
problem* (`_PreparedNormalizedProblem`: ground fluent expressions, per action its precondition
literals and effect rules `condition literals → target literal`, goal literals, merge targets) and
mirrors, function by function:

| Lean                         | Python (`ks0_compiler.py`)                                              |
|------------------------------|-------------------------------------------------------------------------|
| `mergeTargets`               | `_prepare_normalized_problem` (merge-target collection), l.745-820      |
| `dedupStates`                | `_deduplicate_possible_initial_states`, l.423-437                       |
| `relInit/pass1/pass2/relLoop`| `_get_relevance_relation`, l.916-964                                    |
| `minStep/minimalFor/basis`   | `_reduce_possible_initial_states_to_basis`, l.830-913                   |
| `kinit/compileAct/mergeAct/compile` | `_compile_normalized_problem`, l.555-722                         |
| `mapBack`                    | `_map_back_ks0_action_instance` / `_build_plan_back_conversion`, l.967-1007 |
| `assignChoice/oneofPhase/enumerateHidden` | `_assign_oneof_choice` / `_enumerate_hidden_assignments`, l.323-378 |
| `ks0`                        | `_compile` (l.206-225) after normalisation                              |

A knowledge fluent `K L/t` is the pair `⟨L, t⟩ : KAtom α` (Python key `(fluent, is_negative, tag)`).
-/
namespace UPVerif.KS0
open UPVerif.Conformant

variable {α : Type} [DecidableEq α]

/-! ## small list utilities (lists used as insertion-ordered sets) -/

/-- keep the first occurrence of every element (Python: `if x not in seen: seen.add(x); out.append(x)`) -/
def dedup {β : Type} [DecidableEq β] : List β → List β
  | [] => []
  | x :: xs => x :: (dedup xs).filter (fun y => decide (y ≠ x))

/-! ## tags and knowledge fluents -/

/-- tags: `empty` = unconditional knowledge, `st i` = "if the initial state is the i-th possible one" -/
inductive Tag where
  | empty
  | st (i : Nat)
  deriving DecidableEq, Repr

/-- knowledge fluent `K lit / tag` -/
structure KAtom (α : Type) where
  lit : Lit α
  tag : Tag
  deriving DecidableEq, Repr

/-- the positive knowledge literal `K l / t` (`knowledge_literal_cache[(l, t)]`) -/
def kpos (l : Lit α) (t : Tag) : Lit (KAtom α) := ⟨⟨l, t⟩, true⟩

/-- the literal `¬K ¬l / t` (`negated_knowledge_literal_cache[(l, t)]`) -/
def knot (l : Lit α) (t : Tag) : Lit (KAtom α) := ⟨⟨l.neg, t⟩, false⟩

/-- `tags = ("empty",) + ("s0", ..., "s{n-1}")` (l.564) -/
def tags (n : Nat) : List Tag := Tag.empty :: (List.range n).map Tag.st

/-! ## `_prepare_normalized_problem`: merge targets -/

/-- precondition literals of the actions in order, then goal literals, first occurrences (l.754-757, 816-820) -/
def mergeTargets (P : NProblem α) : List (Lit α) :=
  dedup (P.actions.flatMap (fun a => a.pre) ++ P.goals)

/-! ## `_deduplicate_possible_initial_states` -/

/-- signature of a state over the ground fluents -/
def signature (atoms : List α) (s : State α) : List Bool := atoms.map s

/-- keep the first state of every signature (l.427-437) -/
def dedupStates (atoms : List α) : List (State α) → List (State α)
  | [] => []
  | s :: rest =>
    s :: (dedupStates atoms rest).filter (fun s' => decide (signature atoms s' ≠ signature atoms s))

/-! ## `_get_relevance_relation` -/

/-- `all_literals`: for every ground fluent the positive then the negative literal (l.926-933) -/
def allLits (atoms : List α) : List (Lit α) := atoms.flatMap (fun x => [⟨x, true⟩, ⟨x, false⟩])

/-- relevance map `literal ↦ set of literals it is relevant to`: a Python dict of sets, keys in
`all_literals` order, every set as an insertion-ordered list without repetitions -/
abbrev RelMap (α : Type) := List (Lit α × List (Lit α))

/-- `relevance[l]` (the empty set for a literal that is not a key) -/
def RelMap.row (m : RelMap α) (l : Lit α) : List (Lit α) :=
  match m with
  | [] => []
  | (k, r) :: rest => if k = l then r else RelMap.row rest l

/-- `relevance[l] = r` -/
def RelMap.setRow (m : RelMap α) (l : Lit α) (r : List (Lit α)) : RelMap α :=
  m.map (fun e => if e.1 = l then (e.1, r) else e)

/-- `set.update` -/
def addNew (r : List (Lit α)) (xs : List (Lit α)) : List (Lit α) :=
  xs.foldl (fun r x => if r.contains x then r else r ++ [x]) r

/-- the relation a relevance map denotes: `l` is relevant to `x` -/
abbrev Rel (α : Type) := Lit α → Lit α → Bool

def RelMap.rel (m : RelMap α) : Rel α := fun l x => (m.row l).contains x

/-- reflexivity + "effect conditions are relevant to effect targets" (l.935-941) -/
def relInit (P : NProblem α) : RelMap α :=
  (P.actions.flatMap (fun a => a.rules)).foldl
    (fun m r => r.cond.foldl (fun m c => m.setRow c (addNew (m.row c) [r.target])) m)
    ((allLits P.atoms).map (fun l => (l, [l])))

/-- one in-place transitivity sweep over `all_literals` (l.947-953) -/
def pass1 (U : List (Lit α)) (m : RelMap α) : RelMap α :=
  U.foldl (fun m l => m.setRow l ((m.row l).foldl (fun acc i => addNew acc (m.row i)) (m.row l))) m

/-- one in-place complement sweep: `L → L'` if `¬L → ¬L'` (l.955-962) -/
def pass2 (U : List (Lit α)) (m : RelMap α) : RelMap α :=
  U.foldl (fun m l => m.setRow l (addNew (m.row l) ((m.row l.neg).map Lit.neg))) m

/-- number of pairs in the relation; sets only grow, so "nothing changed" = "same size" -/
def RelMap.size (m : RelMap α) : Nat := (m.map (fun e => e.2.length)).sum

/-- `while changed:` with fuel; stops at the first sweep pair that changes nothing -/
def relLoop (U : List (Lit α)) : Nat → RelMap α → RelMap α
  | 0, m => m
  | fuel + 1, m =>
    let m' := pass2 U (pass1 U m)
    if m'.size == m.size then m else relLoop U fuel m'

/-- closure check over `all_literals`: reflexive, contains the rule edges, transitive, complement-closed -/
def relClosed (P : NProblem α) (r : Rel α) : Bool :=
  let U := allLits P.atoms
  U.all (fun l => r l l)
  && P.actions.all (fun a => a.rules.all (fun ru => ru.cond.all (fun c => r c ru.target)))
  && U.all (fun l => U.all (fun i => U.all (fun x => !(r l i && r i x) || r l x)))
  && U.all (fun l => U.all (fun x => !(r l.neg x.neg) || r l x))

/-- the fixpoint computed by the `while changed` loop -/
def relFix (P : NProblem α) : RelMap α :=
  let U := allLits P.atoms
  relLoop U (U.length * U.length + 1) (relInit P)

/-- Fuel: every sweep pair that changes something adds at least one of the `(2n)²` possible pairs, so
`(2n)² + 1` rounds reach the fixpoint.  The model re-checks the closure and otherwise falls back to the
total relation (for which nothing is ever dropped but duplicates); the driver reports which branch
was taken, so the correspondence check would expose insufficient fuel. -/
def relevanceMap (P : NProblem α) : RelMap α :=
  let m := relFix P
  if relClosed P m.rel then m else (allLits P.atoms).map (fun l => (l, allLits P.atoms))

/-! ## `_reduce_possible_initial_states_to_basis` -/

/-- `a ⊆ b` on lists-as-sets -/
def subl (a b : List (Lit α)) : Bool := a.all (fun x => b.contains x)

/-- literals true in `s` that are relevant to the target `T` (l.861-870, 888-890) -/
def relLits (atoms : List α) (m : RelMap α) (T : Lit α) (s : State α) : List (Lit α) :=
  (atoms.map (fun x => (⟨x, s x⟩ : Lit α))).filter (fun l => m.rel l T)

/-- one iteration of the loop l.887-905 over the list of current minimal sets -/
def minStep (acc : List (Nat × List (Lit α))) (e : Nat × List (Lit α)) : List (Nat × List (Lit α)) :=
  if acc.any (fun x => subl x.2 e.2) then acc
  else acc.filter (fun x => !(subl e.2 x.2)) ++ [e]

/-- the minimal relevant-literal sets (with the index of their state) for target `T` -/
def minimalFor (atoms : List α) (m : RelMap α) (S : List (State α)) (T : Lit α) :
    List (Nat × List (Lit α)) :=
  (S.zipIdx.map (fun p => (p.2, relLits atoms m T p.1))).foldl minStep []

/-- indices of the states kept, ascending (l.882-913) -/
def basisIdx (P : NProblem α) (S : List (State α)) : List Nat :=
  if S.length ≤ 1 then List.range S.length
  else
    let Ts := mergeTargets P
    if Ts.isEmpty then [0]
    else
      let m := relevanceMap P
      let sel := Ts.flatMap (fun T => (minimalFor P.atoms m S T).map (fun e => e.1))
      (List.range S.length).filter (fun i => sel.contains i)

def basis (P : NProblem α) (S : List (State α)) : List (State α) :=
  (basisIdx P S).filterMap (fun i => S[i]?)

/-! ## `_compile_normalized_problem` -/

/-- initial knowledge (l.617-647): `K L/empty` iff `L` holds in all tag states (the Python
`if all … elif not any …`), `K L/s_i` iff `L` holds in the i-th state -/
def kinit (S : List (State α)) : State (KAtom α) :=
  fun k => match k.tag with
    | .empty =>
      if k.lit.pos then S.all (fun s => s k.lit.atom)
      else !(S.all (fun s => s k.lit.atom)) && !(S.any (fun s => s k.lit.atom))
    | .st i => match S[i]? with
      | some s => holds s k.lit
      | none => false

/-- support rule `∧ K Cᵢ/t → K L/t := true` and cancellation rule `∧ ¬K ¬Cᵢ/t → K ¬L/t := false`
of one effect rule under one tag (l.665-692) -/
def ruleK (t : Tag) (r : Rule α) : List (Rule (KAtom α)) :=
  [ ⟨r.cond.map (fun c => kpos c t), kpos r.target t⟩,
    ⟨r.cond.map (fun c => knot c t), knot r.target t⟩ ]

/-- compiled action: preconditions on the empty tag; `for tag in tags: for effect_rule in …` (l.650-695) -/
def compileAct (n : Nat) (a : Action α) : Action (KAtom α) :=
  { name := a.name
    pre := a.pre.map (fun l => kpos l Tag.empty)
    rules := (tags n).flatMap (fun t => a.rules.flatMap (ruleK t)) }

/-- merge action of a merge target (l.706-720) -/
def mergeAct (n : Nat) (l : Lit α) : Action (KAtom α) :=
  { name := "merge"
    pre := (List.range n).map (fun i => kpos l (Tag.st i))
    rules := [⟨[], kpos l Tag.empty⟩] }

/-- a step of a compiled plan, by provenance (the key of `new_to_old_action`) -/
inductive CStep (α : Type) where
  | act (a : Action α)
  | merge (l : Lit α)
  deriving DecidableEq

def CStep.compile (n : Nat) : CStep α → Action (KAtom α)
  | .act a => compileAct n a
  | .merge l => mergeAct n l

/-- the compiled problem's actions by provenance: the actions in order, then one merge per merge target -/
def csteps (P : NProblem α) : List (CStep α) :=
  P.actions.map CStep.act ++ (mergeTargets P).map CStep.merge

/-- knowledge fluents in creation order: fluent, polarity (positive first), tag (l.574-589) -/
def katoms (atoms : List α) (n : Nat) : List (KAtom α) :=
  atoms.flatMap (fun x => [true, false].flatMap (fun p => (tags n).map (fun t => (⟨⟨x, p⟩, t⟩ : KAtom α))))

/-- the compiled classical problem for the tag states `S` -/
def compile (P : NProblem α) (S : List (State α)) : NProblem (KAtom α) :=
  { atoms := katoms P.atoms S.length
    actions := (csteps P).map (CStep.compile S.length)
    goals := P.goals.map (fun l => kpos l Tag.empty) }

/-- plan back-conversion: merge actions are dropped, the others map to their original (l.999-1007) -/
def mapBack : List (CStep α) → List (Action α)
  | [] => []
  | .act a :: cs => a :: mapBack cs
  | .merge _ :: cs => mapBack cs

/-- the compiled plan used for completeness: merge every precondition literal right before its action,
and every goal literal at the end -/
def withMerges (goals : List (Lit α)) : List (Action α) → List (CStep α)
  | [] => goals.map CStep.merge
  | a :: π => a.pre.map CStep.merge ++ CStep.act a :: withMerges goals π

/-- `_compile` after normalisation: deduplicate, reduce to the basis, translate (l.211-225) -/
def ks0States (P : NProblem α) (S : List (State α)) : List (State α) :=
  basis P (dedupStates P.atoms S)

def ks0 (P : NProblem α) (S : List (State α)) : NProblem (KAtom α) :=
  compile P (ks0States P S)

/-! ## normalisation of disjunctive preconditions (abstract model of the preceding compiler)

`Ks0Compiler._normalize_problem` hands a problem with disjunctive conditions to
`DisjunctiveConditionsRemover`, whose `_create_non_disjunctive_actions` replaces an action by one
variant per disjunct of the DNF of its precondition, all with the original effects and all mapping
back to the original action.  (The real remover also drops variants whose conjunction is
contradictory or that have no effect left, and gives the variants fresh names; neither matters for
the existence of plans.)  The structural correspondence covers this split on inputs whose
disjuncts are pairwise different, non-empty, clean conjunctions and whose effect conditions and
goal are conjunctions; anything else is covered by the end-to-end oracle only. -/

def splitDisj (d : DAction α) : List (Action α) :=
  d.pre.map (fun c => { name := d.name, pre := c, rules := d.rules })

def normD (P : DProblem α) : NProblem α :=
  { atoms := P.atoms, actions := P.actions.flatMap splitDisj, goals := P.goals }

/-- back-conversion through the split: the plan `l` of the split problem maps back, position by
position, to the plan `π` of the original actions (each step is a variant of its original) -/
inductive Origins (P : DProblem α) : List (DAction α) → List (Action α) → Prop where
  | nil : Origins P [] []
  | cons {d : DAction α} {a : Action α} {π : List (DAction α)} {l : List (Action α)} :
      d ∈ P.actions → a ∈ splitDisj d → Origins P π l → Origins P (d :: π) (a :: l)

/-! ## `_enumerate_hidden_assignments` (contingent route) -/

/-- insertion-ordered partial assignment (a Python `dict`) -/
abbrev Asg (α : Type) := List (α × Bool)

def Asg.get? (a : Asg α) (x : α) : Option Bool :=
  match a with
  | [] => none
  | (y, v) :: rest => if y = x then some v else Asg.get? rest x

/-- `_assign_oneof_choice` from position `idx` on: the `chosen`-th literal holds, the others do not;
`none` on conflict with an earlier value (`setdefault(atom, value) != value`) -/
def assignFrom (chosen : Nat) : Nat → List (Lit α) → Asg α → Option (Asg α)
  | _, [], asg => some asg
  | idx, l :: rest, asg =>
    let value := (decide (idx = chosen)) != (!l.pos)
    match asg.get? l.atom with
    | some v => if v = value then assignFrom chosen (idx + 1) rest asg else none
    | none => assignFrom chosen (idx + 1) rest (asg ++ [(l.atom, value)])

def assignChoice (asg : Asg α) (group : List (Lit α)) (chosen : Nat) : Option (Asg α) :=
  assignFrom chosen 0 group asg

/-- l.329-337 -/
def oneofPhase (groups : List (List (Lit α))) : List (Asg α) :=
  groups.foldl
    (fun partials g => partials.flatMap (fun asg =>
      (List.range g.length).filterMap (fun i => assignChoice asg g i)))
    [[]]

/-- `itertools.product((False, True), repeat=n)` -/
def boolVectors : Nat → List (List Bool)
  | 0 => [[]]
  | n + 1 => [false, true].flatMap (fun b => (boolVectors n).map (fun v => b :: v))

/-- `candidate.update(zip(free_atoms, free_values))` for atoms not yet assigned -/
def extend (asg : Asg α) (xs : List α) (vs : List Bool) : Asg α := asg ++ xs.zip vs

def asgHolds (asg : Asg α) (l : Lit α) : Bool :=
  match asg.get? l.atom with
  | some v => v == l.pos
  | none => false

/-- l.339-358 (the empty result is turned into `UPUsageError` by the caller, l.359-363) -/
def enumerateHidden (oneofs ors : List (List (Lit α))) (hidden : List α) : List (Asg α) :=
  let oneofAtoms := (oneofs.flatMap id).map (fun l => l.atom)
  let free := hidden.filter (fun x => !(oneofAtoms.contains x))
  (oneofPhase oneofs).flatMap (fun asg =>
    (boolVectors free.length).filterMap (fun vs =>
      let cand := extend asg free vs
      if ors.all (fun g => g.any (asgHolds cand)) then some cand else none))

/-- possible initial state of an assignment over the known values (l.305-319) -/
def stateOf (known : State α) (asg : Asg α) : State α :=
  fun x => match asg.get? x with
    | some v => v
    | none => known x

end UPVerif.KS0
