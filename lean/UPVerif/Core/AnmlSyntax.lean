import UPVerif.Core.Expr
import UPVerif.Core.Problem
/-
Problem syntax of the ANML writer/reader round trip (C19): what `ANMLWriter._write_problem`
(unified_planning/io/anml_writer.py:239) iterates over, in its iteration order, and the tokens it is
written in.

* Python `dict`s of the problem (`a.conditions`, `a.effects`, `timed_effects`, `timed_goals`) are the
  flat lists of their (key, element) pairs in iteration order;
* `init` is `problem.initial_values` (explicit values and expanded defaults) — the expansion itself
  (`InitialStateMixin.initial_values`) is an input of this model;
* the writer's renaming (`names_mapping`, filled by `_get_anml_name`, C38) is the parameter `Ren`.

Tokens: the lexical classes of the text (identifier / ANML keyword / number / decimal / string / symbol).
-/
namespace UPVerif.Anml
open UPVerif

inductive Tok where
  /-- an identifier that is not an ANML keyword -/
  | id (s : String)
  /-- a word of `ANML_KEYWORDS` (anml_writer.py:34) -/
  | kw (s : String)
  /-- `\d+` -/
  | num (n : Nat)
  /-- `\d+\.\d+`: integer part, the digits after the point as a number, and how many they are -/
  | dec (i : Nat) (frac : Nat) (digits : Nat)
  /-- `"…"` -/
  | str (s : String)
  | sym (s : String)
  deriving DecidableEq, Repr, Inhabited

inductive TP where
  | start | end_ | gstart | gend
  deriving DecidableEq, Repr, Inhabited

def TP.fromStart : TP → Bool
  | .start | .gstart => true
  | _ => false
def TP.isGlobal : TP → Bool
  | .gstart | .gend => true
  | _ => false

/-- `unified_planning.model.Timing` -/
structure Timing where
  tp : TP
  delay : Rat
  deriving DecidableEq, Repr, Inhabited

/-- `unified_planning.model.TimeInterval` -/
structure Interval where
  lo : Timing
  hi : Timing
  lopen : Bool
  ropen : Bool
  deriving DecidableEq, Repr, Inhabited

/-- `DurationInterval` -/
structure Duration where
  lo : Expr
  hi : Expr
  lopen : Bool
  ropen : Bool
  deriving Repr, Inhabited

/-- a fluent declaration: the `Fluent` (name, type, signature types) and its parameter names -/
structure AFluent where
  ref : FluentRef
  pnames : List String
  deriving DecidableEq, Repr, Inhabited

inductive AAction where
  | inst (name : String) (params : List (String × Ty)) (pre : List Expr) (effs : List Effect)
  | dur (name : String) (params : List (String × Ty)) (d : Duration)
        (conds : List (Interval × Expr)) (effs : List (Timing × Effect))
  deriving Repr, Inhabited

structure AProblem where
  /-- `user_types` in problem order: (name, father) -/
  types : List (String × Option String)
  fluents : List AFluent
  /-- `all_objects`: (name, user type) -/
  objects : List (String × String)
  /-- `initial_values` -/
  init : List (Expr × Expr)
  actions : List AAction
  timedEffects : List (Timing × Effect)
  goals : List Expr
  timedGoals : List (Interval × Expr)
  /-- `state_invariants` -/
  invariants : List Expr
  deriving Repr, Inhabited

def AAction.name : AAction → String
  | .inst n _ _ _ => n
  | .dur n _ _ _ _ => n
def AAction.params : AAction → List (String × Ty)
  | .inst _ ps _ _ => ps
  | .dur _ ps _ _ _ => ps
/-- every effect of the action, whatever its timing -/
def AAction.allEffects : AAction → List Effect
  | .inst _ _ _ es => es
  | .dur _ _ _ _ es => es.map (·.2)

/-- the fluent an effect writes (`e.fluent.fluent()`) -/
def effTarget (e : Effect) : Option FluentRef :=
  match e.fluent with
  | .app (.fluent f) _ => some f
  | _ => none

/-- `Problem.get_static_fluents()` (model/problem.py:426): the declared fluents no effect of an action and
    no timed effect writes -/
def AProblem.targets (P : AProblem) : List FluentRef :=
  (P.actions.flatMap (·.allEffects) ++ P.timedEffects.map (·.2)).filterMap effTarget

def AProblem.isStatic (P : AProblem) (f : FluentRef) : Bool := !(P.targets.contains f)

/-! ### the writer's renaming (a parameter: `names_mapping` after `_write_problem`, C38) -/

structure Ren where
  ty : String → String
  fl : String → String
  act : String → String
  obj : String → String
  /-- `Parameter`s are dictionary keys by (name, type) -/
  par : String → Ty → String
  /-- so are `Variable`s -/
  var : String → Ty → String

namespace Ren
variable (ρ : Ren)

def renTy : Ty → Ty
  | .user n => .user (ρ.ty n)
  | t => t

def renRef (f : FluentRef) : FluentRef :=
  { name := ρ.fl f.name, ty := ρ.renTy f.ty, sig := f.sig.map ρ.renTy }

def renVar (v : Var) : Var := { name := ρ.var v.name v.ty, ty := ρ.renTy v.ty }

def renLeaf : Leaf → Leaf
  | .obj n t => .obj (ρ.obj n) (ρ.ty t)
  | .param n t => .param (ρ.par n t) (ρ.renTy t)
  | .var v => .var (ρ.renVar v)
  | l => l

def renOp : Op → Op
  | .fluent f => .fluent (ρ.renRef f)
  | o => o

mutual
def renE : Expr → Expr
  | .leaf l => .leaf (ρ.renLeaf l)
  | .app op args => .app (ρ.renOp op) (renEs args)
  | .quant q vs b => .quant q (vs.map ρ.renVar) (renE b)
def renEs : List Expr → List Expr
  | [] => []
  | e :: es => renE e :: renEs es
end

def renEff (e : Effect) : Effect :=
  { fluent := ρ.renE e.fluent, value := ρ.renE e.value, cond := ρ.renE e.cond, kind := e.kind,
    forall_ := e.forall_.map ρ.renVar }

def renParams (ps : List (String × Ty)) : List (String × Ty) :=
  ps.map (fun p => (ρ.par p.1 p.2, ρ.renTy p.2))

def renFluent (f : AFluent) : AFluent :=
  { ref := ρ.renRef f.ref,
    pnames := (f.pnames.zip f.ref.sig).map (fun p => ρ.par p.1 p.2) }

def renDuration (d : Duration) : Duration := { d with lo := ρ.renE d.lo, hi := ρ.renE d.hi }

def renAction : AAction → AAction
  | .inst n ps pre effs => .inst (ρ.act n) (ρ.renParams ps) (pre.map ρ.renE) (effs.map ρ.renEff)
  | .dur n ps d conds effs =>
    .dur (ρ.act n) (ρ.renParams ps) (ρ.renDuration d) (conds.map (fun c => (c.1, ρ.renE c.2)))
      (effs.map (fun e => (e.1, ρ.renEff e.2)))

def renProblem (P : AProblem) : AProblem :=
  { types := P.types.map (fun t => (ρ.ty t.1, t.2.map ρ.ty)),
    fluents := P.fluents.map ρ.renFluent,
    objects := P.objects.map (fun o => (ρ.obj o.1, ρ.ty o.2)),
    init := P.init.map (fun i => (ρ.renE i.1, ρ.renE i.2)),
    actions := P.actions.map ρ.renAction,
    timedEffects := P.timedEffects.map (fun e => (e.1, ρ.renEff e.2)),
    goals := P.goals.map ρ.renE,
    timedGoals := P.timedGoals.map (fun g => (g.1, ρ.renE g.2)),
    invariants := P.invariants.map ρ.renE }

end Ren

/-! ### how a re-read expression is spelt

The text has only binary operators, unsigned number literals and no rational literals; the reader
(`ANMLReader._parse_expression`, before its final `simplify()`) therefore returns
* `a1 ∘ a2 ∘ … ∘ an` as the left-nested binary tree (`group_binary`, anml_grammar.py:418),
* a negative integer `-n` as `Times(-1, n)` (unary minus, anml_reader.py:921),
* a rational constant `n/d` as `Div(n, d)`.
`respell` is that re-spelling; `Lemmas/AnmlDen.lean` proves it keeps the reference denotation. -/

def intExpr (z : Int) : Expr :=
  if z < 0 then .app .times [Expr.int (-1), Expr.int (z.natAbs : Int)] else Expr.int z

/-- left-nested binary tree of an n-ary application -/
def leftNest (op : Op) : Expr → List Expr → Expr
  | acc, [] => acc
  | acc, e :: es => leftNest op (.app op [acc, e]) es

def isNary : Op → Bool
  | .and | .or | .plus | .times => true
  | _ => false

def respellLeaf : Leaf → Expr
  | .intC z => intExpr z
  | .realC r => .app .div [intExpr r.num, Expr.int (r.den : Int)]
  | l => .leaf l

/-- an application over re-spelt arguments -/
def respellApp (op : Op) (args : List Expr) : Expr :=
  if isNary op then
    match args with
    | a :: b :: rest => leftNest op (.app op [a, b]) rest
    | as => .app op as
  else .app op args

mutual
def respell : Expr → Expr
  | .leaf l => respellLeaf l
  | .app op args => respellApp op (respellList args)
  | .quant q vs b => .quant q vs (respell b)
def respellList : List Expr → List Expr
  | [] => []
  | e :: es => respell e :: respellList es
end

def respellEff (e : Effect) : Effect :=
  { e with fluent := respell e.fluent, value := respell e.value,
           -- `_parse_assignment` (anml_reader.py:843): a conditional forall effect gets `And(condition, TRUE)`
           cond := if e.forall_.isEmpty || e.cond.isTrue then respell e.cond
                   else .app .and [respell e.cond, Expr.tt] }

/-! the containers the reader fills (`add_precondition`, `add_condition`, `add_goal`, `add_timed_goal`,
    `set_initial_value`): `TRUE` preconditions and goals are dropped, preconditions / conditions / timed goals
    are not stored twice, a second initial value of one ground fluent replaces the first -/

/-- `InstantaneousAction.add_precondition` (model/transition.py:170) -/
def addPre (acc : List Expr) (c : Expr) : List Expr :=
  if c.isTrue || acc.contains c then acc else acc ++ [c]

/-- `add_condition` / `add_timed_goal`: `if exp not in conditions[interval]: append` -/
def addTimed (acc : List (Interval × Expr)) (c : Interval × Expr) : List (Interval × Expr) :=
  if acc.contains c then acc else acc ++ [c]

/-- `Problem.add_goal` (model/problem.py:654) -/
def addGoal (acc : List Expr) (g : Expr) : List Expr :=
  if g.isTrue then acc else acc ++ [g]

/-- `set_initial_value`: `self._initial_value[fluent] = value` -/
def setInit (acc : List (Expr × Expr)) (i : Expr × Expr) : List (Expr × Expr) :=
  if acc.any (fun p => p.1 == i.1) then acc.map (fun p => if p.1 == i.1 then (p.1, i.2) else p) else acc ++ [i]

def respellAction : AAction → AAction
  | .inst n ps pre effs => .inst n ps ((pre.map respell).foldl addPre []) (effs.map respellEff)
  | .dur n ps d conds effs =>
    .dur n ps { d with lo := respell d.lo, hi := respell d.hi }
      ((conds.map (fun c => (c.1, respell c.2))).foldl addTimed [])
      (effs.map (fun e => (e.1, respellEff e.2)))

/-- stable partition: the fluents the writer declares `constant` come first (`_parse_problem` adds
    `grammar.constant_fluents` before `grammar.fluents`) -/
def constantsFirst (P : AProblem) (fs : List AFluent) : List AFluent :=
  fs.filter (fun f => P.isStatic f.ref) ++ fs.filter (fun f => !P.isStatic f.ref)

/-- the objects grouped by type in `user_types` order (one `instance` statement per type) -/
def objectsByType (P : AProblem) : List (String × String) :=
  P.types.flatMap (fun t => P.objects.filter (fun o => o.2 == t.1))

/-- what the reader returns for the text of `P` printed with the identity renaming -/
def reread (P : AProblem) : AProblem :=
  { types := P.types,
    fluents := constantsFirst P P.fluents,
    objects := objectsByType P,
    init := (P.init.map (fun i => (respell i.1, respell i.2))).foldl setInit [],
    actions := P.actions.map respellAction,
    timedEffects := P.timedEffects.map (fun e => (e.1, respellEff e.2)),
    goals := (P.goals.map respell).foldl addGoal [],
    timedGoals := (P.timedGoals.map (fun g => (g.1, respell g.2))).foldl addTimed [],
    invariants := P.invariants.map respell }

end UPVerif.Anml
