import UPVerif.Core.Problem
import UPVerif.Core.Declared
import UPVerif.Core.Sim
/-
Well-formedness of a problem (property C08, second sentence: "every name is unique, every referenced action,
fluent, object and type is declared") as an executable predicate on problem syntax (`Core/Problem.lean`).

What the library demands, clause by clause (the judgement `wf_report` of harness/props/C08.py evaluates the same
clauses on real `Problem` objects; the two are compared on every real compiled problem, DESIGN 5/C08):

* names (`Problem.has_name`, problem.py:287, with `environment.error_used_name = True`): user types, objects,
  fluents and actions share ONE name space — all their names are pairwise distinct;
* every object has a declared user type; the value type and the signature types of every fluent are declared;
  the type of every action parameter is declared;
* every expression of the problem (preconditions, the three expressions of every effect, goals, trajectory
  constraints, both sides of every explicit initial value, default initial values, metric expressions) refers only
  to declared things: a FLUENT_EXP to a declared `Fluent` (name, type AND signature, `Fluent.__eq__`) applied to as
  many arguments as its signature has, an OBJECT_EXP to a declared `Object` (name and type), a PARAM_EXP to a
  parameter (name and type) of the action it occurs in (none outside actions), variables and quantifiers to
  declared user types; the variables of a forall effect have declared types;
* a `MinimizeActionCosts` metric only gives costs to actions of the problem.

All predicates on expressions used here ("every node is fine") are instances of one scheme, `holds N` for a
node-local test `N : NodePred`, so that the lemmas about the walkers (substitution, quantifier expansion, NNF, …)
are proved once (`Lemmas/WellFormedExpr.lean`).

The "inside the target" predicates of the five modelled compilers are defined at the end.
-/
namespace UPVerif.WF
open UPVerif UPVerif.Expr UPVerif.Declared

/-- a node-local test: on the payload of a leaf, on an operator with its number of arguments, on a quantifier
    with its variables -/
structure NodePred where
  leaf : Leaf → Bool
  op : Op → Nat → Bool
  quant : Quant → List Var → Bool

mutual
/-- every node of the expression passes the test -/
def holds (N : NodePred) : Expr → Bool
  | .leaf l => N.leaf l
  | .app op args => N.op op args.length && holdsList N args
  | .quant q vs b => N.quant q vs && holds N b
def holdsList (N : NodePred) : List Expr → Bool
  | [] => true
  | e :: es => holds N e && holdsList N es
end

/-- the declarations of a problem -/
def declsOf (P : Problem) : Decls :=
  { types := P.types.fathers.map (·.1), objects := P.objects, fluents := P.fluents.map (·.ref) }

def typeNames (P : Problem) : List String := P.types.fathers.map (·.1)
def objectNames (P : Problem) : List String := P.objects.map (·.1)
def fluentNames (P : Problem) : List String := P.fluents.map (·.ref.name)
def actionNames (P : Problem) : List String := P.actions.map (·.name)

/-- the names `Problem.has_name` answers for, except the actions -/
def otherNames (P : Problem) : List String := typeNames P ++ objectNames P ++ fluentNames P

/-- all names of the single name space -/
def allNames (P : Problem) : List String := otherNames P ++ actionNames P

def wfLeaf (D : Decls) (ps : List (String × Ty)) : Leaf → Bool
  | .obj n t => D.objects.contains (n, t)
  | .param n ty => ps.contains (n, ty)
  | .var v => tyDeclared D v.ty
  | _ => true

/-- a FLUENT_EXP node: declared fluent, right number of arguments -/
def wfOp (D : Decls) : Op → Nat → Bool
  | .fluent f, n => D.fluents.contains f && n == f.sig.length
  | _, _ => true

def wfNode (D : Decls) (ps : List (String × Ty)) : NodePred :=
  { leaf := wfLeaf D ps, op := wfOp D, quant := fun _ vs => vs.all (fun v => tyDeclared D v.ty) }

/-- every fluent (with its arity), object, parameter and type referenced by the expression is declared;
    `ps` = the parameters in scope -/
def wfExpr (D : Decls) (ps : List (String × Ty)) (e : Expr) : Bool := holds (wfNode D ps) e

def wfEffect (D : Decls) (ps : List (String × Ty)) (e : Effect) : Bool :=
  e.forall_.all (fun v => tyDeclared D v.ty) && wfExpr D ps e.fluent && wfExpr D ps e.value && wfExpr D ps e.cond

def wfAction (D : Decls) (a : Action) : Bool :=
  a.params.all (fun p => tyDeclared D p.2) && a.pre.all (wfExpr D a.params) && a.effs.all (wfEffect D a.params)

def wfFluentDecl (D : Decls) (d : FluentDecl) : Bool :=
  tyDeclared D d.ref.ty && d.ref.sig.all (tyDeclared D) &&
  (match d.default with
   | some e => wfExpr D [] e
   | none => true)

def wfMetric (D : Decls) (acts : List Action) : Metric → Bool
  | .minActionCosts costs dflt =>
    costs.all (fun ce => match acts.find? (fun a => a.name == ce.1) with
      | some a => wfExpr D a.params ce.2
      | none => false) &&
    (match dflt with
     | some e => wfExpr D [] e
     | none => true)
  | .minLength => true
  | .minFinal e => wfExpr D [] e
  | .maxFinal e => wfExpr D [] e
  | .oversub goals => goals.all (fun g => wfExpr D [] g.1)

/-- the decidable well-formedness judgement -/
def wfProblem (P : Problem) : Bool :=
  let D := declsOf P
  decide (allNames P).Nodup &&
  P.objects.all (fun o => D.types.contains o.2) &&
  P.fluents.all (wfFluentDecl D) &&
  P.init.all (fun kv => wfExpr D [] kv.1 && wfExpr D [] kv.2) &&
  P.actions.all (wfAction D) &&
  P.goals.all (wfExpr D []) &&
  P.traj.all (wfExpr D []) &&
  P.metrics.all (wfMetric D P.actions)

/-- which clause fails first (for the driver's answer; `none` = well-formed) -/
def wfVerdict (P : Problem) : Option String :=
  let D := declsOf P
  if !decide (allNames P).Nodup then some "names"
  else if !P.objects.all (fun o => D.types.contains o.2) then some "object-type"
  else if !P.fluents.all (wfFluentDecl D) then some "fluent-decl"
  else if !P.init.all (fun kv => wfExpr D [] kv.1 && wfExpr D [] kv.2) then some "init"
  else if !P.actions.all (wfAction D) then some "action"
  else if !P.goals.all (wfExpr D []) then some "goal"
  else if !P.traj.all (wfExpr D []) then some "traj"
  else if !P.metrics.all (wfMetric D P.actions) then some "metric"
  else none

/-- `WellFormed P`: the property's notion, as a proposition with named clauses
    (`wellFormed_iff : WellFormed P ↔ wfProblem P = true`, Lemmas/WellFormedBasic.lean) -/
structure WellFormed (P : Problem) : Prop where
  names : (allNames P).Nodup
  objects : ∀ o ∈ P.objects, o.2 ∈ (declsOf P).types
  fluents : ∀ d ∈ P.fluents, wfFluentDecl (declsOf P) d = true
  init : ∀ kv ∈ P.init, wfExpr (declsOf P) [] kv.1 = true ∧ wfExpr (declsOf P) [] kv.2 = true
  actions : ∀ a ∈ P.actions, wfAction (declsOf P) a = true
  goals : ∀ g ∈ P.goals, wfExpr (declsOf P) [] g = true
  traj : ∀ t ∈ P.traj, wfExpr (declsOf P) [] t = true
  metrics : ∀ m ∈ P.metrics, wfMetric (declsOf P) P.actions m = true

/-! ### the compiled problem's back map -/

/-- `map_back_action_instance` is total on the compiled actions and lands in the original problem: one entry per
    compiled action, each `none` (the compiled action has no counterpart) or a position of `P.actions` -/
def backOK (nOrig : Nat) (actions : List Action) (back : List (Option Nat)) : Bool :=
  back.length == actions.length &&
  back.all (fun b => match b with
    | none => true
    | some i => decide (i < nOrig))

/-! ### "inside the declared target" of each compiler -/

/-- the test that every node passes -/
def anyNode : NodePred := { leaf := fun _ => true, op := fun _ _ => true, quant := fun _ _ => true }

/-- `N` strengthened by "no quantifier node" -/
def NodePred.noQuant (N : NodePred) : NodePred := { N with quant := fun _ _ => false }

/-- no Exists / Forall node -/
def quantFree (e : Expr) : Bool := holds anyNode.noQuant e

def isDisjOp : Op → Bool
  | .or => true
  | .implies => true
  | _ => false

def disjNode : NodePred := { leaf := fun _ => true, op := fun o _ => !isDisjOp o, quant := fun _ _ => true }

/-- no OR / IMPLIES node (what `update_problem_kind_expression`, problem.py:1085, counts as DISJUNCTIVE_CONDITIONS) -/
def disjFree (e : Expr) : Bool := holds disjNode e

/-- ConditionalEffectsRemover: no conditional effect -/
def noCondEffects (P : Problem) : Bool := P.actions.all (fun a => a.effs.all (fun e => !e.isConditional))

/-- DisjunctiveConditionsRemover: no OR / IMPLIES in a precondition or goal -/
def noDisjunctions (P : Problem) : Bool :=
  P.actions.all (fun a => a.pre.all disjFree) && P.goals.all disjFree

/-- QuantifiersRemover: no quantifier in a precondition, effect condition, effect value, goal or trajectory
    constraint, and no forall effect -/
def noQuantifiers (P : Problem) : Bool :=
  P.actions.all (fun a => a.pre.all quantFree &&
    a.effs.all (fun e => e.forall_.isEmpty && quantFree e.cond && quantFree e.value)) &&
  P.goals.all quantFree && P.traj.all quantFree

/-- StateInvariantsRemover: `problem.state_invariants` (`Sim.stateInvariants`, problem.py:700) is empty -/
def noInvariants (P : Problem) : Bool := (Sim.stateInvariants P).isEmpty

def tyUnbounded : Ty → Bool
  | .int lb ub => lb.isNone && ub.isNone
  | .real lb ub => lb.isNone && ub.isNone
  | _ => true

def unboundedNode : NodePred :=
  { leaf := fun _ => true,
    op := fun o _ => match o with
      | .fluent f => tyUnbounded f.ty
      | _ => true,
    quant := fun _ _ => true }

/-- every FLUENT_EXP of the expression refers to a fluent of unbounded type -/
def fluentsUnbounded (e : Expr) : Bool := holds unboundedNode e

/-- BoundedTypesRemover: no fluent has a bounded int / real type -/
def noBoundedFluents (P : Problem) : Bool := P.fluents.all (fun d => tyUnbounded d.ref.ty)

end UPVerif.WF
