import UPVerif.Core.Sim
import UPVerif.Core.SimTyped
/-
`SequentialPlanValidator._validate` (unified_planning/engines/plan_validator.py:117-266) and the metric
helpers `evaluate_quality_metric` / `evaluate_quality_metric_in_final_state`
(unified_planning/engines/sequential_simulator.py:633-…), on top of the simulator model `Core/Sim.lean`.

The code is mirrored statement by statement:

* at most one quality metric (`UPProblemDefinitionError` otherwise), `simulator.get_initial_state()`
  (`UPProblemDefinitionError` when the initial state violates the invariants);
* the loop over the action instances: `get_unsatisfied_conditions(trace[-1], ai)` (no early
  termination, no full check) → `apply_unsafe(trace[-1], ai)` → for action costs / plan length the
  accumulation through `evaluate_quality_metric`; the four `except` clauses turn `UPUsageError`,
  `UPInvalidActionError`, `UPConflictingEffectsException`, `UPStateMissingFluentError` into
  `INVALID / INAPPLICABLE_ACTION` with the offending instance; every other exception escapes;
* `get_unsatisfied_goals(trace[-1])`, then the final-state metrics (final value, oversubscription);
  `UPStateMissingFluentError` there is `INVALID / UNSATISFIED_GOALS`.

The Python local `ai` (the loop variable, which the code as found read AFTER the loop to evaluate a
final-state metric) is modelled explicitly as `last : Option Inst`: the variant `asFound` reproduces
the `UnboundLocalError` of the unrepaired code on the empty plan (result `crash`), the variant
`repaired` is the code with notes/patches/C03-final-state-metric-empty-plan.patch, which evaluates
final-state metrics through `evaluate_quality_metric_in_final_state` and never touches `ai`.

Not modelled: the `ProblemKind` checks of `validate` / the simulator constructor (C09/C10/C33 own
kinds), log message texts, the `trace` and `calculated_interpreted_functions` fields of the result.
-/
namespace UPVerif.Validate
open UPVerif UPVerif.Sim

instance : DecidableEq Action := fun a b =>
  if h : a.name = b.name ∧ a.params = b.params ∧ a.pre = b.pre ∧ a.effs = b.effs then
    isTrue (by cases a; cases b; simp_all)
  else isFalse (by intro e; subst e; simp at h)

/-- an `ActionInstance`: the action and its actual parameters, each as the string that spells the constant
    (object name | `true`/`false` | integer | `n` or `n/d`; read by `Sim.argExpr` according to the type of
    the formal parameter) -/
abbrev Inst := Action × List String

/-- which branch of `_validate` produced the INVALID result (the class of the log message) -/
inductive Why where
  /-- "Preconditions … of i-th action instance … are not satisfied." -/
  | unsatPre
  /-- `except UPUsageError` (action not of this problem; action cost not set) -/
  | usage
  /-- `except UPInvalidActionError` (ungroundable instance; state invariants / bounds violated) -/
  | invalidAction
  /-- `except UPConflictingEffectsException` -/
  | conflict
  /-- `except UPStateMissingFluentError` inside the loop -/
  | missing
  /-- "Goals … are not satisfied by the plan." -/
  | goals
  /-- "Goals or quality metric involve fluents with undefined values in the final state." -/
  | finalMissing
  deriving DecidableEq, Repr

/-- `FailedValidationReason` -/
inductive FailReason where
  | inapplicableAction | unsatisfiedGoals
  deriving DecidableEq, Repr

def Why.reason : Why → FailReason
  | .goals => .unsatisfiedGoals
  | .finalMissing => .unsatisfiedGoals
  | _ => .inapplicableAction

/-- what `_validate` does when no exception of evaluation escapes -/
inductive VResult where
  /-- `ValidationResultStatus.VALID` with `metric_evaluations` (`none` = the problem has no metric) -/
  | valid (metric : Option Rat)
  /-- `ValidationResultStatus.INVALID`; `step` is the 1-based index of `inapplicable_action` in the
      plan, `0` when the result carries no action (goal failures) -/
  | invalid (why : Why) (step : Nat)
  /-- `UPProblemDefinitionError`: more than one metric, or the initial state violates the invariants -/
  | rejected
  /-- `UnboundLocalError` (local `ai` read before assignment) -/
  | crash
  deriving DecidableEq, Repr

inductive Variant where
  | asFound | repaired
  deriving DecidableEq, Repr

/-- plan_validator.py:132-139 : `.ok none` = no metric, `.error ()` = `UPProblemDefinitionError` -/
def theMetric (P : Problem) : Except Unit (Option Metric) :=
  match P.metrics with
  | [] => .ok none
  | [m] => .ok (some m)
  | _ => .error ()

/-- `metric.is_minimize_action_costs() or metric.is_minimize_sequential_plan_length()` -/
def perStep : Metric → Bool
  | .minActionCosts _ _ => true
  | .minLength => true
  | _ => false

/-- `MinimizeActionCosts.get_action_cost` (metrics.py:154): `self._costs.get(action, self._default)` -/
def actionCost (costs : List (String × Expr)) (dflt : Option Expr) (a : Action) : Option Expr :=
  match costs.lookup a.name with
  | some c => some c
  | none => dflt

/-- outcome of one evaluation that may end the validation -/
inductive Out (α : Type) where
  | go (x : α)
  | stop (w : Why)
  deriving Repr

/-- `evaluate_quality_metric` for `MinimizeActionCosts` (sequential_simulator.py:659-673): the cost
    expression of the action with the actual parameters substituted, evaluated in the state BEFORE the
    action, plus the value so far -/
def costStep (W : World) (costs : List (String × Expr)) (dflt : Option Expr) (s : SimState) (acc : Rat)
    (ai : Inst) : Except EvalErr (Out Rat) :=
  match actionCost costs dflt ai.1 with
  | none => .ok (.stop .usage)                                     -- "cost is not set"
  | some c =>
    if ai.1.params.length ≠ ai.2.length then .ok (.stop .usage)    -- "parameters length is different"
    else
      match eval (ctx W s) [] (substE (paramSubstT W.P ai.1 ai.2) c) with
      | .error .missing => .ok (.stop .missing)
      | .error x => .error x
      | .ok (.n q) => .ok (.go (q + acc))
      | .ok _ => .error .other

/-- the metric accumulation inside the loop (plan_validator.py:196-208) -/
def metricStep (W : World) (m : Option Metric) (s : SimState) (acc : Rat) (ai : Inst) :
    Except EvalErr (Out Rat) :=
  match m with
  | some (.minActionCosts costs dflt) => costStep W costs dflt s acc ai
  | some .minLength => .ok (.go (acc + 1))
  | _ => .ok (.go acc)

/-- the `except` clauses of the loop (plan_validator.py:210-217): which failures of the simulator
    become an INVALID result, which escape -/
def catchStep {α : Type} : Except Fail α → Except EvalErr (Out α)
  | .ok x => .ok (.go x)
  | .error .conflict => .ok (.stop .conflict)
  | .error .invalid => .ok (.stop .invalidAction)
  | .error (.eval .missing) => .ok (.stop .missing)
  | .error (.eval x) => .error x

/-- `get_unsatisfied_conditions(trace[-1], ai)` followed by `apply_unsafe(trace[-1], ai)`
    (plan_validator.py:181-195) -/
def simStep (W : World) (s : SimState) (ai : Inst) : Except EvalErr (Out SimState) :=
  -- `_ground_action`: `if action not in self._actions: raise UPUsageError`
  if ¬ ai.1 ∈ W.P.actions then .ok (.stop .usage)
  else
    match groundT W ai.1 ai.2 with
    | .error x => .error x
    | .ok none => .ok (.stop .invalidAction)
    | .ok (some g) =>
      -- every precondition is evaluated (`early_termination=False`)
      match unsatPre (ctx W s) false g.pre 0 with
      | .error .missing => .ok (.stop .missing)
      | .error x => .error x
      | .ok (_ :: _) => .ok (.stop .unsatPre)
      | .ok [] => catchStep (applyUnsafe W s g)

/-- one iteration of the loop: the new `trace[-1]` and `metric_value` -/
def step (W : World) (m : Option Metric) (s : SimState) (acc : Rat) (ai : Inst) :
    Except EvalErr (Out (SimState × Rat)) :=
  match simStep W s ai with
  | .error x => .error x
  | .ok (.stop w) => .ok (.stop w)
  | .ok (.go s') =>
    match metricStep W m s acc ai with
    | .error x => .error x
    | .ok (.stop w) => .ok (.stop w)
    | .ok (.go acc') => .ok (.go (s', acc'))

/-- result of the loop -/
inductive LoopOut where
  | done (s : SimState) (acc : Rat)
  | failed (w : Why) (i : Nat)
  deriving Repr

/-- `for i, ai in zip(range(1, len(plan.actions) + 1), plan.actions)` started at index `i` -/
def loop (W : World) (m : Option Metric) : SimState → Rat → Nat → List Inst → Except EvalErr LoopOut
  | s, acc, _, [] => .ok (.done s acc)
  | s, acc, i, ai :: π =>
    match step W m s acc ai with
    | .error x => .error x
    | .ok (.stop w) => .ok (.failed w i)
    | .ok (.go (s', acc')) => loop W m s' acc' (i + 1) π

/-- the oversubscription loop of `evaluate_quality_metric_in_final_state`: `total_gain` over the
    goals (dictionary order) that evaluate to TRUE -/
def oversubGain (c : EvalCtx) : List (Expr × Rat) → Rat → Except EvalErr Rat
  | [], tot => .ok tot
  | (g, w) :: gs, tot =>
    match evalBool c g with
    | .error x => .error x
    | .ok true => oversubGain c gs (tot + w)
    | .ok false => oversubGain c gs tot

/-- `evaluate_quality_metric_in_final_state` (final value / oversubscription) -/
def finalMetric (W : World) (m : Metric) (s : SimState) : Except EvalErr Rat :=
  match m with
  | .minFinal e | .maxFinal e =>
    (match eval (ctx W s) [] e with
      | .error x => .error x
      | .ok (.n q) => .ok q
      | .ok _ => .error .other)
  | .oversub goals => oversubGain (ctx W s) goals 0
  | _ => .error .other      -- NotImplementedError: not reached, `perStep` metrics never come here

/-- plan_validator.py:228-266: goal check, final-state metrics, the result.  `last` is the Python
    local `ai` after the loop (`none` = never bound). -/
def finish (v : Variant) (W : World) (m : Option Metric) (s : SimState) (acc : Rat) (last : Option Inst) :
    Except EvalErr VResult :=
  match unsatisfiedGoals W s false with
  | .error .missing => .ok (.invalid .finalMissing 0)
  | .error x => .error x
  | .ok (_ :: _) => .ok (.invalid .goals 0)
  | .ok [] =>
    match m with
    | none => .ok (.valid none)
    | some mt =>
      if perStep mt then .ok (.valid (some acc))
      else if v = Variant.asFound ∧ last = none then .ok .crash      -- `ai.action`: `ai` is unbound
      else
        match finalMetric W mt s with
        | .error .missing => .ok (.invalid .finalMissing 0)
        | .error x => .error x
        | .ok q => .ok (.valid (some q))

/-- `SequentialPlanValidator._validate`: `.error e` = an exception other than the caught ones escapes
    (`ZeroDivisionError`, malformed expression) -/
def validate (v : Variant) (W : World) (π : List Inst) : Except EvalErr VResult :=
  match theMetric W.P with
  | .error _ => .ok .rejected
  | .ok m =>
    match getInitialState W with
    | .error x => .error x
    | .ok none => .ok .rejected
    | .ok (some s0) =>
      match loop W m s0 0 1 π with
      | .error x => .error x
      | .ok (.failed w i) => .ok (.invalid w i)
      | .ok (.done s acc) => finish v W m s acc π.getLast?

/-- quality metrics that the problem syntax of `Core/Problem.lean` does not carry: `MinimizeMakespan`,
    `TemporalOversubscription`.  Both are inside `SequentialPlanValidator.supported_kind()`. -/
inductive TemporalMetric where
  | makespan | temporalOversub
  deriving DecidableEq, Repr

/-- `_validate` for a problem whose quality metrics are those of `W.P` plus, possibly, one temporal
    metric.  Repaired code (notes/patches/C03-temporal-metric-not-evaluated.patch,
    plan_validator.py:140-146): a temporal metric has no value on a sequential plan and is not
    evaluated (`metric = None`).  Code as found: after a successful goal check the temporal metric went
    to `evaluate_quality_metric`, which raised `NotImplementedError` (`.error .other`) — on the empty
    plan the unbound `ai` was read first. -/
def validateT (v : Variant) (W : World) (t : Option TemporalMetric) (π : List Inst) : Except EvalErr VResult :=
  match t with
  | none => validate v W π
  | some _ =>
    if W.P.metrics ≠ [] then .ok .rejected        -- more than one quality metric
    else
      match v with
      | .repaired => validate v W π
      | .asFound =>
        match validate v W π with
        | .ok (.valid _) => if π = [] then .ok .crash else .error .other
        | r => r

end UPVerif.Validate
