import UPVerif.Core.Sexp
import UPVerif.Core.Expr
import UPVerif.Core.Den
import UPVerif.Core.ExprSexp
import UPVerif.Core.Problem
/-
Timed-to-sequential compiler: plan back conversion
(`unified_planning/engines/compilers/timed_to_sequential.py`), and the temporal semantics that
judges its result (`unified_planning/engines/plan_validator.py`, `TimeTriggeredPlanValidator`).

Three layers, all executable and Mathlib-free:

1. `Ival`, `chooseDuration`     the duration picked for a durative action (REPAIRED code, see
                                 /verif/notes/patches/C28-left-open-duration.patch)
2. `DAct σ`, `collapse`, `backLoop`, `ttValid`
                                 semantic view over an abstract state type `σ`:
                                   * `collapse`  = the MEANING of the instantaneous action `_compile`
                                     builds for a durative action (tied to the real compiled action
                                     by the correspondence check on applicability + successor states);
                                   * `backLoop`  = the loop of `plan_back_conversion_callable`
                                     (state threading, duration choice, epsilon spacing);
                                   * `ttValid`   = small explicit temporal semantics, an abstraction
                                     of `TimeTriggeredPlanValidator._validate` for plans whose
                                     happenings are pairwise non-simultaneous.
3. `TProblem`, `ground`, wire format
                                 concrete instance: conditions/effects/duration bounds are
                                 expressions evaluated by the reference denotation `den`.
-/
namespace UPVerif.T2S

/-! ## 1. duration intervals and the duration choice -/

/-- a duration interval whose bounds have been evaluated in the state the action starts in
    (`DurationInterval`: `lower`, `upper`, `is_left_open()`, `is_right_open()`) -/
structure Ival where
  lo : Rat
  hi : Rat
  lopen : Bool
  ropen : Bool
  deriving Repr, Inhabited, DecidableEq

namespace Ival

/-- `d` is an admissible duration (the check of `TimeTriggeredPlanValidator._validate`,
    plan_validator.py:626-633: `GT`/`GE` on the lower bound, `LT`/`LE` on the upper one) -/
def memb (I : Ival) (d : Rat) : Bool :=
  (if I.lopen then decide (I.lo < d) else decide (I.lo ≤ d)) &&
  (if I.ropen then decide (d < I.hi) else decide (d ≤ I.hi))

/-- the interval contains a point (`DurativeAction.set_duration_constraint`, action.py:260-273,
    rejects exactly the constant intervals for which this is false) -/
def nonempty (I : Ival) : Bool :=
  decide (I.lo < I.hi) || (decide (I.lo = I.hi) && !I.lopen && !I.ropen)

/-- every admissible duration is strictly positive -/
def positive (I : Ival) : Bool :=
  decide (0 < I.lo) || (decide (I.lo = 0) && I.lopen)

end Ival

/-- `plan_back_conversion_callable`, durative branch of the loop (timed_to_sequential.py:131-143 of the
    repaired file; `duration_bound_value` :87-112 evaluates a bound in the current state):
    `dtime = value(lower)`; `if tinterval.is_left_open(): dtime = (dtime + value(upper)) / 2` -/
def chooseDuration (I : Ival) : Rat :=
  if I.lopen then (I.lo + I.hi) / 2 else I.lo

/-- timed_to_sequential.py:66-69: `min_time_step = problem.epsilon if problem.epsilon is not None else Fraction(1, 100)` -/
def minTimeStep (eps : Option Rat) : Rat :=
  match eps with
  | some e => e
  | none => (1 : Rat) / 100

/-! ## 2. semantic view -/

/-- A ground action of the ORIGINAL problem, seen through its meaning on states `σ`.
    For an `InstantaneousAction` (`durative = false`) only `cStart` (preconditions) and `eStart`
    (effects) are used.  Conditions are `false` when their evaluation is undefined (both the
    simulator and the validator treat `UPStateMissingFluentError` as "not satisfied"); effects are
    `none` when they cannot be applied. -/
structure DAct (σ : Type) where
  durative : Bool
  /-- duration bounds evaluated in a state; `none` = a bound has no numeric value there -/
  ival : σ → Option Ival
  /-- conjunction of the conditions over `[start, start]` -/
  cStart : σ → Bool
  /-- … over `[start, end]` and `[start, end)` -/
  cOverC : σ → Bool
  /-- … over `(start, end]` and `(start, end)` -/
  cOverO : σ → Bool
  /-- … over `[end, end]` -/
  cEnd : σ → Bool
  /-- effects at `StartTiming()` -/
  eStart : σ → Option σ
  /-- effects at `EndTiming()` -/
  eEnd : σ → Option σ

/-- Meaning of the instantaneous action built by `TimedToSequential._compile`
    (timed_to_sequential.py:412-490 of the repaired file) for a durative action:
    * a condition whose interval starts at `start` and is left-closed is a precondition as it is;
    * a condition whose interval ends at `end` is a precondition after substituting the start
      effects into it, i.e. evaluated in the state reached by the start effects;
    * the end effects are evaluated after (with the substitution of) the start effects, the start
      effects that no end effect overwrites are kept.
    `none` = not applicable.  An instantaneous action is carried over unchanged (:396-399). -/
def DAct.collapse {σ : Type} (a : DAct σ) (s : σ) : Option σ :=
  if a.durative then
    if a.cStart s && a.cOverC s then
      match a.eStart s with
      | none => none
      | some m => if a.cOverC m && a.cOverO m && a.cEnd m then a.eEnd m else none
    else none
  else
    if a.cStart s then a.eStart s else none

/-- run a plan of the compiled problem (`UPSequentialSimulator.apply` step by step) -/
def runC {σ : Type} : σ → List (DAct σ) → Option σ
  | s, [] => some s
  | s, a :: r =>
    match a.collapse s with
    | none => none
    | some s' => runC s' r

/-- the plan is valid for the compiled problem: every step applicable, goals hold at the end -/
def seqValid {σ : Type} (s0 : σ) (goal : σ → Bool) (acts : List (DAct σ)) : Bool :=
  match runC s0 acts with
  | none => false
  | some s => goal s

/-- one element of `TimeTriggeredPlan.timed_actions`: `(start, action instance, duration)` -/
structure Entry (σ : Type) where
  t : Rat
  act : DAct σ
  dur : Option Rat

/-- `Entry.dur` as a number (`x[2] if x[2] else 0`) -/
def Entry.len {σ : Type} (e : Entry σ) : Rat := e.dur.getD 0

/-- The loop of `plan_back_conversion_callable` (timed_to_sequential.py:114-155 of the repaired file), from state `s`
    (`state`) at time `now` (`time_now`):
    durative action: evaluate the bounds in the current state, choose the duration, emit
    `(time_now, a, dtime)`, advance by `dtime + min_time_step`; instantaneous action: emit
    `(time_now, a, None)`, advance by `min_time_step`; then `state = simulator.apply(state, ai)`.
    `none` = the Python code raises (a bound without value, or `assert state is not None`). -/
def backLoop {σ : Type} (eps : Rat) : σ → Rat → List (DAct σ) → Option (List (Entry σ))
  | _, _, [] => some []
  | s, now, a :: rest =>
    if a.durative then
      match a.ival s with
      | none => none
      | some I =>
        let d := chooseDuration I
        match a.collapse s with
        | none => none
        | some s' => (backLoop eps s' (now + d + eps) rest).map (fun r => ⟨now, a, some d⟩ :: r)
    else
      match a.collapse s with
      | none => none
      | some s' => (backLoop eps s' (now + eps) rest).map (fun r => ⟨now, a, none⟩ :: r)

/-! ### temporal semantics (abstraction of `TimeTriggeredPlanValidator._validate`) -/

/-- a happening: a set of effects scheduled at a time (`scheduled_effects` entries) -/
structure Ev (σ : Type) where
  time : Rat
  eff : σ → Option σ

/-- plan_validator.py:623-689: a durative action schedules its start effects at `start` and its
    end effects at `start + duration`; an instantaneous action its effects at `start` -/
def events {σ : Type} : List (Entry σ) → List (Ev σ)
  | [] => []
  | e :: r =>
    if e.act.durative then ⟨e.t, e.act.eStart⟩ :: ⟨e.t + e.len, e.act.eEnd⟩ :: events r
    else ⟨e.t, e.act.eStart⟩ :: events r

/-- stable insertion by time (the validator pops a heap ordered by `(time, insertion id)`) -/
def insertEv {σ : Type} (e : Ev σ) : List (Ev σ) → List (Ev σ)
  | [] => [e]
  | x :: r => if e.time ≤ x.time then e :: x :: r else x :: insertEv e r

def sortEvs {σ : Type} : List (Ev σ) → List (Ev σ)
  | [] => []
  | e :: r => insertEv e (sortEvs r)

/-- happening times strictly increasing: no two happenings are simultaneous -/
def incr {σ : Type} : List (Ev σ) → Bool
  | [] => true
  | [_] => true
  | a :: b :: r => decide (a.time < b.time) && incr (b :: r)

/-- the validator's `trace`: the state reached after each happening, keyed by its time -/
def exec {σ : Type} : σ → List (Ev σ) → Option (List (Rat × σ))
  | _, [] => some []
  | s, e :: r =>
    match e.eff s with
    | none => none
    | some s' => (exec s' r).map (fun tr => (e.time, s') :: tr)

/-- the state holding just before time `t`: that of the last happening strictly before `t`, the
    initial state if there is none (`before_time` of `_states_in_interval`; the trace is in
    increasing time order) -/
def stateBefore {σ : Type} : σ → List (Rat × σ) → Rat → σ
  | s0, [], _ => s0
  | s0, (τ, s) :: r, t => if τ < t then stateBefore s r t else s0

def lastState {σ : Type} : σ → List (Rat × σ) → σ
  | s0, [] => s0
  | _, (_, s) :: r => lastState s r

/-- conditions of one plan entry against the trace (plan_validator.py:623-699 and :754-765 with
    `_states_in_interval`):
    * the duration lies in the interval evaluated in the state just before `start`;
    * `[start,start]` conditions hold just before `start`, `[end,end]` ones just before `end`;
    * left-closed over-all conditions hold just before `start`; all over-all conditions hold in the
      state after every happening at a time in `[start, end)`. -/
def entryOK {σ : Type} (s0 : σ) (tr : List (Rat × σ)) (e : Entry σ) : Bool :=
  let sb := stateBefore s0 tr e.t
  if e.act.durative then
    match e.dur with
    | none => false
    | some d =>
      (match e.act.ival sb with
        | none => false
        | some I => I.memb d) &&
      e.act.cStart sb && e.act.cOverC sb &&
      tr.all (fun p => !(decide (e.t ≤ p.1) && decide (p.1 < e.t + d)) || (e.act.cOverC p.2 && e.act.cOverO p.2)) &&
      e.act.cEnd (stateBefore s0 tr (e.t + d))
  else
    e.act.cStart sb

/-- A time-triggered plan is accepted: its happenings, ordered by time, are pairwise
    non-simultaneous and their effects apply one after the other; every entry's duration and
    conditions hold against the resulting trace; the goals hold in the last state.
    (The real validator also accepts some plans with simultaneous happenings; this semantics is
    the stricter one, so satisfying it is the stronger claim.) -/
def ttValid {σ : Type} (s0 : σ) (goal : σ → Bool) (plan : List (Entry σ)) : Bool :=
  let evs := sortEvs (events plan)
  incr evs &&
  match exec s0 evs with
  | none => false
  | some tr => plan.all (entryOK s0 tr) && goal (lastState s0 tr)

/-- hypothesis of the validity theorem, decidable: along the compiled plan every durative action
    starts in a state where its duration interval has a value, is non-empty and admits only
    positive durations -/
def intervalsOK {σ : Type} : σ → List (DAct σ) → Bool
  | _, [] => true
  | s, a :: r =>
    (if a.durative then
      match a.ival s with
      | none => false
      | some I => I.nonempty && I.positive
     else true) &&
    match a.collapse s with
    | none => true
    | some s' => intervalsOK s' r

/-! ### predicates used to state the properties of the loop's result -/

/-- the entries are laid out one after the other from time `now`: each one starts exactly `eps`
    after the end of the previous one (`time_now = time_now + dtime + min_time_step`) -/
def Spaced {σ : Type} (eps : Rat) : Rat → List (Entry σ) → Prop
  | _, [] => True
  | now, e :: r => e.t = now ∧ Spaced eps (now + e.len + eps) r

/-- every durative entry carries the duration chosen from its action's interval evaluated in the
    state the action starts in (the state reached by the preceding steps of the compiled plan), and
    that duration is inside the interval whenever the interval is non-empty; instantaneous entries
    carry no duration -/
def DurInside {σ : Type} : σ → List (Entry σ) → Prop
  | _, [] => True
  | s, e :: r =>
    (e.act.durative = true →
      ∃ I d, e.act.ival s = some I ∧ e.dur = some d ∧ d = chooseDuration I ∧
        (I.nonempty = true → I.memb d = true)) ∧
    (e.act.durative = false → e.dur = none) ∧
    ∀ s', e.act.collapse s = some s' → DurInside s' r

/-! ## 3. concrete instance: expressions evaluated by `den` -/

/-- key of a ground fluent: name and argument values -/
abbrev GKey := String × List Val
/-- a state: total association list over the problem's ground fluents (order of `init`) -/
abbrev State := List (GKey × Val)

inductive CKind where
  | start | end_ | cc | co | oc | oo
  deriving DecidableEq, Repr, Inhabited

/-- syntax of an action of the original problem (`InstantaneousAction`: `durative = false`,
    preconditions as `start` conditions, effects as start effects) -/
structure ActSyn where
  name : String
  params : List (String × Ty)
  durative : Bool
  lo : Expr
  hi : Expr
  lopen : Bool
  ropen : Bool
  conds : List (CKind × Expr)
  /-- `(isEnd, effect)` -/
  effs : List (Bool × Effect)
  deriving Repr, Inhabited

structure TProblem where
  eps : Option Rat
  /-- (name, type) in declaration order -/
  objects : List (String × String)
  init : State
  actions : List ActSyn
  goals : List Expr
  deriving Inhabited

def interp (P : TProblem) (s : State) (bind : List (String × Val)) : Interp where
  fl := fun f args => s.lookup (f.name, args)
  fn := fun _ _ => none
  par := fun n => bind.lookup n
  dom := fun t => match t with
    | .user n => (P.objects.filter (fun o => o.2 == n)).map (fun o => Val.o o.1)
    | _ => []

def holds (ι : Interp) (c : Expr) : Bool := den ι [] c == some (.b true)

def setKey (k : GKey) (v : Val) : State → State
  | [] => []
  | (k', v') :: r => if k' == k then (k', v) :: r else (k', v') :: setKey k v r

/-- one unconditional, non-quantified effect; the value and the target's arguments are evaluated in
    the state `ι` the happening started from, increases/decreases accumulate in `acc`
    (`UPSequentialSimulator._apply_unsafe` / `TimeTriggeredPlanValidator._apply_effect`) -/
def applyEff (ι : Interp) (acc : State) (e : Effect) : Option State :=
  match e.fluent with
  | .app (.fluent f) args =>
    match denList ι [] args, den ι [] e.value with
    | some as, some v =>
      match acc.lookup (f.name, as), e.kind, v with
      | some _, .assign, v => some (setKey (f.name, as) v acc)
      | some (.n c), .increase, .n x => some (setKey (f.name, as) (.n (c + x)) acc)
      | some (.n c), .decrease, .n x => some (setKey (f.name, as) (.n (c - x)) acc)
      | _, _, _ => none
    | _, _ => none
  | _ => none

def applyEffs (ι : Interp) : State → List Effect → Option State
  | acc, [] => some acc
  | acc, e :: r =>
    match applyEff ι acc e with
    | none => none
    | some acc' => applyEffs ι acc' r

def condsOf (a : ActSyn) (ks : List CKind) : List Expr :=
  (a.conds.filter (fun c => ks.contains c.1)).map (·.2)

def effsOf (a : ActSyn) (isEnd : Bool) : List Effect :=
  (a.effs.filter (fun e => e.1 == isEnd)).map (·.2)

/-- the ground instance `a(args)` as a semantic action -/
def ground (P : TProblem) (a : ActSyn) (args : List Val) : DAct State :=
  let bind := (a.params.map (·.1)).zip args
  { durative := a.durative
    ival := fun s =>
      match den (interp P s bind) [] a.lo, den (interp P s bind) [] a.hi with
      | some (.n l), some (.n h) => some ⟨l, h, a.lopen, a.ropen⟩
      | _, _ => none
    cStart := fun s => (condsOf a [.start]).all (holds (interp P s bind))
    cOverC := fun s => (condsOf a [.cc, .co]).all (holds (interp P s bind))
    cOverO := fun s => (condsOf a [.oc, .oo]).all (holds (interp P s bind))
    cEnd := fun s => (condsOf a [.end_]).all (holds (interp P s bind))
    eStart := fun s => applyEffs (interp P s bind) s (effsOf a false)
    eEnd := fun s => applyEffs (interp P s bind) s (effsOf a true) }

/-- a step of a plan: action name and actual parameters -/
abbrev Step := String × List Val

def groundPlan (P : TProblem) : List Step → Option (List (DAct State))
  | [] => some []
  | (n, args) :: r =>
    match P.actions.find? (fun a => a.name == n), groundPlan P r with
    | some a, some gs => if a.params.length == args.length then some (ground P a args :: gs) else none
    | _, _ => none

def goalOf (P : TProblem) (s : State) : Bool := P.goals.all (holds (interp P s []))

/-- the longest applicable prefix of a compiled plan, with the states reached -/
def prefixRun {σ : Type} : σ → List (DAct σ) → List (DAct σ × σ)
  | _, [] => []
  | s, a :: r =>
    match a.collapse s with
    | none => []
    | some s' => (a, s') :: prefixRun s' r

/-- `plan_back_conversion_callable(sp, problem, …)` on the ground plan `acts` -/
def backPlan (P : TProblem) (acts : List (DAct State)) : Option (List (Entry State)) :=
  backLoop (minTimeStep P.eps) P.init 0 acts

/-! ### wire format (see harness/props/C28.py) -/
open Sexp

def parseCKind : String → Option CKind
  | "start" => some .start | "end" => some .end_ | "cc" => some .cc | "co" => some .co
  | "oc" => some .oc | "oo" => some .oo | _ => none

/-- only unconditional, non-quantified effects on a fluent application are in the fragment -/
def parsePlainEffect (e : Sexp) : Option Effect := do
  let x ← parseEffect e
  if x.cond.isTrue && x.forall_.isEmpty then
    match x.fluent with
    | .app (.fluent _) _ => some x
    | _ => none
  else none

def parseParams (ps : List Sexp) : Option (List (String × Ty)) :=
  ps.mapM (fun p => match p with
    | .list [.atom pn, t] => (parseTy t).map (fun ty => (pn, ty))
    | _ => none)

def parseAct : Sexp → Option ActSyn
  | .list [.atom "inst", .atom n, .list ps, .list (.atom "pre" :: pre), .list (.atom "effs" :: effs)] => do
    let params ← parseParams ps
    let pre' ← pre.mapM parseExpr
    let effs' ← effs.mapM parsePlainEffect
    some { name := n, params := params, durative := false, lo := Expr.int 0, hi := Expr.int 0,
           lopen := false, ropen := false, conds := pre'.map (fun c => (CKind.start, c)),
           effs := effs'.map (fun e => (false, e)) }
  | .list [.atom "dur", .atom n, .list ps, .list [.atom "ival", lo, hi, lop, rop],
           .list (.atom "conds" :: cs), .list (.atom "effs" :: effs)] => do
    let params ← parseParams ps
    let lo' ← parseExpr lo
    let hi' ← parseExpr hi
    let lop' ← lop.asBool?
    let rop' ← rop.asBool?
    let cs' ← cs.mapM (fun c => match c with
      | .list [.atom k, e] => do
        let kk ← parseCKind k
        let ee ← parseExpr e
        some (kk, ee)
      | _ => none)
    let effs' ← effs.mapM (fun e => match e with
      | .list [.atom "start", x] => (parsePlainEffect x).map (fun y => (false, y))
      | .list [.atom "end", x] => (parsePlainEffect x).map (fun y => (true, y))
      | _ => none)
    some { name := n, params := params, durative := true, lo := lo', hi := hi',
           lopen := lop', ropen := rop', conds := cs', effs := effs' }
  | _ => none

/-- constant expression → value -/
def constVal : Expr → Option Val
  | .leaf (.boolC b) => some (.b b)
  | .leaf (.intC z) => some (.n z)
  | .leaf (.realC r) => some (.n r)
  | .leaf (.obj n _) => some (.o n)
  | _ => none

def parseInit (e : Sexp) : Option (GKey × Val) :=
  match e with
  | .list [f, v] => do
    let fe ← parseExpr f
    let ve ← parseExpr v
    match fe with
    | .app (.fluent r) args => do
      let as ← args.mapM constVal
      let vv ← constVal ve
      some ((r.name, as), vv)
    | _ => none
  | _ => none

def parseStep : Sexp → Option Step
  | .list (.atom n :: vs) => (vs.mapM parseVal).map (fun xs => (n, xs))
  | _ => none

def parseCase : Sexp → Option (TProblem × List Step)
  | .list [.atom "t2s", .list [.atom "eps", eps], .list (.atom "objects" :: objs),
           .list (.atom "fluents" :: _), .list (.atom "init" :: inits),
           .list (.atom "actions" :: acts), .list (.atom "goals" :: goals),
           .list (.atom "plan" :: plan)] => do
    let eps' ← (match eps with
      | .atom "_" => some none
      | .atom q => (parseRat q).map some
      | _ => none)
    let objects ← objs.mapM (fun o => match o with
      | .list [.atom n, .atom t] => some (n, t)
      | _ => none)
    let init ← inits.mapM parseInit
    let actions ← acts.mapM parseAct
    let goals' ← goals.mapM parseExpr
    let steps ← plan.mapM parseStep
    some ({ eps := eps', objects := objects, init := init, actions := actions, goals := goals' }, steps)
  | _ => none

end UPVerif.T2S
