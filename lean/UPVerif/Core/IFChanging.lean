import UPVerif.Core.Problem
import UPVerif.Core.Walkers.FreeVars
/-
Executable model of `InterpretedFunctionsRemover._find_changing_fluents`
(unified_planning/engines/compilers/interpreted_functions_remover.py:693-720), Mathlib-free:
the set of fluents that get an `_is_unknown` tracking fluent in the relaxed problem, i.e. the fluents whose value
the relaxed problem may NOT trust.

```
found_fluents_set = set(); len_start = 0; len_end = 1
while len_end > len_start:
    len_start = len(found_fluents_set)
    for a in problem.actions:
        for _, ef in self._get_effects(a):
            f = ef.fluent.fluent(); v = ef.value
            if self.interpreted_functions_extractor.get(v): found_fluents_set.add(f)
            else:
                fs_e = set(free_vars_extractor.get(v)) | free_vars_extractor.get(ef.condition)
                for f_e in fs_e:
                    if f_e.fluent() in found_fluents_set: found_fluents_set.add(f)
    len_end = len(found_fluents_set)
return found_fluents_set
```

The Python set is a duplicate-free list in insertion order (only membership and `len` are observed; the driver
prints the names sorted).  Instantaneous actions only (`_get_effects` of an `InstantaneousAction` is `a.effects`).
-/
namespace UPVerif.IFChanging
open UPVerif

mutual
/-- `InterpretedFunctionsExtractor.get` (model/walkers/interpreted_functions_extractor.py:37-44): all
    INTERPRETED_FUNCTION_EXP subexpressions (quantifier bodies included, `walk_all_types`) -/
def ifunExps : Expr → List Expr
  | .leaf _ => []
  | .app op args =>
    ifunExpsList args ++ (match op with
      | .ifun _ => [Expr.app op args]
      | _ => [])
  | .quant _ _ b => ifunExps b
def ifunExpsList : List Expr → List Expr
  | [] => []
  | e :: es => ifunExps e ++ ifunExpsList es
end

/-- `if ifs:` (truthiness of the frozenset) -/
def hasIfun (e : Expr) : Bool := !(ifunExps e).isEmpty

/-- the `Fluent` of an operator node (`FNode.fluent()`) -/
def opFluent : Op → List FluentRef
  | .fluent f => [f]
  | _ => []

mutual
/-- `{f_e.fluent() for f_e in FreeVarsExtractor.get(e)}`: the fluents applied anywhere in the expression
    (`fluentsRead_eq_fluentExps` in Lemmas/IFChangingLemmas.lean relates it to the walker model `Expr.fluentExps`) -/
def fluentsRead : Expr → List FluentRef
  | .leaf _ => []
  | .app op args => fluentsReadList args ++ opFluent op
  | .quant _ _ b => fluentsRead b
def fluentsReadList : List Expr → List FluentRef
  | [] => []
  | e :: es => fluentsRead e ++ fluentsReadList es
end

/-- `ef.fluent.fluent()`; `none` is unreachable for a real `Effect` (its constructor asserts a fluent expression) -/
def target? (ef : Effect) : Option FluentRef :=
  match ef.fluent with
  | .app (.fluent f) _ => some f
  | _ => none

/-- `fs_e`: fluents read by the value and by the condition (line 714-715) -/
def reads (ef : Effect) : List FluentRef := fluentsRead ef.value ++ fluentsRead ef.cond

/-- `found_fluents_set.add(f)` -/
def add (f : FluentRef) (found : List FluentRef) : List FluentRef :=
  if found.contains f then found else found ++ [f]

/-- body of the inner loop for one effect (lines 708-718).  Adding `f` while iterating over `fs_e` only makes
    further tests about `f` itself succeed, which add `f` again: `any` is the same function. -/
def visit (found : List FluentRef) (ef : Effect) : List FluentRef :=
  match target? ef with
  | none => found
  | some f =>
    if hasIfun ef.value then add f found
    else if (reads ef).any (fun g => found.contains g) then add f found
    else found

/-- `for a in problem.actions: for _, ef in self._get_effects(a)`: the effects in visiting order -/
def effectsOf (P : Problem) : List Effect := P.actions.flatMap (·.effs)

/-- one execution of the two nested `for` loops (lines 705-718) -/
def sweep (effs : List Effect) (found : List FluentRef) : List FluentRef := effs.foldl visit found

/-- the `while len_end > len_start` loop (lines 703-719) with its two counters; `none` = the model's fuel ran out
    (never the case from `findChanging`: `Props/C31Closure.C31_changing_terminates`) -/
def loop (effs : List Effect) : Nat → List FluentRef → Nat → Nat → Option (List FluentRef)
  | 0, _, _, _ => none
  | fuel + 1, found, lenStart, lenEnd =>
    if lenEnd > lenStart then
      let lenStart' := found.length            -- len_start = len(found_fluents_set)
      let found' := sweep effs found
      let lenEnd' := found'.length             -- len_end = len(found_fluents_set)
      loop effs fuel found' lenStart' lenEnd'
    else some found

/-- `_find_changing_fluents(problem)`: starts with the empty set, `len_start = 0`, `len_end = 1`.  Every pass
    after the first one runs only if the previous one added a target of some effect, so `#effects + 2` rounds of
    the loop test suffice. -/
def findChangingEffs (effs : List Effect) : Option (List FluentRef) := loop effs (effs.length + 2) [] 0 1

def findChanging (P : Problem) : Option (List FluentRef) := findChangingEffs (effectsOf P)

end UPVerif.IFChanging
