import UPVerif.Core.Kind
/-
Model of the engine selection of `unified_planning/engines/factory.py` (class `Factory`):
`_engine_satisfies_conditions` (factory.py:463), `_get_engine_class` (factory.py:534),
`get_all_applicable_engines` (factory.py:1163) and the compilers-pipeline branch of `_get_engine`
(factory.py:687).

An engine CLASS is a record of the static predicates the factory calls on it
(`is_<mode>()`, `supports`, `satisfies`, `ensures`, `supports_plan`, `supports_compilation`,
`resulting_problem_kind`); the theorems quantify over arbitrary such records.  Enum values
(`OptimalityGuarantee`, `AnytimeGuarantee`, `PlanKind`, `CompilationKind`) are their names as
strings: the factory only ever hands them to the engine's predicates.

Python exceptions are outcomes: `UPNoSuitableEngineAvailableException` = `noSuitable`,
`UPNoRequestedEngineAvailableException` = `noRequested`, a failed `assert` = `assertion`,
`KeyError` (`self._engines[name]` for a preference-list entry that is not registered) = `keyError`.

Reading decision (see harness/props/C32.py ASSUMPTIONS): `is_<mode>()` is true exactly for the
classes deriving from the corresponding mixin (this is what `EngineMeta` arranges), so the
`assert issubclass(EngineClass, <Mixin>)` lines that FOLLOW a successful `is_<mode>()` test hold
and are not modelled.  The model mirrors the code after the repair
notes/patches/C32-no-suitable-engine-report.patch (the error-report row no longer asserts that
every engine asked for an optimality guarantee derives from `OneshotPlannerMixin`).
-/
namespace UPVerif.Factory
open UPVerif.Kind

/-- `OperationMode` (engines/engine.py:31) -/
inductive Mode where
  | oneshotPlanner | anytimePlanner | planValidator | portfolioSelector | compiler
  | sequentialSimulator | replanner | planRepairer | actionSelector
  deriving DecidableEq, Repr

/-- the static interface of an engine class, as far as the factory looks at it -/
structure Engine where
  /-- `getattr(EngineClass, "is_" + mode.value)()` -/
  isMode : Mode → Bool
  /-- `EngineClass.supports(problem_kind)` -/
  supports : Kind → Bool
  /-- `EngineClass.satisfies(optimality_guarantee)` -/
  satisfies : String → Bool
  /-- `EngineClass.ensures(anytime_guarantee)` -/
  ensures : String → Bool
  /-- `EngineClass.supports_plan(plan_kind)` -/
  supportsPlan : String → Bool
  /-- `EngineClass.supports_compilation(compilation_kind)` -/
  supportsCompilation : String → Bool
  /-- `EngineClass.resulting_problem_kind(problem_kind, compilation_kind)` -/
  resultingKind : Kind → String → Kind

/-- the arguments of `_get_engine_class` / `_engine_satisfies_conditions` other than `name` -/
structure Req where
  mode : Mode
  kind : Kind
  opt : Option String := none
  comp : Option String := none
  plan : Option String := none
  any : Option String := none

/-- `Factory._engines` (a dict: first match of an association list) and `Factory._preference_list` -/
structure Factory where
  engines : List (String × Engine)
  pref : List String

def Factory.lookup (F : Factory) (n : String) : Option Engine := F.engines.lookup n

inductive Outcome where
  | selected (name : String)
  | noSuitable
  | noRequested
  | assertion
  | keyError
  deriving DecidableEq, Repr

/-- `req is not None and not EngineClass.pred(req)` -/
def unmet (o : Option String) (p : String → Bool) : Bool :=
  match o with
  | some x => !p x
  | none => false

/-- `_engine_satisfies_conditions` (factory.py:463-532); `none` = a failed `assert` on the
    combination of operation mode and requirements -/
def engineSatisfies (e : Engine) (r : Req) : Option Bool :=
  if !e.isMode r.mode then some false
  else
    match r.mode with
    | .oneshotPlanner | .replanner | .portfolioSelector =>
      if r.any.isSome || r.comp.isSome || r.plan.isSome then none
      else if unmet r.opt e.satisfies then some false
      else some (e.supports r.kind)
    | .planValidator =>
      if r.opt.isSome || r.any.isSome || r.comp.isSome then none
      else if unmet r.plan e.supportsPlan then some false
      else some (e.supports r.kind)
    | .compiler =>
      if r.opt.isSome || r.any.isSome || r.plan.isSome then none
      else if unmet r.comp e.supportsCompilation then some false
      else some (e.supports r.kind)
    | .anytimePlanner =>
      if r.opt.isSome || r.comp.isSome || r.plan.isSome then none
      else if unmet r.any e.ensures then some false
      else some (e.supports r.kind)
    | .planRepairer =>
      if r.any.isSome || r.comp.isSome then none
      else if unmet r.plan e.supportsPlan then some false
      else if unmet r.opt e.satisfies then some false
      else some (e.supports r.kind)
    | .sequentialSimulator | .actionSelector =>
      if r.opt.isSome || r.any.isSome || r.comp.isSome || r.plan.isSome then none
      else some (e.supports r.kind)

/-- the loop of `_get_engine_class` over the preference list (factory.py:554-583).  In the
    `elif` branch the (repaired) code only formats a row of the error report, which cannot fail. -/
def selectLoop (F : Factory) (r : Req) : List String → Outcome
  | [] => .noSuitable
  | n :: rest =>
    match F.lookup n with
    | none => .keyError
    | some e =>
      match engineSatisfies e r with
      | none => .assertion
      | some true => .selected n
      | some false => selectLoop F r rest

/-- `_get_engine_class(operation_mode, name, problem_kind, …)` (factory.py:534-607) -/
def getEngineClass (F : Factory) (name : Option String) (r : Req) : Outcome :=
  match name with
  | some n => if (F.lookup n).isSome then .selected n else .noRequested
  | none =>
    if r.opt.isSome && r.comp.isSome then .assertion
    else selectLoop F r F.pref

/-- the loop of `get_all_applicable_engines` (factory.py:1219-1232) -/
def applicableLoop (F : Factory) (r : Req) : List String → Except Outcome (List String)
  | [] => .ok []
  | n :: rest =>
    match F.lookup n with
    | none => .error .keyError
    | some e =>
      match engineSatisfies e r with
      | none => .error .assertion
      | some b =>
        match applicableLoop F r rest with
        | .ok ns => .ok (if b then n :: ns else ns)
        | .error o => .error o

def allApplicable (F : Factory) (r : Req) : Except Outcome (List String) := applicableLoop F r F.pref

/-- the request the pipeline branch makes for one stage:
    `_get_engine_class(operation_mode, name, problem_kind, compilation_kind=compilation_kind)` -/
def stageReq (k : Kind) (ck : String) : Req := { mode := .compiler, kind := k, comp := some ck }

/-- the compilers-pipeline branch of `_get_engine` with `names=None` (factory.py:687-713):
    one class selection per requested compilation kind, each on the kind declared by the
    previously selected compiler's `resulting_problem_kind`.  Result: registry names in order. -/
def pipeline (F : Factory) : Kind → List String → Except Outcome (List String)
  | _, [] => .ok []
  | k, ck :: cks =>
    match getEngineClass F none (stageReq k ck) with
    | .selected n =>
      match F.lookup n with
      | some e =>
        match pipeline F (e.resultingKind k ck) cks with
        | .ok ns => .ok (n :: ns)
        | .error o => .error o
      | none => .error .keyError   -- unreachable (Lemmas: `selectLoop_selected_lookup`)
    | o => .error o

/-! ### specification-side predicates (used by the theorems and by the driver's statistics) -/

/-- the combinations of operation mode and requirements that the public entry points
    (`OneshotPlanner`, `AnytimePlanner`, `PlanValidator`, `Compiler`, `SequentialSimulator`,
    `Replanner`, `PlanRepairer`, `ActionSelector`, `PortfolioSelector`) can produce, i.e. the
    table in the docstring of `get_all_applicable_engines` -/
def Req.wellShaped (r : Req) : Bool :=
  match r.mode with
  | .oneshotPlanner | .replanner | .portfolioSelector => r.any.isNone && r.comp.isNone && r.plan.isNone
  | .planValidator => r.opt.isNone && r.any.isNone && r.comp.isNone
  | .compiler => r.opt.isNone && r.any.isNone && r.plan.isNone
  | .anytimePlanner => r.opt.isNone && r.comp.isNone && r.plan.isNone
  | .planRepairer => r.any.isNone && r.comp.isNone
  | .sequentialSimulator | .actionSelector => r.opt.isNone && r.any.isNone && r.comp.isNone && r.plan.isNone

/-- "supports the operation mode, the problem kind and every requested requirement" as a Boolean -/
def qualifiesB (e : Engine) (r : Req) : Bool :=
  e.isMode r.mode && e.supports r.kind && !unmet r.opt e.satisfies && !unmet r.comp e.supportsCompilation
    && !unmet r.plan e.supportsPlan && !unmet r.any e.ensures

/-- the same as a proposition, written out: the engine implements the operation mode, supports
    the problem kind, and meets EVERY requirement that was requested (whatever the mode) -/
def Qualifies (e : Engine) (r : Req) : Prop :=
  e.isMode r.mode = true ∧ e.supports r.kind = true ∧
  (∀ g, r.opt = some g → e.satisfies g = true) ∧
  (∀ c, r.comp = some c → e.supportsCompilation c = true) ∧
  (∀ p, r.plan = some p → e.supportsPlan p = true) ∧
  (∀ a, r.any = some a → e.ensures a = true)

/-- every name of the preference list is registered (`configure_from_file` filters the list this
    way; the `preference_list` setter is documented to take a subset of the engines) -/
def Factory.prefRegistered (F : Factory) : Prop := ∀ n ∈ F.pref, ∃ e, F.lookup n = some e

/-- `ns` is a chain of compilers for the kinds `cks` starting from problem kind `k`: the i-th one
    is registered, is a compiler, supports the i-th compilation kind and supports the problem kind
    produced (as declared by `resulting_problem_kind`) by the compilers before it -/
def ChainOK (F : Factory) : Kind → List String → List String → Prop
  | _, [], [] => True
  | k, ck :: cks, n :: ns =>
    ∃ e, F.lookup n = some e ∧ Qualifies e (stageReq k ck) ∧ ChainOK F (e.resultingKind k ck) cks ns
  | _, _, _ => False

/-! ### concrete engine records, as built by the driver from a case -/

/-- a declared `resulting_problem_kind` of the shape `clone(); unset_*(rem…); set_*(add…)` -/
def rulesTransform (rem add : List Feature) (k : Kind) : Kind :=
  { feats := setUnion (setDiff k.feats rem) add, version := k.version }

/-- an engine class whose `supports` is `problem_kind <= supported_kind()` (all engines shipped
    with the library except the meta-engines) and whose other predicates are membership tests -/
def mkEngine (T : Tables) (modes : List Mode) (supported : Kind) (opts anys plans comps : List String)
    (tr : Kind → String → Kind) : Engine where
  isMode m := modes.contains m
  supports k := k.le T supported
  satisfies g := opts.contains g
  ensures a := anys.contains a
  supportsPlan p := plans.contains p
  supportsCompilation c := comps.contains c
  resultingKind := tr

end UPVerif.Factory
