/-
Executable model of the expression manager of unified-planning
(`unified_planning/model/expression.py`, `unified_planning/model/fnode.py`).

Python object identity of `FNode`s is modelled by the allocation index (`Ref`) in `Mgr.heap`, the
list of every `FNode` object ever allocated by `ExpressionManager.create_node` (the only place
that instantiates `FNode`).  `node_id` is a separate field, assigned from `_next_free_id` exactly
as the code does, so that "distinct nodes have distinct ids" is a theorem and not a definition.
`FNodeContent` equality (the key of the memo dict `ExpressionManager.expressions`) compares
`node_type` by enum identity, `args` element-wise by `FNode.__eq__` (default = identity, here `Ref`
equality) and `payload` by Python `==` (structural for bool/int/Fraction and for
Fluent/Parameter/Variable/Object, which compare name, type and signature; here: the key string
supplied with the case).

The type-checker call at the end of `create_node` (expression.py:217) is NOT modelled: only
well-typed constructions are in scope of C16 (ill-typed ones are C14/C15, finding D-C14b).
Mathlib-free, total.
-/
namespace UPVerif.HashCons

/-- identity of an `FNode` object: its position in allocation order -/
abbrev Ref := Nat

/-- `OperatorKind` (operators.py), the part reachable through the modelled constructors -/
inductive Op
  | boolC | intC | realC | fluent | param | var | obj
  | and | or | not | implies | iff | exists | forall
  | always | sometime | sometimeBefore | sometimeAfter | atMostOnce
  | plus | minus | times | div | le | lt | equals
  deriving DecidableEq, Repr, Inhabited

/-- the `payload` field of `FNodeContent` -/
inductive Payload
  | none
  | bool (b : Bool)
  | int (z : Int)
  | real (q : Rat)
  | sym (key : String)            -- Fluent / Parameter / Variable / Object (structural `==`)
  | vars (keys : List String)     -- tuple of Variables of Exists / Forall
  deriving DecidableEq, Repr, Inhabited

/-- `FNodeContent = namedtuple("FNodeContent", ["node_type", "args", "payload"])` (fnode.py:27) -/
structure Content where
  op : Op
  args : List Ref
  payload : Payload
  deriving DecidableEq, Repr, Inhabited

/-- `FNode.__slots__ = ["_content", "_node_id", "_env"]` (fnode.py:41); one environment throughout -/
structure FNode where
  content : Content
  nodeId : Nat
  deriving DecidableEq, Repr, Inhabited

/-- `ExpressionManager` (expression.py:76) plus the heap of allocated `FNode` objects -/
structure Mgr where
  heap : List FNode                       -- every FNode object allocated so far; `Ref` = position
  expressions : List (Content × Ref)      -- `self.expressions` (dict, insertion order)
  nextFreeId : Nat                        -- `self._next_free_id`
  trueExpr : Ref                          -- `self.true_expression`
  falseExpr : Ref                         -- `self.false_expression`
  deriving Repr, Inhabited

/-- library errors the modelled constructors can raise -/
inductive Err
  | arity      -- UPExpressionDefinitionError: FluentExp with the wrong number of parameters
  | usage      -- UPExpressionDefinitionError: Exists/Forall without variables
  | value      -- UPValueError: string that is not a number
  | zeroDiv    -- ZeroDivisionError out of `Fraction("n/0")`
  | type       -- UPTypeError: `Int` called with a Python bool
  deriving DecidableEq, Repr, Inhabited

inductive Res
  | ok (r : Ref)
  | err (e : Err)
  deriving DecidableEq, Repr, Inhabited

/-! ## create_node -/

/-- `ExpressionManager.create_node` (expression.py:175-218): look the content up in the memo dict;
    if absent allocate a node with id `_next_free_id`, bump the counter, register the node. -/
def createNode (m : Mgr) (op : Op) (args : List Ref) (payload : Payload := .none) : Mgr × Ref :=
  let content : Content := ⟨op, args, payload⟩
  match m.expressions.lookup content with
  | some r => (m, r)
  | none =>
    let r := m.heap.length
    ({ m with heap := m.heap ++ [⟨content, m.nextFreeId⟩],
              nextFreeId := m.nextFreeId + 1,
              expressions := m.expressions ++ [(content, r)] }, r)

/-- `ExpressionManager.__init__` (expression.py:79-92) -/
def Mgr.new : Mgr :=
  let m0 : Mgr := { heap := [], expressions := [], nextFreeId := 1, trueExpr := 0, falseExpr := 0 }
  let p1 := createNode m0 .boolC [] (.bool true)
  let m1 : Mgr := { p1.1 with trueExpr := p1.2 }
  let p2 := createNode m1 .boolC [] (.bool false)
  { p2.1 with falseExpr := p2.2 }

/-! ## numeric literals -/

/-- a Python numeric literal (`NumericConstant = Union[int, float, Fraction, str]`) -/
inductive Lit
  | int (z : Int)                -- `int`
  | frac (n : Int) (d : Nat)     -- `fractions.Fraction(n, d)`, d > 0
  | float (n : Int) (d : Nat)    -- finite `float`, given by `float.as_integer_ratio()`, d > 0
  | str (s : String)
  deriving DecidableEq, Repr, Inhabited

/-- `Union[Fraction, int]` -/
inductive Num
  | i (z : Int)
  | q (r : Rat)
  deriving DecidableEq, Repr, Inhabited

def digitVal? (c : Char) : Option Nat :=
  if '0' ≤ c ∧ c ≤ '9' then some (c.toNat - '0'.toNat) else none

/-- value of a non-empty string of ASCII digits -/
def digitsVal? (cs : List Char) : Option Nat :=
  match cs with
  | [] => none
  | _ => cs.foldl (fun acc c => match acc, digitVal? c with
                                | some a, some d => some (10 * a + d)
                                | _, _ => none) (some 0)

/-- split an optional sign off -/
def splitSign (cs : List Char) : Bool × List Char :=
  match cs with
  | '-' :: r => (true, r)
  | '+' :: r => (false, r)
  | _ => (false, cs)

/-- `int(s)` for the modelled string grammar `[+-]?[0-9]+` (None = ValueError) -/
def parseIntStr (s : String) : Option Int :=
  let (neg, r) := splitSign s.toList
  match digitsVal? r with
  | some n => some (if neg then -(n : Int) else (n : Int))
  | none => none

/-- `Fraction(s)` for the modelled grammar `[+-]?[0-9]+(/[0-9]+|.[0-9]+)?`
    (`none` = ValueError, `some (error zeroDiv)` = ZeroDivisionError) -/
def parseFracStr (s : String) : Option (Except Err Rat) :=
  let (neg, r) := splitSign s.toList
  let sgn : Int → Int := fun z => if neg then -z else z
  match r.span (fun c => c != '/' && c != '.') with
  | (a, []) => (digitsVal? a).map (fun n => .ok ((sgn n : Int) : Rat))
  | (a, sep :: b) =>
    match digitsVal? a, digitsVal? b with
    | some x, some y =>
      if sep == '/' then
        if y = 0 then some (.error .zeroDiv) else some (.ok (mkRat (sgn x) y))
      else
        some (.ok (mkRat (sgn (x * 10 ^ b.length + y)) (10 ^ b.length)))
    | _, _ => none

/-- `Fraction -> int` collapse at the end of `uniform_numeric_constant` (expression.py:71-73) -/
def collapse (r : Rat) : Num := if r.den = 1 then .i r.num else .q r

/-- `uniform_numeric_constant` (expression.py:59-73) -/
def uniformNumericConstant : Lit → Except Err Num
  | .int z => .ok (.i z)                       -- not float/Fraction: `int(value)`
  | .frac n d => .ok (collapse (mkRat n d))    -- `Fraction(value)`
  | .float n d => .ok (collapse (mkRat n d))
  | .str s =>
    match parseIntStr s with                   -- `int(value)`
    | some z => .ok (.i z)
    | none =>                                  -- `except ValueError: pass`, then `Fraction(value)`
      match parseFracStr s with
      | none => .error .value
      | some (.error e) => .error e
      | some (.ok r) => .ok (collapse r)

/-! ## leaf constructors -/

/-- `Bool` / `TRUE` / `FALSE` (expression.py:599-620) -/
def mkBool (m : Mgr) (b : Bool) : Ref := if b then m.trueExpr else m.falseExpr

/-- `Int` (expression.py:622) -/
def mkInt (m : Mgr) (z : Int) : Mgr × Ref := createNode m .intC [] (.int z)

/-- `Real` (expression.py:635): NO collapse of integral fractions here -/
def mkReal (m : Mgr) (q : Rat) : Mgr × Ref := createNode m .realC [] (.real q)

def mkParameterExp (m : Mgr) (key : String) : Mgr × Ref := createNode m .param [] (.sym key)
def mkVariableExp (m : Mgr) (key : String) : Mgr × Ref := createNode m .var [] (.sym key)
def mkObjectExp (m : Mgr) (key : String) : Mgr × Ref := createNode m .obj [] (.sym key)

/-! ## auto_promote -/

/-- an `Expression` as accepted by the constructors, after step indices have been resolved -/
inductive Arg
  | node (r : Ref)                          -- an FNode
  | bool (b : Bool)
  | num (l : Lit)
  | fluent (key : String) (arity : Nat)     -- a Fluent object
  | param (key : String)
  | var (key : String)
  | obj (key : String)
  deriving DecidableEq, Repr, Inhabited

/-- one iteration of the loop of `auto_promote` (expression.py:122-172).  The state is returned also
    when the promotion raises.  `FluentExp(e)` with no parameters is inlined (arity check, then
    `create_node`). -/
def promote (m : Mgr) : Arg → Mgr × Except Err Ref
  | .fluent key arity =>
    if arity ≠ 0 then (m, .error .arity)
    else let p := createNode m .fluent [] (.sym key); (p.1, .ok p.2)
  | .param key => let p := mkParameterExp m key; (p.1, .ok p.2)
  | .var key => let p := mkVariableExp m key; (p.1, .ok p.2)
  | .obj key => let p := mkObjectExp m key; (p.1, .ok p.2)
  | .bool b => (m, .ok (mkBool m b))
  | .num l =>
    match uniformNumericConstant l with
    | .error e => (m, .error e)
    | .ok (.i z) => let p := mkInt m z; (p.1, .ok p.2)
    | .ok (.q r) => let p := mkReal m r; (p.1, .ok p.2)
  | .node r => (m, .ok r)

/-- `auto_promote` on the already flattened argument list, left to right -/
def autoPromote (m : Mgr) : List Arg → Mgr × Except Err (List Ref)
  | [] => (m, .ok [])
  | a :: as =>
    match promote m a with
    | (m1, .error e) => (m1, .error e)
    | (m1, .ok r) =>
      match autoPromote m1 as with
      | (m2, .error e) => (m2, .error e)
      | (m2, .ok rs) => (m2, .ok (r :: rs))

/-- a positional argument: a single expression or an iterable of expressions -/
inductive PArg (α : Type)
  | one (a : α)
  | many (as : List α)
  deriving Repr, Inhabited

/-- `_polymorph_args_to_iterator` (expression.py:94-109): flattens one level -/
def polymorph {α : Type} : List (PArg α) → List α
  | [] => []
  | .one a :: r => a :: polymorph r
  | .many as :: r => as ++ polymorph r

/-! ## constructors -/

/-- shape shared by the constructors that promote their arguments and then create ONE node whose
    content `post` computes from the promoted arguments.  `post = none` stands for a Python-level
    misuse outside the model (tuple unpacking of the wrong length). -/
def mkVia (m : Mgr) (args : List Arg) (post : List Ref → Option (Except Err Content)) :
    Option (Mgr × Res) :=
  match autoPromote m args with
  | (m1, .error e) => some (m1, .err e)
  | (m1, .ok rs) =>
    match post rs with
    | none => none
    | some (.error e) => some (m1, .err e)
    | some (.ok c) => let p := createNode m1 c.op c.args c.payload; some (p.1, .ok p.2)

/-- `And`/`Or`/`Plus`/`Times` on promoted arguments: 0 arguments -> the unit, 1 -> the argument -/
def naryRefs (m : Mgr) (op : Op) (unit : Mgr → Mgr × Ref) (rs : List Ref) : Mgr × Ref :=
  match rs with
  | [] => unit m
  | [a] => (m, a)
  | _ => createNode m op rs

def mkNary (m : Mgr) (op : Op) (unit : Mgr → Mgr × Ref) (args : List Arg) : Mgr × Res :=
  match autoPromote m args with
  | (m1, .error e) => (m1, .err e)
  | (m1, .ok rs) => let p := naryRefs m1 op unit rs; (p.1, .ok p.2)

def unitTrue (m : Mgr) : Mgr × Ref := (m, m.trueExpr)
def unitFalse (m : Mgr) : Mgr × Ref := (m, m.falseExpr)

/-- `And` (expression.py:220) -/
def mkAnd (m : Mgr) (args : List Arg) : Mgr × Res := mkNary m .and unitTrue args
/-- `Or` (expression.py:245) -/
def mkOr (m : Mgr) (args : List Arg) : Mgr × Res := mkNary m .or unitFalse args
/-- `Plus` (expression.py:648) -/
def mkPlus (m : Mgr) (args : List Arg) : Mgr × Res := mkNary m .plus (fun m => mkInt m 0) args
/-- `Times` (expression.py:679) -/
def mkTimes (m : Mgr) (args : List Arg) : Mgr × Res := mkNary m .times (fun m => mkInt m 1) args

/-- `Not` on a promoted argument (expression.py:311-313): `expression.is_not()` reads the node -/
def notRef (m : Mgr) (e : Ref) : Option (Mgr × Ref) :=
  match m.heap[e]? with
  | none => none
  | some n =>
    if n.content.op = .not then
      match n.content.args with
      | x :: _ => some (m, x)            -- `expression.arg(0)`
      | [] => none
    else some (createNode m .not [e])

/-- `Not` (expression.py:300) -/
def mkNot (m : Mgr) (args : List Arg) : Option (Mgr × Res) :=
  match autoPromote m args with
  | (m1, .error e) => some (m1, .err e)
  | (m1, .ok [e]) => (notRef m1 e).map (fun p => (p.1, .ok p.2))
  | (_, .ok _) => none

/-- `[self.Not(o) for o in tuple_args if o is not a]` -/
def xorNots (m : Mgr) (a : Ref) : List Ref → Option (Mgr × List Ref)
  | [] => some (m, [])
  | o :: os =>
    if o = a then xorNots m a os
    else
      match notRef m o with
      | none => none
      | some (m1, n) =>
        match xorNots m1 a os with
        | none => none
        | some (m2, ns) => some (m2, n :: ns)

/-- the loop of `XOr` (expression.py:293-297); `all` is `tuple_args` -/
def xorTerms (m : Mgr) (all : List Ref) : List Ref → Option (Mgr × List Ref)
  | [] => some (m, [])
  | a :: as =>
    match xorNots m a all with
    | none => none
    | some (m1, ns) =>
      let p := naryRefs m1 .and unitTrue (a :: ns)
      match xorTerms p.1 all as with
      | none => none
      | some (m3, ts) => some (m3, p.2 :: ts)

/-- `XOr` (expression.py:270) -/
def mkXOr (m : Mgr) (args : List Arg) : Option (Mgr × Res) :=
  match autoPromote m args with
  | (m1, .error e) => some (m1, .err e)
  | (m1, .ok []) => some (m1, .ok m1.falseExpr)
  | (m1, .ok [a]) => some (m1, .ok a)
  | (m1, .ok rs) =>
    match xorTerms m1 rs rs with
    | none => none
    | some (m2, ts) => let p := naryRefs m2 .or unitFalse ts; some (p.1, .ok p.2)

def post2 (op : Op) : List Ref → Option (Except Err Content)
  | [l, r] => some (.ok ⟨op, [l, r], .none⟩)
  | _ => none

/-- mirrored comparison: `create_node(node_type=LE, args=(right, left))` -/
def post2swap (op : Op) : List Ref → Option (Except Err Content)
  | [l, r] => some (.ok ⟨op, [r, l], .none⟩)
  | _ => none

def postAll (op : Op) (payload : Payload) : List Ref → Option (Except Err Content) :=
  fun rs => some (.ok ⟨op, rs, payload⟩)

/-- `Exists`/`Forall` (expression.py:348-399): promotion first, then the check on `vars` -/
def postQuant (op : Op) (vars : List String) : List Ref → Option (Except Err Content) :=
  fun rs => if vars.isEmpty then some (.error .usage) else some (.ok ⟨op, rs, .vars vars⟩)

/-- `FluentExp` (expression.py:467-488): promotion first, then the arity check -/
def postFluent (key : String) (arity : Nat) : List Ref → Option (Except Err Content) :=
  fun rs => if arity ≠ rs.length then some (.error .arity) else some (.ok ⟨.fluent, rs, .sym key⟩)

/-- the constructors of `ExpressionManager` that are modelled -/
inductive Ctor
  | true_ | false_ | bool (b : Bool) | int (z : Int) | real (n : Int) (d : Nat)
  | intOfBool (b : Bool)       -- `Int(True)` / `Int(False)`: a bool is an `int` for `isinstance`
  | fluentExp (key : String) (arity : Nat)
  | parameterExp (key : String) | variableExp (key : String) | objectExp (key : String)
  | and | or | xor | not | implies | iff
  | exists (vars : List String) | forall (vars : List String)
  | always | sometime | atMostOnce | sometimeBefore | sometimeAfter
  | plus | minus | times | div | le | ge | lt | gt | equals
  deriving DecidableEq, Repr, Inhabited

/-- one call `em.<Ctor>(*args)`.  `none` = the call is outside the model (wrong number of positional
    arguments, unpacking failure, `Not` of a malformed NOT node). -/
def apply (m : Mgr) : Ctor → List (PArg Arg) → Option (Mgr × Res)
  | .true_, [] => some (m, .ok m.trueExpr)
  | .false_, [] => some (m, .ok m.falseExpr)
  | .bool b, [] => some (m, .ok (mkBool m b))
  | .int z, [] => let p := mkInt m z; some (p.1, .ok p.2)
  | .intOfBool _, [] => some (m, .err .type)   -- `Int` rejects bool (expression.py:629; repaired, see C16 patch)
  | .real n d, [] => if d = 0 then none else let p := mkReal m (mkRat n d); some (p.1, .ok p.2)
  | .parameterExp k, [] => let p := mkParameterExp m k; some (p.1, .ok p.2)
  | .variableExp k, [] => let p := mkVariableExp m k; some (p.1, .ok p.2)
  | .objectExp k, [] => let p := mkObjectExp m k; some (p.1, .ok p.2)
  | .fluentExp k ar, [ps] => mkVia m (polymorph [ps]) (postFluent k ar)
  | .and, as => some (mkAnd m (polymorph as))
  | .or, as => some (mkOr m (polymorph as))
  | .xor, as => mkXOr m (polymorph as)
  | .plus, as => some (mkPlus m (polymorph as))
  | .times, as => some (mkTimes m (polymorph as))
  | .not, [e] => mkNot m (polymorph [e])
  | .implies, [l, r] => mkVia m (polymorph [l, r]) (post2 .implies)
  | .iff, [l, r] => mkVia m (polymorph [l, r]) (post2 .iff)
  | .minus, [l, r] => mkVia m (polymorph [l, r]) (post2 .minus)
  | .div, [l, r] => mkVia m (polymorph [l, r]) (post2 .div)
  | .le, [l, r] => mkVia m (polymorph [l, r]) (post2 .le)
  | .lt, [l, r] => mkVia m (polymorph [l, r]) (post2 .lt)
  | .equals, [l, r] => mkVia m (polymorph [l, r]) (post2 .equals)
  | .ge, [l, r] => mkVia m (polymorph [l, r]) (post2swap .le)
  | .gt, [l, r] => mkVia m (polymorph [l, r]) (post2swap .lt)
  | .exists vs, [e] => mkVia m (polymorph [e]) (postQuant .exists vs)
  | .forall vs, [e] => mkVia m (polymorph [e]) (postQuant .forall vs)
  | .always, [e] => mkVia m (polymorph [e]) (postAll .always .none)
  | .sometime, [e] => mkVia m (polymorph [e]) (postAll .sometime .none)
  | .atMostOnce, [e] => mkVia m (polymorph [e]) (postAll .atMostOnce .none)
  | .sometimeBefore, [a, b] => mkVia m (polymorph [a, b]) (postAll .sometimeBefore .none)
  | .sometimeAfter, [a, b] => mkVia m (polymorph [a, b]) (postAll .sometimeAfter .none)
  | _, _ => none

/-! ## histories -/

/-- an argument as written in a history: like `Arg`, but nodes are named by the step that returned them -/
inductive SArg
  | res (k : Nat)
  | bool (b : Bool)
  | num (l : Lit)
  | fluent (key : String) (arity : Nat)
  | param (key : String)
  | var (key : String)
  | obj (key : String)
  deriving DecidableEq, Repr, Inhabited

def SArg.resolve (rs : List Res) : SArg → Option Arg
  | .res k => match rs[k]? with
    | some (.ok r) => some (.node r)
    | _ => none
  | .bool b => some (.bool b)
  | .num l => some (.num l)
  | .fluent k a => some (.fluent k a)
  | .param k => some (.param k)
  | .var k => some (.var k)
  | .obj k => some (.obj k)

def resolveP (rs : List Res) : PArg SArg → Option (PArg Arg)
  | .one a => (a.resolve rs).map .one
  | .many as => (as.mapM (SArg.resolve rs)).map .many

structure Cmd where
  ctor : Ctor
  args : List (PArg SArg)
  deriving Repr, Inhabited

/-- one construction of a history; `rs` are the results of the earlier steps -/
def step (m : Mgr) (rs : List Res) (c : Cmd) : Option (Mgr × Res) :=
  match c.args.mapM (resolveP rs) with
  | none => none
  | some as => apply m c.ctor as

/-- run a history; returns every intermediate manager state (after each step) and the results -/
def run (m : Mgr) (rs : List Res) : List Cmd → Option (Mgr × List Res)
  | [] => some (m, rs)
  | c :: cs =>
    match step m rs c with
    | none => none
    | some (m1, r) => run m1 (rs ++ [r]) cs

/-! ## the expression denoted by a node -/

inductive Tree
  | node (op : Op) (args : List Tree) (payload : Payload)
  deriving Repr, Inhabited

def Tree.dflt : Tree := .node .boolC [] .none

/-- trees of all nodes of a heap, bottom-up in allocation order (children precede parents) -/
def trees (heap : List FNode) : List Tree :=
  heap.foldl (fun acc n =>
    acc ++ [Tree.node n.content.op (n.content.args.map (fun a => acc.getD a Tree.dflt)) n.content.payload]) []

/-- the expression tree denoted by node `r` -/
def Mgr.tree (m : Mgr) (r : Ref) : Tree := (trees m.heap).getD r Tree.dflt

/-! ## specification predicates (used by `Props/C16.lean`) -/

/-- the table invariant of the expression manager -/
structure Inv (m : Mgr) : Prop where
  /-- the id counter is one ahead of the number of allocated nodes … -/
  next : m.nextFreeId = m.heap.length + 1
  /-- … because ids were handed out consecutively from 1: in particular they are `< nextFreeId`
      and pairwise distinct -/
  ids : ∀ (r : Ref) (n : FNode), m.heap[r]? = some n → n.nodeId = r + 1
  /-- the memo dict holds exactly the allocated nodes, each under its own content -/
  table : m.expressions = (m.heap.zipIdx.map fun p => (p.1.content, p.2))
  /-- no two allocated nodes have the same content -/
  distinct : ∀ (i j : Ref) (a b : FNode), m.heap[i]? = some a → m.heap[j]? = some b → a.content = b.content → i = j
  /-- children are allocated before their parents (the node graph is a DAG) -/
  older : ∀ (r : Ref) (n : FNode), m.heap[r]? = some n → ∀ a ∈ n.content.args, a < r
  true_ : ∃ k, m.heap[m.trueExpr]? = some ⟨⟨.boolC, [], .bool true⟩, k⟩
  false_ : ∃ k, m.heap[m.falseExpr]? = some ⟨⟨.boolC, [], .bool false⟩, k⟩

/-- `m'` is a later state of `m`: nodes were only added -/
structure Ext (m m' : Mgr) : Prop where
  heap : m.heap <+: m'.heap
  true_ : m'.trueExpr = m.trueExpr
  false_ : m'.falseExpr = m.falseExpr

/-- every node mentioned by an argument exists -/
def Arg.valid (m : Mgr) : Arg → Prop
  | .node r => r < m.heap.length
  | _ => True

def PArg.valid (m : Mgr) : PArg Arg → Prop
  | .one a => a.valid m
  | .many as => ∀ a ∈ as, a.valid m

def Res.valid (m : Mgr) : Res → Prop
  | .ok r => r < m.heap.length
  | .err _ => True

/-- the mathematical value of a numeric literal (`none`: not a number) -/
def Lit.value : Lit → Option Rat
  | .int z => some (z : Rat)
  | .frac n d => some (mkRat n d)
  | .float n d => some (mkRat n d)
  | .str s => match parseFracStr s with
    | some (.ok r) => some r
    | _ => none

def Num.value : Num → Rat
  | .i z => (z : Rat)
  | .q r => r

/-- canonical form of `Union[int, Fraction]`: an integral value is never carried by a `Fraction` -/
def Num.canonical : Num → Prop
  | .i _ => True
  | .q r => r.den ≠ 1

end UPVerif.HashCons
