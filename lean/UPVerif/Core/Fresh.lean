/-
Fresh names for compilers (`unified_planning/engines/compilers/utils.py`) and the naming discipline of a
compiler as a state machine over the name set of the problem BEING BUILT.

* `getFreshName` mirrors `utils.get_fresh_name` (utils.py:343): the pieces are joined with `_`, then the
  `while problem.has_name(new_name) or new_name in used_names` loop tries `base`, `base_0`, `base_1`, …
  The loop is modelled as a search over the first `|names| + 1` candidates; `Lemmas/FreshLemmas.lean`
  proves (pigeonhole) that this search always succeeds, so no fuel is involved and the `getD`
  default below is dead code.
* `names` is `Problem.has_name` (problem.py:276: actions, fluents, objects, user types) together with the
  `used_names` argument; only membership is observed, so it is a list used as a set.
* `runCurrent` / `runStale`: the two disciplines found in the compilers.  `current`: every request is
  answered against the names of the problem under construction and the answer is registered before the
  next request (conditional_effects_remover.py:233, disjunctive_conditions_remover.py:324, …, and —
  after the repair — GrounderHelper through `used_names`).  `stale`: every request is answered against
  one fixed problem (the unrepaired grounder.py:143/152 and negative_conditions_remover.py:80).
* `groundNames` mirrors the naming of `GrounderHelper.get_grounded_actions` (grounder.py:165) +
  `ground_action` (grounder.py:112) + `create_action_with_given_subs` (utils.py:164): an action
  without parameters keeps its name, every other instance is named `fresh(name, str(params))` against the
  original problem plus the names of the instances created so far; an instance whose grounding is
  meaningless (`None`) registers nothing.  Which instances are meaningless is decided by the
  simplifier (not modelled here): it is an input.
-/
namespace UPVerif.Fresh

/-- `name_list = [original_name] + parameters_names (+ [trailing_info] if trailing_info)`; `"_".join` -/
def joinName (base : String) (params : List String) (trailing : Option String) : String :=
  "_".intercalate (base :: params ++
    (match trailing with
     | some t => if t.isEmpty then [] else [t]
     | none => []))

/-- the values `new_name` takes in the loop: `base`, `base_0`, `base_1`, … -/
def candidate (base : String) : Nat → String
  | 0 => base
  | k + 1 => base ++ "_" ++ toString k

/-- first candidate (in loop order) that is not taken, among the first `|names| + 1` -/
def firstFree (names : List String) (base : String) : Option String :=
  ((List.range (names.length + 1)).map (candidate base)).find? (fun c => !names.contains c)

/-- `utils.get_fresh_name(problem, original_name, parameters_names, trailing_info, used_names)` with
    `names` = the names of `problem` and the `used_names` -/
def getFreshName (names : List String) (base : String) (params : List String := [])
    (trailing : Option String := none) : String :=
  let b := joinName base params trailing
  (firstFree names b).getD b

structure Req where
  base : String
  params : List String
  trailing : Option String
  deriving Repr, DecidableEq

def Req.fresh (names : List String) (r : Req) : String := getFreshName names r.base r.params r.trailing

/-- discipline "current": answer against the problem under construction, register, continue.
    Returns the chosen names (in request order) and the final name set. -/
def runCurrent (names : List String) : List Req → List String × List String
  | [] => ([], names)
  | r :: rs =>
    let n := r.fresh names
    let (chosen, final) := runCurrent (n :: names) rs
    (n :: chosen, final)

/-- discipline "stale": every request is answered against the same, fixed name set -/
def runStale (names : List String) (rs : List Req) : List String := rs.map (·.fresh names)

/-! ### the grounder -/

/-- one tuple of `get_possible_parameters(action)`: `str` of each actual parameter, and whether the
    grounded action is meaningful (not `None`) -/
structure Inst where
  survived : Bool
  args : List String
  deriving Repr, DecidableEq

structure GAct where
  name : String
  insts : List Inst
  deriving Repr, DecidableEq

/-- `get_grounded_actions`: the (action, parameters) pairs in iteration order -/
def flatten (acts : List GAct) : List (String × Inst) :=
  acts.flatMap (fun a => a.insts.map (fun i => (a.name, i)))

/-- name given to one instance: `old_action.name if not subs else get_fresh_name(problem, name, naming_list, used_names)` -/
def instName (N used : List String) (aname : String) (i : Inst) : String :=
  if i.args.isEmpty then aname else getFreshName (N ++ used) aname i.args none

/-- names of the grounded actions, with their origin; `N` = names of the original problem, `used` =
    `GrounderHelper._grounded_actions_names` -/
def groundFlat (N : List String) : List String → List (String × Inst) → List (String × String × List String)
  | _, [] => []
  | used, (aname, i) :: rest =>
    let n := instName N used aname i
    if i.survived then (n, aname, i.args) :: groundFlat N (n :: used) rest
    else groundFlat N used rest

def groundNames (N : List String) (acts : List GAct) : List (String × String × List String) :=
  groundFlat N [] (flatten acts)

/-- the unrepaired grounder: `used_names` is never consulted -/
def groundFlatStale (N : List String) : List (String × Inst) → List (String × String × List String)
  | [] => []
  | (aname, i) :: rest =>
    let n := instName N [] aname i
    if i.survived then (n, aname, i.args) :: groundFlatStale N rest else groundFlatStale N rest

end UPVerif.Fresh
