import UPVerif.Core.AnmlSyntax
import UPVerif.Core.Walkers.FreeVars
/-
Model of the ANML reader on the writer's fragment, in the two stages of the real one:

1. `parse*` : tokens → statement trees (`UStmt`, `UExpr`).  This stands for pyparsing +
   `unified_planning/io/anml_grammar.py`, which are NOT modelled: it is a recursive-descent parser of exactly
   the forms the writer emits (every operator application parenthesised, one operator per group) and
   rejects (`none`) everything else.  Fuel = number of tokens (every call consumes one unit; `anmlRead`
   passes `tokens.length + 1`, `Lemmas/AnmlParse.lean` proves that this suffices on printed problems).
2. `resolve*` / `build` : statement trees → problem.  This mirrors `unified_planning/io/anml_reader.py`:
   `_parse_problem` (l.152: types, constants, fluents, objects, actions, then the timed statements),
   `_parse_expression` (l.887: name resolution order variable → parameter → fluent → object, `==` is `Iff`
   when its first operand is Boolean, unary minus is `Times(-1, ·)`, binary left-nested operators, a
   quantifier body is `And([...])`), `_parse_assignment` (l.802), `_parse_interval` / `_parse_timing`
   (l.635 / l.702), `_add_goal_or_effect_to_problem` (l.323), `_populate_parsed_action_body` (l.485),
   and the final check that every `constant` is static.  The `simplify()` calls of the reader are NOT
   applied here (the Simplifier is C11's): the result is the raw re-read problem.
-/
namespace UPVerif.Anml
open UPVerif Tok

/-! ## stage 1: statement trees -/

inductive UExpr where
  | num (n : Nat)
  | bool (b : Bool)
  | ref (name : String) (args : List UExpr)
  | neg (e : UExpr)
  | not (e : UExpr)
  | bin (op : Tok) (a b : UExpr)
  | quant (q : Quant) (vars : List (String × Ty)) (body : UExpr)
  deriving Repr, Inhabited

/-- a timing as written: `start`/`end` and the signed delay -/
structure UTiming where
  fromStart : Bool
  delay : Rat
  deriving DecidableEq, Repr, Inhabited

inductive UInterval where
  | point (t : UTiming)
  | range (lopen : Bool) (a b : UTiming) (ropen : Bool)
  | all (lopen ropen : Bool)
  deriving DecidableEq, Repr, Inhabited

structure UEffect where
  /-- the variables of `forall (…) {…}`; `[]` = no forall -/
  vars : List (String × Ty)
  when_ : Option UExpr
  target : UExpr
  kind : EffKind
  value : UExpr
  deriving Repr, Inhabited

inductive UBody where
  | cond (iv : Option UInterval) (e : UExpr)
  | eff (iv : Option UInterval) (e : UEffect)
  | duration (lopen : Bool) (lo : UExpr) (ropen : Bool) (hi : UExpr)
  deriving Repr, Inhabited

inductive UStmt where
  | typeDecl (n : String) (father : Option String)
  | fluentDecl (const : Bool) (ty : Ty) (n : String) (params : List (String × Ty))
  | action (n : String) (params : List (String × Ty)) (inst : Bool) (body : List UBody)
  | instance_ (ty : Ty) (names : List String)
  | top (b : UBody)
  deriving Repr, Inhabited

/-! ### literals and types (patched grammar: signed integer bounds; signed decimal or fraction real bounds;
    `(-infinity` / `infinity)` for both numeric types) -/

def pIntLit : List Tok → Option (Int × List Tok)
  | sym "-" :: num n :: r => some (-(n : Int), r)
  | num n :: r => some ((n : Int), r)
  | _ => none

/-- `Fraction("i.f")` -/
def decVal (i frac digits : Nat) : Rat :=
  ((i * 10 ^ digits + frac : Nat) : Rat) / ((10 ^ digits : Nat) : Rat)

def pURealLit : List Tok → Option (Rat × List Tok)
  | dec i fr dg :: r => some (decVal i fr dg, r)
  | num n :: sym "/" :: num d :: r => if d = 0 then none else some ((n : Rat) / (d : Rat), r)
  | num n :: r => some ((n : Rat), r)
  | _ => none

def pRealLit : List Tok → Option (Rat × List Tok)
  | sym "-" :: r => (pURealLit r).map (fun p => (-p.1, p.2))
  | r => pURealLit r

/-- `[l` or `(-infinity` -/
def pLower {α} (lit : List Tok → Option (α × List Tok)) : List Tok → Option (Option α × List Tok)
  | sym "[" :: r =>
    match lit r with
    | some (l, r') => some (some l, r')
    | none => none
  | sym "(" :: sym "-" :: kw "infinity" :: r => some (none, r)
  | _ => none

def startsInfinity : List Tok → Bool
  | kw "infinity" :: _ => true
  | _ => false

/-- `u]` or `infinity)` -/
def pUpper {α} (lit : List Tok → Option (α × List Tok)) (ts : List Tok) : Option (Option α × List Tok) :=
  if startsInfinity ts then
    match ts with
    | _ :: sym ")" :: r => some (none, r)
    | _ => none
  else
    match lit ts with
    | some (u, sym "]" :: r) => some (some u, r)
    | _ => none

def startsBracket : List Tok → Bool
  | sym "[" :: _ => true
  | sym "(" :: _ => true
  | _ => false

/-- the optional bounds after `integer` / `float`: `[l, u]`, `[l, infinity)`, `(-infinity, u]`, `(-infinity, infinity)` -/
def pBounds {α} (lit : List Tok → Option (α × List Tok)) (ts : List Tok) : Option ((Option α × Option α) × List Tok) :=
  if startsBracket ts then
    match pLower lit ts with
    | some (lb, sym "," :: r) =>
      match pUpper lit r with
      | some (ub, r') => some ((lb, ub), r')
      | none => none
    | _ => none
  else some ((none, none), ts)

/-- `type_ref` -/
def pTy : List Tok → Option (Ty × List Tok)
  | kw "boolean" :: r => some (.bool, r)
  | kw "integer" :: r => (pBounds pIntLit r).map (fun p => (.int p.1.1 p.1.2, p.2))
  | kw "float" :: r => (pBounds pRealLit r).map (fun p => (.real p.1.1 p.1.2, p.2))
  | Tok.id n :: r => some (.user n, r)
  | _ => none

/-- `type name , type name … )` — a non-empty `parameter_list` and its closing parenthesis -/
def pDecls : Nat → List Tok → Option (List (String × Ty) × List Tok)
  | 0, _ => none
  | f + 1, ts =>
    match pTy ts with
    | some (t, Tok.id n :: sym ")" :: r) => some ([(n, t)], r)
    | some (t, Tok.id n :: sym "," :: r) =>
      match pDecls f r with
      | some (ds, r') => some ((n, t) :: ds, r')
      | none => none
    | _ => none

/-- `( parameter_list )` after the opening parenthesis -/
def pParams (f : Nat) : List Tok → Option (List (String × Ty) × List Tok)
  | sym ")" :: r => some ([], r)
  | ts => pDecls f ts

/-! ### expressions -/

/-- binary operators of the writer -/
def isBinOp : Tok → Bool
  | kw "and" | kw "or" | kw "implies" => true
  | sym "==" | sym "+" | sym "-" | sym "*" | sym "/" | sym "<=" | sym "<" => true
  | _ => false

/-- operators the writer chains inside one pair of parentheses -/
def isChainOp : Tok → Bool
  | kw "and" | kw "or" | sym "+" | sym "*" => true
  | _ => false

mutual
/-- one operand: a literal, a (possibly applied) name, `-operand`, or a parenthesised group -/
def pOperand : Nat → List Tok → Option (UExpr × List Tok)
  | 0, _ => none
  | f + 1, ts =>
    match ts with
    | num n :: r => some (.num n, r)
    | kw "true" :: r => some (.bool true, r)
    | kw "false" :: r => some (.bool false, r)
    | sym "-" :: r =>
      match pOperand f r with
      | some (e, r') => some (.neg e, r')
      | none => none
    | Tok.id x :: sym "(" :: r =>
      match pArgs f r with
      | some (as, r') => some (.ref x as, r')
      | none => none
    | Tok.id x :: r => some (.ref x [], r)
    | sym "(" :: r => pGroup f r
    | _ => none
/-- `e , e , … )` -/
def pArgs : Nat → List Tok → Option (List UExpr × List Tok)
  | 0, _ => none
  | f + 1, ts =>
    match pOperand f ts with
    | some (e, sym ")" :: r) => some ([e], r)
    | some (e, sym "," :: r) =>
      match pArgs f r with
      | some (es, r') => some (e :: es, r')
      | none => none
    | _ => none
/-- the inside of a parenthesised group and its closing parenthesis -/
def pGroup : Nat → List Tok → Option (UExpr × List Tok)
  | 0, _ => none
  | f + 1, ts =>
    match ts with
    | kw "not" :: r =>
      match pOperand f r with
      | some (e, sym ")" :: r') => some (.not e, r')
      | _ => none
    | kw "exists" :: sym "(" :: r =>
      match pDecls f r with
      | some (vs, sym "{" :: r1) =>
        match pOperand f r1 with
        | some (b, sym ";" :: sym "}" :: sym ")" :: r2) => some (.quant .ex vs b, r2)
        | _ => none
      | _ => none
    | kw "forall" :: sym "(" :: r =>
      match pDecls f r with
      | some (vs, sym "{" :: r1) =>
        match pOperand f r1 with
        | some (b, sym ";" :: sym "}" :: sym ")" :: r2) => some (.quant .all vs b, r2)
        | _ => none
      | _ => none
    | _ =>
      match pOperand f ts with
      | some (a, r) => pTail f none a r
      | none => none
/-- `op operand op operand … )` with one operator per group, left-nested (`group_binary`) -/
def pTail : Nat → Option Tok → UExpr → List Tok → Option (UExpr × List Tok)
  | 0, _, _, _ => none
  | f + 1, op0, a, ts =>
    match ts with
    | sym ")" :: r => some (a, r)
    | op :: r =>
      if isBinOp op && (op0 == none || (op0 == some op && isChainOp op)) then
        match pOperand f r with
        | some (b, r') => pTail f (some op) (.bin op a b) r'
        | none => none
      else none
    | [] => none
end

/-! ### timings and intervals -/

def pRatLit : List Tok → Option (Rat × List Tok)
  | num n :: sym "/" :: num d :: r => if d = 0 then none else some ((n : Rat) / (d : Rat), r)
  | num n :: r => some ((n : Rat), r)
  | _ => none

/-- `start`, `start + q`, `end`, `end - q` (`_parse_timing` rejects the other combinations) -/
def pTiming : List Tok → Option (UTiming × List Tok)
  | kw "start" :: sym "+" :: r => (pRatLit r).map (fun p => ({ fromStart := true, delay := p.1 }, p.2))
  | kw "start" :: r => some ({ fromStart := true, delay := 0 }, r)
  | kw "end" :: sym "-" :: r => (pRatLit r).map (fun p => ({ fromStart := false, delay := -p.1 }, p.2))
  | kw "end" :: r => some ({ fromStart := false, delay := 0 }, r)
  | _ => none

def pOpen : Tok → Option Bool
  | sym "[" => some false
  | sym "(" => some true
  | _ => none
def pClose : Tok → Option Bool
  | sym "]" => some false
  | sym ")" => some true
  | _ => none

def pInterval : List Tok → Option (UInterval × List Tok)
  | l :: kw "all" :: c :: r =>
    match pOpen l, pClose c with
    | some lo, some ro => some (.all lo ro, r)
    | _, _ => none
  | l :: r =>
    match pOpen l with
    | none => none
    | some lo =>
      match pTiming r with
      | some (a, sym "," :: r1) =>
        match pTiming r1 with
        | some (b, c :: r2) => (pClose c).map (fun ro => (.range lo a b ro, r2))
        | _ => none
      | some (a, c :: r1) =>
        match pClose c with
        -- "point intervals can't have '('; use '[' instead" (l.675)
        | some ro => if lo || ro then none else some (.point a, r1)
        | none => none
      | _ => none
  | [] => none

/-! ### statements -/

def pAssignOp : Tok → Option EffKind
  | sym ":=" => some .assign
  | sym ":increase" => some .increase
  | sym ":decrease" => some .decrease
  | _ => none

/-- `target op value` -/
def pAssign (f : Nat) (ts : List Tok) : Option ((UExpr × EffKind × UExpr) × List Tok) :=
  match pOperand f ts with
  | some (a, op :: r) =>
    match pAssignOp op with
    | some k =>
      match pOperand f r with
      | some (v, r') => some ((a, k, v), r')
      | none => none
    | none => none
  | _ => none

/-- `when cond { target op value ; }` or `target op value`; the flag says whether a `when` was read -/
def pWhenOrAssign (f : Nat) : List Tok → Option ((Option UExpr × UExpr × EffKind × UExpr) × List Tok)
  | kw "when" :: r =>
    match pOperand f r with
    | some (c, sym "{" :: r1) =>
      match pAssign f r1 with
      | some ((a, k, v), sym ";" :: sym "}" :: r2) => some ((some c, a, k, v), r2)
      | _ => none
    | _ => none
  | ts =>
    match pAssign f ts with
    | some ((a, k, v), r) => some ((none, a, k, v), r)
    | none => none

/-- what follows the optional interval of a timed statement, up to (not including) its `;` -/
def pTimedRest (f : Nat) (iv : Option UInterval) : List Tok → Option (UBody × List Tok)
  | kw "forall" :: sym "(" :: r =>
    match pDecls f r with
    | some (vs, sym "{" :: r1) =>
      match pWhenOrAssign f r1 with
      | some ((c, a, k, v), sym ";" :: sym "}" :: r2) =>
        some (.eff iv { vars := vs, when_ := c, target := a, kind := k, value := v }, r2)
      | _ => none
    | _ => none
  | kw "when" :: r =>
    match pWhenOrAssign f (kw "when" :: r) with
    | some ((c, a, k, v), r2) => some (.eff iv { vars := [], when_ := c, target := a, kind := k, value := v }, r2)
    | none => none
  | ts =>
    match pOperand f ts with
    | some (a, op :: r) =>
      match pAssignOp op with
      | some k =>
        match pOperand f r with
        | some (v, r') => some (.eff iv { vars := [], when_ := none, target := a, kind := k, value := v }, r')
        | none => none
      | none => some (.cond iv a, op :: r)
    | _ => none

/-- `[interval] statement` -/
def pTimed (f : Nat) : List Tok → Option (UBody × List Tok)
  | sym "[" :: r =>
    match pInterval (sym "[" :: r) with
    | some (iv, r') => pTimedRest f (some iv) r'
    | none => none
  | sym "(" :: r =>
    match pInterval (sym "(" :: r) with
    | some (iv, r') => pTimedRest f (some iv) r'
    | none => none
  | ts => pTimedRest f none ts

/-- `duration (>|>=) lo and duration (<|<=) hi` -/
def pDuration (f : Nat) : List Tok → Option (UBody × List Tok)
  | kw "duration" :: o1 :: r =>
    match (match o1 with | sym ">" => some true | sym ">=" => some false | _ => none), pOperand f r with
    | some lo, some (a, kw "and" :: kw "duration" :: o2 :: r1) =>
      match (match o2 with | sym "<" => some true | sym "<=" => some false | _ => none), pOperand f r1 with
      | some ro, some (b, r2) => some (.duration lo a ro b, r2)
      | _, _ => none
    | _, _ => none
  | _ => none

/-- one statement of an action body, up to (not including) its `;` -/
def pItem (f : Nat) : List Tok → Option (UBody × List Tok)
  | kw "duration" :: r => pDuration f (kw "duration" :: r)
  | ts => pTimed f ts

/-- the statements of an action body and the closing brace -/
def pBody : Nat → List Tok → Option (List UBody × List Tok)
  | 0, _ => none
  | f + 1, ts =>
    match ts with
    | sym "}" :: r => some ([], r)
    | _ =>
      match pItem f ts with
      | some (b, sym ";" :: r1) =>
        match pBody f r1 with
        | some (bs, r2) => some (b :: bs, r2)
        | none => none
      | _ => none

/-- `n , n , … ;` -/
def pNames : Nat → List Tok → Option (List String × List Tok)
  | 0, _ => none
  | f + 1, ts =>
    match ts with
    | Tok.id n :: sym ";" :: r => some ([n], r)
    | Tok.id n :: sym "," :: r =>
      match pNames f r with
      | some (ns, r') => some (n :: ns, r')
      | none => none
    | _ => none

/-- one `anml_stmt` and its `;` -/
def pStmt (f : Nat) : List Tok → Option (UStmt × List Tok)
  | kw "type" :: Tok.id n :: sym ";" :: r => some (.typeDecl n none, r)
  | kw "type" :: Tok.id n :: sym "<" :: Tok.id fa :: sym ";" :: r => some (.typeDecl n (some fa), r)
  | kw "fluent" :: r =>
    match pTy r with
    | some (t, Tok.id n :: sym ";" :: r1) => some (.fluentDecl false t n [], r1)
    | some (t, Tok.id n :: sym "(" :: r1) =>
      match pParams f r1 with
      | some (ps, sym ";" :: r2) => some (.fluentDecl false t n ps, r2)
      | _ => none
    | _ => none
  | kw "constant" :: r =>
    match pTy r with
    | some (t, Tok.id n :: sym ";" :: r1) => some (.fluentDecl true t n [], r1)
    | some (t, Tok.id n :: sym "(" :: r1) =>
      match pParams f r1 with
      | some (ps, sym ";" :: r2) => some (.fluentDecl true t n ps, r2)
      | _ => none
    | _ => none
  | kw "action" :: Tok.id n :: sym "(" :: r =>
    match pParams f r with
    | some (ps, sym "::" :: sym "(" :: str "InstantaneousAction" :: sym ")" :: sym "{" :: r1) =>
      match pBody f r1 with
      | some (bs, sym ";" :: r2) => some (.action n ps true bs, r2)
      | _ => none
    | some (ps, sym "{" :: r1) =>
      match pBody f r1 with
      | some (bs, sym ";" :: r2) => some (.action n ps false bs, r2)
      | _ => none
    | _ => none
  | kw "instance" :: r =>
    match pTy r with
    | some (t, r1) =>
      match pNames f r1 with
      | some (ns, r2) => some (.instance_ t ns, r2)
      | none => none
    | none => none
  | ts =>
    match pTimed f ts with
    | some (b, sym ";" :: r) => some (.top b, r)
    | _ => none

/-- `anml_body` -/
def pStmts : Nat → List Tok → Option (List UStmt)
  | 0, _ => none
  | f + 1, ts =>
    match ts with
    | [] => some []
    | _ =>
      match pStmt f ts with
      | some (s, r) =>
        match pStmts f r with
        | some ss => some (s :: ss)
        | none => none
      | none => none

/-! ## stage 2: `anml_reader.py` -/

/-- what the reader knows while it resolves names -/
structure REnv where
  /-- `types_map` keys -/
  types : List String
  /-- `self._problem.fluents` -/
  fluents : List AFluent
  /-- `self._problem.all_objects` -/
  objects : List (String × String)
  deriving Repr, Inhabited

/-- `_parse_type_reference` (l.371): a user type must be in `types_map` -/
def resolveTy (env : REnv) : Ty → Option Ty
  | .user n => if env.types.contains n then some (.user n) else none
  | .time => none
  | t => some t

/-- `_parse_parameters_def` (l.622) -/
def resolveDecls (env : REnv) : List (String × Ty) → Option (List (String × Ty))
  | [] => some []
  | (n, t) :: r =>
    match resolveTy env t, resolveDecls env r with
    | some t', some r' => some ((n, t') :: r')
    | _, _ => none

/-- `fnode.type.is_bool_type()` for the expressions the reader builds -/
def isBoolTyped : Expr → Bool
  | .leaf (.boolC _) => true
  | .leaf (.param _ t) => t == .bool
  | .leaf (.var v) => v.ty == .bool
  | .app (.fluent f) _ => f.ty == .bool
  | .app .and _ | .app .or _ | .app .not _ | .app .implies _ | .app .iff _ => true
  | .app .le _ | .app .lt _ | .app .eq _ => true
  | .quant _ _ _ => true
  | _ => false

/-- the binary operators of `self._operators` (l.128) that the writer uses; `==` is decided by the type of
    the first operand (l.986) -/
def mkBin (op : Tok) (a b : Expr) : Option Expr :=
  match op with
  | kw "and" => some (.app .and [a, b])
  | kw "or" => some (.app .or [a, b])
  | kw "implies" => some (.app .implies [a, b])
  | sym "==" => some (if isBoolTyped a then .app .iff [a, b] else .app .eq [a, b])
  | sym "+" => some (.app .plus [a, b])
  | sym "-" => some (.app .minus [a, b])
  | sym "*" => some (.app .times [a, b])
  | sym "/" => some (.app .div [a, b])
  | sym "<=" => some (.app .le [a, b])
  | sym "<" => some (.app .lt [a, b])
  | _ => none

/-- a name with its arguments (l.942-957): quantifier variable, parameter, fluent, object — in this order -/
def resolveRef (env : REnv) (params vars : List (String × Ty)) (x : String) (args : List Expr) : Option Expr :=
  match vars.lookup x with
  | some t => if args.isEmpty then some (.leaf (.var { name := x, ty := t })) else none
  | none =>
    match params.lookup x with
    | some t => if args.isEmpty then some (.leaf (.param x t)) else none
    | none =>
      match env.fluents.find? (fun f => f.ref.name == x) with
      | some f => if args.length == f.ref.sig.length then some (.app (.fluent f.ref) args) else none
      | none =>
        match env.objects.lookup x with
        | some t => if args.isEmpty then some (.leaf (.obj x t)) else none
        | none => none

mutual
/-- `_parse_expression` (l.887) without its final `simplify()` -/
def resolveE (env : REnv) (params vars : List (String × Ty)) : UExpr → Option Expr
  | .num n => some (Expr.int (n : Int))
  | .bool b => some (Expr.bool b)
  | .neg e =>
    match resolveE env params vars e with
    | some x => some (.app .times [Expr.int (-1), x])
    | none => none
  | .not e =>
    match resolveE env params vars e with
    | some x => some (Expr.mkNot x)
    | none => none
  | .bin op a b =>
    match resolveE env params vars a, resolveE env params vars b with
    | some x, some y => mkBin op x y
    | _, _ => none
  | .ref x args =>
    match resolveEs env params vars args with
    | some as => resolveRef env params vars x as
    | none => none
  | .quant q vs body =>
    match resolveDecls env vs with
    | some vs' =>
      match resolveE env params (vs' ++ vars) body with
      | some b => if vs'.isEmpty then none else some (.quant q (vs'.map (fun p => { name := p.1, ty := p.2 })) b)
      | none => none
    | none => none
def resolveEs (env : REnv) (params vars : List (String × Ty)) : List UExpr → Option (List Expr)
  | [] => some []
  | e :: es =>
    match resolveE env params vars e, resolveEs env params vars es with
    | some x, some xs => some (x :: xs)
    | _, _ => none
end

/-- `_parse_timing` (l.702) on the forms stage 1 accepts; `glob` = outside of an action -/
def resolveTiming (glob : Bool) (t : UTiming) : Timing :=
  { tp := match t.fromStart, glob with
      | true, true => .gstart | true, false => .start | false, true => .gend | false, false => .end_,
    delay := t.delay }

/-- `_parse_interval` (l.635): a point interval is a `Timing`, here the degenerate closed interval -/
def resolveInterval (glob : Bool) : UInterval → Interval
  | .point t => { lo := resolveTiming glob t, hi := resolveTiming glob t, lopen := false, ropen := false }
  | .range lo a b ro => { lo := resolveTiming glob a, hi := resolveTiming glob b, lopen := lo, ropen := ro }
  | .all lo ro => { lo := resolveTiming glob ⟨true, 0⟩, hi := resolveTiming glob ⟨false, 0⟩, lopen := lo, ropen := ro }

/-- the timing of an effect: `_parse_assignment` requires a `Timing` ("An effect with a durative interval is
    not supported"); without interval: `StartTiming()` inside an action, `GlobalStartTiming()` for the
    assignment of a constant, an error otherwise (l.643-651) -/
def effectTiming (glob isConst : Bool) : Option UInterval → Option Timing
  | some (.point t) => some (resolveTiming glob t)
  | some _ => none
  | none => if glob then (if isConst then some ⟨.gstart, 0⟩ else none) else some ⟨.start, 0⟩

/-- `_parse_assignment` (l.802) -/
def resolveEffect (env : REnv) (consts : List FluentRef) (params : List (String × Ty)) (glob : Bool)
    (iv : Option UInterval) (e : UEffect) : Option (Timing × Effect) :=
  match resolveDecls env e.vars with
  | none => none
  | some vs =>
    -- the condition of a plain `when` is parsed without the forall variables (l.816); inside a forall with them (l.844)
    let cond : Option Expr :=
      match e.when_ with
      | none => some Expr.tt
      | some c =>
        if vs.isEmpty then resolveE env params [] c
        else (resolveE env params vs c).map (fun x => .app .and [x, Expr.tt])
    match cond, resolveE env params vs e.target, resolveE env params vs e.value with
    | some c, some tgt, some v =>
      match tgt with
      | .app (.fluent f) _ =>
        match effectTiming glob (consts.contains f) iv with
        | some t =>
          -- `Effect.__init__` (model/effect.py:96-121) keeps the forall variables that occur free
          let fv := tgt.freeVars ++ v.freeVars ++ c.freeVars
          some (t, { fluent := tgt, value := v, cond := c, kind := e.kind,
                     forall_ := (vs.map (fun p => ({ name := p.1, ty := p.2 } : Var))).filter (fun x => fv.contains x) })
        | none => none
      | _ => none   -- "left side of the assignment is not a valid fluent"
    | _, _, _ => none

/-- `_populate_parsed_action_body` (l.485) for an instantaneous action: one statement -/
def stepInst (env : REnv) (consts : List FluentRef) (params : List (String × Ty))
    (acc : List Expr × List Effect) : UBody → Option (List Expr × List Effect)
  | .cond _ e =>
    match resolveE env params [] e with
    | some c => some (addPre acc.1 c, acc.2)
    | none => none
  | .eff iv e =>
    match resolveEffect env consts params false iv e with
    | some (_, x) => some (acc.1, acc.2 ++ [x])
    | none => none
  -- an instantaneous action does not interpret `duration` (l.507): the statement falls through to the conditions
  | .duration _ _ _ _ => none

/-- the accumulated parts of a durative action -/
structure DurAcc where
  d : Option Duration := none
  conds : List (Interval × Expr) := []
  effs : List (Timing × Effect) := []

/-- … and for a durative action -/
def stepDur (env : REnv) (consts : List FluentRef) (params : List (String × Ty)) (acc : DurAcc) : UBody → Option DurAcc
  | .cond iv e =>
    match resolveE env params [] e with
    | some c =>
      some { acc with conds := addTimed acc.conds ((match iv with
        | some i => resolveInterval false i
        | none => { lo := ⟨.start, 0⟩, hi := ⟨.start, 0⟩, lopen := false, ropen := false }), c) }
    | none => none
  | .eff iv e =>
    match resolveEffect env consts params false iv e with
    | some x => some { acc with effs := acc.effs ++ [x] }
    | none => none
  | .duration lo a ro b =>
    match resolveE env params [] a, resolveE env params [] b with
    | some x, some y => some { acc with d := some { lo := x, hi := y, lopen := lo, ropen := ro } }
    | _, _ => none

/-- fold of a partial step function -/
def foldM? {α β} (step : α → β → Option α) : α → List β → Option α
  | a, [] => some a
  | a, b :: bs =>
    match step a b with
    | some a' => foldM? step a' bs
    | none => none

/-- `_parse_action` (l.463) -/
def buildAction (env : REnv) (consts : List FluentRef) (n : String) (ps : List (String × Ty)) (inst : Bool)
    (body : List UBody) : Option AAction :=
  match resolveDecls env ps with
  | none => none
  | some params =>
    if inst then
      (foldM? (stepInst env consts params) ([], []) body).map (fun r => .inst n params r.1 r.2)
    else
      match foldM? (stepDur env consts params) {} body with
      | some acc =>
        -- a durative action without duration statement keeps the default `FixedDuration(0)`
        some (.dur n params (acc.d.getD { lo := Expr.int 0, hi := Expr.int 0, lopen := false, ropen := false }) acc.conds acc.effs)
      | none => none

/-- the timed statements outside of actions -/
structure TopAcc where
  init : List (Expr × Expr) := []
  timedEffects : List (Timing × Effect) := []
  goals : List Expr := []
  timedGoals : List (Interval × Expr) := []
  invariants : List Expr := []
  deriving Repr, Inhabited

/-- `_add_goal_or_effect_to_problem` (l.323), with `[all] e` read as a state invariant (patched) -/
def addTop (env : REnv) (consts : List FluentRef) (acc : TopAcc) : UBody → Option TopAcc
  | .eff iv e =>
    match resolveEffect env consts [] true iv e with
    | some (t, x) =>
      if t == ⟨.gstart, 0⟩ && !x.isConditional && x.kind == .assign then
        -- an initial value; a forall would be expanded over the objects (not written by the writer)
        if x.forall_.isEmpty then some { acc with init := setInit acc.init (x.fluent, x.value) } else none
      else some { acc with timedEffects := acc.timedEffects ++ [(t, x)] }
    | none => none
  | .cond iv e =>
    match iv, resolveE env [] [] e with
    -- "ANML constant initialization is currently not supported" (l.647)
    | none, _ => none
    | _, none => none
    | some i, some g =>
      match i with
      | .point t =>
        -- `up_interval == global_end` (l.366): a point interval is a `Timing`
        if resolveTiming true t == ⟨.gend, 0⟩ then some { acc with goals := addGoal acc.goals g }
        else some { acc with timedGoals := addTimed acc.timedGoals (resolveInterval true i, g) }
      | .all _ _ => some { acc with invariants := acc.invariants ++ [g] }
      | .range _ _ _ _ => some { acc with timedGoals := addTimed acc.timedGoals (resolveInterval true i, g) }
  | .duration _ _ _ _ => none   -- "duration keyword can't be used outside of an action"

def mkFluent (env : REnv) (t : Ty) (n : String) (ps : List (String × Ty)) : Option AFluent :=
  match resolveTy env t, resolveDecls env ps with
  | some t', some ps' => some { ref := { name := n, ty := t', sig := ps'.map (·.2) }, pnames := ps'.map (·.1) }
  | _, _ => none

def optAll {α} : List (Option α) → Option (List α)
  | [] => some []
  | some a :: r => (optAll r).map (a :: ·)
  | none :: _ => none

/-! the lists pyparsing collects per statement kind (`grammar.types`, `.constant_fluents`, `.fluents`, `.objects`,
    `.actions`, the timed statements) -/
def selType : UStmt → Option (String × Option String)
  | .typeDecl n f => some (n, f)
  | _ => none
def selFluent (const : Bool) : UStmt → Option (Ty × String × List (String × Ty))
  | .fluentDecl c t n ps => if c == const then some (t, n, ps) else none
  | _ => none
def selInstance : UStmt → Option (Ty × List String)
  | .instance_ t ns => some (t, ns)
  | _ => none
def selAction : UStmt → Option (String × List (String × Ty) × Bool × List UBody)
  | .action n ps inst body => some (n, ps, inst, body)
  | _ => none
def selTop : UStmt → Option UBody
  | .top b => some b
  | _ => none

/-- `_parse_objects` (l.453) -/
def mkObjects (env : REnv) (d : Ty × List String) : Option (List (String × String)) :=
  match resolveTy env d.1 with
  | some (.user tn) => some (d.2.map (fun n => (n, tn)))
  | _ => none

/-- `_create_types_map` (l.281): every supertype must be defined -/
def fathersDeclared (typeDecls : List (String × Option String)) : Bool :=
  typeDecls.all (fun d => match d.2 with | some f => (typeDecls.map (·.1)).contains f | none => true)

/-- `_parse_problem` (l.152) -/
def build (ss : List UStmt) : Option AProblem :=
  let typeDecls := ss.filterMap selType
  if !fathersDeclared typeDecls then none else
  let env0 : REnv := { types := typeDecls.map (·.1), fluents := [], objects := [] }
  match optAll ((ss.filterMap (selFluent true)).map (fun d => mkFluent env0 d.1 d.2.1 d.2.2)),
        optAll ((ss.filterMap (selFluent false)).map (fun d => mkFluent env0 d.1 d.2.1 d.2.2)),
        optAll ((ss.filterMap selInstance).map (mkObjects env0)) with
  | some consts, some fls, some objs =>
    let env : REnv := { env0 with fluents := consts ++ fls, objects := objs.flatten }
    let cref := consts.map (·.ref)
    match optAll ((ss.filterMap selAction).map (fun d => buildAction env cref d.1 d.2.1 d.2.2.1 d.2.2.2)) with
    | some actions =>
      match foldM? (addTop env cref) {} (ss.filterMap selTop) with
      | some top =>
        let P : AProblem :=
          { types := typeDecls, fluents := consts ++ fls, objects := objs.flatten, init := top.init,
            actions := actions, timedEffects := top.timedEffects, goals := top.goals,
            timedGoals := top.timedGoals, invariants := top.invariants }
        -- "The constant … is modified in the problem." (l.226)
        if cref.all P.isStatic then some P else none
      | none => none
    | none => none
  | _, _, _ => none

/-- the reader: text (tokens) → problem -/
def anmlRead (ts : List Tok) : Option AProblem :=
  match pStmts (ts.length + 1) ts with
  | some ss => build ss
  | none => none

end UPVerif.Anml
