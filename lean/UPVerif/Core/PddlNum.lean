/-
Numeric constants in PDDL text.

* `decimalStr`  mirrors `ConverterToPDDLString.convert_fraction` (unified_planning/io/pddl_writer.py:181, as
  repaired by notes/patches/C18-exact-finite-decimals.patch): a rational whose denominator is `2^a * 5^b`
  is printed exactly in positional notation (`-12.5`, `0.00001`, `2.0`); any other rational is printed
  rounded to 10 significant digits with a warning — that lossy branch is NOT modelled (`none`).
* `intStr`      mirrors `walk_int_constant` (`str(int)`).
* `parseNumber` mirrors what `Fraction(token)` (up_pddl_reader.py:562, from_pddl.py:158) returns on the tokens
  `[+-]?digits(.digits)?`; every other token is answered `none` (the harness keeps generated texts inside
  that token grammar; `Fraction` also accepts exponents, `n/d`, underscores).

Digits are handled on `List Char` with our own conversion functions so that the round-trip theorem
(`Lemmas/PddlNumLemmas.lean`) does not depend on library facts about `Nat.repr`.
-/
namespace UPVerif.Pddl

/-! ### decimal digits of a natural number -/

def digitChar (d : Nat) : Char := Char.ofNat (48 + d)

def charDigit? (c : Char) : Option Nat :=
  if 48 ≤ c.toNat ∧ c.toNat ≤ 57 then some (c.toNat - 48) else none

/-- digits of `n`, most significant first, accumulated; `fuel` bounds the number of digits -/
def natDigitsAux : Nat → Nat → List Char → List Char
  | 0, _, acc => acc
  | fuel + 1, n, acc =>
    if n < 10 then digitChar n :: acc
    else natDigitsAux fuel (n / 10) (digitChar (n % 10) :: acc)

/-- `str(n)` for a natural number (`n + 1` digits of fuel always suffice) -/
def natDigits (n : Nat) : List Char := natDigitsAux (n + 1) n []

/-- value of a digit string read left to right; `none` on a non-digit -/
def digitsVal? : List Char → Nat → Option Nat
  | [], acc => some acc
  | c :: cs, acc =>
    match charDigit? c with
    | some d => digitsVal? cs (acc * 10 + d)
    | none => none

/-- non-empty digit string → value -/
def parseNat? (cs : List Char) : Option Nat :=
  if cs.isEmpty then none else digitsVal? cs 0

/-! ### printing -/

/-- `str(z)` for a Python int -/
def intChars (z : Int) : List Char :=
  if z < 0 then '-' :: natDigits z.natAbs else natDigits z.natAbs

def intStr (z : Int) : String := String.ofList (intChars z)

/-- strip the factor `p` from `n` (`while den % p == 0: den //= p; exp += 1`); returns (exponent, rest) -/
def stripFactor (p : Nat) : Nat → Nat → Nat × Nat
  | 0, n => (0, n)
  | fuel + 1, n =>
    if n % p == 0 && n != 0 then
      let (e, r) := stripFactor p fuel (n / p)
      (e + 1, r)
    else (0, n)

/-- `digits.rjust(k, "0")` -/
def rjustZeros (k : Nat) (cs : List Char) : List Char := List.replicate (k - cs.length) '0' ++ cs

/-- the repaired `convert_fraction` on a rational with a finite decimal expansion -/
def decimalChars (r : Rat) : Option (List Char) :=
  let (e2, d2) := stripFactor 2 r.den r.den
  let (e5, d5) := stripFactor 5 d2 d2
  if d5 == 1 then
    let scale := max e2 e5
    let digits := rjustZeros (scale + 1) (natDigits (r.num.natAbs * 10 ^ scale / r.den))
    let ip := digits.take (digits.length - scale)
    let fp := digits.drop (digits.length - scale)
    let fp := if fp.isEmpty then ['0'] else fp
    some ((if r < 0 then ['-'] else []) ++ ip ++ ['.'] ++ fp)
  else none

def decimalStr (r : Rat) : Option String := (decimalChars r).map String.ofList

/-! ### parsing (`Fraction(token)` on the accepted token grammar) -/

def splitAtDot : List Char → List Char × Option (List Char)
  | [] => ([], none)
  | '.' :: r => ([], some r)
  | c :: r =>
    let (a, b) := splitAtDot r
    (c :: a, b)

/-- unsigned `digits` or `digits.digits` -/
def parseUnsigned (cs : List Char) : Option Rat :=
  match splitAtDot cs with
  | (ip, none) => (parseNat? ip).map (fun n => (n : Rat))
  | (ip, some fp) =>
    match parseNat? ip, parseNat? fp with
    | some a, some b => some (((a * 10 ^ fp.length + b : Nat) : Rat) / ((10 ^ fp.length : Nat) : Rat))
    | _, _ => none

def parseNumberChars : List Char → Option Rat
  | '-' :: r => (parseUnsigned r).map (fun q => -q)
  | '+' :: r => parseUnsigned r
  | cs => parseUnsigned cs

def parseNumber (s : String) : Option Rat := parseNumberChars s.toList

end UPVerif.Pddl
