import UPVerif.Core.Sexp
import UPVerif.Core.Expr
import UPVerif.Core.Den
/-
Wire format of expressions, types, values and interpretations (driver infrastructure; part of the
trusted base of the correspondence check, not a model).

  type   ::= bool | time | (int lb ub) | (real lb ub) | (user name)          bounds: `_` = none, else rational atom
  expr   ::= (b T|F) | (i z) | (r q) | (o name type) | (p name type) | (v name type)
           | (timing "…") | (present "…")
           | (and e*) (or e*) (not e) (implies a b) (iff a b) (plus e*) (minus a b) (times e*) (div a b)
           | (le a b) (lt a b) (eq a b) (always e) (sometime e) (sometime-before a b) (sometime-after a b)
           | (at-most-once e) | (dot agent e)
           | (fl (name type (sigtype*)) e*) | (ifun (name type (sigtype*)) e*)
           | (exists ((name type)*) e) | (forall ((name type)*) e)
  value  ::= (b T|F) | (n q) | (o name)
  q      ::= z | z/n
-/
namespace UPVerif
open Sexp

def parseRat (s : String) : Option Rat :=
  match s.splitOn "/" with
  | [a] => a.toInt?.map (fun z => (z : Rat))
  | [a, b] => do
    let z ← a.toInt?
    let n ← b.toNat?
    if n == 0 then none else some ((z : Rat) / (n : Rat))
  | _ => none

def ratToString (r : Rat) : String :=
  if r.den == 1 then toString r.num else toString r.num ++ "/" ++ toString r.den

def parseTy : Sexp → Option Ty
  | .atom "bool" => some .bool
  | .atom "time" => some .time
  | .list [.atom "int", lb, ub] => do
    let l ← bound lb
    let u ← bound ub
    let li ← toI l
    let ui ← toI u
    some (.int li ui)
  | .list [.atom "real", lb, ub] => do
    let l ← bound lb
    let u ← bound ub
    some (.real l u)
  | .list [.atom "user", .atom n] => some (.user n)
  | _ => none
where
  bound : Sexp → Option (Option Rat)
    | .atom "_" => some none
    | .atom s => (parseRat s).map some
    | _ => none
  toI : Option Rat → Option (Option Int)
    | none => some none
    | some r => if r.den == 1 then some (some r.num) else none

def tyToSexp : Ty → Sexp
  | .bool => .atom "bool"
  | .time => .atom "time"
  | .int l u => .list [.atom "int", ob (l.map (fun z => (z : Rat))), ob (u.map (fun z => (z : Rat)))]
  | .real l u => .list [.atom "real", ob l, ob u]
  | .user n => .list [.atom "user", .atom n]
where
  ob : Option Rat → Sexp
    | none => .atom "_"
    | some r => .atom (ratToString r)

def parseVar : Sexp → Option Var
  | .list [.atom n, t] => (parseTy t).map (fun ty => { name := n, ty := ty })
  | _ => none

def parseRef : Sexp → Option (String × Ty × List Ty)
  | .list [.atom n, t, .list sig] => do
    let ty ← parseTy t
    let s ← sig.mapM parseTy
    some (n, ty, s)
  | _ => none

partial def parseExpr : Sexp → Option Expr
  | .list [.atom "b", v] => v.asBool?.map Expr.bool
  | .list [.atom "i", .atom z] => z.toInt?.map Expr.int
  | .list [.atom "r", .atom q] => (parseRat q).map Expr.real
  | .list [.atom "o", .atom n, .atom t] => some (.leaf (.obj n t))
  | .list [.atom "p", .atom n, t] => (parseTy t).map (fun ty => .leaf (.param n ty))
  | .list [.atom "v", .atom n, t] => (parseTy t).map (fun ty => .leaf (.var { name := n, ty := ty }))
  | .list [.atom "timing", .atom s] => some (.leaf (.timing s))
  | .list [.atom "present", .atom s] => some (.leaf (.present s))
  | .list [.atom "dot", .atom a, e] => (parseExpr e).map (fun x => .app (.dot a) [x])
  | .list (.atom "fl" :: r :: args) => do
    let (n, ty, sig) ← parseRef r
    let as ← args.mapM parseExpr
    some (.app (.fluent { name := n, ty := ty, sig := sig }) as)
  | .list (.atom "ifun" :: r :: args) => do
    let (n, ty, sig) ← parseRef r
    let as ← args.mapM parseExpr
    some (.app (.ifun { name := n, ty := ty, sig := sig }) as)
  | .list [.atom "exists", .list vs, e] => do
    let vars ← vs.mapM parseVar
    let b ← parseExpr e
    some (.quant .ex vars b)
  | .list [.atom "forall", .list vs, e] => do
    let vars ← vs.mapM parseVar
    let b ← parseExpr e
    some (.quant .all vars b)
  | .list (.atom o :: args) => do
    let op ← (match o with
      | "and" => some Op.and | "or" => some .or | "not" => some .not | "implies" => some .implies
      | "iff" => some .iff | "plus" => some .plus | "minus" => some .minus | "times" => some .times
      | "div" => some .div | "le" => some .le | "lt" => some .lt | "eq" => some .eq
      | "always" => some .always | "sometime" => some .sometime
      | "sometime-before" => some .sometimeBefore | "sometime-after" => some .sometimeAfter
      | "at-most-once" => some .atMostOnce | _ => none)
    let as ← args.mapM parseExpr
    some (.app op as)
  | _ => none

def opName : Op → String
  | .and => "and" | .or => "or" | .not => "not" | .implies => "implies" | .iff => "iff"
  | .plus => "plus" | .minus => "minus" | .times => "times" | .div => "div"
  | .le => "le" | .lt => "lt" | .eq => "eq"
  | .always => "always" | .sometime => "sometime" | .sometimeBefore => "sometime-before"
  | .sometimeAfter => "sometime-after" | .atMostOnce => "at-most-once"
  | .fluent _ => "fl" | .ifun _ => "ifun" | .dot _ => "dot"

def refToSexp (n : String) (ty : Ty) (sig : List Ty) : Sexp :=
  .list [.atom n, tyToSexp ty, .list (sig.map tyToSexp)]

def varToSexp (v : Var) : Sexp := .list [.atom v.name, tyToSexp v.ty]

partial def exprToSexp : Expr → Sexp
  | .leaf (.boolC b) => .list [.atom "b", ofBool b]
  | .leaf (.intC z) => .list [.atom "i", ofInt z]
  | .leaf (.realC r) => .list [.atom "r", .atom (ratToString r)]
  | .leaf (.obj n t) => .list [.atom "o", .atom n, .atom t]
  | .leaf (.param n t) => .list [.atom "p", .atom n, tyToSexp t]
  | .leaf (.var v) => .list [.atom "v", .atom v.name, tyToSexp v.ty]
  | .leaf (.timing s) => .list [.atom "timing", .atom s]
  | .leaf (.present s) => .list [.atom "present", .atom s]
  | .app (.fluent f) as => .list (.atom "fl" :: refToSexp f.name f.ty f.sig :: as.map exprToSexp)
  | .app (.ifun g) as => .list (.atom "ifun" :: refToSexp g.name g.ty g.sig :: as.map exprToSexp)
  | .app (.dot a) as => .list (.atom "dot" :: .atom a :: as.map exprToSexp)
  | .app op as => .list (.atom (opName op) :: as.map exprToSexp)
  | .quant .ex vs b => .list [.atom "exists", .list (vs.map varToSexp), exprToSexp b]
  | .quant .all vs b => .list [.atom "forall", .list (vs.map varToSexp), exprToSexp b]

def parseVal : Sexp → Option Val
  | .list [.atom "b", v] => v.asBool?.map Val.b
  | .list [.atom "n", .atom q] => (parseRat q).map Val.n
  | .list [.atom "o", .atom n] => some (.o n)
  | _ => none

def valToSexp : Val → Sexp
  | .b x => .list [.atom "b", ofBool x]
  | .n q => .list [.atom "n", .atom (ratToString q)]
  | .o s => .list [.atom "o", .atom s]

def optValToSexp : Option Val → Sexp
  | none => .atom "undef"
  | some v => valToSexp v

/-- `(interp (fl (ref (val*) val)*) (fn (ref (val*) val)*) (par (name val)*) (dom (type val*)*))`;
    anything not listed is undefined (`none`) / empty domain -/
def parseInterp : Sexp → Option Interp
  | .list [.atom "interp", .list (.atom "fl" :: fls), .list (.atom "fn" :: fns),
           .list (.atom "par" :: pars), .list (.atom "dom" :: doms)] => do
    let ent : Sexp → Option ((String × Ty × List Ty) × List Val × Val) := fun e =>
      match e with
      | .list [r, .list as, v] => do
        let rr ← parseRef r
        let aa ← as.mapM parseVal
        let vv ← parseVal v
        some (rr, aa, vv)
      | _ => none
    let flT ← fls.mapM ent
    let fnT ← fns.mapM ent
    let parT ← pars.mapM (fun e => match e with
      | .list [.atom n, v] => (parseVal v).map (fun x => (n, x))
      | _ => none)
    let domT ← doms.mapM (fun e => match e with
      | .list (t :: vs) => do
        let ty ← parseTy t
        let xs ← vs.mapM parseVal
        some (ty, xs)
      | _ => none)
    some {
      fl := fun f as => (flT.find? (fun e => e.1 == (f.name, f.ty, f.sig) && e.2.1 == as)).map (·.2.2)
      fn := fun g as => (fnT.find? (fun e => e.1 == (g.name, g.ty, g.sig) && e.2.1 == as)).map (·.2.2)
      par := fun n => parT.lookup n
      dom := fun t => (domT.lookup t).getD [] }
  | _ => none

def parseTypeEnv : Sexp → Option TypeEnv
  | .list (.atom "types" :: ts) => do
    let fs ← ts.mapM (fun e => match e with
      | .list [.atom n, .atom "_"] => some (n, none)
      | .list [.atom n, .atom f] => some (n, some f)
      | _ => none)
    some { fathers := fs }
  | _ => none

end UPVerif
