import UPVerif.Core.KindOf
import UPVerif.Core.ProblemExt
/-
Model of the `kind` computations of the four `AbstractProblem` subclasses that extend or replace
`Problem.kind`, function by function and in the order of the Python statements:

* `kindOfH`  — `HierarchicalProblem.kind` + `HierarchicalProblem._get_static_and_unused_fluents`
               (htn/hierarchical_problem.py:85, :123), `AbstractTaskNetwork.temporal_constraints /
               non_temporal_constraints / total_order / partial_order` (htn/task_network.py:67 ff.),
               `ordering`, `_build_total_order` (htn/ordering.py:70, :114), `AnyChecker.any`;
* `kindOfC`  — `ContingentProblem.kind` + `ContingentProblem._get_static_and_unused_fluents`
               (contingent/contingent_problem.py), the `SensingAction` branches of
               `_KindFactory.update_problem_kind_action` and `Problem._get_static_and_unused_fluents`;
* `kindOfS`  — `SchedulingProblem.kind` + `SchedulingProblem._get_static_and_unused_fluents`
               (scheduling/scheduling_problem.py), `all_conditions`, `all_effects`;
* `kindOfM`  — `MultiAgentProblem.kind` and its `_update_*` helpers (multi_agent/ma_problem.py:335 ff.).

The first three run the `_KindFactory` of `Core/KindOf.lean` (same `Prog` / `run` / `finalize`); the
multi-agent computation is a separate, smaller one.  As in `Core/KindOf.lean` the answers of
`LinearChecker` / `Simplifier` are a parameter (`Facts`).

The model mirrors the code AFTER the repairs `notes/patches/C10-htn-kind-positions.patch`,
`C10-contingent-used-fluents.patch`, `C10-scheduling-kind-positions.patch` (positions the subclasses
never scanned).
`MultiAgentProblem.kind` is mirrored as found (open finding D-C10-MA).
-/
namespace UPVerif.KindOf
open UPVerif

/-! ## hierarchical problems -/

mutual
/-- `AnyChecker(lambda e: e.is_timing_exp()).any(e)` (walkers/any.py:24): some sub-expression
    (arguments and quantifier bodies included) is a TIMING_EXP -/
def timeAny : Expr → Bool
  | .leaf l => (match l with
    | .timing _ => true
    | _ => false)
  | .app _ as => timeAnyList as
  | .quant _ _ b => timeAny b
def timeAnyList : List Expr → Bool
  | [] => false
  | e :: es => timeAny e || timeAnyList es
end

/-- `AbstractTaskNetwork.temporal_constraints` -/
def temporalCs (cs : List Expr) : List Expr := cs.filter timeAny
/-- `AbstractTaskNetwork.non_temporal_constraints` -/
def nonTemporalCs (cs : List Expr) : List Expr := cs.filter (fun c => !timeAny c)

/-- the body of the loop of `ordering` (htn/ordering.py:80-96): the precedence `(a, b)` when the
    constraint is `end(a) < start(b)` with zero delays, `none` = `break` -/
def precedenceOf : Expr → Option (String × String)
  | .app .lt [.leaf (.timing l), .leaf (.timing r)] => do
    let lt ← parseHTiming l
    let rt ← parseHTiming r
    if lt.delay != 0 || rt.delay != 0 then none
    else if lt.kind != .end_ || rt.kind != .start then none
    else match lt.container, rt.container with
      | some a, some b => some (a, b)
      | _, _ => none
  | _ => none

/-- the `for c in time_constraints` loop of `ordering`: stops at the first constraint that is not
    a precedence -/
def precedences : List Expr → List (String × String)
  | [] => []
  | c :: cs =>
    match precedenceOf c with
    | some p => p :: precedences cs
    | none => []

/-- `_build_total_order` (htn/ordering.py:114); only whether it returns a list is observed.
    `pending` is the set of pending tasks (duplicate-free list); fuel = number of pending tasks
    (each iteration removes one). -/
def buildTotalOrder : Nat → List String → List (String × String) → Bool
  | 0, pending, _ => pending.isEmpty
  | n + 1, pending, precs =>
    if pending.isEmpty then true
    else
      match pending.filter (fun t => precs.all (fun p => p.2 != t)) with
      | [first] => buildTotalOrder n (pending.erase first) (precs.filter (fun p => p.1 != first))
      | _ => false

/-- `lvl(tn)` of `HierarchicalProblem.kind`: 0 = TO, 1 = PO, 2 = TEMPORAL
    (`total_order()` / `partial_order()` → `_ordering()` → `ordering(task_ids, temporal_constraints)`) -/
def orderLvl (subtasks : List Subtask) (constraints : List Expr) : Nat :=
  let tcs := temporalCs constraints
  let precs := precedences tcs
  if precs.length == tcs.length then
    let tasks := (subtasks.map (·.ident)).eraseDups
    if buildTotalOrder tasks.length tasks precs then 0 else 1
  else 2

/-- the `Problem` part of a hierarchical problem -/
def HProblem.toK (H : HProblem) : KProblem := H.base

def subtaskReads (sts : List Subtask) : List FluentRef := sts.flatMap (fun st => exprsReads st.args)

/-- fluents removed from `unused_fluents` by `HierarchicalProblem._get_static_and_unused_fluents` -/
def hReads (H : HProblem) : List FluentRef :=
  H.methods.flatMap (fun m => exprsReads m.pre ++ exprsReads m.constraints ++ subtaskReads m.subtasks)
  ++ exprsReads H.tn.constraints ++ subtaskReads H.tn.subtasks

/-- `HierarchicalProblem._get_static_and_unused_fluents` -/
def staticUnusedH (H : HProblem) : SU :=
  let s := staticUnused H.base
  { s with unused := s.unused.filter (fun f => !(hReads H).contains f) }

section hier
variable (F : Facts) (H : HProblem)

/-- the `if len(non_temporal) > 0: …` block followed by the scan of the temporal constraints -/
def updConstraints (cs : List Expr) : Prog :=
  .seq [
    .when (!(nonTemporalCs cs).isEmpty)
      (.seq (.set "TASK_NETWORK_CONSTRAINTS" :: (nonTemporalCs cs).map (updExpr F))),
    .seq ((temporalCs cs).map (updExpr F)) ]

/-- the body of `for method in self.methods` (without the ordering level) -/
def updMethod (m : Method) : Prog :=
  .seq [
    .seq (m.params.map (fun p => updType H.base p.2)),
    .seq (m.pre.map (fun c => .seq [.set "METHOD_PRECONDITIONS", updExpr F c])),
    updConstraints F m.constraints ]

/-- `ordering_kind` at the end of the method loop -/
def orderingKind : Nat :=
  H.methods.foldl (fun k m => max k (orderLvl m.subtasks m.constraints)) (orderLvl H.tn.subtasks H.tn.constraints)

/-- the statements of `HierarchicalProblem.kind` after the two problem-class updates -/
def hProg : Prog :=
  .seq [
    .seq (H.tasks.map (fun t => .seq (t.2.map (fun p => updType H.base p.2)))),
    .when (!H.tn.vars.isEmpty)
      (.seq (.set "INITIAL_TASK_NETWORK_VARIABLES" :: H.tn.vars.map (fun v => updType H.base v.2))),
    updConstraints F H.tn.constraints,
    .seq (H.methods.map (updMethod F H)),
    (match orderingKind H with
     | 0 => .set "TASK_ORDER_TOTAL"
     | 1 => .set "TASK_ORDER_PARTIAL"
     | _ => .seq [.set "TASK_ORDER_TEMPORAL", .set "CONTINUOUS_TIME"]) ]

/-- `factory.kind.set_problem_class("HIERARCHICAL"); factory.kind.unset_problem_class("ACTION_BASED")` -/
def hClass (k : KS) : KS := ("HIERARCHICAL" :: k).filter (fun g => g != "ACTION_BASED")

/-- `HierarchicalProblem.kind`; `none` = "Parameter not groundable!" -/
def kindOfH : Option KS :=
  match undefFluents H.base H.base.fluents with
  | none => none
  | some undef =>
    some (finalize H.base (run (hProg F H) (hClass (run (kindProg F H.base (staticUnusedH H) undef) []))))

end hier

/-! ## contingent problems -/

/-- all actions of the problem as the `_KindFactory` sees them: a `SensingAction` is an
    `InstantaneousAction` -/
def CProblem.toK (C : CProblem) : KProblem :=
  { C.base with iactions := C.base.iactions ++ C.sensing.map (·.act) }

/-- fluents removed from `unused_fluents` because they are observed
    (`Problem._get_static_and_unused_fluents`, `SensingAction` branch) or occur in an initial
    constraint (`ContingentProblem._get_static_and_unused_fluents`) -/
def cReads (C : CProblem) : List FluentRef :=
  C.sensing.flatMap (fun a => exprsReads a.observed)
  ++ (C.orConstraints ++ C.oneofConstraints).flatMap exprsReads

def staticUnusedC (C : CProblem) : SU :=
  let s := staticUnused C.toK
  { s with unused := s.unused.filter (fun f => !(cReads C).contains f) }

/-- `ContingentProblem.kind`: `super().kind` — in which `update_problem_kind_action` sets CONTINGENT
    for every sensing action — then `set_problem_class("CONTINGENT")` -/
def kindOfC (F : Facts) (C : CProblem) : Option KS :=
  match undefFluents C.toK C.toK.fluents with
  | none => none
  | some undef =>
    some ("CONTINGENT" :: finalize C.toK
      (run (.seq [kindProg F C.toK (staticUnusedC C) undef,
                  .seq (C.sensing.map (fun _ => .set "CONTINGENT"))]) []))

/-! ## scheduling problems -/

def Activity.toDAct (a : Activity) : DAct :=
  { name := a.name, params := a.params, durLo := a.durLo, durHi := a.durHi, conds := a.conds,
    effs := a.effs, ceffs := [], sims := [] }

/-- constraints and their scope expressions, flattened -/
def scopedExprs (cs : List (Expr × List Expr)) : List Expr := cs.flatMap (fun c => c.1 :: c.2)

/-- a scheduling problem read as a temporal planning problem: activities as durative actions, the
    timed conditions / effects of the base chronicle as timed goals / timed effects, constraints and
    scope expressions as goals.  The MODEL only reads `types`, `objects`, `fluents`, `init` and the two
    flags of it (`updType`, `undefFluents`, `finalize`); the specification reads all of it. -/
def SProblem.toK (X : SProblem) : KProblem :=
  { types := X.types, objects := X.objects, fluents := X.fluents, init := X.init,
    iactions := [], dactions := X.activities.map Activity.toDAct, processes := [], events := [],
    timedEffects := X.effs, timedGoals := X.conds,
    goals := scopedExprs X.constraints ++ X.activities.flatMap (fun a => scopedExprs a.constraints),
    traj := [], metrics := X.metrics, discreteTime := X.discreteTime, selfOverlapping := X.selfOverlapping }

/-- targets of `all_effects()` -/
def sWritten (X : SProblem) : List FluentRef :=
  X.effs.filterMap (fun te => targetRef te.2.fluent)
  ++ X.activities.flatMap (fun a => a.effs.filterMap (fun te => targetRef te.2.fluent))

/-- `SchedulingProblem._get_static_and_unused_fluents`: static fluents only, every fluent is used -/
def staticUnusedS (X : SProblem) : SU :=
  { static := (X.fluents.map (·.ref)).filter (fun f => !(sWritten X).contains f),
    unused := [], inDurations := [], inCosts := [] }

section sched
variable (F : Facts) (X : SProblem) (S : SU)

/-- the loop body over scoped constraints (base chronicle and activities) -/
def updScoped (c : Expr × List Expr) : Prog :=
  .seq [
    updExpr F c.1,
    .when (!c.2.isEmpty) (.set "SCOPED_CONSTRAINTS"),
    .seq (c.2.map (updExpr F)) ]

/-- the body of `for act in self.activities` -/
def updActivity (a : Activity) : Prog :=
  .seq [
    .when a.optional (.set "OPTIONAL_ACTIVITIES"),
    updDuration S a.durLo a.durHi,
    .seq (a.params.map (fun p => updParam X.toK p.2)),
    .seq (a.effs.map (updTimedEff F X.toK S)),
    .seq (a.conds.map (updTimedCond F)),
    .seq (a.constraints.map (updScoped F)) ]

/-- `_KindFactory.__init__` followed by `SchedulingProblem.kind` -/
def sProg (undef : List FluentDecl) : Prog :=
  .seq [
    -- _KindFactory.__init__
    .set "SCHEDULING",
    .set SNP,
    .seq (X.metrics.map (updMetric F S)),
    .seq (X.fluents.map (updFluent X.toK S)),
    .seq (X.objects.map (fun o => updType X.toK (.user o.2))),
    -- SchedulingProblem.kind
    .set "CONTINUOUS_TIME",
    .when (!X.conds.isEmpty) (.set "TIMED_GOALS"),
    .when (!X.effs.isEmpty) (.set "TIMED_EFFECTS"),
    .seq (X.vars.map (fun p => updParam X.toK p.2)),
    -- all_conditions(): base conditions, then the conditions of every activity
    .seq ((X.conds.map (·.2) ++ X.activities.flatMap (fun a => a.conds.map (·.2))).map (updExpr F)),
    .seq (X.constraints.map (updScoped F)),
    .seq (X.effs.map (fun te => updEffect F X.toK S te.2)),
    .seq (X.activities.map (updActivity F X S)),
    updInit undef ]

end sched

/-- `SchedulingProblem.kind` -/
def kindOfS (F : Facts) (X : SProblem) : Option KS :=
  match undefFluents X.toK X.fluents with
  | none => none
  | some undef => some (finalize X.toK (run (sProg F X (staticUnusedS X) undef) []))

/-! ## multi-agent problems -/

/-- the type environment as a `KProblem` (only `types` is read, by `updType`) -/
def MProblem.env (M : MProblem) : KProblem :=
  { types := M.types, objects := M.objects, fluents := [], init := [], iactions := [], dactions := [],
    processes := [], events := [], timedEffects := [], timedGoals := [], goals := [], traj := [],
    metrics := [], discreteTime := false, selfOverlapping := false }

section ma
variable (M : MProblem)

/-- `_update_problem_kind_condition` -/
def mCond (e : Expr) : Prog :=
  let ops := opsOf e
  .seq [
    .when (ops.contains .equals) (.set "EQUALITIES"),
    .when (ops.contains .not) (.set "NEGATIVE_CONDITIONS"),
    .when (ops.contains .or || ops.contains .implies) (.set "DISJUNCTIVE_CONDITIONS"),
    .when (ops.contains .exists) (.set "EXISTENTIAL_CONDITIONS"),
    .when (ops.contains .forall) (.set "UNIVERSAL_CONDITIONS") ]

/-- `_update_problem_kind_effect` -/
def mEffect (e : Effect) : Prog :=
  .seq [
    .when e.isConditional (.seq [mCond e.cond, .set "CONDITIONAL_EFFECTS"]),
    .when (!e.forall_.isEmpty) (.set "FORALL_EFFECTS"),
    (match e.kind with
     | .increase => .set "INCREASE_EFFECTS"
     | .decrease => .set "DECREASE_EFFECTS"
     | .assign => .skip) ]

/-- `_update_problem_kind_fluent` -/
def mFluent (d : FluentDecl) : Prog :=
  let t := d.ref.ty
  .seq [
    updType M.env t,
    (match t with
     | .int lb ub => .seq [.when (lb.isSome || ub.isSome) (.set "BOUNDED_TYPES"), .set "INT_FLUENTS"]
     | .real lb ub => .seq [.when (lb.isSome || ub.isSome) (.set "BOUNDED_TYPES"), .set "REAL_FLUENTS"]
     | .user _ => .set "OBJECT_FLUENTS"
     | _ => .skip),
    .seq (d.ref.sig.map (fun pt => updType M.env pt)) ]

/-- `_update_problem_kind_action`, `InstantaneousAction` branch -/
def mIAct (a : IAct) : Prog :=
  .seq [
    .seq (a.params.map (fun p => updType M.env p.2)),
    .seq (a.pre.map mCond),
    .seq (a.effs.map mEffect) ]

/-- `_update_problem_kind_action`, `DurativeAction` branch: nothing of the action is looked at -/
def mDAct (a : DAct) : Prog :=
  .seq [
    .seq (a.params.map (fun p => updType M.env p.2)),
    .set "CONTINUOUS_TIME" ]

/-- `_update_agent_goal_kind` -/
def mAgentGoals (ag : MAgent) : Prog :=
  .seq [
    .when (!ag.publicGoals.isEmpty) (.set "AGENT_SPECIFIC_PUBLIC_GOAL"),
    .when (!ag.privateGoals.isEmpty) (.set "AGENT_SPECIFIC_PRIVATE_GOAL"),
    .seq ((ag.privateGoals ++ ag.publicGoals).map mCond) ]

/-- `MultiAgentProblem.kind` -/
def mProg : Prog :=
  .seq [
    .set "ACTION_BASED_MULTI_AGENT",
    .seq (M.agents.map (fun ag => .seq (ag.fluents.map (mFluent M)))),
    .seq (M.envFluents.map (mFluent M)),
    .seq (M.agents.map (fun ag => .seq [
      mAgentGoals ag,
      .seq (ag.iactions.map (mIAct M)),
      .seq (ag.dactions.map (mDAct M)) ])),
    .seq (M.goals.map mCond) ]

def kindOfM : KS := run (mProg M) []

end ma

/-! ### what `MultiAgentProblem.kind` does not look at (open finding D-C10-MA)

The statements of `_KindFactory` that have no counterpart in `MultiAgentProblem.kind`, collected
into one program over the reading `MProblem.toK`; `maBlind M` is what they would add.  The partial
completeness theorem for multi-agent problems excludes exactly the features in `maBlind M`. -/

/-- a multi-agent problem read as one planning problem: the fluents of the environment and of all
    agents, the actions of all agents, the shared goals and the goals of all agents.  Initial values
    are not part of the reading (they are kept per agent through `Dot` expressions).  Not used by
    `kindOfM`. -/
def MProblem.toK (M : MProblem) : KProblem :=
  { types := M.types, objects := M.objects,
    fluents := M.envFluents ++ M.agents.flatMap (·.fluents), init := [],
    iactions := M.agents.flatMap (·.iactions), dactions := M.agents.flatMap (·.dactions),
    processes := [], events := [], timedEffects := [], timedGoals := [],
    goals := M.goals ++ M.agents.flatMap (fun ag => ag.privateGoals ++ ag.publicGoals),
    traj := [], metrics := [], discreteTime := false, selfOverlapping := false }

/-- the second statement of `update_action_parameter` -/
def paramKindProg (pt : Ty) : Prog :=
  match pt with
  | .bool => .set "BOOL_ACTION_PARAMETERS"
  | .real _ _ => .set "REAL_ACTION_PARAMETERS"
  | .int lb ub =>
    if lb.isNone || ub.isNone then .set "UNBOUNDED_INT_ACTION_PARAMETERS"
    else .set "BOUNDED_INT_ACTION_PARAMETERS"
  | _ => .skip

/-- the parameter-kind statement of the signature loop of `update_problem_kind_fluent` -/
def sigKindProg (pt : Ty) : Prog :=
  match pt with
  | .bool => .set "BOOL_FLUENT_PARAMETERS"
  | .int _ _ => .set "BOUNDED_INT_FLUENT_PARAMETERS"
  | _ => .skip

/-- the statements of `update_problem_kind_effect` that look at the VALUE of an effect -/
def effValueProg (S : SU) (e : Effect) : Prog :=
  let value := e.value
  let fiv := fluentRefs value
  let ops := opsOf value
  let numAssign : Prog := fluentsIn S fiv "STATIC_FLUENTS_IN_NUMERIC_ASSIGNMENTS" "FLUENTS_IN_NUMERIC_ASSIGNMENTS"
  let incdec : Prog := .seq [
      .when (ops.contains .ifun) (.set "INTERPRETED_FUNCTIONS_IN_NUMERIC_ASSIGNMENTS"),
      .when (!isNumConst value) numAssign ]
  match e.kind with
  | .increase => incdec
  | .decrease => incdec
  | .assign =>
    match tcOf value with
    | .int | .real => .seq [
        .when (ops.contains .ifun) (.set "INTERPRETED_FUNCTIONS_IN_NUMERIC_ASSIGNMENTS"),
        numAssign ]
    | .bool => .seq [
        .when (ops.contains .ifun) (.set "INTERPRETED_FUNCTIONS_IN_BOOLEAN_ASSIGNMENTS"),
        fluentsIn S fiv "STATIC_FLUENTS_IN_BOOLEAN_ASSIGNMENTS" "FLUENTS_IN_BOOLEAN_ASSIGNMENTS" ]
    | .user => .seq [
        .when (ops.contains .ifun) (.set "INTERPRETED_FUNCTIONS_IN_OBJECT_ASSIGNMENTS"),
        fluentsIn S fiv "STATIC_FLUENTS_IN_OBJECT_ASSIGNMENTS" "FLUENTS_IN_OBJECT_ASSIGNMENTS" ]
    | _ => .skip

/-- of an instantaneous effect: the types of the forall variables and the value -/
def mBlindEffect (K : KProblem) (S : SU) (e : Effect) : Prog :=
  .seq [
    .when (!e.forall_.isEmpty) (.seq (e.forall_.map (fun v => updType K v.ty))),
    effValueProg S e ]

def mBlindProg (F : Facts) (M : MProblem) (S : SU) : Prog :=
  .seq [
    -- the types of the objects
    .seq (M.objects.map (fun o => updType M.toK (.user o.2))),
    -- Boolean / integer fluent parameters
    .seq (M.toK.fluents.map (fun d => .seq (d.ref.sig.map sigKindProg))),
    -- instantaneous actions: parameter kinds, types of forall variables, effect values
    .seq (M.toK.iactions.map (fun a => .seq [
      .seq (a.params.map (fun p => paramKindProg p.2)),
      .seq (a.effs.map (mBlindEffect M.toK S)) ])),
    -- durative actions: everything but the types of the parameters
    .seq (M.toK.dactions.map (fun a => .seq [
      .seq (a.params.map (fun p => paramKindProg p.2)),
      updDuration S a.durLo a.durHi,
      .seq (a.conds.map (updTimedCond F)),
      .seq (a.effs.map (updTimedEff F M.toK S)),
      .seq (a.ceffs.map updTimedCEff),
      contLoop F (a.ceffs.map (·.2)) ])) ]

/-- the features only the unscanned positions of the problem would contribute (for one fixed answer
    of the walkers: none of the statement's features depends on it) -/
def maBlind (M : MProblem) : KS :=
  run (mBlindProg { lin := fun _ => true, simpFluentExps := fun _ => [] } M (staticUnused M.toK)) []

end UPVerif.KindOf
