import UPVerif.Core.Expr
/-
Reference (mathematical) denotation of expressions, independent of any walker:
strict in undefinedness (a fluent without value, a division by zero, an ill-typed operand or an
arity error anywhere makes the whole expression undefined = `none`), numbers are exact rationals,
quantifiers range over the finite domain the interpretation assigns to the variable's type.

This is the semantics C11/C12/C13/C15/C17 are stated against.  The simulator's own evaluation
(`StateEvaluator`, bottom-up, with early exit inside quantifiers) is modelled separately in
`Core/Eval.lean`.
-/
namespace UPVerif

inductive Val where
  | b (x : Bool)
  | n (q : Rat)
  | o (name : String)
  deriving DecidableEq, Repr, Inhabited

structure Interp where
  /-- value of a ground fluent application; `none` = no value -/
  fl : FluentRef → List Val → Option Val
  /-- interpreted functions as (partial) tables -/
  fn : FunRef → List Val → Option Val
  /-- action-parameter values by name -/
  par : String → Option Val
  /-- finite domain of a quantifiable type, in problem order -/
  dom : Ty → List Val

abbrev VEnv := List (Var × Val)

def VEnv.get (ρ : VEnv) (v : Var) : Option Val := (ρ.find? (fun p => p.1 == v)).map (·.2)

/-- all assignments of the variables `vs` (cartesian product of their domains, first variable
    outermost — the order of `itertools.product`) -/
def assignments (ι : Interp) : List Var → List VEnv
  | [] => [[]]
  | v :: vs => (ι.dom v.ty).flatMap (fun x => (assignments ι vs).map (fun a => (v, x) :: a))

def allBools : List Val → Option (List Bool)
  | [] => some []
  | .b x :: r => (allBools r).map (x :: ·)
  | _ :: _ => none
def allNums : List Val → Option (List Rat)
  | [] => some []
  | .n x :: r => (allNums r).map (x :: ·)
  | _ :: _ => none

def denLeaf (ι : Interp) (ρ : VEnv) : Leaf → Option Val
  | .boolC b => some (.b b)
  | .intC z => some (.n z)
  | .realC r => some (.n r)
  | .obj name _ => some (.o name)
  | .param name _ => ι.par name
  | .var v => ρ.get v
  | .timing _ => none
  | .present _ => none

def denOp (ι : Interp) : Op → List Val → Option Val
  | .and, vs => (allBools vs).map (fun bs => .b (bs.all id))
  | .or, vs => (allBools vs).map (fun bs => .b (bs.any id))
  | .not, [.b x] => some (.b (!x))
  | .implies, [.b x, .b y] => some (.b (!x || y))
  | .iff, [.b x, .b y] => some (.b (x == y))
  | .plus, vs => (allNums vs).map (fun qs => .n (qs.foldl (· + ·) 0))
  | .times, vs => (allNums vs).map (fun qs => .n (qs.foldl (· * ·) 1))
  | .minus, [.n x, .n y] => some (.n (x - y))
  | .div, [.n x, .n y] => if y = 0 then none else some (.n (x / y))
  | .le, [.n x, .n y] => some (.b (decide (x ≤ y)))
  | .lt, [.n x, .n y] => some (.b (decide (x < y)))
  | .eq, [.n x, .n y] => some (.b (decide (x = y)))
  | .eq, [.o x, .o y] => some (.b (x == y))
  | .fluent f, vs => ι.fl f vs
  | .ifun g, vs => ι.fn g vs
  | _, _ => none

def allBoolsOpt : List (Option Val) → Option (List Bool)
  | [] => some []
  | some (.b x) :: r => (allBoolsOpt r).map (x :: ·)
  | _ :: _ => none

mutual
def den (ι : Interp) (ρ : VEnv) : Expr → Option Val
  | .leaf l => denLeaf ι ρ l
  | .app op args => (denList ι ρ args).bind (denOp ι op)
  | .quant q vs body =>
    match allBoolsOpt ((assignments ι vs).map (fun a => den ι (a ++ ρ) body)) with
    | none => none
    | some bs => some (.b (match q with | .ex => bs.any id | .all => bs.all id))
def denList (ι : Interp) (ρ : VEnv) : List Expr → Option (List Val)
  | [] => some []
  | e :: es =>
    match den ι ρ e, denList ι ρ es with
    | some v, some vs => some (v :: vs)
    | _, _ => none
end

end UPVerif
