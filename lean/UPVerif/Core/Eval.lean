import UPVerif.Core.Expr
import UPVerif.Core.Den
/-
`StateEvaluator` (unified_planning/model/walkers/state_evaluator.py) on top of `QuantifierSimplifier`
(quantifier_simplifier.py) on top of `Simplifier` (simplifier.py) on top of `DagWalker` (dag.py):
evaluation of a GROUND expression in a state.

* the walk is bottom-up and strict: every child of a non-quantifier node is evaluated before the
  node (`DagWalker._process_stack`), so a fluent without value ANYWHERE outside a quantifier body
  makes the evaluation fail, even under a false conjunct;
* children are popped from a stack, i.e. evaluated RIGHT TO LEFT (this only decides WHICH error
  escapes when several sub-expressions fail);
* on constant children the `Simplifier.walk_*` methods compute the usual operators with exact
  arithmetic (`int`/`Fraction`; values are modelled as `Rat`, the Int/Real tag of a constant is
  not observable through `constant_value()` comparisons);
* a quantifier is NOT expanded: `QuantifierSimplifier.walk_exists/walk_forall` iterate
  `itertools.product(problem.objects(t) for t in variable types)` in order, evaluate the body with
  a fresh evaluator under the extended variable assignment and stop at the first witness /
  counter-example (early exit: later instances are never read); over a type without objects
  `Exists` is false and `Forall` true whatever the body (repaired: the constant-body shortcut used to
  ignore the empty domain);
* errors: `UPStateMissingFluentError` (`missing`), `ZeroDivisionError` (`zeroDiv`), anything else —
  unbound variable, action parameter, ill-typed operands, failed `assert` — (`other`).
-/
namespace UPVerif

inductive EvalErr where
  | missing | zeroDiv | other
  deriving DecidableEq, Repr, Inhabited

instance {ε α : Type} [DecidableEq ε] [DecidableEq α] : DecidableEq (Except ε α) := fun a b =>
  match a, b with
  | .ok x, .ok y => if h : x = y then isTrue (by rw [h]) else isFalse (fun e => h (by cases e; rfl))
  | .error x, .error y => if h : x = y then isTrue (by rw [h]) else isFalse (fun e => h (by cases e; rfl))
  | .ok _, .error _ => isFalse (fun e => by cases e)
  | .error _, .ok _ => isFalse (fun e => by cases e)

/-- key of a ground fluent: `FluentExp(f, constant args)` -/
abbrev GKey := FluentRef × List Val

/-- what an evaluation can see of the world -/
structure EvalCtx where
  /-- `state.get_value(f(args))`; `none` = `UPStateMissingFluentError` -/
  get : GKey → Option Val
  /-- `problem.objects(UserType(t))` (names, declaration order, subtypes included) -/
  objs : String → List String
  /-- interpreted functions as tables (user-supplied callables are not modelled) -/
  fn : FunRef → List Val → Option Val

/-- `problem.objects(v.type)` for a quantified variable; a non-user type has no objects
    (`_UserType.is_subtype` never reaches it) -/
def EvalCtx.domain (c : EvalCtx) : Ty → List Val
  | .user t => (c.objs t).map Val.o
  | _ => []

/-- `itertools.product(*domains)` zipped with the variables: first variable outermost.  The
    bindings are stored so that a LATER duplicate variable shadows an earlier one
    (`dict(zip(vars, objs))`), and all of them shadow the outer assignment (`copy.update`). -/
def qAssignments (c : EvalCtx) : List Var → List VEnv
  | [] => [[]]
  | v :: vs => (c.domain v.ty).flatMap (fun x => (qAssignments c vs).map (fun a => a ++ [(v, x)]))

/-- `walk_exists` loop: first `true` wins; a non-Boolean body result is a failed `assert` -/
def existsLoop (f : VEnv → Except EvalErr Val) : List VEnv → Except EvalErr Val
  | [] => .ok (.b false)
  | a :: as =>
    match f a with
    | .error e => .error e
    | .ok (.b true) => .ok (.b true)
    | .ok (.b false) => existsLoop f as
    | .ok _ => .error .other

/-- `walk_forall` loop: first `false` wins -/
def forallLoop (f : VEnv → Except EvalErr Val) : List VEnv → Except EvalErr Val
  | [] => .ok (.b true)
  | a :: as =>
    match f a with
    | .error e => .error e
    | .ok (.b false) => .ok (.b false)
    | .ok (.b true) => forallLoop f as
    | .ok _ => .error .other

def evalLeaf (ρ : VEnv) : Leaf → Except EvalErr Val
  | .boolC b => .ok (.b b)
  | .intC z => .ok (.n z)
  | .realC r => .ok (.n r)
  | .obj name _ => .ok (.o name)
  | .param _ _ => .error .other          -- walk_param_exp raises UPProblemDefinitionError
  | .var v => match ρ.get v with         -- walk_variable_exp
    | some x => .ok x
    | none => .error .other
  | .timing _ => .error .other
  | .present _ => .error .other

/-- the `Simplifier.walk_*` methods on constant children (`denOp` of `Core/Den.lean` is the same
    table; here the reason of a failure is kept) -/
def evalOp (c : EvalCtx) : Op → List Val → Except EvalErr Val
  | .fluent f, vs => match c.get (f, vs) with      -- walk_fluent_exp: state.get_value
    | some v => .ok v
    | none => .error .missing
  | .div, [.n x, .n y] => if y = 0 then .error .zeroDiv else .ok (.n (x / y))
  | op, vs =>
    match denOp { fl := fun _ _ => none, fn := c.fn, par := fun _ => none, dom := fun _ => [] } op vs with
    | some v => .ok v
    | none => .error .other

mutual
/-- `StateEvaluator.evaluate(e, state, ρ)` -/
def eval (c : EvalCtx) (ρ : VEnv) : Expr → Except EvalErr Val
  | .leaf l => evalLeaf ρ l
  | .app op args =>
    match evalList c ρ args with
    | .error e => .error e
    | .ok vs => evalOp c op vs
  | .quant q vs body =>
    -- the constant-body shortcut of `walk_exists`/`walk_forall` (taken, after the repair, only when
    -- every variable has an object to range over) returns what the loop returns on a constant body
    match q with
    | .ex => existsLoop (fun a => eval c (a ++ ρ) body) (qAssignments c vs)
    | .all => forallLoop (fun a => eval c (a ++ ρ) body) (qAssignments c vs)
/-- children of one node: the LAST child is evaluated first -/
def evalList (c : EvalCtx) (ρ : VEnv) : List Expr → Except EvalErr (List Val)
  | [] => .ok []
  | e :: es =>
    match evalList c ρ es with
    | .error x => .error x
    | .ok vs =>
      match eval c ρ e with
      | .error x => .error x
      | .ok v => .ok (v :: vs)
end

/-- `evaluate(e).bool_constant_value()` as used on conditions, goals and invariants:
    a non-Boolean result is a failed `assert` -/
def evalBool (c : EvalCtx) (e : Expr) : Except EvalErr Bool :=
  match eval c [] e with
  | .error x => .error x
  | .ok (.b b) => .ok b
  | .ok _ => .error .other

/-- value of a constant expression (`FNode.is_constant()` + `constant_value()`) -/
def constVal? : Expr → Option Val
  | .leaf (.boolC b) => some (.b b)
  | .leaf (.intC z) => some (.n z)
  | .leaf (.realC r) => some (.n r)
  | .leaf (.obj n _) => some (.o n)
  | _ => none

end UPVerif
