import UPVerif.Core.Sim
import UPVerif.Core.ArgLit
/-
Action instances whose actual parameters are not all objects.

`Core/Sim.lean` (properties C01/C02, and the compiler properties built on it) instantiates an action with
the OBJECTS named by `args` (`Sim.paramSubst`, `Sim.instancesOf`: "action parameters range over user types").
`SequentialPlanValidator.supported_kind()` (plan_validator.py:109-117) also contains
`BOOL_ACTION_PARAMETERS`, `BOUNDED_INT_ACTION_PARAMETERS`, `UNBOUNDED_INT_ACTION_PARAMETERS` and
`REAL_ACTION_PARAMETERS`.  This file is the typed reading of an instance used by the validator model
(`Core/Validate.lean`, property C03): an actual parameter is carried as the STRING that spells the
constant, and is read according to the TYPE of the formal parameter.  Nothing in `Core/Sim.lean` changes;
for actions whose parameters are all user-typed the definitions below coincide with `Sim.paramSubst`,
`Sim.ground`, `Sim.instancesOf` (`Lemmas/ArgLitLemmas.lean`).
-/
namespace UPVerif.Sim
open UPVerif UPVerif.Expr

/-- the constant spelled by `s` as the actual value of a formal ACTION parameter of type `t`
    (`ActionInstance.actual_parameters[i]`, a constant FNode whose type `ActionInstance.__init__`,
    plans/plan.py, checked against the formal parameter): the object named `s` for a user type, the
    Boolean / integer constant for `bool` / `int`; for `real` the integer constant when `s` has no
    denominator (Python `int` → `Int`), else the real constant (`Fraction` → `Real`); spellings in
    `Core/ArgLit.lean`.  A string that spells no constant of the type is read as an object name, as
    for user types. -/
def argExpr (P : Problem) : Ty → String → Expr
  | .bool, s => if s = "true" then Expr.tt else if s = "false" then Expr.ff else objExpr P s
  | .int _ _, s => (match ArgLit.parseInt s.toList with
    | some z => Expr.int z
    | none => objExpr P s)
  | .real _ _, s => (match ArgLit.parseNum s.toList with
    | some n => n.toExpr
    | none => objExpr P s)
  | _, s => objExpr P s

/-- `dict(zip(action.parameters, actual_parameters))` (sequential_simulator.py:671, utils.py
    `create_action_with_given_subs`) with the actual parameters read by type -/
def paramSubstT (P : Problem) (a : Action) (args : List String) : Subst :=
  (a.params.zip args).map (fun pa => (.leaf (.param pa.1.1 pa.1.2), argExpr P pa.1.2 pa.2))

/-- `GrounderHelper.ground_action` → `create_action_with_given_subs` (`Sim.ground`, same body) on the
    typed substitution -/
def groundT (W : World) (a : Action) (args : List String) : Except EvalErr (Option GAction) :=
  let σ := paramSubstT W.P a args
  let pre := a.pre.map (substE σ)
  match groundEffects W σ a.effs ⟨[], []⟩ [] with
  | .error x => .error x
  | .ok none => .ok none
  | .ok (some effs) =>
    match simplifyPre W pre with
    | none => .ok none
    | some pre' => .ok (some { pre := pre', effs := effs })

/-- `domain_size` / `domain_item` (model/types.py:250-305) for a formal action parameter: the objects
    of a user type, `[True, False]` for `bool` (`Bool(idx == 0)`), `lb … ub` for a bounded integer
    type; an unbounded or real type is not groundable (`UPProblemDefinitionError`, here: no instance) -/
def paramDomain (P : Problem) : Ty → List String
  | .bool => ["true", "false"]
  | .int (some lb) (some ub) => (List.range (ub - lb + 1).toNat).map (fun (i : Nat) => ArgLit.intStr (lb + Int.ofNat i))
  | t => tyDomain P t

/-- `GrounderHelper.get_possible_parameters` (grounder.py:192, no pruning) with Boolean and
    bounded-integer parameters enumerated -/
def instancesOfT (P : Problem) (a : Action) : List (List String) :=
  cartesian (a.params.map (fun p => paramDomain P p.2))

end UPVerif.Sim
