import UPVerif.Core.KindOf
/-
Problem syntax of the four `AbstractProblem` subclasses whose `kind` extends or replaces
`Problem.kind` — exactly the parts those computations read:

* `HProblem`  — `unified_planning/model/htn/hierarchical_problem.py` (`HierarchicalProblem`): a `Problem`
  plus abstract tasks, methods (`htn/method.py`) and the initial task network (`htn/task_network.py`);
* `CProblem`  — `model/contingent/contingent_problem.py` (`ContingentProblem`): a `Problem` whose actions
  may be `SensingAction`s (`contingent/sensing_action.py`) plus the `or` / `oneof` initial constraints;
* `SProblem`  — `model/scheduling/scheduling_problem.py` (`SchedulingProblem`): fluents, objects, initial
  values, metrics, time-model flags, the base chronicle (`scheduling/chronicle.py`: variables, timed
  conditions and effects, scoped constraints) and the activities (`scheduling/activity.py`);
* `MProblem`  — `model/multi_agent/ma_problem.py` (`MultiAgentProblem`): objects, environment fluents,
  agents (`multi_agent/agent.py`: fluents, instantaneous and durative actions, public / private goals)
  and the shared goals.

`Core/Problem.lean` and its wire format are untouched; everything here builds on the local syntax of
`Core/KindOf.lean` (`KProblem`, `IAct`, `DAct`, `Timing`, `Interval`, …).  As there, dict-of-lists
containers are flattened to lists of pairs and action lists are split by class: the kind computations
only add features (and remove SIMPLE_NUMERIC_PLANNING / ACTION_BASED / CONTINUOUS_TIME at fixed
places), so neither grouping nor interleaving is observable.

A TIMING_EXP leaf stays the opaque `Leaf.timing repr` of `Core/Expr.lean`; in the payloads of this
extension `repr` is `kind|container|delay` (`start|s1|0`, `end||-1`, `gstart||5/2`), which
`parseHTiming` reads back — the ordering analysis of task networks needs the three components.
-/
namespace UPVerif.KindOf
open UPVerif

/-! ### timing expressions inside constraints -/

/-- `Timing(delay, Timepoint(kind, container))` -/
structure HTiming where
  kind : TPKind
  container : Option String
  delay : Rat
  deriving Repr, Inhabited

def parseTPKind : String → Option TPKind
  | "start" => some .start
  | "end" => some .end_
  | "gstart" => some .gstart
  | "gend" => some .gend
  | _ => none

def parseHTiming (s : String) : Option HTiming :=
  match s.splitOn "|" with
  | [k, c, d] => do
    let kind ← parseTPKind k
    let q ← parseRat d
    some { kind := kind, container := if c == "" then none else some c, delay := q }
  | _ => none

/-! ### hierarchical -/

/-- `htn.task.Subtask`: identifier and argument expressions (the task it refers to is not read) -/
structure Subtask where
  ident : String
  args : List Expr
  deriving Repr, Inhabited

/-- `htn.method.Method` (an `AbstractTaskNetwork` with parameters and preconditions) -/
structure Method where
  name : String
  params : List (String × Ty)
  pre : List Expr
  subtasks : List Subtask
  constraints : List Expr
  deriving Repr, Inhabited

/-- `htn.task_network.TaskNetwork` -/
structure TaskNet where
  vars : List (String × Ty)
  subtasks : List Subtask
  constraints : List Expr
  deriving Repr, Inhabited

/-- `HierarchicalProblem` -/
structure HProblem where
  base : KProblem
  /-- abstract tasks: name and parameters -/
  tasks : List (String × List (String × Ty))
  methods : List Method
  tn : TaskNet
  deriving Repr, Inhabited

/-! ### contingent -/

/-- `SensingAction`: an `InstantaneousAction` with observed fluents -/
structure SAct where
  act : IAct
  observed : List Expr
  deriving Repr, Inhabited

/-- `ContingentProblem`; `base.iactions` are the actions that are NOT sensing actions -/
structure CProblem where
  base : KProblem
  sensing : List SAct
  orConstraints : List (List Expr)
  oneofConstraints : List (List Expr)
  deriving Repr, Inhabited

/-! ### scheduling -/

/-- `scheduling.activity.Activity` (a `Chronicle` with a duration) -/
structure Activity where
  name : String
  optional : Bool
  params : List (String × Ty)
  durLo : Expr
  durHi : Expr
  conds : List (Interval × Expr)
  effs : List (Timing × Effect)
  /-- `scoped_constraints`: (constraint, scope) -/
  constraints : List (Expr × List Expr)
  deriving Repr, Inhabited

/-- `SchedulingProblem`; `vars`, `conds`, `effs`, `constraints` are those of the base chronicle -/
structure SProblem where
  types : TypeEnv
  objects : List (String × String)
  fluents : List FluentDecl
  init : List (Expr × Expr)
  metrics : List KMetric
  discreteTime : Bool
  selfOverlapping : Bool
  vars : List (String × Ty)
  conds : List (Interval × Expr)
  effs : List (Timing × Effect)
  constraints : List (Expr × List Expr)
  activities : List Activity
  deriving Repr, Inhabited

/-! ### multi-agent -/

/-- `multi_agent.agent.Agent` -/
structure MAgent where
  name : String
  fluents : List FluentDecl
  iactions : List IAct
  dactions : List DAct
  publicGoals : List Expr
  privateGoals : List Expr
  deriving Repr, Inhabited

/-- `MultiAgentProblem` (initial values are not read by its `kind`) -/
structure MProblem where
  types : TypeEnv
  objects : List (String × String)
  /-- `ma_environment.fluents` -/
  envFluents : List FluentDecl
  agents : List MAgent
  goals : List Expr
  deriving Repr, Inhabited

end UPVerif.KindOf
