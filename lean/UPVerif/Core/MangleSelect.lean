import UPVerif.Core.Mangle
/-
Model of the keyword-table SELECTION of the PDDL writers: WHICH of the optional keyword tables a writer
reserves is decided by conditions on the problem it is given.

* `unified_planning/io/pddl_writer.py` `PDDLWriter.__init__` (l.382-402):
  `self.pddl_keywords = set(GENERAL_PDDL_KEYWORDS)` followed by a sequence of
  `if <condition on self.problem>: self.pddl_keywords |= <TABLE>`;
* `unified_planning/io/ma_pddl_writer.py` l.41-43 and `MAPDDLWriter.__init__` (l.130): the fixed set
  `GENERAL_PDDL_KEYWORDS.union(TEMPORAL_PDDL_KEYWORDS).union(PDDL3_KEYWORDS)`, whatever the problem.

The conditions themselves are NOT written here: harness/translate_C38.py extracts every `if` of `__init__`
into `Gen/Keywords.lean` (`pddlSelect`, `maSelect`) in the small condition language `KwCond` below, and refuses
any condition outside that language (a broken tie).  What this file fixes by hand is only what a condition
MEANS (`KwCond.eval`) and what the conditions may look at (`ProblemView`): the attributes of the problem that
`__init__` reads.  The view of a case is read off the REAL problem by the harness (`type(problem).__mro__`,
`type(a).__mro__` for `a in problem.actions`, `len(problem.processes)`, …), so a problem on the other side of a
condition (discrete time, timed effects only, timed goals only, hierarchical, contingent, …) gives another view.
-/
namespace UPVerif.Mangle

/-- the list- or dict-valued attributes of `self.problem` whose length a condition may test -/
inductive LenAttr
  | processes | events | trajectoryConstraints | timedEffects | timedGoals
  deriving DecidableEq, Repr

/-- what `PDDLWriter.__init__` can see of the problem -/
structure ProblemView where
  /-- the class names in `type(problem).__mro__` (`isinstance(self.problem, C)` = `C` occurs in it) -/
  mro : List Name
  /-- for every `a in problem.actions` the class names in `type(a).__mro__` -/
  actions : List (List Name)
  /-- `len(problem.processes)`, `len(problem.events)`, `len(problem.trajectory_constraints)`,
      `len(problem.timed_effects)`, `len(problem.timed_goals)` -/
  nProcesses : Nat
  nEvents : Nat
  nTrajectory : Nat
  nTimedEffects : Nat
  nTimedGoals : Nat
  /-- `problem.discrete_time`.  No condition of the code reads it (and none may: a discrete-time problem with
      durative actions is written with exactly the same temporal constructs); it is a field so that every theorem
      over `ProblemView` quantifies over it visibly -/
  discrete : Bool
  deriving Repr

def ProblemView.len (v : ProblemView) : LenAttr → Nat
  | .processes => v.nProcesses
  | .events => v.nEvents
  | .trajectoryConstraints => v.nTrajectory
  | .timedEffects => v.nTimedEffects
  | .timedGoals => v.nTimedGoals

/-- the conditions `__init__` may use (everything else is refused by the translator) -/
inductive KwCond
  /-- `len(self.problem.<attr>) > 0` -/
  | lenPos (a : LenAttr)
  /-- `any(map(lambda action: isinstance(action, <C>), self.problem.actions))` -/
  | anyActionIs (cls : Name)
  /-- `isinstance(self.problem, <C>)` -/
  | problemIs (cls : Name)
  /-- `c1 or c2` -/
  | or (a b : KwCond)
  deriving Repr

def KwCond.eval (v : ProblemView) : KwCond → Bool
  | .lenPos a => decide (v.len a > 0)
  | .anyActionIs c => v.actions.any (fun m => m.contains c)
  | .problemIs c => v.mro.contains c
  | .or a b => a.eval v || b.eval v

/-- the optional keyword tables -/
inductive KwTable
  | plus | pddl3 | temporal | contingent | hddl
  deriving DecidableEq, Repr

def Tables.table (T : Tables) : KwTable → List Name
  | .plus => T.pddlPlus
  | .pddl3 => T.pddl3
  | .temporal => T.pddlTemporal
  | .contingent => T.pddlContingent
  | .hddl => T.pddlHddl

/-- `PDDLWriter.__init__`: `self.pddl_keywords` of the writer of a problem with view `v`; `sel` is the sequence of
    `if cond: self.pddl_keywords |= TABLE` statements, in source order -/
def initKeywords (T : Tables) (sel : List (KwCond × KwTable)) (v : ProblemView) : List Name :=
  T.pddlGeneral ++ sel.flatMap (fun p => if p.1.eval v then T.table p.2 else [])

/-- `MA_PDDL_KEYWORDS` (`MAPDDLWriter.__init__` takes it unconditionally): `GENERAL.union(T1).union(T2)…` -/
def maKeywords (T : Tables) (sel : List KwTable) : List Name :=
  T.pddlGeneral ++ sel.flatMap T.table

end UPVerif.Mangle
