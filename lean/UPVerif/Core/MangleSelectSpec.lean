import UPVerif.Core.MangleSelect
/-
Reference for the keyword-table selection (C38), written from the TARGET LANGUAGE and from what the PDDL text of a
problem contains — not from `PDDLWriter.__init__`:

a name must avoid the keywords of every fragment of PDDL that the written text of the problem USES.

* PDDL+ (`process`, `event`): the domain contains `(:process …)` / `(:event …)` — one per element of
  `problem.processes` / `problem.events` (`_write_domain`);
* PDDL3 (`always`, `sometime`, `within`, `constraints`, …): the problem file contains `(:constraints …)` with the
  trajectory constraints — iff `problem.trajectory_constraints` is not empty (`_write_problem`);
* temporal PDDL (`durative-action`, `duration`, `condition`, `at`, `start`, `end`, `over`, `all`): the domain contains
  `(:durative-action … :duration (= ?duration …) :condition (and (at start …) (over all …) (at end …)) …)` — one per
  `DurativeAction` in `problem.actions`, WHATEVER the time model (`problem.discrete_time` only changes the kind
  from CONTINUOUS_TIME to DISCRETE_TIME, the text is the same) — or the `:init` contains a timed initial literal
  `(at <time> …)` — one per timed effect; timed goals are refused by the writer and produce no text;
* contingent PDDL (`observe`, `oneof`, `unknown`): `(:observe …)`, `(oneof …)`, `(unknown …)` are only written for a
  `ContingentProblem`;
* HDDL (`task`, `method`, `htn`, `subtasks`, `ordered-subtasks`, `ordering`, …): `(:task …)`, `(:method …)`,
  `(:htn …)` are written exactly for a `HierarchicalProblem`.
-/
namespace UPVerif.Mangle

def durativeCls : Name := ['D', 'u', 'r', 'a', 't', 'i', 'v', 'e', 'A', 'c', 't', 'i', 'o', 'n']
def contingentCls : Name := ['C', 'o', 'n', 't', 'i', 'n', 'g', 'e', 'n', 't', 'P', 'r', 'o', 'b', 'l', 'e', 'm']
def hierarchicalCls : Name := ['H', 'i', 'e', 'r', 'a', 'r', 'c', 'h', 'i', 'c', 'a', 'l', 'P', 'r', 'o', 'b', 'l', 'e', 'm']

def usesPlus (v : ProblemView) : Bool := decide (v.nProcesses > 0) || decide (v.nEvents > 0)
def usesPddl3 (v : ProblemView) : Bool := decide (v.nTrajectory > 0)
def usesTemporal (v : ProblemView) : Bool :=
  v.actions.any (fun m => m.contains durativeCls) || decide (v.nTimedEffects > 0)
def usesContingent (v : ProblemView) : Bool := v.mro.contains contingentCls
def usesHddl (v : ProblemView) : Bool := v.mro.contains hierarchicalCls

def usesTable (v : ProblemView) : KwTable → Bool
  | .plus => usesPlus v
  | .pddl3 => usesPddl3 v
  | .temporal => usesTemporal v
  | .contingent => usesContingent v
  | .hddl => usesHddl v

/-- `k` is a keyword of a fragment of PDDL that the text written for a problem with view `v` uses -/
def Needed (T : Tables) (v : ProblemView) (k : Name) : Prop :=
  k ∈ T.pddlGeneral ∨ ∃ t : KwTable, usesTable v t = true ∧ k ∈ T.table t

/-- MA-PDDL (`MAPDDLWriter`): a `MultiAgentProblem` has no processes, events, tasks, sensing actions or trajectory
    constraints; its agents may have durative actions (`(:durative-action …)`, ma_pddl_writer.py `_write_domain`) -/
def MaNeeded (T : Tables) (k : Name) : Prop :=
  k ∈ T.pddlGeneral ∨ k ∈ T.pddlTemporal

end UPVerif.Mangle
