import UPVerif.Core.PddlPrint
import UPVerif.Core.PddlRead
/-
SPECIFICATION of the PDDL round trip, written directly on problem syntax (no trees): `pddlNorm ρ K P` is the
problem that writing `P` and reading the text back is claimed to yield (Props/C18.lean: `pddlRead (print P) =
pddlNorm P`).  It is `P` under the writer's renaming `ρ`, up to what PDDL cannot express:

* numeric fluent types become unbounded reals; Boolean fluents get the default `false`, numeric ones none;
  the initial state is listed explicitly (true Boolean atoms and all numeric values);
* expressions: `a ⇔ b` becomes `(a ⇒ b) ∧ (b ⇒ a)`; an n-ary `+`/`*` becomes a right-nested binary one with the
  operands in reverse order; an integral real constant becomes an integer constant (`normExpr`);
* preconditions / goals become one conjunction of the conjuncts; actions with a `false` precondition and effects
  with a `false` condition disappear; effects are listed by nesting depth (unconditional first, then
  conditional-or-universal, then conditional universal ones), as the reader's breadth-first walk yields them;
* the cost of each action moves from the `total-cost` effect back into a `MinimizeActionCosts` metric with
  default 0 (`MinimizeSequentialPlanLength` when every cost is the integer 1).
-/
namespace UPVerif.Pddl
open UPVerif

def renTy (ρ : Ren) : Ty → Option Ty
  | .user t => (ρ (.ty t)).map Ty.user
  | _ => none

def renTys (ρ : Ren) : List Ty → Option (List Ty)
  | [] => some []
  | t :: ts => do
    let x ← renTy ρ t
    let xs ← renTys ρ ts
    some (x :: xs)

/-- PDDL has one numeric type -/
def normFluentTy : Ty → Option Ty
  | .bool => some .bool
  | .int _ _ => some (.real none none)
  | .real _ _ => some (.real none none)
  | _ => none

def normRef (ρ : Ren) (f : FluentRef) : Option FluentRef := do
  let n ← ρ (.fluent f.name)
  let ty ← normFluentTy f.ty
  let sig ← renTys ρ f.sig
  some { name := n, ty := ty, sig := sig }

def normVar (ρ : Ren) (v : Var) : Option Var := do
  let t ← tyName? v.ty
  let n ← (ρ (.var v.name t)).bind stripQ
  let tn ← ρ (.ty t)
  some { name := n, ty := .user tn }

def normVars (ρ : Ren) : List Var → Option (List Var)
  | [] => some []
  | v :: vs => do
    let x ← normVar ρ v
    let xs ← normVars ρ vs
    some (x :: xs)

/-- right-nested binary re-association with reversed operands: `[a, b, c] ↦ op [c, op [b, a]]` -/
def nestOp (op : Op) : List Expr → Option Expr
  | [] => none
  | a :: rest => some (rest.foldl (fun acc y => .app op [y, acc]) a)

mutual
def normExpr (ρ : Ren) : Expr → Option Expr
  | .leaf (.boolC _) => none
  | .leaf (.intC z) => some (Expr.int z)
  | .leaf (.realC r) => if (decimalStr r).isSome then some (numLeaf r) else none
  | .leaf (.obj n t) => do
    let n' ← ρ (.obj n)
    let t' ← ρ (.ty t)
    some (.leaf (.obj n' t'))
  | .leaf (.param n ty) => do
    let t ← tyName? ty
    let n' ← (ρ (.param n t)).bind stripQ
    let t' ← ρ (.ty t)
    some (.leaf (.param n' (.user t')))
  | .leaf (.var v) => (normVar ρ v).map (fun v' => .leaf (.var v'))
  | .leaf (.timing _) => none
  | .leaf (.present _) => none
  | .app .and as => if as.length > 1 then (normExprs ρ as).map Expr.mkAnd else none
  | .app .or as => if as.length > 1 then (normExprs ρ as).map Expr.mkOr else none
  | .app .not [a] => (normExpr ρ a).map Expr.mkNot
  | .app .implies [a, b] => do
    let x ← normExpr ρ a
    let y ← normExpr ρ b
    some (Expr.mkImplies x y)
  | .app .iff [a, b] => do
    let x ← normExpr ρ a
    let y ← normExpr ρ b
    some (Expr.mkAnd [Expr.mkImplies x y, Expr.mkImplies y x])
  | .app (.fluent f) as => do
    let f' ← normRef ρ f
    let xs ← normExprs ρ as
    if xs.length == f'.sig.length then some (.app (.fluent f') xs) else none
  | .app .plus as => if as.length > 1 then (normExprs ρ as).bind (nestOp .plus) else none
  | .app .times as => if as.length > 1 then (normExprs ρ as).bind (nestOp .times) else none
  | .app .minus [a, b] => do
    let x ← normExpr ρ a
    let y ← normExpr ρ b
    some (Expr.mkMinus x y)
  | .app .div [a, b] => do
    let x ← normExpr ρ a
    let y ← normExpr ρ b
    some (Expr.mkDiv x y)
  | .app .le [a, b] => do
    let x ← normExpr ρ a
    let y ← normExpr ρ b
    some (Expr.mkLE x y)
  | .app .lt [a, b] => do
    let x ← normExpr ρ a
    let y ← normExpr ρ b
    some (Expr.mkLT x y)
  | .app .eq [a, b] => do
    let x ← normExpr ρ a
    let y ← normExpr ρ b
    some (Expr.mkEq x y)
  | .app _ _ => none
  | .quant q vs b => do
    let vs' ← normVars ρ vs
    let b' ← normExpr ρ b
    if vs'.isEmpty then none else some (.quant q vs' b')
def normExprs (ρ : Ren) : List Expr → Option (List Expr)
  | [] => some []
  | e :: es => do
    let x ← normExpr ρ e
    let xs ← normExprs ρ es
    some (x :: xs)
end

/-! ### effects -/

/-- nesting depth of the tree written for an effect: 0 plain, +1 for `when`, +1 for `forall` -/
def effDepth (e : Effect) : Nat := (if e.cond.isTrue then 0 else 1) + (if e.forall_.isEmpty then 0 else 1)

def normEffect (ρ : Ren) (e : Effect) : Option Effect := do
  let f ← normExpr ρ e.fluent
  let v ← (if e.value.isTrue then some Expr.tt else if e.value.isFalse then some Expr.ff else normExpr ρ e.value)
  let c ← (if e.cond.isTrue then some Expr.tt else normExpr ρ e.cond)
  let vs ← normVars ρ e.forall_
  some (mkEffect f v c (if e.value.isTrue || e.value.isFalse then .assign else e.kind) vs)

def normEffects (ρ : Ren) : List Effect → Option (List Effect)
  | [] => some []
  | e :: es => do
    let x ← normEffect ρ e
    let xs ← normEffects ρ es
    some (x :: xs)

/-- written effects (those whose condition is not `false`), in the order the reader's breadth-first walk adds them -/
def bfsOrder (es : List Effect) : List Effect :=
  let w := es.filter (fun e => !e.cond.isFalse)
  w.filter (fun e => effDepth e == 0) ++ w.filter (fun e => effDepth e == 1) ++ w.filter (fun e => effDepth e == 2)

/-! ### actions -/

def normParams (ρ : Ren) : List (String × Ty) → Option (List (String × Ty))
  | [] => some []
  | (n, ty) :: ps => do
    let t ← tyName? ty
    let n' ← (ρ (.param n t)).bind stripQ
    let t' ← ρ (.ty t)
    let rest ← normParams ρ ps
    some ((n', .user t') :: rest)

/-- one conjunction of the written conjuncts, stored unless it is `true` -/
def normConj (ρ : Ren) (cs : List Expr) : Option (List Expr) :=
  (normExprs ρ (conjuncts cs)).map (fun xs => preList (Expr.mkAnd xs))

def normAction (ρ : Ren) (a : Action) : Option Action := do
  let n ← ρ (.action a.name)
  let ps ← normParams ρ a.params
  let pre ← (if a.pre.isEmpty then some [] else normConj ρ a.pre)
  let effs ← normEffects ρ (bfsOrder a.effs)
  some { name := n, params := ps, pre := pre, effs := effs }

def normActions (ρ : Ren) : List Action → Option (List Action)
  | [] => some []
  | a :: as =>
    if a.pre.any Expr.isFalse then normActions ρ as
    else do
      let x ← normAction ρ a
      let xs ← normActions ρ as
      some (x :: xs)

/-! ### types, objects, fluents, initial state -/

/-- the order in which the hierarchical `:types` section declares the types (same walk as `typeLines`) -/
def typeOrder (E : TypeEnv) : Nat → List String → List String
  | _, [] => []
  | 0, _ :: _ => []
  | fuel + 1, s :: ss =>
    let stack := s :: ss
    let cur := stack.getLast (by simp [stack])
    let rest := stack.dropLast
    let sons := sonsOf E (some cur)
    if sons.isEmpty then typeOrder E fuel rest else sons ++ typeOrder E fuel (rest ++ sons)

def normTypes (ρ : Ren) (K : PKind) (E : TypeEnv) : Option (List (String × Option String)) :=
  let order := if K.has "HIERARCHICAL_TYPING" then sonsOf E none ++ typeOrder E (E.fathers.length + 1) (sonsOf E none)
               else E.fathers.map (·.1)
  order.mapM (fun t => do
    let n ← ρ (.ty t)
    match E.father t with
    | none => some (n, none)
    | some f => (ρ (.ty f)).map (fun fn => (n, some fn)))

def normObjects (ρ : Ren) (P : Problem) : Option (List (String × String)) :=
  let consts := domainConstants P
  let cs := P.objects.filter (fun o => consts.contains o.1)
  let rest := (P.types.fathers.map (·.1)).flatMap (fun t => P.objects.filter (fun o => o.2 == t && !consts.contains o.1))
  (cs ++ rest).mapM (fun o => do
    let n ← ρ (.obj o.1)
    let t ← ρ (.ty o.2)
    some (n, t))

def normFluents (ρ : Ren) (fs : List FluentDecl) : Option (List FluentDecl) :=
  ((fs.filter (fun f => f.ref.ty == .bool)) ++ (fs.filter (fun f => isNumTy f.ref.ty))).mapM
    (fun f => (normRef ρ f.ref).map fluentDecl)

def normInit (ρ : Ren) : List (Expr × Expr) → List (Expr × Expr) → Option (List (Expr × Expr))
  | [], acc => some acc
  | (f, v) :: r, acc =>
    if v.isTrue then (normExpr ρ f).bind (fun f' => normInit ρ r (setInit acc f' Expr.tt))
    else if v.isFalse then normInit ρ r acc
    else do
      let f' ← normExpr ρ f
      let v' ← normExpr ρ v
      normInit ρ r (setInit acc f' v')

/-! ### metric -/

/-- (action name, cost) for the written actions that carry a cost effect -/
def normCosts (ρ : Ren) (P : Problem) : List Action → Option (List (String × Expr))
  | [] => some []
  | a :: as =>
    if a.pre.any Expr.isFalse || a.effs.isEmpty then normCosts ρ P as
    else
      match actionCost P a with
      | some (some c) => do
        let n ← ρ (.action a.name)
        let c' ← normExpr ρ c
        let rest ← normCosts ρ P as
        some ((n, c') :: rest)
      | _ => none

def normMetric (ρ : Ren) (P : Problem) : Option (List Metric) :=
  match P.metrics with
  | [] => some []
  | [.minFinal e] => (normExpr ρ e).map (fun x => [.minFinal x])
  | [.maxFinal e] => (normExpr ρ e).map (fun x => [.maxFinal x])
  | [.minActionCosts _ _] | [.minLength] => do
    let costs ← normCosts ρ P P.actions
    let written := P.actions.filter (fun a => !a.pre.any Expr.isFalse)
    let planLength := costs.length == written.length && costs.all (fun c => c.2 == Expr.int 1)
    some [if planLength then .minLength else .minActionCosts costs (some (Expr.int 0))]
  | _ => none

def pddlNorm (ρ : Ren) (K : PKind) (P : Problem) : Option Problem := do
  let name ← ρ .problem
  let types ← normTypes ρ K P.types
  let objects ← normObjects ρ P
  let fluents ← normFluents ρ P.fluents
  let iv ← initialValues P
  let init ← normInit ρ iv []
  let actions ← normActions ρ P.actions
  let goals ← normConj ρ P.goals
  let metrics ← normMetric ρ P
  some { name := name ++ "-problem", types := { fathers := types }, objects := objects, fluents := fluents,
         init := init, actions := actions, goals := goals, traj := [], metrics := metrics }

end UPVerif.Pddl
