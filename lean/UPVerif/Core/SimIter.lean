import UPVerif.Core.Sim
/-!
# `get_applicable_actions` as what it is in the code: a suspended generator

`UPSequentialSimulator._get_applicable_actions` (sequential_simulator.py:436-450) is a Python GENERATOR:

    if self._grounded_actions is None:                                        # :446
        self._grounded_actions = list(self._grounder.get_grounded_actions())  # :447  complete before the loop starts
    for original_action, params, _ in self._grounded_actions:                 # :448
        if self._is_applicable(state, original_action, params):               # :449
            yield (original_action, params)                                   # :450

Calling `get_applicable_actions(state)` (mixins/sequential_simulator.py:187) runs none of it; every
`next` runs the loop up to the next `yield`; a client may stop pulling at any point, pull from several
generators alternately, ask other queries in between, `close()` a generator (what `break`, `any()`,
`next()` + garbage collection, or an exception in the consuming loop do: GeneratorExit / the exception is
raised at the suspended `yield`, no handler in the body, the generator is finished).

`Core/Sim.lean`'s `applicableActions` is the completely consumed generator.  This file models the
generator itself: the only state it has is ITS OWN frame (the state argument and the position in the
list of groundings); the list of groundings is a function of the problem (`allInstances W.P`) — the
cache `self._grounded_actions` is assigned a complete list before the first element is looked at, so
no frame can see a partial one.  Mathlib-free (used by the compiled driver).
-/
namespace UPVerif.Sim

/-- the frame of one suspended `_get_applicable_actions` generator: the `state` argument and the part of
    `self._grounded_actions` the `for` loop has not looked at yet; a finished generator (exhausted, closed,
    or left by an exception) has nothing left -/
structure Iter where
  s : SimState
  rest : List (Action × List String)
  deriving Repr, Inhabited

/-- what one `next(it)` gives: the next applicable instance, `StopIteration`, or the exception that
    escaped from `_is_applicable` -/
inductive Step where
  | item (ai : Action × List String)
  | done
  | raised (e : EvalErr)
  deriving Repr, Inhabited

/-- `get_applicable_actions(state)`: a fresh generator over ALL groundings of the problem (:446-448) -/
def openIter (W : World) (s : SimState) : Iter := ⟨s, allInstances W.P⟩

/-- the `for` loop from its current position to the next `yield` (:448-450); an exception raised by
    `_is_applicable` propagates out of the generator, which is finished from then on -/
def nextGo (W : World) (s : SimState) : List (Action × List String) → Step × List (Action × List String)
  | [] => (.done, [])
  | ai :: rest =>
    match isApplicable W s ai.1 ai.2 with
    | .error x => (.raised x, [])
    | .ok true => (.item ai, rest)
    | .ok false => nextGo W s rest

/-- `next(it)` -/
def Iter.next (W : World) (it : Iter) : Step × Iter :=
  ((nextGo W it.s it.rest).1, ⟨it.s, (nextGo W it.s it.rest).2⟩)

/-- `it.close()` / `it.throw(exc)` / the generator being dropped: the body has no `try`, so the
    generator is finished and nothing else happens -/
def Iter.close (it : Iter) : Iter := ⟨it.s, []⟩

/-- `list(it)` inside a `try`: the remaining elements and the exception that ended the enumeration, if any -/
def drainGo (W : World) (s : SimState) : List (Action × List String) → List (Action × List String) × Option EvalErr
  | [] => ([], none)
  | ai :: rest =>
    match isApplicable W s ai.1 ai.2 with
    | .error x => ([], some x)
    | .ok b => (if b then ai :: (drainGo W s rest).1 else (drainGo W s rest).1, (drainGo W s rest).2)

def Iter.drain (W : World) (it : Iter) : List (Action × List String) × Option EvalErr := drainGo W it.s it.rest

/-! ### the client's side: a table of generators it holds -/

/-- operations on generators: obtain one, pull one element, finish one, consume the rest of one -/
inductive IOp where
  | openIt (s : SimState)
  | next (h : Nat)
  | close (h : Nat)
  | drain (h : Nat)
  deriving Repr, Inhabited

inductive IAns where
  | opened (h : Nat)
  | step (r : Step)
  | closed
  | drained (l : List (Action × List String)) (e : Option EvalErr)
  | noHandle
  deriving Repr, Inhabited

/-- one operation against the table of generators the client holds (handles = positions, in order of
    creation).  The simulator itself (`W`) is not changed by any of them. -/
def iterOp (W : World) (its : List Iter) : IOp → IAns × List Iter
  | .openIt s => (.opened its.length, its ++ [openIter W s])
  | .next h =>
    match its[h]? with
    | none => (.noHandle, its)
    | some it => (.step (it.next W).1, its.set h (it.next W).2)
  | .close h =>
    match its[h]? with
    | none => (.noHandle, its)
    | some it => (.closed, its.set h it.close)
  | .drain h =>
    match its[h]? with
    | none => (.noHandle, its)
    | some it => (.drained (it.drain W).1 (it.drain W).2, its.set h it.close)

end UPVerif.Sim
