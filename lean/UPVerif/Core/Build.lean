import UPVerif.Core.Expr
import UPVerif.Core.Problem
import UPVerif.Core.Walkers.FreeVars
/-
The model-BUILDING API of `unified_planning.model.Problem` as a state machine (properties C22, C23).

A `State` is one `Problem` object: its syntax PLUS the bookkeeping the real objects carry
(`_fluents_assigned` / `_fluents_inc_dec` per action and per timing, `_fluents_defaults`,
`_initial_defaults`, the explicit `_initial_value` dict, the time model).  Every public mutator is a
function `State → Res` returning the error class raised (if any) AND the state the call left behind
(Python mutates in place, so a raising call can leave a partial update: `add_fluent`/`add_object`/
`add_action` append before `_add_user_type` may raise).

Mirrors the REPAIRED code (patches C22-clone-copies-everything, C23-check-default-initial-values):
  * `Problem.clone` / `Problem._clone_to`                    unified_planning/model/problem.py:251
  * `Problem.__eq__`                                        problem.py:184
  * `FluentsSetMixin.add_fluent`, `__init__`                model/mixins/fluents_set.py
  * `ObjectsSetMixin.add_object`                            model/mixins/objects_set.py:40
  * `UserTypesSetMixin._add_user_type`                      model/mixins/user_types_set.py:41
  * `ActionsSetMixin.add_action`, `action`                  model/mixins/actions_set.py
  * `InitialStateMixin.set_initial_value`, `initial_values`, `__eq__`   model/mixins/initial_state.py
  * `PreconditionMixin.add_precondition`, `UntimedEffectMixin.add_*effect`  model/transition.py
  * `Effect.__init__`, `Effect.clone`, `check_conflicting_effects`      model/effect.py
  * `Problem.add_goal / add_trajectory_constraint / add_timed_goal / add_timed_effect /
     add_increase_effect / add_decrease_effect / _add_effect_instance`  problem.py
  * `MetricsMixin.add_quality_metric`, metric constructors  model/mixins/metrics.py, model/metrics.py
  * `TimeModelMixin` setters                                model/mixins/time_model.py
  * `ActionInstance.__init__`                               plans/plan.py:36
  * `is_compatible_type`                                    model/types.py:307

Parameters of the model (an `Env`): the user-type hierarchy, the environment flag
`error_used_name`, the type checker (`FNode.type`, property C15) and the simplifier
(`FNode.simplify`, property C11) — both taken as functions; the driver instantiates them with tables
computed by the real code for the expressions of the case.

`check_conflicting_effects` is a local copy over `Expr` (the C24 builder owns `Core/Conflicts.lean`,
which works over abstract names); no simulated effects here.

Not modelled: events / processes (copied by clone, no mutator in the properties' quantifier),
durative actions, simulated effects, `Dot` fluents, the `clear_*` methods.  The empty per-timing
dicts that `Problem._add_effect_instance` creates with `setdefault` before it checks are not
represented (an absent and an empty entry are indistinguishable to every reader).
-/
namespace UPVerif
namespace Build

/- in this namespace so that the generated instance name cannot clash with another module's -/
deriving instance DecidableEq for Metric

/-! ### Python dicts (insertion ordered, unique keys) as association lists -/

/-- `d[k] = v` -/
def dictSet {κ ν : Type} [DecidableEq κ] : List (κ × ν) → κ → ν → List (κ × ν)
  | [], k, v => [(k, v)]
  | (k', v') :: r, k, v => if k' = k then (k, v) :: r else (k', v') :: dictSet r k v

/-- `d.get(k)` -/
def dictGet {κ ν : Type} [DecidableEq κ] : List (κ × ν) → κ → Option ν
  | [], _ => none
  | (k', v) :: r, k => if k' = k then some v else dictGet r k

/-- `set.add` (sets as duplicate-free lists; only membership is observed) -/
def setAdd {α : Type} [DecidableEq α] (l : List α) (x : α) : List α :=
  if x ∈ l then l else l ++ [x]

/-- `set(a) == set(b)` for elements whose `__eq__` is `r` (an equivalence): mutual inclusion -/
def setEqBy {α : Type} (r : α → α → Bool) (a b : List α) : Bool :=
  a.all (fun x => b.any (fun y => r x y)) && b.all (fun y => a.any (fun x => r x y))

def setEq {α : Type} [DecidableEq α] (a b : List α) : Bool :=
  setEqBy (fun x y => decide (x = y)) a b

/-- dict equality as written in `InitialStateMixin.__eq__` (and what `dict.__eq__` computes):
    same length and every item of `a` is in `b` with an equal value -/
def dictEq {κ ν : Type} [DecidableEq κ] [DecidableEq ν] (a b : List (κ × ν)) : Bool :=
  a.length == b.length && a.all (fun kv => dictGet b kv.1 == some kv.2)

/-! ### errors, timings -/

/-- the exception classes the building API raises -/
inductive Err where
  | typeError      -- UPTypeError
  | usage          -- UPUsageError
  | conflict       -- UPConflictingEffectsException
  | problemDef     -- UPProblemDefinitionError
  | unbounded      -- UPUnboundedVariablesError
  | exprDef        -- UPExpressionDefinitionError
  | value          -- UPValueError
  | assertion      -- AssertionError
  deriving DecidableEq, Repr, Inhabited

inductive TPKind where
  | globalStart | globalEnd | start | end_
  deriving DecidableEq, Repr, Inhabited

/-- `unified_planning.model.timing.Timing` (delay, timepoint kind; container = None) -/
structure Timing where
  kind : TPKind
  delay : Rat
  deriving DecidableEq, Repr, Inhabited

/-- `Timing.is_from_end` (timing.py:178) -/
def Timing.isFromEnd (t : Timing) : Bool := t.kind == .globalEnd || t.kind == .end_

/-- `TimeInterval` -/
structure TInterval where
  lower : Timing
  upper : Timing
  leftOpen : Bool
  rightOpen : Bool
  deriving DecidableEq, Repr, Inhabited

/-! ### type compatibility (`is_compatible_type`, types.py:307) -/

/-- `upper < lower` where a missing upper bound is +inf and a missing lower bound is -inf -/
def ltUL : Option Rat → Option Rat → Bool
  | some u, some l => decide (u < l)
  | _, _ => false

/-- `not (right_upper < left_lower or right_lower > left_upper)`: the intervals OVERLAP -/
def overlap (ll lu rl ru : Option Rat) : Bool := !(ltUL ru ll || ltUL lu rl)

def optIntToRat (o : Option Int) : Option Rat := o.map (fun z => (z : Rat))

/-- can a value of type `r` be assigned to a target of type `l` -/
def compatTy (T : TypeEnv) (l r : Ty) : Bool :=
  if l = r then true
  else match l, r with
    | .user a, .user b => T.isSubtype b a
    | .int ll lu, .int rl ru => overlap (optIntToRat ll) (optIntToRat lu) (optIntToRat rl) (optIntToRat ru)
    | .real ll lu, .real rl ru => overlap ll lu rl ru
    | .real ll lu, .int rl ru => overlap ll lu (optIntToRat rl) (optIntToRat ru)
    | _, _ => false

def isNumeric : Ty → Bool
  | .int _ _ => true
  | .real _ _ => true
  | _ => false

/-! ### environment-level parameters -/

structure Env where
  /-- user-type hierarchy of the `Environment`'s type manager -/
  types : TypeEnv
  /-- `environment.error_used_name` -/
  errorUsedName : Bool
  /-- `FNode.type` (`TypeChecker.get_type`); `none` = the type checker raises `UPTypeError` -/
  typeOf : Expr → Option Ty
  /-- `FNode.simplify()` -/
  simplify : Expr → Expr

/-- type of the expressions the model can type by itself: constants, parameters, variables and
    fluent applications (`FluentExp.type` is the fluent's declared type) -/
def ownTypeOf : Expr → Option Ty
  | .leaf (.boolC _) => some .bool
  | .leaf (.intC z) => some (.int (some z) (some z))
  | .leaf (.realC r) => some (.real (some r) (some r))
  | .leaf (.obj _ t) => some (.user t)
  | .leaf (.param _ t) => some t
  | .leaf (.var v) => some v.ty
  | .app (.fluent f) _ => some f.ty
  | _ => none

/-- the driver's `typeOf`: own typing first, then the table computed by the real type checker -/
def tableTypeOf (tab : List (Expr × Ty)) (e : Expr) : Option Ty :=
  match ownTypeOf e with
  | some t => some t
  | none => dictGet tab e

def tableSimplify (tab : List (Expr × Expr)) (e : Expr) : Expr :=
  match dictGet tab e with
  | some s => s
  | none => e

/-! ### the objects -/

/-- an `InstantaneousAction` object with its conflict bookkeeping -/
structure ActionSt where
  name : String
  params : List (String × Ty)
  pre : List Expr
  effs : List Effect
  /-- `_fluents_assigned` -/
  assigned : List (Expr × Expr)
  /-- `_fluents_inc_dec` -/
  incdec : List Expr
  deriving DecidableEq, Repr, Inhabited

/-- `InstantaneousAction(name, params)` -/
def ActionSt.fresh (name : String) (params : List (String × Ty)) : ActionSt :=
  { name := name, params := params, pre := [], effs := [], assigned := [], incdec := [] }

/-- a `Problem` object -/
structure State where
  name : String
  /-- `_user_types` (by name: the wire format has one type per name) -/
  userTypes : List String
  /-- `_objects` : (name, type) -/
  objects : List (String × String)
  /-- `_fluents` -/
  fluents : List FluentRef
  /-- `_fluents_defaults` -/
  fluentsDefaults : List (FluentRef × Expr)
  /-- `_initial_defaults` -/
  initialDefaults : List (Ty × Expr)
  /-- `_initial_value` -/
  init : List (Expr × Expr)
  actions : List ActionSt
  goals : List Expr
  traj : List Expr
  metrics : List Metric
  /-- `_timed_effects` -/
  timedEffects : List (Timing × List Effect)
  /-- `_timed_goals` -/
  timedGoals : List (TInterval × List Expr)
  /-- `_fluents_assigned` (per timing) -/
  tAssigned : List (Timing × List (Expr × Expr))
  /-- `_fluents_inc_dec` (per timing) -/
  tIncDec : List (Timing × List Expr)
  epsilon : Option Rat
  discreteTime : Bool
  selfOverlapping : Bool
  deriving DecidableEq, Repr, Inhabited

/-- what a call returns: the exception class (if it raised) and the object as the call left it -/
structure Res where
  err : Option Err
  st : State
  deriving Repr, Inhabited

/-- `Problem(name, env)` without `initial_defaults` (problem.py:76) -/
def freshProblem (name : String) : State :=
  { name := name, userTypes := [], objects := [], fluents := [], fluentsDefaults := [],
    initialDefaults := [], init := [], actions := [], goals := [], traj := [], metrics := [],
    timedEffects := [], timedGoals := [], tAssigned := [], tIncDec := [],
    epsilon := none, discreteTime := false, selfOverlapping := false }

/-! ### small readers -/

def asFluentExp : Expr → Option (FluentRef × List Expr)
  | .app (.fluent f) args => some (f, args)
  | _ => none

/-- `value` may be stored for a target of type `ty`: its type is known and compatible -/
def valueOK (E : Env) (ty : Ty) (v : Expr) : Bool :=
  match E.typeOf v with
  | some t => compatTy E.types ty t
  | none => false

/-- `ActionsSetMixin.action(name)`: first action with that name -/
def findAction : List ActionSt → String → Option ActionSt
  | [], _ => none
  | a :: r, n => if a.name = n then some a else findAction r n

/-- write back the (mutated) action object found by `findAction` -/
def updAction : List ActionSt → String → ActionSt → List ActionSt
  | [], _, _ => []
  | a :: r, n, a' => if a.name = n then a' :: r else a :: updAction r n a'

/-- has_action / has_fluent / has_object part of `Problem.has_name` (problem.py:276) -/
def othersHaveName (s : State) (n : String) : Bool :=
  s.actions.any (fun a => a.name == n) || s.fluents.any (fun f => f.name == n) ||
    s.objects.any (fun o => o.1 == n)

/-- `Problem.has_name` -/
def hasName (s : State) (n : String) : Bool := othersHaveName s n || s.userTypes.contains n

/-! ### `_add_user_type` -/

/-- `UserTypesSetMixin._add_user_type` (user_types_set.py:41): adds the type after its ancestors.
    `others` = the non-type part of `has_name`.  Fuel = length of the father chain + 1. -/
def addUT (T : TypeEnv) (eun : Bool) (others : String → Bool) :
    Nat → List String → String → Option Err × List String
  | 0, uts, _ => (none, uts)
  | n + 1, uts, t =>
    if uts.contains t then (none, uts)
    else if (others t || uts.contains t) && (eun || uts.any (fun u => u == t)) then (some .problemDef, uts)
    else
      let r := match T.father t with
        | some f => addUT T eun others n uts f
        | none => (none, uts)
      match r.1 with
      | some e => (some e, r.2)
      | none => (none, r.2 ++ [t])

def addUserType (E : Env) (s : State) (t : String) : Res :=
  let r := addUT E.types E.errorUsedName (othersHaveName s) (E.types.fathers.length + 1) s.userTypes t
  ⟨r.1, { s with userTypes := r.2 }⟩

/-- the loop `for param in …: if param.type.is_user_type(): self._add_user_type(param.type)`;
    stops at the first exception -/
def addUserTypes (E : Env) : State → List String → Res
  | s, [] => ⟨none, s⟩
  | s, t :: ts =>
    let r := addUserType E s t
    match r.err with
    | some e => ⟨some e, r.st⟩
    | none => addUserTypes E r.st ts

def userTypeNames : List Ty → List String
  | [] => []
  | .user n :: r => n :: userTypeNames r
  | _ :: r => userTypeNames r

/-! ### fluents, objects, actions -/

/-- `FluentsSetMixin._check_default_initial_value` (patch C23): constant, then compatible -/
def checkDefault (E : Env) (ty : Ty) (v : Expr) : Bool := v.isConstant && valueOK E ty v

/-- `Problem(name, env, initial_defaults=…)`: `FluentsSetMixin.__init__` checks every default
    (patch C23) -/
def newProblem (E : Env) (name : String) (defaults : List (Ty × Expr)) : Except Err State :=
  if defaults.all (fun tv => checkDefault E tv.1 tv.2) then
    .ok { freshProblem name with initialDefaults := defaults.foldl (fun d tv => dictSet d tv.1 tv.2) [] }
  else .error .typeError

/-- the default handed to `add_fluent` is rejected (patch C23) -/
def defaultBad (E : Env) (ty : Ty) : Option Expr → Bool
  | some v => !(checkDefault E ty v)
  | none => false

/-- `_fluents_defaults` after `add_fluent`: the given default, else the default of the fluent's
    type in `_initial_defaults`, else no entry -/
def newDefaults (s : State) (f : FluentRef) : Option Expr → List (FluentRef × Expr)
  | some v => dictSet s.fluentsDefaults f v
  | none => match dictGet s.initialDefaults f.ty with
    | some v => dictSet s.fluentsDefaults f v
    | none => s.fluentsDefaults

/-- `FluentsSetMixin.add_fluent` (fluents_set.py:99, patched order: the default is checked before
    the fluent is appended) -/
def addFluent (E : Env) (s : State) (f : FluentRef) (d : Option Expr) : Res :=
  if hasName s f.name && (E.errorUsedName || s.fluents.any (fun g => g.name == f.name)) then
    ⟨some .problemDef, s⟩
  else if defaultBad E f.ty d then ⟨some .typeError, s⟩
  else
    addUserTypes E { s with fluents := s.fluents ++ [f], fluentsDefaults := newDefaults s f d }
      (userTypeNames (f.ty :: f.sig))

/-- `ObjectsSetMixin.add_object` (objects_set.py:40) -/
def addObject (E : Env) (s : State) (name ty : String) : Res :=
  if hasName s name && (E.errorUsedName || s.objects.any (fun o => o.1 == name)) then
    ⟨some .problemDef, s⟩
  else addUserTypes E { s with objects := s.objects ++ [(name, ty)] } [ty]

/-- `ActionsSetMixin.add_action` (actions_set.py:135) of a fresh `InstantaneousAction(name, params)` -/
def addAction (E : Env) (s : State) (name : String) (params : List (String × Ty)) : Res :=
  if hasName s name && (E.errorUsedName || s.actions.any (fun a => a.name == name)) then
    ⟨some .problemDef, s⟩
  else addUserTypes E { s with actions := s.actions ++ [ActionSt.fresh name params] }
    (userTypeNames (params.map (·.2)))

/-! ### initial values -/

/-- `InitialStateMixin.set_initial_value` (initial_state.py:42, patched: the value must be constant).
    An arity mismatch is raised by `FluentExp(...)` while the argument is built. -/
def setInit (E : Env) (s : State) (fluent value : Expr) : Res :=
  match asFluentExp fluent with
  | none => ⟨some .assertion, s⟩
  | some (f, args) =>
    if args.length ≠ f.sig.length then ⟨some .exprDef, s⟩
    else if !(args.all Expr.isConstant) then ⟨some .exprDef, s⟩
    else if !(valueOK E f.ty value) then ⟨some .typeError, s⟩
    else if !value.isConstant then ⟨some .typeError, s⟩
    else ⟨none, { s with init := dictSet s.init fluent value }⟩

/-! ### effects -/

mutual
/-- `InterpretedFunctionsExtractor.get(e)` is non-empty -/
def hasIfun : Expr → Bool
  | .leaf _ => false
  | .app (.ifun _) _ => true
  | .app _ args => hasIfunList args
  | .quant _ _ b => hasIfun b
def hasIfunList : List Expr → Bool
  | [] => false
  | e :: es => hasIfun e || hasIfunList es
end

/-- `free_vars_without_duplicates` of `Effect.__init__` (effect.py:103): the `forall` variables that
    occur free, in the given order, without repetitions -/
def normForall (free : List Var) : List Var → List Var → List Var
  | [], _ => []
  | v :: vs, seen =>
    if free.contains v && !seen.contains v then v :: normForall free vs (v :: seen)
    else normForall free vs seen

/-- `Effect(fluent, value, condition, kind, forall)` (effect.py:70) -/
def mkEffect (fluent value cond : Expr) (kind : EffKind) (vs : List Var) : Except Err Effect :=
  match fluent with
  | .app (.fluent _) args =>
    if !(Expr.fluentExpsList args).isEmpty then .error .problemDef
    else if hasIfunList args then .error .problemDef
    else
      let free := Expr.freeVars fluent ++ Expr.freeVars value ++ Expr.freeVars cond
      let fa := normForall free vs []
      if free.all (fun v => fa.contains v) then
        .ok { fluent := fluent, value := value, cond := cond, kind := kind, forall_ := fa }
      else .error .unbounded
  | _ => .error .assertion

/-- `Effect.clone` (effect.py:170) re-runs the constructor on the stored fields -/
def effectClone (e : Effect) : Effect :=
  match mkEffect e.fluent e.value e.cond e.kind e.forall_ with
  | .ok e' => e'
  | .error _ => e

/-- Python `a.constant_value() == b.constant_value()` for two constant nodes -/
def constPayloadEq : Expr → Expr → Bool
  | .leaf (.obj a ta), .leaf (.obj b tb) => a == b && ta == tb
  | a, b =>
    match numOf a, numOf b with
    | some x, some y => x == y
    | _, _ => false
where
  numOf : Expr → Option Rat
    | .leaf (.boolC b) => some (if b then 1 else 0)
    | .leaf (.intC z) => some (z : Rat)
    | .leaf (.realC r) => some r
    | _ => none

/-- negation of the conflict test of effect.py:434 -/
def sameValue (stored new : Expr) : Bool :=
  stored == new || (stored.isConstant && new.isConstant && constPayloadEq stored new)

/-- `check_conflicting_effects` (effect.py:385) without simulated effects: `none` = raises
    `UPConflictingEffectsException`, else the two containers after the call -/
def checkConflict (e : Effect) (fty : Ty) (asg : List (Expr × Expr)) (inc : List Expr) :
    Option (List (Expr × Expr) × List Expr) :=
  if !e.isConditional && fty ≠ .bool then
    match e.kind with
    | .assign =>
      if inc.contains e.fluent then none
      else match dictGet asg e.fluent with
        | some v => if sameValue v e.value then some (asg, inc) else none
        | none => some (asg ++ [(e.fluent, e.value)], inc)
    | _ =>
      if (dictGet asg e.fluent).isSome then none
      else some (asg, setAdd inc e.fluent)
  else some (asg, inc)

/-- the part common to `add_effect` / `add_increase_effect` / `add_decrease_effect` after the
    fluent test: condition is Boolean, value compatible, numeric target for increase/decrease,
    then the `Effect` constructor (transition.py:262-375, problem.py:489-609) -/
def buildEffect (E : Env) (kind : EffKind) (f : FluentRef) (fluent value cond : Expr)
    (vs : List Var) : Except Err Effect :=
  match E.typeOf cond with
  | none => .error .typeError
  | some tc =>
    if tc ≠ .bool then .error .typeError
    else if !(valueOK E f.ty value) then .error .typeError
    else if kind ≠ .assign && !(isNumeric f.ty) then .error .typeError
    else mkEffect fluent value cond kind vs

/-- `problem.action(name).add_effect / add_increase_effect / add_decrease_effect(...)` -/
def actAddEff (E : Env) (s : State) (an : String) (kind : EffKind) (fluent value cond : Expr)
    (vs : List Var) : Res :=
  match findAction s.actions an with
  | none => ⟨some .value, s⟩
  | some a =>
    match asFluentExp fluent with
    | none => ⟨some .usage, s⟩
    | some (f, args) =>
      if args.length ≠ f.sig.length then ⟨some .exprDef, s⟩
      else match buildEffect E kind f fluent value cond vs with
        | .error e => ⟨some e, s⟩
        | .ok eff =>
          match checkConflict eff f.ty a.assigned a.incdec with
          | none => ⟨some .conflict, s⟩
          | some bk =>
            let a' : ActionSt := { a with effs := a.effs ++ [eff], assigned := bk.1, incdec := bk.2 }
            ⟨none, { s with actions := updAction s.actions an a' }⟩

/-- `problem.action(name).add_precondition(e)` (transition.py:178) -/
def actAddPre (E : Env) (s : State) (an : String) (e : Expr) : Res :=
  match findAction s.actions an with
  | none => ⟨some .value, s⟩
  | some a =>
    match E.typeOf e with
    | none => ⟨some .typeError, s⟩
    | some t =>
      if t ≠ .bool then ⟨some .assertion, s⟩
      else if e = Expr.tt then ⟨none, s⟩
      else if !(Expr.freeVars e).isEmpty then ⟨some .unbounded, s⟩
      else if a.pre.contains e then ⟨none, s⟩
      else
        let a' : ActionSt := { a with pre := a.pre ++ [e] }
        ⟨none, { s with actions := updAction s.actions an a' }⟩

/-- `Problem.add_timed_effect / add_increase_effect / add_decrease_effect` + `_add_effect_instance`
    (problem.py:489-627).  Only the assignment form rejects an end-relative timing. -/
def addTimedEffect (E : Env) (s : State) (t : Timing) (kind : EffKind) (fluent value cond : Expr)
    (vs : List Var) : Res :=
  match asFluentExp fluent with
  | none =>
    if kind = .assign && t.isFromEnd then ⟨some .problemDef, s⟩ else ⟨some .assertion, s⟩
  | some (f, args) =>
    if args.length ≠ f.sig.length then ⟨some .exprDef, s⟩
    else if kind = .assign && t.isFromEnd then ⟨some .problemDef, s⟩
    else match buildEffect E kind f fluent value cond vs with
      | .error e => ⟨some e, s⟩
      | .ok eff =>
        match checkConflict eff f.ty ((dictGet s.tAssigned t).getD []) ((dictGet s.tIncDec t).getD []) with
        | none => ⟨some .conflict, s⟩
        | some bk =>
          ⟨none, { s with
            timedEffects := dictSet s.timedEffects t (((dictGet s.timedEffects t).getD []) ++ [eff]),
            tAssigned := if bk.1.isEmpty then s.tAssigned else dictSet s.tAssigned t bk.1,
            tIncDec := if bk.2.isEmpty then s.tIncDec else dictSet s.tIncDec t bk.2 }⟩

/-! ### goals, constraints, metrics, time model -/

/-- `Problem.add_goal` (problem.py:640) -/
def addGoal (E : Env) (s : State) (e : Expr) : Res :=
  match E.typeOf e with
  | none => ⟨some .typeError, s⟩
  | some t =>
    if t ≠ .bool then ⟨some .assertion, s⟩
    else if e = Expr.tt then ⟨none, s⟩
    else ⟨none, { s with goals := s.goals ++ [e] }⟩

def isTrajAtom : Expr → Bool
  | .app .always _ | .app .sometime _ | .app .sometimeBefore _ | .app .sometimeAfter _
  | .app .atMostOnce _ => true
  | _ => false

/-- the assertions of `Problem.add_trajectory_constraint` (problem.py:676) -/
def trajFormOK : Expr → Bool
  | .leaf (.boolC _) => true      -- fix 7938d75: a stored Boolean constant (`Sometime(TRUE)` simplified) is accepted
  | .app .and args => args.all isTrajAtom
  | .quant .all _ b => isTrajAtom b
  | e => isTrajAtom e

def addTraj (E : Env) (s : State) (e : Expr) : Res :=
  if trajFormOK e then ⟨none, { s with traj := s.traj ++ [E.simplify e] }⟩
  else ⟨some .assertion, s⟩

/-- `Problem.add_timed_goal` (problem.py:449) -/
def addTimedGoal (E : Env) (s : State) (i : TInterval) (e : Expr) : Res :=
  if (i.lower.isFromEnd && i.lower.delay ≠ 0) || (i.upper.isFromEnd && i.upper.delay ≠ 0) then
    ⟨some .problemDef, s⟩
  else match E.typeOf e with
    | none => ⟨some .typeError, s⟩
    | some t =>
      if t ≠ .bool then ⟨some .assertion, s⟩
      else
        let gl := (dictGet s.timedGoals i).getD []
        ⟨none, { s with timedGoals := dictSet s.timedGoals i (if gl.contains e then gl else gl ++ [e]) }⟩

def numericOK (E : Env) (e : Expr) : Bool :=
  match E.typeOf e with
  | some t => isNumeric t
  | none => false

def optNumericOK (E : Env) : Option Expr → Bool
  | some d => numericOK E d
  | none => true

/-- building the metric object (metrics.py) and `MetricsMixin.add_quality_metric`.  The cost
    dict of `MinimizeActionCosts` is keyed by the action OBJECTS `problem.action(name)`; the
    model keys it by name (names are unique among the actions of a problem). -/
def addMetric (E : Env) (s : State) : Metric → Res
  | .minActionCosts costs dflt =>
    if !(costs.all (fun ac => (findAction s.actions ac.1).isSome)) then ⟨some .value, s⟩
    else if !(costs.all (fun ac => numericOK E ac.2)) then ⟨some .problemDef, s⟩
    else if !(optNumericOK E dflt) then ⟨some .problemDef, s⟩
    else ⟨none, { s with metrics := s.metrics ++
            [.minActionCosts (costs.foldl (fun d ac => dictSet d ac.1 ac.2) []) dflt] }⟩
  | .minLength => ⟨none, { s with metrics := s.metrics ++ [.minLength] }⟩
  | .minFinal e =>
    if numericOK E e then ⟨none, { s with metrics := s.metrics ++ [.minFinal e] }⟩
    else ⟨some .problemDef, s⟩
  | .maxFinal e =>
    if numericOK E e then ⟨none, { s with metrics := s.metrics ++ [.maxFinal e] }⟩
    else ⟨some .problemDef, s⟩
  | .oversub goals =>
    if goals.all (fun gw => E.typeOf gw.1 == some .bool) then
      ⟨none, { s with metrics := s.metrics ++ [.oversub (goals.foldl (fun d gw => dictSet d gw.1 gw.2) [])] }⟩
    else ⟨some .problemDef, s⟩

/-- `TimeModelMixin.epsilon` setter (time_model.py:56) -/
def setEpsilon (s : State) (q : Option Rat) : Res :=
  match q with
  | some r => if r < 0 then ⟨some .problemDef, s⟩ else ⟨none, { s with epsilon := some r }⟩
  | none => ⟨none, { s with epsilon := none }⟩

/-! ### the operations of a history -/

inductive Op where
  | addFluent (f : FluentRef) (default : Option Expr)
  | addObject (name ty : String)
  | setInit (fluent value : Expr)
  | addAction (name : String) (params : List (String × Ty))
  | actAddPre (action : String) (e : Expr)
  | actAddEff (action : String) (kind : EffKind) (fluent value cond : Expr) (forall_ : List Var)
  | addGoal (e : Expr)
  | addTraj (e : Expr)
  | addTimedEffect (t : Timing) (kind : EffKind) (fluent value cond : Expr) (forall_ : List Var)
  | addTimedGoal (i : TInterval) (e : Expr)
  | addMetric (m : Metric)
  | setEpsilon (q : Option Rat)
  | setDiscreteTime (b : Bool)
  | setSelfOverlapping (b : Bool)
  deriving Repr, Inhabited

def apply (E : Env) (s : State) : Op → Res
  | .addFluent f d => addFluent E s f d
  | .addObject n t => addObject E s n t
  | .setInit f v => setInit E s f v
  | .addAction n ps => addAction E s n ps
  | .actAddPre a e => actAddPre E s a e
  | .actAddEff a k f v c vs => actAddEff E s a k f v c vs
  | .addGoal e => addGoal E s e
  | .addTraj e => addTraj E s e
  | .addTimedEffect t k f v c vs => addTimedEffect E s t k f v c vs
  | .addTimedGoal i e => addTimedGoal E s i e
  | .addMetric m => addMetric E s m
  | .setEpsilon q => setEpsilon s q
  | .setDiscreteTime b => ⟨none, { s with discreteTime := b }⟩
  | .setSelfOverlapping b => ⟨none, { s with selfOverlapping := b }⟩

/-- a history: every call is made, whatever the previous ones raised; returns the final object
    and the exception class of every call -/
def runOps (E : Env) : State → List Op → State × List (Option Err)
  | s, [] => (s, [])
  | s, op :: ops =>
    let r := apply E s op
    let rest := runOps E r.st ops
    (rest.1, r.err :: rest.2)

/-- "a problem": a state built through the public API from `Problem(name, initial_defaults=…)` -/
def Reachable (E : Env) (s : State) : Prop :=
  ∃ (name : String) (defaults : List (Ty × Expr)) (s0 : State) (ops : List Op),
    newProblem E name defaults = .ok s0 ∧ s = (runOps E s0 ops).1

/-! ### clone -/

/-- `InstantaneousAction.clone` (action.py:125) -/
def actionClone (a : ActionSt) : ActionSt :=
  { ActionSt.fresh a.name a.params with
    pre := a.pre, effs := a.effs.map effectClone, assigned := a.assigned, incdec := a.incdec }

/-- `MetricsMixin._clone_to(other, new_actions)` (metrics.py:60) for one metric: the actions of a
    `MinimizeActionCosts` are looked up by name among the cloned actions (`UPValueError` if absent) -/
def metricClone (newActions : List ActionSt) : Metric → Except Err Metric
  | .minActionCosts costs dflt =>
    if costs.all (fun ac => (findAction newActions ac.1).isSome) then
      .ok (.minActionCosts (costs.foldl (fun d ac => dictSet d ac.1 ac.2) []) dflt)
    else .error .value
  | m => .ok m

def metricsClone (newActions : List ActionSt) : List Metric → Except Err (List Metric)
  | [] => .ok []
  | m :: ms =>
    match metricClone newActions m with
    | .error e => .error e
    | .ok m' =>
      match metricsClone newActions ms with
      | .error e => .error e
      | .ok ms' => .ok (m' :: ms')

/-- `Problem.clone` = `Problem(name, env)` + `Problem._clone_to` (problem.py:251, patched: the
    per-timing `_fluents_inc_dec` is copied too) -/
def clone (s : State) : Except Err State :=
  let n := freshProblem s.name
  -- UserTypesSetMixin._clone_to, ObjectsSetMixin._clone_to
  let n := { n with userTypes := s.userTypes, objects := s.objects }
  -- FluentsSetMixin._clone_to
  let n := { n with fluents := s.fluents, initialDefaults := s.initialDefaults,
                    fluentsDefaults := s.fluentsDefaults }
  -- InitialStateMixin._clone_to
  let n := { n with init := s.init }
  -- TimeModelMixin._clone_to
  let n := { n with epsilon := s.epsilon, discreteTime := s.discreteTime,
                    selfOverlapping := s.selfOverlapping }
  let n := { n with
    actions := s.actions.map actionClone,
    timedEffects := s.timedEffects.map (fun (te : Timing × List Effect) => (te.1, te.2.map effectClone)),
    timedGoals := s.timedGoals.map (fun (tg : TInterval × List Expr) => (tg.1, tg.2)),
    goals := s.goals, traj := s.traj,
    tAssigned := s.tAssigned.map (fun (ta : Timing × List (Expr × Expr)) => (ta.1, ta.2)),
    tIncDec := s.tIncDec.map (fun (ti : Timing × List Expr) => (ti.1, ti.2)) }
  -- last, as it requires the actions to be cloned already
  match metricsClone n.actions s.metrics with
  | .error e => .error e
  | .ok ms => .ok { n with metrics := ms }

/-! ### `Problem.__eq__` and `kind` -/

/-- `Effect.__eq__` (effect.py:146): the quantified variables are compared as sets -/
def effectEq (a b : Effect) : Bool :=
  a.fluent == b.fluent && a.value == b.value && a.cond == b.cond && a.kind == b.kind &&
    setEq a.forall_ b.forall_

/-- `InstantaneousAction.__eq__` (action.py:97) -/
def actionEq (a b : ActionSt) : Bool :=
  a.name == b.name && a.params == b.params && setEq a.pre b.pre && setEqBy effectEq a.effs b.effs

/-- equality of two lists as multisets w.r.t. an equivalence `r` -/
def multisetEqBy {α : Type} (r : α → α → Bool) (a b : List α) : Bool :=
  a.length == b.length && a.all (fun x => a.countP (r x) == b.countP (r x))

/-- `hash(a) == hash(b)` for two actions that are `==` (up to hash collisions).
    `InstantaneousAction.__hash__` (action.py:113) SUMS the hashes of the preconditions and of the
    effects, so — unlike `__eq__`, which compares them as sets — it counts repetitions: an action
    holding the same effect twice is `==` to, but hashes differently from, one holding it once. -/
def actionSameHash (a b : ActionSt) : Bool :=
  multisetEqBy (fun (x y : Expr) => decide (x = y)) a.pre b.pre && multisetEqBy effectEq a.effs b.effs

/-- membership test of `set(self._actions) == set(oth._actions)` (problem.py:203): found by hash,
    confirmed by `__eq__` -/
def actionInSetEq (a b : ActionSt) : Bool := actionEq a b && actionSameHash a b

/-- `objects_set.objects(t)` as expressions, in declaration order -/
def objectsOf (T : TypeEnv) (objs : List (String × String)) (t : String) : List Expr :=
  (objs.filter (fun o => T.isSubtype o.2 t)).map (fun o => .leaf (.obj o.1 o.2))

/-- `[domain_item(objects_set, type, i) for i in range(domain_size(...))]` (types.py:243-300);
    unbounded numeric parameters make the real code raise and are outside the model (`[]`) -/
def domainOf (T : TypeEnv) (objs : List (String × String)) : Ty → List Expr
  | .user t => objectsOf T objs t
  | .bool => [Expr.tt, Expr.ff]
  | .int (some l) (some u) => (List.range (u - l + 1).toNat).map (fun (i : Nat) => Expr.int (l + (i : Int)))
  | _ => []

def product {α : Type} : List (List α) → List (List α)
  | [] => [[]]
  | d :: ds => d.flatMap (fun x => (product ds).map (fun r => x :: r))

/-- `get_all_fluent_exp(objects_set, fluent)` (fluent.py:270), as a set -/
def allFluentExps (T : TypeEnv) (s : State) (f : FluentRef) : List Expr :=
  (product (f.sig.map (domainOf T s.objects))).map (fun args => Expr.mkFluent f args)

/-- `InitialStateMixin.initial_value` for a ground fluent expression -/
def initialValue (s : State) (f : FluentRef) (fe : Expr) : Option Expr :=
  match dictGet s.init fe with
  | some v => some v
  | none => dictGet s.fluentsDefaults f

/-- `InitialStateMixin.initial_values` (initial_state.py:89) -/
def initialValues (T : TypeEnv) (s : State) : List (Expr × Expr) :=
  s.fluents.foldl (fun res f =>
    (allFluentExps T s f).foldl (fun res fe =>
      match initialValue s f fe with
      | some v => dictSet res fe v
      | none => res) res) s.init

/-- equality of the action OBJECTS two cost dicts are keyed by -/
def actionRefEq (sa sb : State) (a b : String) : Bool :=
  match findAction sa.actions a, findAction sb.actions b with
  | some x, some y => actionEq x y
  | none, none => a == b
  | _, _ => false

/-- `__eq__` of the metric classes (metrics.py; `MinimizeActionCosts.__eq__` as patched: the items
    are compared pairwise, not through the dicts' cached hashes) -/
def metricEq (sa sb : State) : Metric → Metric → Bool
  | .minActionCosts ca da, .minActionCosts cb db =>
    da == db && ca.length == cb.length &&
      ca.all (fun ac => cb.any (fun bc => actionRefEq sa sb ac.1 bc.1 && ac.2 == bc.2))
  | .minLength, .minLength => true
  | .minFinal a, .minFinal b => a == b
  | .maxFinal a, .maxFinal b => a == b
  | .oversub ga, .oversub gb => dictEq ga gb
  | _, _ => false

/-- the comparison of `_timed_effects` / `_timed_goals` in `Problem.__eq__` (problem.py:208-223) -/
def timedEq {κ ν : Type} [DecidableEq κ] (r : ν → ν → Bool) (a b : List (κ × List ν)) : Bool :=
  a.length == b.length &&
    a.all (fun kv => match dictGet b kv.1 with
      | none => false
      | some l => setEqBy r kv.2 l)

/-- what `kind` may depend on: everything except the conflict bookkeeping -/
def stripBook (s : State) : State :=
  { s with tAssigned := [], tIncDec := [],
           actions := s.actions.map (fun a => { a with assigned := [], incdec := [] }) }

/-- `Problem.kind` for a kind computation `K` (property C10 owns it; here it is ANY function of
    the problem's content that ignores the conflict bookkeeping) -/
def kind {κ : Type} (K : State → κ) (s : State) : κ := K (stripBook s)

/-- `Problem.__eq__` (problem.py:184) without the `kind` comparison -/
def eqBody (T : TypeEnv) (a b : State) : Bool :=
  a.name == b.name &&
  setEq a.userTypes b.userTypes && setEq a.objects b.objects && setEq a.fluents b.fluents &&
  dictEq (initialValues T a) (initialValues T b) &&
  setEqBy (metricEq a b) a.metrics b.metrics &&
  setEq a.goals b.goals && setEqBy actionInSetEq a.actions b.actions && setEq a.traj b.traj &&
  timedEq effectEq a.timedEffects b.timedEffects &&
  timedEq (fun (x y : Expr) => decide (x = y)) a.timedGoals b.timedGoals

/-- `Problem.__eq__` -/
def eq {κ : Type} [DecidableEq κ] (K : State → κ) (T : TypeEnv) (a b : State) : Bool :=
  decide (kind K a = kind K b) && eqBody T a b

/-! ### two objects: the original and its clone -/

/-- one step of a two-object history: a call on both objects, on the original only (`left`), on
    the clone only (`right`), or a fresh `clone()` of the original replacing the twin -/
inductive Item where
  | both (op : Op)
  | left (op : Op)
  | right (op : Op)
  | reclone
  deriving Repr, Inhabited

/-- (original, twin) after one item; a raising `clone()` leaves the twin as it was -/
def stepWorld (E : Env) (p c : State) : Item → State × State
  | .both op => ((apply E p op).st, (apply E c op).st)
  | .left op => ((apply E p op).st, c)
  | .right op => (p, (apply E c op).st)
  | .reclone =>
    match clone p with
    | .ok c' => (p, c')
    | .error _ => (p, c)

def runWorld (E : Env) : State → State → List Item → State × State
  | p, c, [] => (p, c)
  | p, c, it :: its => runWorld E (stepWorld E p c it).1 (stepWorld E p c it).2 its

/-- the calls of a two-object history that were made on the original -/
def Item.onOrig : Item → Option Op
  | .both op => some op
  | .left op => some op
  | _ => none

/-- items that treat both objects alike -/
def Item.isSym : Item → Bool
  | .both _ => true
  | .reclone => true
  | _ => false

/-! ### the invariant of C23 and `ActionInstance` -/

def initOK (E : Env) (fv : Expr × Expr) : Bool :=
  match asFluentExp fv.1 with
  | some (f, _) => fv.2.isConstant && valueOK E f.ty fv.2
  | none => false

def effOK (E : Env) (e : Effect) : Bool :=
  match asFluentExp e.fluent with
  | some (f, _) => valueOK E f.ty e.value
  | none => false

/-- every stored value is type-compatible with its target and every stored initial value
    (explicit, per-fluent default, per-type default) is a constant -/
def typeCorrect (E : Env) (s : State) : Bool :=
  s.init.all (initOK E) &&
  s.fluentsDefaults.all (fun fd => checkDefault E fd.1.ty fd.2) &&
  s.initialDefaults.all (fun td => checkDefault E td.1 td.2) &&
  s.actions.all (fun a => a.effs.all (effOK E)) &&
  s.timedEffects.all (fun te => te.2.all (effOK E))

/-- `ActionInstance(action, params)` (plans/plan.py:36): the stored actual parameters -/
def mkInstance (E : Env) (params : List (String × Ty)) (args : List Expr) : Except Err (List Expr) :=
  if params.length ≠ args.length then .error .assertion
  else if (params.zip args).all (fun pa => valueOK E pa.1.2 pa.2 && pa.2.isConstant) then .ok args
  else .error .typeError

end Build
end UPVerif
