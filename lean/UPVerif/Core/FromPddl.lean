import UPVerif.Core.Sexp
import UPVerif.Core.Expr
import UPVerif.Core.Problem
import UPVerif.Core.PddlNum
import UPVerif.Core.PddlRead
/-
The SECOND PDDL reader, `PDDLReader(force_ai_planning_reader=True)` (unified_planning/io/pddl_reader.py:134):

    ai_domain  = DomainParser()(domain_str.lower())          -- external package `pddl` 0.4.10 (lark, LALR)
    ai_problem = ProblemParser()(problem_str.lower())
    convert_problem_from_ai_pddl(ai_domain, ai_problem)      -- unified_planning/interop/from_pddl.py

Three parts.

1. `Form`, `PAction`, `PDomain`, `PProblem`, `PddlAst` — the objects of the `pddl` package AS THE CONVERTER SEES
   THEM (`isinstance` dispatch of `convert_expression` / `_convert_effects`): one constructor per class the converter
   tells apart, one `OpK` per class that carries an `operands` tuple.

2. `astOf : Sexp → Sexp → Option PddlAst` — what the external parser builds from the two token trees.  THIS IS THE
   TRUSTED, SAMPLED PIECE: lark and the package's transformer are not modelled line by line; `astOf` states their
   net effect on the fragment both readers accept, and `harness/props/C21.py` compares it with a dump of the real
   package's objects on every generated input.  It is kept small and reuses the tree plumbing of the reference
   reader (`splitDomain`, `splitProblem`, `typedList` of Core/PddlRead.lean: both grammars fix the same section order).
   What it reproduces of the package, because the converter's result depends on it:
     * `BinaryOpMetaclass` (pddl/logic/base.py:133, `_simplify_monotone_op_operands` :279): `And`, `Or`, `EqualTo`
       (functions), `Minus`, `Plus`, `Times`, `Divide` splice operands of their own class and drop repeated operands;
       `And` / `Or` with a single operand left ARE that operand (finding D-C21a is this collapse on `+` and `*`);
     * the LALR grammar: no binary `-`; `(= a b)` with a name or variable first is the equality of terms, otherwise
       of numeric expressions; an action needs both `:precondition` and `:effect`; `()` as precondition or effect is
       `Or()`; no nested `and` directly inside an effect `and`, no `when` inside `when`; `:init` items are atoms,
       negated atoms and `(= (f o…) number)`;
     * requirement checks of the transformer (`or`, `imply`, quantifiers, `=` on terms) — the GOAL is read by a fresh
       `DomainTransformer` that has NO requirement (pddl/parser/problem.py:42), so it admits none of these;
     * `Domain._check_consistency` (pddl/core.py:85): type tags must be declared types.
   What it idealises: the package keeps constants, predicates, actions, objects, initial literals and quantified
   variables in `frozenset`s (iteration order = hash order); the model keeps declaration order and drops repeated
   elements; the harness compares these collections sorted.  Numbers are exact rationals (the package hands over
   Python floats; the converter turns them back with `Fraction(str(x))`: exact up to 15 significant digits).

3. `fromPddl : PddlAst → Option Problem` — `AIPDDLConverter.convert` (from_pddl.py:760), function by function, WITH
   the repair of notes/patches/C21-ai-reader-refusals.patch.  `none` = the converter raises.
   Not modelled (as for the reference reader, see Core/PddlRead.lean): the type checks of the expression manager and
   the static effect-conflict check of `_add_effect_instance`; a `decrease` of `total-cost` under an action-cost
   metric (the converter simplifies `0 - v` with the real simplifier: answered `none`).
-/
namespace UPVerif.FromPddl
open UPVerif UPVerif.Pddl

/-! ## 1. the package's objects -/

/-- an OCCURRENCE of a term in a formula: `Constant(name)` / `Variable(name, …)`; the converter reads only the class
    and the name (from_pddl.py:184, :242) -/
inductive Term where
  | const (name : String)
  | var (name : String)
  deriving DecidableEq, Repr, Inhabited

/-- a `Variable` in a DECLARATION (parameters, quantified variables, predicate skeletons) with its `type_tags` -/
structure TVar where
  name : String
  tags : List String
  deriving DecidableEq, Repr, Inhabited

/-- classes with an `operands` tuple: pddl.logic.base.BinaryOp and pddl.logic.functions.BinaryFunction -/
inductive OpK where
  | and | or | imply | oneof
  | eqF | lt | le | gt | ge
  | minus | plus | times | divide
  | assign | increase | decrease | scaleUp | scaleDown
  deriving DecidableEq, Repr, Inhabited

inductive Form where
  /-- `NumericValue(value)` -/
  | num (q : Rat)
  | op (k : OpK) (args : List Form)
  /-- `Not(argument)` -/
  | not (f : Form)
  /-- `Predicate(name, *terms)` -/
  | pred (name : String) (terms : List Term)
  /-- `NumericFunction(name, *terms)` -/
  | fn (name : String) (terms : List Term)
  /-- `pddl.logic.predicates.EqualTo(left, right)` -/
  | eqT (l r : Term)
  /-- `ForallCondition` / `ExistsCondition` -/
  | quant (q : Quant) (vs : List TVar) (body : Form)
  /-- `pddl.logic.effects.When(condition, effect)` -/
  | when (c e : Form)
  /-- `pddl.logic.effects.Forall(effect, variables)` -/
  | forallE (vs : List TVar) (e : Form)
  deriving Repr, Inhabited

namespace Form

/-! `__eq__` of the package's classes on the modelled fragment = structural equality -/
mutual
def beq : Form → Form → Bool
  | .num a, .num b => a == b
  | .op k as, .op l bs => k == l && beqList as bs
  | .not a, .not b => beq a b
  | .pred n ts, .pred m us => n == m && ts == us
  | .fn n ts, .fn m us => n == m && ts == us
  | .eqT a b, .eqT c d => a == c && b == d
  | .quant q vs a, .quant r ws b => q == r && vs == ws && beq a b
  | .when a b, .when c d => beq a c && beq b d
  | .forallE vs a, .forallE ws b => vs == ws && beq a b
  | _, _ => false
def beqList : List Form → List Form → Bool
  | [], [] => true
  | a :: as, b :: bs => beq a b && beqList as bs
  | _, _ => false
end

mutual
theorem eq_of_beq : ∀ (a b : Form), beq a b = true → a = b
  | .num a, .num b, h => by simp [beq] at h; rw [h]
  | .op k as, .op l bs, h => by
    simp only [beq, Bool.and_eq_true, beq_iff_eq] at h
    rw [h.1, eq_of_beqList as bs h.2]
  | .not a, .not b, h => by
    simp only [beq] at h
    rw [eq_of_beq a b h]
  | .pred n ts, .pred m us, h => by
    simp only [beq, Bool.and_eq_true, beq_iff_eq] at h
    rw [h.1, h.2]
  | .fn n ts, .fn m us, h => by
    simp only [beq, Bool.and_eq_true, beq_iff_eq] at h
    rw [h.1, h.2]
  | .eqT a b, .eqT c d, h => by
    simp only [beq, Bool.and_eq_true, beq_iff_eq] at h
    rw [h.1, h.2]
  | .quant q vs a, .quant r ws b, h => by
    simp only [beq, Bool.and_eq_true, beq_iff_eq] at h
    rw [h.1.1, h.1.2, eq_of_beq a b h.2]
  | .when a b, .when c d, h => by
    simp only [beq, Bool.and_eq_true] at h
    rw [eq_of_beq a c h.1, eq_of_beq b d h.2]
  | .forallE vs a, .forallE ws b, h => by
    simp only [beq, Bool.and_eq_true, beq_iff_eq] at h
    rw [h.1, eq_of_beq a b h.2]
  | .num _, .op _ _, h | .num _, .not _, h | .num _, .pred _ _, h | .num _, .fn _ _, h | .num _, .eqT _ _, h
  | .num _, .quant _ _ _, h | .num _, .when _ _, h | .num _, .forallE _ _, h => by simp [beq] at h
  | .op _ _, .num _, h | .op _ _, .not _, h | .op _ _, .pred _ _, h | .op _ _, .fn _ _, h | .op _ _, .eqT _ _, h
  | .op _ _, .quant _ _ _, h | .op _ _, .when _ _, h | .op _ _, .forallE _ _, h => by simp [beq] at h
  | .not _, .num _, h | .not _, .op _ _, h | .not _, .pred _ _, h | .not _, .fn _ _, h | .not _, .eqT _ _, h
  | .not _, .quant _ _ _, h | .not _, .when _ _, h | .not _, .forallE _ _, h => by simp [beq] at h
  | .pred _ _, .num _, h | .pred _ _, .op _ _, h | .pred _ _, .not _, h | .pred _ _, .fn _ _, h | .pred _ _, .eqT _ _, h
  | .pred _ _, .quant _ _ _, h | .pred _ _, .when _ _, h | .pred _ _, .forallE _ _, h => by simp [beq] at h
  | .fn _ _, .num _, h | .fn _ _, .op _ _, h | .fn _ _, .not _, h | .fn _ _, .pred _ _, h | .fn _ _, .eqT _ _, h
  | .fn _ _, .quant _ _ _, h | .fn _ _, .when _ _, h | .fn _ _, .forallE _ _, h => by simp [beq] at h
  | .eqT _ _, .num _, h | .eqT _ _, .op _ _, h | .eqT _ _, .not _, h | .eqT _ _, .pred _ _, h | .eqT _ _, .fn _ _, h
  | .eqT _ _, .quant _ _ _, h | .eqT _ _, .when _ _, h | .eqT _ _, .forallE _ _, h => by simp [beq] at h
  | .quant _ _ _, .num _, h | .quant _ _ _, .op _ _, h | .quant _ _ _, .not _, h | .quant _ _ _, .pred _ _, h
  | .quant _ _ _, .fn _ _, h | .quant _ _ _, .eqT _ _, h | .quant _ _ _, .when _ _, h
  | .quant _ _ _, .forallE _ _, h => by simp [beq] at h
  | .when _ _, .num _, h | .when _ _, .op _ _, h | .when _ _, .not _, h | .when _ _, .pred _ _, h | .when _ _, .fn _ _, h
  | .when _ _, .eqT _ _, h | .when _ _, .quant _ _ _, h | .when _ _, .forallE _ _, h => by simp [beq] at h
  | .forallE _ _, .num _, h | .forallE _ _, .op _ _, h | .forallE _ _, .not _, h | .forallE _ _, .pred _ _, h
  | .forallE _ _, .fn _ _, h | .forallE _ _, .eqT _ _, h | .forallE _ _, .quant _ _ _, h
  | .forallE _ _, .when _ _, h => by simp [beq] at h
theorem eq_of_beqList : ∀ (as bs : List Form), beqList as bs = true → as = bs
  | [], [], _ => rfl
  | a :: as, b :: bs, h => by
    simp only [beqList, Bool.and_eq_true] at h
    rw [eq_of_beq a b h.1, eq_of_beqList as bs h.2]
  | [], _ :: _, h => by simp [beqList] at h
  | _ :: _, [], h => by simp [beqList] at h
end

mutual
theorem beq_refl : ∀ (a : Form), beq a a = true
  | .num a => by simp [beq]
  | .op k as => by simp [beq, beqList_refl as]
  | .not a => by simp [beq, beq_refl a]
  | .pred n ts => by simp [beq]
  | .fn n ts => by simp [beq]
  | .eqT a b => by simp [beq]
  | .quant q vs a => by simp [beq, beq_refl a]
  | .when a b => by simp [beq, beq_refl a, beq_refl b]
  | .forallE vs a => by simp [beq, beq_refl a]
theorem beqList_refl : ∀ (as : List Form), beqList as as = true
  | [] => rfl
  | a :: as => by simp [beqList, beq_refl a, beqList_refl as]
end

instance : DecidableEq Form := fun a b =>
  if h : beq a b = true then isTrue (eq_of_beq a b h)
  else isFalse (fun e => h (e ▸ beq_refl a))

end Form

/-- `pddl.action.Action` -/
structure PAction where
  name : String
  params : List TVar
  pre : Option Form
  eff : Option Form
  deriving DecidableEq, Repr, Inhabited

/-- `pddl.core.Domain` -/
structure PDomain where
  name : String
  reqs : List String
  /-- `domain.types`: declared type ↦ father (`None` also for the father `object`) -/
  types : List (String × Option String)
  /-- `Constant(name, type_tag)` -/
  constants : List (String × Option String)
  predicates : List (String × List TVar)
  /-- `NumericFunction` skeletons (keys of `domain.functions`) -/
  functions : List (String × List TVar)
  actions : List PAction
  deriving Repr, Inhabited

/-- `pddl.core.Problem` -/
structure PProblem where
  name : String
  domainName : String
  reqs : Option (List String)
  objects : List (String × Option String)
  init : List Form
  goal : Form
  metric : Option (String × Form)
  deriving Repr, Inhabited

structure PddlAst where
  dom : PDomain
  prob : PProblem
  deriving Repr, Inhabited

/-! ## 2. the external parser on token trees (trusted, sampled) -/

/-- keep the first occurrence of every element (`dict.fromkeys`, the `seen` set) -/
def dedupAcc {α : Type} [DecidableEq α] : List α → List α → List α
  | _, [] => []
  | seen, x :: xs => if x ∈ seen then dedupAcc seen xs else x :: dedupAcc (x :: seen) xs

def dedup {α : Type} [DecidableEq α] (l : List α) : List α := dedupAcc [] l

/-- classes created through `BinaryOpMetaclass` -/
def OpK.isMeta : OpK → Bool
  | .and | .or | .eqF | .minus | .plus | .times | .divide => true
  | _ => false

/-- `idempotency = True` -/
def OpK.idem : OpK → Bool
  | .and | .or => true
  | _ => false

mutual
/-- the depth-first walk of `_simplify_monotone_op_operands`: operands of the same class are spliced in place -/
def flat (k : OpK) : Form → List Form
  | .op k' xs => if k' = k then flatList k xs else [.op k' xs]
  | f => [f]
def flatList (k : OpK) : List Form → List Form
  | [] => []
  | x :: xs => flat k x ++ flatList k xs
end

/-- `_simplify_monotone_op_operands(cls, *operands, idempotency)` (pddl/logic/base.py:279) -/
def simplifyOperands (k : OpK) (ops : List Form) : List Form :=
  let old := if k.idem then dedup ops else ops
  if old.length ≤ 1 then old else dedup (flatList k old)

/-- `cls(*operands)` for a class of the package -/
def mkOp (k : OpK) (ops : List Form) : Form :=
  if k.isMeta then
    match simplifyOperands k ops, k.idem with
    | [x], true => x
    | o, _ => .op k o
  else .op k ops

/-- the part of the transformer state the rules read -/
structure PCtx where
  /-- `_extended_requirements` (without the colon) -/
  reqs : List String
  /-- `_constants_by_name` in a domain (`constant` raises `ParseError` on an unknown name);
      `none` in a problem file (pddl/parser/problem.py:215: any name is a `Constant`) -/
  consts : Option (List String)

def PCtx.has (C : PCtx) (r : String) : Bool := C.reqs.contains r

/-- `_extend_domain_requirements` (pddl/requirements.py:85) -/
def extendReqs (rs : List String) : List String :=
  rs ++ (if rs.contains "quantified-preconditions" then ["universal-preconditions", "existential-preconditions"] else [])
     ++ (if rs.contains "adl" then ["strips", "typing", "negative-preconditions", "disjunctive-preconditions", "equality",
                                    "conditional-effects", "universal-preconditions", "existential-preconditions"] else [])
     ++ (if rs.contains "fluents" then ["object-fluents", "numeric-fluents"] else [])

/-- the requirement keys of the grammar (any other key is a lexer error) -/
def knownReqs : List String :=
  ["typing", "strips", "equality", "non-deterministic", "negative-preconditions", "disjunctive-preconditions",
   "existential-preconditions", "universal-preconditions", "quantified-preconditions", "adl", "derived-predicates",
   "conditional-effects", "numeric-fluents", "fluents", "action-costs"]

def stripColon (s : String) : Option String :=
  match s.toList with
  | ':' :: r => some (String.ofList r)
  | _ => none

/-- `(:requirements k+)` -/
def astReqs : List Sexp → Option (List String)
  | [] => some []
  | .atom s :: rest =>
    match stripColon s with
    | some r => if knownReqs.contains r then (astReqs rest).map (r :: ·) else none
    | none => none
  | .list _ :: _ => none

/-- `NUMBER` token -/
def numberTok (s : String) : Option Rat :=
  match s.toList with
  | '-' :: _ => none
  | '+' :: _ => none
  | cs => parseUnsigned cs

/-- words that are tokens of their own in the grammar -/
def reservedWords : List String :=
  ["and", "or", "not", "imply", "exists", "forall", "when", "oneof", "either", "=", "<", "<=", ">", ">=", "+", "-",
   "*", "/", "assign", "increase", "decrease", "scale-up", "scale-down", "define", "domain", "problem"]

/-- `NAME: /[a-zA-Z][a-zA-Z0-9-_]*/` starts with a letter -/
def startsAlpha (s : String) : Bool :=
  match s.toList with
  | c :: _ => c.isAlpha
  | [] => false

/-- not a `NAME` where the model dispatches: a token of its own, or not starting with a letter (a signed numeral `-3`) -/
def isReserved (s : String) : Bool := reservedWords.contains s || !startsAlpha s

/-- `term: constant | variable` -/
def astTerm (C : PCtx) : Sexp → Option Term
  | .atom s =>
    match stripQ s with
    | some v => some (.var v)
    | none =>
      if (numberTok s).isSome || isReserved s then none
      else match C.consts with
        | some cs => if cs.contains s then some (.const s) else none
        | none => some (.const s)
  | .list _ => none

def astTerms (C : PCtx) : List Sexp → Option (List Term)
  | [] => some []
  | t :: ts => do
    let x ← astTerm C t
    let xs ← astTerms C ts
    some (x :: xs)

/-- `typed_list_variable` → `Variable(name, tags)`; `(either …)` is outside the model -/
def astVars (ts : List Sexp) : Option (List TVar) :=
  (typedList true ts).map (fun gs => gs.flatMap (fun g => g.1.map (fun n => ({ name := n, tags := g.2.toList } : TVar))))

/-- `typed_list_name` → `{name: type or None}`; a repeated name is a `ValueError` -/
def astNames (ts : List Sexp) : Option (List (String × Option String)) :=
  match typedList false ts with
  | some gs =>
    let l := gs.flatMap (fun g => g.1.map (fun n => (n, g.2)))
    if (l.map (·.1)).eraseDups.length == l.length then some l else none
  | none => none

def arithOp? (s : String) : Option OpK :=
  if s == "+" then some .plus else if s == "*" then some .times else if s == "/" then some .divide else none

mutual
/-- `f_exp` (and `metric_f_exp`, which has the same shape) -/
def astFexp (C : PCtx) : Sexp → Option Form
  | .atom s =>
    match numberTok s with
    | some q => some (.num q)
    | none => if isReserved s || (stripQ s).isSome then none else some (.fn s [])         -- `f_head: NAME`
  | .list xs => astFexpL C xs
def astFexpL (C : PCtx) : List Sexp → Option Form
  | [] => none
  | .list _ :: _ => none
  | .atom h :: rest =>
    if h == "-" then
      match rest with
      | [x] => (astFexp C x).map (fun a => mkOp .minus [a])        -- the only `-` the LALR tables accept
      | _ => none
    else
      match arithOp? h with
      | some k =>
        if rest.length < 2 || (k == .divide && rest.length != 2) then none
        else (astFexps C rest).map (mkOp k)
      | none =>
        if isReserved h then none else (astTerms C rest).map (.fn h)     -- `f_head: (NAME term*)`
def astFexps (C : PCtx) : List Sexp → Option (List Form)
  | [] => some []
  | x :: xs => do
    let a ← astFexp C x
    let as ← astFexps C xs
    some (a :: as)
end

def cmpOp? (s : String) : Option OpK :=
  if s == "=" then some .eqF else if s == "<" then some .lt else if s == "<=" then some .le
  else if s == ">" then some .gt else if s == ">=" then some .ge else none

/-- after `( =` the LALR tables shift a `NAME` or `?`: the form is then the equality of two terms -/
def startsTerm : Sexp → Bool
  | .atom s => (numberTok s).isNone
  | .list _ => false

/-- `atomic_formula_term` -/
def astAtom (C : PCtx) : Sexp → Option Form
  | .list (.atom h :: rest) =>
    if h == "=" then
      match rest with
      | [a, b] => if C.has "equality" then do
          let x ← astTerm C a
          let y ← astTerm C b
          some (.eqT x y)
        else none
      | _ => none
    else if isReserved h || (numberTok h).isSome || (stripQ h).isSome then none
    else (astTerms C rest).map (.pred h)
  | _ => none

mutual
/-- `gd` -/
def astGd (C : PCtx) : Sexp → Option Form
  | .atom _ => none
  | .list xs => astGdL C xs
def astGdL (C : PCtx) : List Sexp → Option Form
  | [] => none
  | .list _ :: _ => none
  | .atom h :: rest =>
    if h == "and" then (astGds C rest).map (mkOp .and)
    else if h == "or" then
      if C.has "disjunctive-preconditions" || C.has "adl" then (astGds C rest).map (mkOp .or) else none
    else if h == "not" then
      match rest with
      | [x] => (astGd C x).map Form.not
      | _ => none
    else if h == "imply" then
      match rest with
      | [a, b] =>
        if C.has "disjunctive-preconditions" || C.has "adl" then
          match astGd C a, astGd C b with
          | some x, some y => some (.op .imply [x, y])
          | _, _ => none
        else none
      | _ => none
    else if h == "exists" || h == "forall" then
      match rest with
      | [.list vl, body] =>
        if C.has (if h == "exists" then "existential-preconditions" else "universal-preconditions")
            || C.has "quantified-preconditions" || C.has "adl" then
          match astVars vl, astGd C body with
          | some vs, some b => some (.quant (quantOf h) vs b)
          | _, _ => none
        else none
      | _ => none
    else
      match cmpOp? h with
      | some k =>
        match rest with
        | [a, b] =>
          if h == "=" && startsTerm a then astAtom C (.list (.atom h :: rest))
          else
            match astFexp C a, astFexp C b with
            | some x, some y => some (mkOp k [x, y])
            | _, _ => none
        | _ => none
      | none => astAtom C (.list (.atom h :: rest))
def astGds (C : PCtx) : List Sexp → Option (List Form)
  | [] => some []
  | x :: xs => do
    let a ← astGd C x
    let as ← astGds C xs
    some (a :: as)
end

def assignOp? (s : String) : Option OpK :=
  if s == "assign" then some .assign else if s == "increase" then some .increase
  else if s == "decrease" then some .decrease else if s == "scale-up" then some .scaleUp
  else if s == "scale-down" then some .scaleDown else none

/-- `f_head` -/
def astFhead (C : PCtx) : Sexp → Option Form
  | .atom s => if (numberTok s).isSome || isReserved s || (stripQ s).isSome then none else some (.fn s [])
  | .list (.atom h :: rest) => if isReserved h then none else (astTerms C rest).map (.fn h)
  | .list _ => none

/-- `p_effect` -/
def astPEffect (C : PCtx) : Sexp → Option Form
  | .list [.atom "not", a] => (astAtom C a).map Form.not
  | .list (.atom h :: rest) =>
    match assignOp? h with
    | some k =>
      match rest with
      | [f, v] =>
        match astFhead C f, astFexp C v with
        | some x, some y => some (.op k [x, y])
        | _, _ => none
      | _ => none
    | none => astAtom C (.list (.atom h :: rest))
  | _ => none

def astPEffects (C : PCtx) : List Sexp → Option (List Form)
  | [] => some []
  | x :: xs => do
    let a ← astPEffect C x
    let as ← astPEffects C xs
    some (a :: as)

/-- `cond_effect` -/
def astCondEffect (C : PCtx) : Sexp → Option Form
  | .list (.atom "and" :: ps) => (astPEffects C ps).map (mkOp .and)
  | e => astPEffect C e

/-- the `c_effect`s that contain no further `effect`: `when` (its body is a `cond_effect`) and the `p_effect`s -/
def astCBodyFlat (C : PCtx) (h : String) (rest : List Sexp) : Option Form :=
  if h == "when" then
    match rest with
    | [c, e] =>
      match astGd C c, astCondEffect C e with
      | some x, some y => some (.when x y)
      | _, _ => none
    | _ => none
  else if h == "and" || h == "oneof" then none
  else astPEffect C (.list (.atom h :: rest))

mutual
/-- `effect: (and c_effect*) | c_effect` -/
def astEffect (C : PCtx) : Sexp → Option Form
  | .atom _ => none
  | .list xs => astEffectL C xs
/-- dispatch on the head of a parenthesised effect: an `and` is allowed here -/
def astEffectL (C : PCtx) : List Sexp → Option Form
  | [] => none
  | .list _ :: _ => none
  | .atom h :: rest =>
    if h == "and" then (astCEffects C rest).map (mkOp .and)
    else astCBody C h rest
/-- `c_effect` -/
def astCEffect (C : PCtx) : Sexp → Option Form
  | .atom _ => none
  | .list xs => astCEffectL C xs
def astCEffectL (C : PCtx) : List Sexp → Option Form
  | [] => none
  | .list _ :: _ => none
  | .atom h :: rest => astCBody C h rest
/-- a `c_effect` with head `h` and operands `rest` (every recursive call is on a strict sub-tree, so that the
    definition unfolds in the kernel) -/
def astCBody (C : PCtx) (h : String) : List Sexp → Option Form
  | [.list vl, e] =>
    if h == "forall" then
      match astVars vl, astEffect C e with
      | some vs, some x => some (.forallE vs x)
      | _, _ => none
    else astCBodyFlat C h [.list vl, e]
  | rest => if h == "forall" then none else astCBodyFlat C h rest
def astCEffects (C : PCtx) : List Sexp → Option (List Form)
  | [] => some []
  | x :: xs => do
    let a ← astCEffect C x
    let as ← astCEffects C xs
    some (a :: as)
end

/-- `emptyor_pregd` -/
def astPre (C : PCtx) : Sexp → Option Form
  | .list [] => some (.op .or [])
  | t => astGd C t

/-- `emptyor_effect` -/
def astEff (C : PCtx) : Sexp → Option Form
  | .list [] => some (.op .or [])
  | t => astEffect C t

/-- `action_def`: both keys are needed (a missing one makes `action_def` fail on a `None` child) -/
def astAction (C : PCtx) : Sexp → Option PAction
  | .list [.atom ":action", .atom name, .atom ":parameters", .list ps, .atom ":precondition", p, .atom ":effect", e] => do
    let params ← astVars ps
    let pre ← astPre C p
    let eff ← astEff C e
    some { name := name, params := params, pre := some pre, eff := some eff }
  | _ => none

def astActions (C : PCtx) : List Sexp → Option (List PAction)
  | [] => some []
  | a :: as => do
    let x ← astAction C a
    let xs ← astActions C as
    some (x :: xs)

/-- `atomic_formula_skeleton` -/
def astSkeleton : Sexp → Option (String × List TVar)
  | .list (.atom n :: ps) => if isReserved n then none else (astVars ps).map (fun vs => (n, vs))
  | _ => none

/-- `f_typed_list_atomic_function_skeleton`; `total-cost` loses its parameters (pddl/parser/domain.py:457) -/
def astFunctions : List Sexp → Option (List (String × List TVar))
  | [] => some []
  | .list (.atom n :: ps) :: .atom "-" :: .atom "number" :: rest => do
    let vs ← astVars ps
    let more ← astFunctions rest
    some ((n, if n == "total-cost" then [] else vs) :: more)
  | .list (.atom n :: ps) :: rest => do
    let vs ← astVars ps
    let more ← astFunctions rest
    some ((n, if n == "total-cost" then [] else vs) :: more)
  | _ => none

/-- `Types.all_types` -/
def allTypes (types : List (String × Option String)) : List String :=
  types.map (·.1) ++ types.filterMap (·.2)

def tagsOK (all : List String) (tags : List String) : Bool := tags.all all.contains

mutual
/-- type tags of the declarations inside a formula / effect (`TypeChecker.check_type`) -/
def formTags : Form → List String
  | .op _ args => formTagsList args
  | .not f => formTags f
  | .quant _ vs b => vs.flatMap (·.tags) ++ formTags b
  | .when c e => formTags c ++ formTags e
  | .forallE vs e => vs.flatMap (·.tags) ++ formTags e
  | _ => []
def formTagsList : List Form → List String
  | [] => []
  | f :: fs => formTags f ++ formTagsList fs
end

def actionTags (a : PAction) : List String :=
  a.params.flatMap (·.tags) ++ (a.pre.map formTags).getD [] ++ (a.eff.map formTags).getD []

/-- `DomainParser()(text)` on the lower-cased tree -/
def astDomain (dom : Sexp) : Option PDomain := do
  let D ← splitDomain dom
  let reqs ← (match dom with
    | .list (_ :: _ :: .list (.atom ":requirements" :: rs) :: _) => astReqs rs
    | _ => some [])
  let ext := extendReqs reqs
  let typeLines ← (if D.hasTypes then astNames D.types else some [])
  -- `types` rule: a father `object` is recorded as `None`
  let types := typeLines.map (fun p => (p.1, if p.2 == some "object" then none else p.2))
  -- `Types._check_types_dictionary`: the typing requirement, `object` has no supertype (cycles: not modelled)
  if types.any (fun p => p.2.isSome) && !ext.contains "typing" then none
  if types.any (fun p => p.1 == "object" && p.2.isSome) then none
  let consts ← astNames D.constants
  let C : PCtx := { reqs := ext, consts := some (consts.map (·.1)) }
  let preds ← D.predicates.mapM astSkeleton
  let funs ← astFunctions D.functions
  if (funs.map (·.1)).eraseDups.length != funs.length then none
  let acts ← astActions C D.actions
  -- `Domain._check_consistency`: constants, predicates, actions carry declared types only
  let all := allTypes types
  let tags := consts.flatMap (fun c => c.2.toList) ++ preds.flatMap (fun p => p.2.flatMap (·.tags)) ++ acts.flatMap actionTags
  if !tagsOK all tags then none
  if !tags.isEmpty && !ext.contains "typing" then none
  some { name := D.name, reqs := reqs, types := types, constants := consts, predicates := dedup preds,
         functions := funs, actions := dedup acts }

/-- `init_el` -/
def astInitEl (C : PCtx) : Sexp → Option Form
  | .list [.atom "=", f, .atom v] =>
    match (match f with
      | .atom n => if isReserved n || (numberTok n).isSome then none else some (Form.fn n [])
      | .list (.atom n :: os) => if isReserved n then none else (astTerms C os).map (Form.fn n)
      | _ => none), numberTok v with
    | some x, some q => some (mkOp .eqF [x, .num q])
    | _, _ => none
  | .list [.atom "not", .list (.atom n :: os)] =>
    if n == "=" || isReserved n then none else (astTerms C os).map (fun ts => .not (.pred n ts))
  | .list (.atom n :: os) => if n == "=" || isReserved n then none else (astTerms C os).map (.pred n)
  | _ => none

def astInit (C : PCtx) : List Sexp → Option (List Form)
  | [] => some []
  | x :: xs => do
    let a ← astInitEl C x
    let as ← astInit C xs
    some (a :: as)

def isGroundTerm : Term → Bool
  | .const _ => true
  | .var _ => false

def groundInit : Form → Bool
  | .pred _ ts => ts.all isGroundTerm
  | .not (.pred _ ts) => ts.all isGroundTerm
  | .op .eqF [.fn _ ts, .num _] => ts.all isGroundTerm
  | _ => false

/-- `ProblemParser()(text)` on the lower-cased tree -/
def astProblem (prob : Sexp) : Option PProblem := do
  let Q ← splitProblem prob
  let dname ← (match prob with
    | .list (_ :: _ :: .list [.atom ":domain", .atom d] :: _) => some d
    | _ => none)
  let reqs ← (match prob with
    | .list (_ :: _ :: _ :: .list (.atom ":requirements" :: rs) :: _) => (astReqs rs).map some
    | _ => some none)
  let objs ← astNames Q.objects
  -- the problem's formulas are read by a FRESH `DomainTransformer`: no requirement, no constant table
  let C : PCtx := { reqs := [], consts := none }
  let init ← astInit C Q.init
  if !init.all groundInit then none                      -- `NAME*` in `atomic_formula_name` / `basic_function_term`
  let goal ← (match Q.goal with
    | some g => astGd C g
    | none => none)
  let metric ← (match Q.metric with
    | none => some none
    | some (opt, m) => (astFexp C m).map (fun e => some (opt, e)))
  some { name := Q.name, domainName := dname, reqs := reqs, objects := objs, init := dedup init, goal := goal,
         metric := metric }

def astOfLower (dom prob : Sexp) : Option PddlAst := do
  let d ← astDomain dom
  let p ← astProblem prob
  some { dom := d, prob := p }

/-- the external parser behind `PDDLReader(force_ai_planning_reader=True)` on the tokenised texts -/
def astOf (dom prob : Sexp) : Option PddlAst := astOfLower (lowerSexp dom) (lowerSexp prob)

/-! ## 3. the converter: `unified_planning/interop/from_pddl.py` -/

/-- `AIPDDLConverter._types` : pddl type name ↦ UP user type (by name); `none` = `None` (the type `object` when
    nothing is declared of type `object`) -/
abbrev TypeTab := List (String × Option String)

/-- what `_ExpressionConverter` is constructed from (from_pddl.py:102) -/
structure CEnv where
  types : TypeTab
  /-- `_fluents` -/
  fluents : List FluentRef
  /-- `_objects` : name ↦ UP type name -/
  objects : List (String × String)
  deriving Inhabited

def CEnv.fluent? (E : CEnv) (n : String) : Option FluentRef := E.fluents.find? (fun f => f.name == n)

/-- `_has_object_user_type` (from_pddl.py:351) -/
def hasObjectUserType (A : PddlAst) : Bool :=
  (A.dom.constants ++ A.prob.objects).any (fun o => o.2 == some "object") ||
  (A.dom.predicates ++ A.dom.functions).any (fun f => f.2.any (fun v => v.tags.contains "object")) ||
  A.dom.actions.any (fun a => a.params.any (fun v => v.tags.contains "object"))

/-- the `while remaining_types and chances > 0` loop of `_convert_types` (from_pddl.py:400); `fuel` bounds the
    number of iterations (at most `n²` for `n` postponed types) -/
def convertRemaining : Nat → Nat → List (String × String) → TypeTab → List (String × Option String) →
    Option (TypeTab × List (String × Option String))
  | _, _, [], tab, ups => some (tab, ups)
  | _, 0, _ :: _, _, _ => none                                    -- "Could not convert types"
  | 0, _, _ :: _, _, _ => none
  | fuel + 1, chances + 1, (n, f) :: rest, tab, ups =>
    match (tab.lookup f).join with
    | some fa => convertRemaining fuel rest.length rest (tab ++ [(n, some n)]) (ups ++ [(n, some fa)])
    | none => convertRemaining fuel chances (rest ++ [(n, f)]) tab ups

/-- `_convert_types` (from_pddl.py:385): returns `_types` and the created user types with their fathers -/
def convertTypes (hasObj : Bool) (types : List (String × Option String)) :
    Option (TypeTab × List (String × Option String)) :=
  let tab0 : TypeTab := [("object", if hasObj then some "object" else none)]
  let ups0 : List (String × Option String) := if hasObj then [("object", none)] else []
  -- first pass: types whose father is `None` or already converted
  let step := fun (st : TypeTab × List (String × Option String) × List (String × String)) (p : String × Option String) =>
    let (tab, ups, rem) := st
    match p.2 with
    | none => (tab.filter (·.1 != p.1) ++ [(p.1, some p.1)], ups.filter (·.1 != p.1) ++ [(p.1, none)], rem)
    | some f =>
      if tab.any (·.1 == f) then
        (tab.filter (·.1 != p.1) ++ [(p.1, some p.1)], ups.filter (·.1 != p.1) ++ [(p.1, (tab.lookup f).join)], rem)
      else (tab, ups, rem ++ [(p.1, f)])
  let (tab, ups, rem) := types.foldl step (tab0, ups0, [])
  convertRemaining (rem.length * rem.length + 1) rem.length rem tab ups

/-- `_variable_type` (from_pddl.py:415) -/
def variableType (tab : TypeTab) (v : TVar) : Option Ty :=
  match v.tags with
  | [t] => ((tab.lookup t).join).map Ty.user
  | _ => none

/-- `_convert_variable` (from_pddl.py:131): the first type tag -/
def convertVariable (tab : TypeTab) (v : TVar) : Option Var :=
  match v.tags with
  | t :: _ => ((tab.lookup t).join).map (fun n => ({ name := v.name, ty := .user n } : Var))
  | [] => none

def convertVariables (tab : TypeTab) : List TVar → Option (List Var)
  | [] => some []
  | v :: vs => do
    let x ← convertVariable tab v
    let xs ← convertVariables tab vs
    some (x :: xs)

/-- `new_quantifier_variables[v.name] = v`: a dictionary keyed by the variable's name -/
def qvSet (qv : List Var) (v : Var) : List Var :=
  if qv.any (fun w => w.name == v.name) then qv.map (fun w => if w.name == v.name then v else w) else qv ++ [v]

def qvUpdate (qv : List Var) (vs : List Var) : List Var := vs.foldl qvSet qv

/-- a term occurrence (from_pddl.py:184, :242) -/
def convTerm (E : CEnv) (params : List (String × Ty)) (qv : List Var) : Term → Option Expr
  | .const n => (E.objects.lookup n).map (fun t => .leaf (.obj n t))
  | .var n =>
    match qv.find? (fun w => w.name == n) with
    | some w => some (.leaf (.var w))
    | none => (params.lookup n).map (fun ty => .leaf (.param n ty))

def convTerms (E : CEnv) (params : List (String × Ty)) (qv : List Var) : List Term → Option (List Expr)
  | [] => some []
  | t :: ts => do
    let x ← convTerm E params qv t
    let xs ← convTerms E params qv ts
    some (x :: xs)

/-- `self._fluents[name](*args)` -/
def convFluent (E : CEnv) (params : List (String × Ty)) (qv : List Var) (n : String) (ts : List Term) : Option Expr :=
  match E.fluent? n with                                       -- (repair) an unknown name is refused
  | some f => (convTerms E params qv ts).bind (fun as => if as.length == f.sig.length then some (.app (.fluent f) as) else none)
  | none => none

/-- `_direct_matching_expressions[op_type](*args)` after the operand-count check of the repair -/
def convOp : OpK → List Expr → Option Expr
  | .and, as => some (Expr.mkAnd as)
  | .or, as => some (Expr.mkOr as)
  | .imply, [a, b] => some (Expr.mkImplies a b)
  | .eqF, [a, b] => some (Expr.mkEq a b)
  | .lt, [a, b] => some (Expr.mkLT a b)
  | .le, [a, b] => some (Expr.mkLE a b)
  | .gt, [a, b] => some (Expr.mkGT a b)
  | .ge, [a, b] => some (Expr.mkGE a b)
  | .minus, [a, b] => some (Expr.mkMinus a b)
  | .divide, [a, b] => some (Expr.mkDiv a b)
  | .plus, as => if as.length < 2 then none else some (Expr.mkPlus as)
  | .times, as => if as.length < 2 then none else some (Expr.mkTimes as)
  | _, _ => none

/-- unary minus (from_pddl.py:280): a constant is negated, anything else multiplied by `-1` -/
def negateConv : Expr → Expr
  | .leaf (.intC z) => Expr.int (-z)
  | .leaf (.realC r) => Expr.real (-r)
  | e => Expr.mkTimes [Expr.int (-1), e]

mutual
/-- `_ExpressionConverter.convert_expression` (from_pddl.py:140).  The two explicit stacks of the Python compute this
    recursion (operands are pushed in order and popped in reverse twice). -/
def convExpr (E : CEnv) (params : List (String × Ty)) (qv : List Var) : Form → Option Expr
  | .num q => some (numLeaf q)
  | .op k args =>
    match convExprs E params qv args with
    | some as =>
      match k, as with
      | .minus, [a] => some (negateConv a)
      | _, _ => convOp k as
    | none => none
  | .not f => (convExpr E params qv f).map Expr.mkNot
  | .pred n ts => convFluent E params qv n ts
  | .fn n ts => convFluent E params qv n ts
  | .eqT l r =>
    match convTerm E params qv l, convTerm E params qv r with
    | some a, some b => some (Expr.mkEq a b)
    | _, _ => none
  | .quant q vs body =>
    match convertVariables E.types vs with
    | some ups =>
      if ups.isEmpty then none                                 -- `em.Forall(e)` without variables raises
      else (convExpr E params (qvUpdate qv ups) body).map (fun b => .quant q ups b)
    | none => none
  | .when _ _ => none
  | .forallE _ _ => none
def convExprs (E : CEnv) (params : List (String × Ty)) (qv : List Var) : List Form → Option (List Expr)
  | [] => some []
  | f :: fs =>
    match convExpr E params qv f, convExprs E params qv fs with
    | some x, some xs => some (x :: xs)
    | _, _ => none
end

/-- an item of the stack of `_convert_effects` -/
structure EItem where
  eff : Form
  qv : List Var
  cond : Expr

/-- what one popped item yields -/
inductive EOut where
  | effect (e : Effect)
  | cost (c : Expr)
  | push (items : List EItem)

/-- `UPVariable(v.name, self._variable_type(v))` for the variables of a universal effect (from_pddl.py:642) -/
def effVariables (tab : TypeTab) : List TVar → Option (List Var)
  | [] => some []
  | v :: vs => do
    let ty ← variableType tab v
    let rest ← effVariables tab vs
    some ({ name := v.name, ty := ty } :: rest)

/-- (repair) is this the `total-cost` of the action-cost metric? -/
def isActionCost (hasCosts : Bool) : Form → Bool
  | .fn n ts => hasCosts && n == "total-cost" && ts.isEmpty
  | _ => false

/-- one iteration of the `while stack:` loop of `_convert_effects` (from_pddl.py:501) on the popped item -/
def effStep (E : CEnv) (hasCosts : Bool) (params : List (String × Ty)) (it : EItem) : Option EOut :=
  match it.eff with
  | .pred n ts =>
    (convFluent E params it.qv n ts).map (fun f => .effect (mkEffect f Expr.tt it.cond .assign it.qv))
  | .not a =>
    (convExpr E params it.qv a).bind (fun f =>
      if isFluentExp f then some (.effect (mkEffect f Expr.ff it.cond .assign it.qv)) else none)
  | .op .assign [f, v] =>
    match convExpr E params it.qv f, convExpr E params it.qv v with
    | some f', some v' => if isFluentExp f' then some (.effect (mkEffect f' v' it.cond .assign it.qv)) else none
    | _, _ => none
  | .op .increase [f, v] =>
    if isActionCost hasCosts f then
      -- (repair) `_check_cost_effect`: an action cost is unconditional and not quantified
      if !it.qv.isEmpty || it.cond != Expr.tt then none
      else (convExpr E params it.qv v).map .cost
    else
      match convExpr E params it.qv f, convExpr E params it.qv v with
      | some f', some v' => if isFluentExp f' then some (.effect (mkEffect f' v' it.cond .increase it.qv)) else none
      | _, _ => none
  | .op .decrease [f, v] =>
    if isActionCost hasCosts f then none                       -- `Minus(0, v).simplify()`: not modelled
    else
      match convExpr E params it.qv f, convExpr E params it.qv v with
      | some f', some v' => if isFluentExp f' then some (.effect (mkEffect f' v' it.cond .decrease it.qv)) else none
      | _, _ => none
  | .when c e =>
    if it.cond != Expr.tt then none                            -- `assert current_condition == TRUE`
    else (convExpr E params it.qv c).map (fun c' => .push [{ eff := e, qv := it.qv, cond := c' }])
  | .forallE vs e =>
    match effVariables E.types vs with
    | some ups => some (.push [{ eff := e, qv := qvUpdate it.qv ups, cond := it.cond }])
    | none => none
  | .op .and es => some (.push (es.map (fun e => { eff := e, qv := it.qv, cond := it.cond })))
  | _ => none                                                  -- "Effect … not supported"

/-- the loop: the LAST pushed item is popped first; returns the yielded effects in order and the cost (if any) -/
def effLoop (E : CEnv) (hasCosts : Bool) (params : List (String × Ty)) :
    Nat → List EItem → Option Expr → Option (List Effect × Option Expr)
  | _, [], cost => some ([], cost)
  | 0, _ :: _, _ => none
  | fuel + 1, it :: stack, cost =>
    match effStep E hasCosts params it with
    | none => none
    | some (.effect e) => (effLoop E hasCosts params fuel stack cost).map (fun r => (e :: r.1, r.2))
    | some (.cost c) =>
      if cost.isSome then none                                 -- (repair) a second cost effect is refused
      else effLoop E hasCosts params fuel stack (some c)
    | some (.push items) => effLoop E hasCosts params fuel (items.reverse ++ stack) cost

mutual
def formSize : Form → Nat
  | .op _ args => 1 + formSizeList args
  | .not f => 1 + formSize f
  | .quant _ _ b => 1 + formSize b
  | .when c e => 1 + formSize c + formSize e
  | .forallE _ e => 1 + formSize e
  | _ => 1
def formSizeList : List Form → Nat
  | [] => 0
  | f :: fs => formSize f + formSizeList fs
end

/-- `_convert_effects(params, effect, action_name)`: every popped item is a distinct sub-object -/
def convEffects (E : CEnv) (hasCosts : Bool) (params : List (String × Ty)) (eff : Form) :
    Option (List Effect × Option Expr) :=
  effLoop E hasCosts params (formSize eff + 1) [{ eff := eff, qv := [], cond := Expr.tt }] none

/-- the parameters of an action: `OrderedDict((v.name, self._variable_type(v)) …)` -/
def convParams (tab : TypeTab) : List TVar → Option (List (String × Ty))
  | [] => some []
  | v :: vs => do
    let ty ← variableType tab v
    let rest ← convParams tab vs
    some ((v.name, ty) :: rest)

/-- `_convert_action` (from_pddl.py:659): the action and its cost -/
def convAction (E : CEnv) (hasCosts : Bool) (a : PAction) : Option (Action × Option Expr) := do
  let params ← convParams E.types a.params
  let preF ← a.pre                                             -- `None` is "not supported"
  let pre ← convExpr E params [] preF
  let effF ← a.eff
  let (effs, cost) ← convEffects E hasCosts params effF
  some ({ name := a.name, params := params, pre := preList pre, effs := effs }, cost)

def convActions (E : CEnv) (hasCosts : Bool) : List PAction → Option (List (Action × Option Expr))
  | [] => some []
  | a :: as => do
    let x ← convAction E hasCosts a
    let xs ← convActions E hasCosts as
    some (x :: xs)

/-- `_problem_has_minimize_total_cost_metric` (from_pddl.py:437) -/
def hasMinimizeTotalCost (p : PProblem) : Bool :=
  match p.metric with
  | some (opt, .fn n ts) => opt == "minimize" && n == "total-cost" && ts.isEmpty
  | _ => false

/-- signature of a fluent: `OrderedDict((v.name, self._variable_type(v)) for v in terms)` -/
def convSig (tab : TypeTab) : List TVar → Option (List Ty)
  | [] => some []
  | v :: vs => do
    let ty ← variableType tab v
    let rest ← convSig tab vs
    some (ty :: rest)

def convPredicates (tab : TypeTab) : List (String × List TVar) → Option (List FluentRef)
  | [] => some []
  | (n, vs) :: ps => do
    let sig ← convSig tab vs
    let rest ← convPredicates tab ps
    some ({ name := n, ty := .bool, sig := sig } :: rest)

/-- `_convert_function_to_fluent` (from_pddl.py:450): `total-cost` of an action-cost problem is not a fluent -/
def convFunctions (tab : TypeTab) (hasCosts : Bool) : List (String × List TVar) → Option (List FluentRef)
  | [] => some []
  | (n, vs) :: fs =>
    if n == "total-cost" && vs.isEmpty && hasCosts then convFunctions tab hasCosts fs
    else do
      let sig ← convSig tab vs
      let rest ← convFunctions tab hasCosts fs
      some ({ name := n, ty := .real none none, sig := sig } :: rest)

/-- `_add_object` (from_pddl.py:473, with the earlier repair for untyped objects) -/
def convObjects (tab : TypeTab) : List (String × Option String) → Option (List (String × String))
  | [] => some []
  | (n, t) :: os => do
    let tt ← t
    let ty ← (tab.lookup tt).join
    let rest ← convObjects tab os
    some ((n, ty) :: rest)

/-- `_convert_initial_values` (from_pddl.py:685, repaired): the explicit initial values and whether `total-cost`
    was initialised -/
def convInit (E : CEnv) (hasCosts : Bool) : List Form → List (Expr × Expr) → Bool → Option (List (Expr × Expr) × Bool)
  | [], acc, tc => some (acc, tc)
  | f :: fs, acc, tc =>
    match f with
    | .op .eqF [x, v] =>
      if isActionCost hasCosts x then
        match v with
        | .num q => if q == 0 then convInit E hasCosts fs acc true else none        -- (repair) costs start at 0
        | _ => none
      else
        match convExpr E [] [] f with
        | some (.app .eq [a, b]) =>
          let (fl, val) := if isFluentExp b then (b, a) else (a, b)
          if isFluentExp fl then convInit E hasCosts fs (setInit acc fl val) tc else none
        | _ => none
    | _ =>
      match convExpr E [] [] f with
      | some e =>
        if isFluentExp e then convInit E hasCosts fs (setInit acc e Expr.tt) tc
        else match e with
          | .app .eq [a, b] =>
            let (fl, val) := if isFluentExp b then (b, a) else (a, b)
            if isFluentExp fl then convInit E hasCosts fs (setInit acc fl val) tc else none
          | _ => none                                           -- "Initial value … not supported"
      | none => none

/-- `Problem._add_user_type`: a type is stored after its ancestors, once -/
def addUserType (ups : List (String × Option String)) : Nat → List (String × Option String) → String →
    List (String × Option String)
  | 0, acc, _ => acc
  | fuel + 1, acc, t =>
    if acc.any (·.1 == t) then acc
    else
      let fa := (ups.lookup t).join
      let acc' := match fa with
        | some f => addUserType ups fuel acc f
        | none => acc
      acc' ++ [(t, fa)]

def tyNames (tys : List Ty) : List String := tys.filterMap (fun t => match t with | .user n => some n | _ => none)

/-- `problem.user_types` after `add_fluent`s, `add_object`s, `add_action`s -/
def userTypes (ups : List (String × Option String)) (fluents : List FluentRef) (objects : List (String × String))
    (actions : List Action) : List (String × Option String) :=
  let used := fluents.flatMap (fun f => tyNames f.sig) ++ objects.map (·.2) ++
    actions.flatMap (fun a => tyNames (a.params.map (·.2)))
  used.foldl (addUserType ups (ups.length + 1)) []

/-- `_add_quality_metric` (from_pddl.py:723) for an action-cost problem -/
def costMetric (acts : List (Action × Option Expr)) : Metric :=
  if acts.all (fun p => p.2 == some (Expr.int 1) || p.2 == some (Expr.real 1)) then .minLength
  else .minActionCosts (acts.filterMap (fun p => p.2.map (fun c => (p.1.name, c)))) (some (Expr.int 0))

/-- `AIPDDLConverter.convert` (from_pddl.py:760) -/
def fromPddl (A : PddlAst) : Option Problem := do
  let (tab, ups) ← convertTypes (hasObjectUserType A) A.dom.types
  -- `_convert_fluents`
  let preds ← convPredicates tab A.dom.predicates
  let hasCosts := A.dom.functions.any (fun f => f.1 == "total-cost" && f.2.isEmpty) && hasMinimizeTotalCost A.prob
  let funs ← convFunctions tab hasCosts A.dom.functions
  let fluents := preds ++ funs
  if (fluents.map (·.name)).eraseDups.length != fluents.length then none       -- `add_fluent`: name already used
  -- `_convert_constants`, `_convert_objects`
  let consts ← convObjects tab A.dom.constants
  let objs ← convObjects tab A.prob.objects
  let objects := consts ++ objs
  if (objects.map (·.1)).eraseDups.length != objects.length then none
  let E : CEnv := { types := tab, fluents := fluents, objects := objects }
  let acts ← convActions E hasCosts A.dom.actions
  if (acts.map (·.1.name)).eraseDups.length != acts.length then none           -- `add_action`: name already used
  -- `_add_quality_metric`
  let metrics ← (if hasCosts then some [costMetric acts]
    else match A.prob.metric with
      | none => some []
      | some (opt, m) => (convExpr E [] [] m).map (fun e => [if opt == "minimize" then .minFinal e else .maxFinal e]))
  -- `_convert_initial_values`, `_convert_goals`
  let (init, tcInit) ← convInit E hasCosts A.prob.init [] false
  if hasCosts && !tcInit then none                                             -- (repair) `total-cost` must start at 0
  let goal ← convExpr E [] [] A.prob.goal
  let actions := acts.map (·.1)
  some { name := A.prob.name, types := { fathers := userTypes ups fluents objects actions }, objects := objects,
         fluents := fluents.map fluentDecl, init := init, actions := actions, goals := preList goal, traj := [],
         metrics := metrics }

/-- the second reader on the tokenised texts -/
def aiRead (dom prob : Sexp) : Option Problem := (astOf dom prob).bind fromPddl

end UPVerif.FromPddl
