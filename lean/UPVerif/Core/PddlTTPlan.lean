import UPVerif.Core.Expr
import UPVerif.Core.PddlNum
import UPVerif.Core.PddlPrint
import UPVerif.Core.PddlRead
/-!
# Plan text of the PDDL writer and reader, character by character (sequential and time-triggered plans)

Model of

* `PDDLWriter._write_plan` / `get_plan` (unified_planning/io/pddl_writer.py:877, as repaired by
  notes/patches/C18-plan-times-positional.patch): one line per step,
  `(<action> <obj> …)` for a `SequentialPlan`, `<start>: (<action> <obj> …)[<duration>]` for a
  `TimeTriggeredPlan` (`[<duration>]` only when the duration is not `None`); a time is printed as `str(int)` when
  its denominator is 1 and by `ConverterToPDDLString.convert_fraction` (`decimalChars`, exact positional
  notation) otherwise.  A time without a finite decimal expansion is printed ROUNDED by the real code (with a
  warning): that lossy branch is not modelled (`WErr.inexact`), the correspondence check compares exactly when it is
  taken.
* `UPPDDLReader.parse_plan_string` (unified_planning/io/up_pddl_reader.py:2216; `PDDLReader.parse_plan_string`,
  pddl_reader.py:197, only forwards to it): `str.splitlines`, the three regular expressions, `line.lower()`, the
  `is_tt` switch, `Fraction(group)`, `get_item_named`, the two `isinstance` assertions, the arity assertion and the
  type check of `ActionInstance.__init__` (plans/plan.py:53-58), and the final `TimeTriggeredPlan(actions)` /
  `SequentialPlan(actions)`.

Text is `List Char`.  ASCII only (DESIGN 2.11): `\s`, `\w`, `\d`, `str.lower`, `str.split` and `str.splitlines` are
modelled on ASCII characters (plus the three non-ASCII line boundaries of `splitlines`).

Each regular expression is modelled by a deterministic left-to-right scanner.  This is exact, not an
approximation: in all three expressions every repeated class is followed by something disjoint from it
(`[\w?-]+` by `\s` or `)`, `\d+\.?\d*` by `\s`, `:` or `]`, `\s*` by a non-space or the end), so a match exists iff the
greedy scan succeeds and the groups of the match are those of the greedy scan.
-/
namespace UPVerif.Pddl.TTP
open UPVerif UPVerif.Pddl

/-! ### plans -/

/-- one entry of `TimeTriggeredPlan.timed_actions`: `(start, ActionInstance(action, args), duration)` -/
structure TStep where
  start : Rat
  act : String
  args : List String
  dur : Option Rat
  deriving Repr, BEq, DecidableEq

/-- `SequentialPlan(actions)` / `TimeTriggeredPlan(actions)` (names are the ORIGINAL names of the problem) -/
inductive Plan where
  | seq (steps : List (String × List String))
  | tt (steps : List TStep)
  deriving Repr, BEq, DecidableEq

/-! ### character classes (ASCII) -/

/-- `\s` / `str.isspace` on ASCII: space, `\t \n \v \f \r`, `\x1c`–`\x1f` -/
def isSpace (c : Char) : Bool :=
  c.toNat == 32 || (9 ≤ c.toNat && c.toNat ≤ 13) || (28 ≤ c.toNat && c.toNat ≤ 31)

/-- `\d` on ASCII -/
def isDigit (c : Char) : Bool := 48 ≤ c.toNat && c.toNat ≤ 57

/-- `[\w?-]` on ASCII: letters, digits, `_`, `?`, `-` -/
def isTok (c : Char) : Bool :=
  isDigit c || (97 ≤ c.toNat && c.toNat ≤ 122) || (65 ≤ c.toNat && c.toNat ≤ 90) ||
  c.toNat == 95 || c.toNat == 63 || c.toNat == 45

/-- the line boundaries of `str.splitlines` -/
def isBreak (c : Char) : Bool :=
  c.toNat == 10 || c.toNat == 13 || c.toNat == 11 || c.toNat == 12 || c.toNat == 28 || c.toNat == 29 || c.toNat == 30 ||
  c.toNat == 0x85 || c.toNat == 0x2028 || c.toNat == 0x2029

/-! ### the writer — `_write_plan` (pddl_writer.py:877) -/

inductive WErr where
  /-- an action or object the renaming table does not know (cannot happen for a plan of the writer's problem) -/
  | unknown
  /-- a time without a finite decimal expansion: the real writer prints it rounded, with a warning -/
  | inexact
  deriving Repr, BEq, DecidableEq

/-- `' '.join(...)` of the mangled arguments, each preceded by the separating blank -/
def joinArgs : List (List Char) → List Char
  | [] => []
  | a :: as => ' ' :: a ++ joinArgs as

/-- `_format_action_instance` (pddl_writer.py:878): `(<action>)` or `(<action> <obj> … <obj>)` -/
def fmtInstance (ρ : Ren) (a : String) (args : List String) : Option (List Char) := do
  let an ← ρ (.action a)
  let os ← args.mapM (fun o => (ρ (.obj o)).map String.toList)
  some ('(' :: an.toList ++ joinArgs os ++ [')'])

/-- `_format_time` of the repaired writer: `str(numerator)` for an integer, else the exact positional decimal of
    `convert_fraction`; `none` = the rounding branch -/
def timeChars (t : Rat) : Option (List Char) :=
  if t.den == 1 then some (intChars t.num) else decimalChars t

/-- one line of a time-triggered plan (without the newline) -/
def fmtTStep (ρ : Ren) (s : TStep) : Except WErr (List Char) :=
  match fmtInstance ρ s.act s.args with
  | none => .error .unknown
  | some inst =>
    match timeChars s.start with
    | none => .error .inexact
    | some st =>
      match s.dur with
      | none => .ok (st ++ ':' :: ' ' :: inst)
      | some d =>
        match timeChars d with
        | none => .error .inexact
        | some dc => .ok (st ++ ':' :: ' ' :: inst ++ '[' :: dc ++ [']'])

/-- every line is followed by `"\n"` -/
def unlines : List (List Char) → List Char
  | [] => []
  | l :: ls => l ++ '\n' :: unlines ls

def mapExcept {ε α β : Type} (f : α → Except ε β) : List α → Except ε (List β)
  | [] => .ok []
  | a :: as =>
    match f a with
    | .error e => .error e
    | .ok b =>
      match mapExcept f as with
      | .error e => .error e
      | .ok bs => .ok (b :: bs)

/-- `PDDLWriter.get_plan` -/
def writePlan (ρ : Ren) : Plan → Except WErr (List Char)
  | .seq steps =>
    match steps.mapM (fun s => fmtInstance ρ s.1 s.2) with
    | none => .error .unknown
    | some ls => .ok (unlines ls)
  | .tt steps =>
    match mapExcept (fmtTStep ρ) steps with
    | .error e => .error e
    | .ok ls => .ok (unlines ls)

/-- the text of a time-triggered plan, `none` when it has no exact text -/
def printTTPlan (ρ : Ren) (π : List TStep) : Option (List Char) :=
  match writePlan ρ (.tt π) with
  | .ok t => some t
  | .error _ => none

/-! ### the reader — `parse_plan_string` (up_pddl_reader.py:2216) -/

/-- `str.splitlines()`: lines end at a boundary character, `\r\n` counts once, no empty last line -/
def splitLines : Nat → List Char → List (List Char)
  | 0, _ => []
  | fuel + 1, cs =>
    if cs.isEmpty then []
    else
      let l := cs.takeWhile (fun c => !isBreak c)
      match cs.dropWhile (fun c => !isBreak c) with
      | [] => [l]
      | c :: r =>
        l :: splitLines fuel (if c == '\r' then (match r with
                                                 | '\n' :: r' => r'
                                                 | _ => r) else r)

/-- `re.match(r"^\s*(;.*)?$", line)` (:2240): nothing, or a comment, after the leading blanks -/
def isBlankOrComment (line : List Char) : Bool :=
  match line.dropWhile isSpace with
  | [] => true
  | c :: _ => c == ';'

/-- `((\s+[\w?-]+)*)\s*\)` — the arguments (each preceded by at least one blank) up to the closing parenthesis;
    returns `group.split()` and what follows the parenthesis -/
def scanParams : Nat → List Char → Option (List (List Char) × List Char)
  | 0, _ => none
  | fuel + 1, cs =>
    match cs.dropWhile isSpace with
    | [] => none
    | c :: r' =>
      if c == ')' then some ([], r')
      else if isTok c && (c :: r').length < cs.length then           -- `\s+`: at least one blank was skipped
        match scanParams fuel ((c :: r').dropWhile isTok) with
        | some (ps, rest) => some ((c :: r').takeWhile isTok :: ps, rest)
        | none => none
      else none

/-- `\(\s*([\w?-]+)((\s+[\w?-]+)*)\s*\)` — name, arguments, rest of the line -/
def scanInst : List Char → Option (List Char × List (List Char) × List Char)
  | [] => none
  | c :: r =>
    if c == '(' then
      let r1 := r.dropWhile isSpace
      let name := r1.takeWhile isTok
      let r2 := r1.dropWhile isTok
      if name.isEmpty then none
      else
        match scanParams (r2.length + 1) r2 with
        | some (ps, rest) => some (name, ps, rest)
        | none => none
    else none

/-- `(\d+\.?\d*)` — the text of the group and the rest -/
def scanNumber (cs : List Char) : Option (List Char × List Char) :=
  let ip := cs.takeWhile isDigit
  if ip.isEmpty then none
  else
    match cs.dropWhile isDigit with
    | [] => some (ip, [])
    | c :: r =>
      if c == '.' then some (ip ++ '.' :: r.takeWhile isDigit, r.dropWhile isDigit)
      else some (ip, c :: r)

/-- `\s*(\[\s*(\d+\.?\d*)\s*\])?\s*$` — `none`: no match; `some none`: no duration; `some (some g)`: group 6 -/
def scanDur (cs : List Char) : Option (Option (List Char)) :=
  match cs.dropWhile isSpace with
  | [] => some none
  | c :: r =>
    if c == '[' then
      match scanNumber (r.dropWhile isSpace) with
      | none => none
      | some (num, r2) =>
        match r2.dropWhile isSpace with
        | [] => none
        | c2 :: r3 =>
          if c2 == ']' && (r3.dropWhile isSpace).isEmpty then some (some num) else none
    else none

/-- the sequential-step expression `^\s*\(\s*([\w?-]+)((\s+[\w?-]+)*)\s*\)\s*$` (:2243): groups 1 and 2 (split) -/
def matchSeq (line : List Char) : Option (List Char × List (List Char)) :=
  match scanInst (line.dropWhile isSpace) with
  | some (name, ps, rest) => if (rest.dropWhile isSpace).isEmpty then some (name, ps) else none
  | none => none

/-- the timed-step expression
    `^\s*(\d+\.?\d*)\s*:\s*\(\s*([\w?-]+)((\s+[\w?-]+)*)\s*\)\s*(\[\s*(\d+\.?\d*)\s*\])?\s*$` (:2244):
    groups 1, 2, 3 (split) and 6 -/
def matchTT (line : List Char) : Option (List Char × List Char × List (List Char) × Option (List Char)) :=
  match scanNumber (line.dropWhile isSpace) with
  | none => none
  | some (num, r) =>
    match r.dropWhile isSpace with
    | [] => none
    | c :: r1 =>
      if c == ':' then
        match scanInst (r1.dropWhile isSpace) with
        | none => none
        | some (name, ps, r2) =>
          match scanDur r2 with
          | none => none
          | some d => some (num, name, ps, d)
      else none

/-- `Fraction(text)` on the texts the group `\d+\.?\d*` can capture: `digits`, `digits.` and `digits.digits` -/
def fractionOf (cs : List Char) : Option Rat :=
  match splitAtDot cs with
  | (ip, some []) => (parseNat? ip).map (fun n => (n : Rat))
  | _ => parseUnsigned cs

/-- what the reader raises -/
inductive RErr where
  /-- `UPException`: a line none of the expressions matches, or `get_item_named` does not know the name -/
  | upException
  /-- `AssertionError`: a sequential line after a timed one, a name that is not an action / an object, wrong arity -/
  | assertion
  /-- `UPTypeError` of `ActionInstance.__init__`: an argument of an incompatible type -/
  | upTypeError
  /-- `TypeError` of `TimeTriggeredPlan(actions)` when sequential lines came before the first timed one -/
  | typeError
  /-- the tables given to the model do not describe the action / object (not a behaviour of the code) -/
  | badTables
  deriving Repr, BEq, DecidableEq

/-- what the reader needs of the problem to build an `ActionInstance`: the type hierarchy, the type of every object
    and the parameter types of every action (original names) -/
structure PlanSig where
  types : TypeEnv
  objType : String → Option String
  actParams : String → Option (List String)

/-- the type loop of `ActionInstance.__init__` (plan.py:54): `param.type.is_compatible(value.type)` in order -/
def argsCompatible (sig : PlanSig) : List String → List String → Except RErr Unit
  | pt :: pts, o :: os =>
    match sig.objType o with
    | none => .error .badTables
    | some ot => if sig.types.isSubtype ot pt then argsCompatible sig pts os else .error .upTypeError
  | _, _ => .ok ()

/-- the loop over `params_name` (:2273-2281): `get_item_named(p)`, `assert isinstance(obj, Object)` -/
def resolveObjs (inv : Inv) : List (List Char) → Except RErr (List String)
  | [] => .ok []
  | p :: ps =>
    match inv (String.ofList p) with
    | none => .error .upException
    | some (.obj o) =>
      match resolveObjs inv ps with
      | .ok os => .ok (o :: os)
      | .error e => .error e
    | some _ => .error .assertion                                         -- assert isinstance(obj, Object)

/-- `ActionInstance(action, tuple(parameters))` (plan.py:53-58) -/
def mkInstance (sig : PlanSig) (a : String) (os : List String) : Except RErr (String × List String) :=
  match sig.actParams a with
  | none => .error .badTables
  | some pts =>
    if pts.length != os.length then .error .assertion                     -- assert len(action.parameters) == len(params)
    else
      match argsCompatible sig pts os with
      | .error e => .error e
      | .ok () => .ok (a, os)

/-- the body of the loop after the match (:2267-2286): resolve the action, resolve the objects in order, build the
    `ActionInstance` -/
def resolveInstance (inv : Inv) (sig : PlanSig) (name : List Char) (params : List (List Char)) :
    Except RErr (String × List String) :=
  match inv (String.ofList name) with
  | none => .error .upException                                          -- get_item_named raises
  | some (.action a) =>
    match resolveObjs inv params with
    | .error e => .error e
    | .ok os => mkInstance sig a os
  | some _ => .error .assertion                                           -- assert isinstance(action, Action)

/-- an element of the list `actions` of the reader -/
inductive Entry where
  | s (a : String) (args : List String)
  | t (st : TStep)
  deriving Repr, BEq, DecidableEq

/-- `dur = None; if t_ai.group(6) is not None: dur = Fraction(t_ai.group(6))` (:2257-2259) -/
def durOf : Option (List Char) → Option (Option Rat)
  | none => some none
  | some g => (fractionOf g).map some

/-- one non-skipped line (:2242-2290): the new value of `is_tt` and the appended element -/
def readLine (inv : Inv) (sig : PlanSig) (isTT : Bool) (line0 : List Char) : Except RErr (Bool × Entry) :=
  let line := line0.map Char.toLower                                      -- line = line.lower()
  match matchSeq line with
  | some (name, ps) =>
    if isTT then .error .assertion                                        -- assert is_tt == False
    else
      match resolveInstance inv sig name ps with
      | .error e => .error e
      | .ok (a, os) => .ok (false, .s a os)
  | none =>
    match matchTT line with
    | some (num, name, ps, d) =>
      match fractionOf num, durOf d with
      | some st, some du =>
        match resolveInstance inv sig name ps with
        | .error e => .error e
        | .ok (a, os) => .ok (true, .t { start := st, act := a, args := os, dur := du })
      | _, _ => .error .badTables                                         -- unreachable: the groups are `\d+\.?\d*`
    | none => .error .upException                                         -- "Cannot interpret " + line

/-- the loop over the lines -/
def readLines (inv : Inv) (sig : PlanSig) : Bool → List Entry → List (List Char) → Except RErr (Bool × List Entry)
  | isTT, acc, [] => .ok (isTT, acc)
  | isTT, acc, l :: ls =>
    if isBlankOrComment l then readLines inv sig isTT acc ls
    else
      match readLine inv sig isTT l with
      | .error e => .error e
      | .ok (isTT', en) => readLines inv sig isTT' (acc ++ [en]) ls

/-- `TimeTriggeredPlan(actions)`: every element must be a triple -/
def allTimed : List Entry → Option (List TStep)
  | [] => some []
  | .t st :: es => (allTimed es).map (st :: ·)
  | .s _ _ :: _ => none

/-- `SequentialPlan(actions)`: with `is_tt` false every element is an `ActionInstance` -/
def allSeq : List Entry → Option (List (String × List String))
  | [] => some []
  | .s a os :: es => (allSeq es).map ((a, os) :: ·)
  | .t _ :: _ => none

/-- `UPPDDLReader.parse_plan_string` with a `get_item_named` -/
def parsePlanString (inv : Inv) (sig : PlanSig) (text : List Char) : Except RErr Plan :=
  match readLines inv sig false [] (splitLines (text.length + 1) text) with
  | .error e => .error e
  | .ok (isTT, acts) =>
    if isTT then
      match allTimed acts with
      | some π => .ok (.tt π)
      | none => .error .typeError
    else
      match allSeq acts with
      | some π => .ok (.seq π)
      | none => .error .badTables                                         -- unreachable

/-! ### the renaming as a table (what the driver is given, and what the hypothesis of the round trip is checked on) -/

/-- `otn_renamings` as a table -/
def renOfTable (tbl : List (NameKey × String)) : Ren := fun k => tbl.lookup k

/-- `nto_renamings` of that table: the problem's own name is not an entry of the writer's tables -/
def invOfTable (tbl : List (NameKey × String)) : Inv :=
  fun s => ((tbl.filter (fun p => p.1 != .problem)).find? (fun p => p.2 == s)).map (·.1)

/-- the characters of a name produced by `_get_pddl_name` / `_get_mangled_name`: `[a-z0-9_-]` -/
def isNameChar (c : Char) : Bool :=
  isDigit c || (97 ≤ c.toNat && c.toNat ≤ 122) || c.toNat == 95 || c.toNat == 45

/-- decidable form of the hypothesis of the round trip on a table: every action / object entry is found back by
    `get_item_named`, and its new name is a non-empty word over `[a-z0-9_-]` -/
def tableOK (tbl : List (NameKey × String)) : Bool :=
  tbl.all (fun p =>
    match p.1 with
    | .action _ => invOfTable tbl p.2 == some p.1 && !p.2.toList.isEmpty && p.2.toList.all isNameChar
    | .obj _ => invOfTable tbl p.2 == some p.1 && !p.2.toList.isEmpty && p.2.toList.all isNameChar
    | _ => true)

/-- the time-triggered plan read from a text, `none` when the reader raises or returns a sequential plan -/
def readTTPlan (inv : Inv) (sig : PlanSig) (text : List Char) : Option (List TStep) :=
  match parsePlanString inv sig text with
  | .ok (.tt π) => some π
  | _ => none

end UPVerif.Pddl.TTP
