import UPVerif.Core.Expr
import UPVerif.Core.Walkers.FreeVars
import UPVerif.Core.Walkers.Substitute
/-
The DAG-walker MACHINERY of `unified_planning/model/walkers/dag.py` (class `DagWalker`), as it is:
one mutable object per walker holding

  * `memoization : dict key -> result`   (`Walker.memo`, an association list)
  * `stack : list (was_expanded, expression)` (`Walker.stack`, top of the Python list = head)

shared by every call made on the walker — and every `Environment` keeps ONE simplifier, substituter,
type checker, free-vars oracle and fluents extractor (environment.py:44-58).  The node functions
(`walk_*`) are a PARAMETER of the model (`Spec.fn`) returning `Except`: an `error` is a Python
exception escaping `walk()`.

`walk` mirrors the REPAIRED `DagWalker.walk` (notes/patches/C14-*.patch): the body runs under
`try/finally`, which cuts the stack back to its length at entry and — for walkers built with
`invalidate_memoization=True` — clears the cache, on success AND on failure.  `walkAsFound` is the
function as found (no `finally`; the cache is cleared only after a successful walk), kept to state
the defect as a kernel-checked refutation (Props/C14.lean).

Also here: the instances of the machine for the `Substituter` (substituter.py — its `_get_key`
ignores `subs`, which is what makes a stale cache observable), the `FreeVarsOracle`
(model/variable.py), the `FreeVarsExtractor` (walkers/free_vars.py) and two table-driven probe
walkers; and the create-then-typecheck order of `ExpressionManager.create_node` (expression.py).
-/
namespace UPVerif.Dag
open UPVerif

deriving instance DecidableEq for Except

/-- what can escape `walk()` -/
inductive Err (ε : Type) where
  /-- an exception raised by a `walk_*` node function -/
  | node (x : ε)
  /-- `KeyError` from a `self.memoization[...]` lookup -/
  | key (k : Expr)
  /-- model artefact (the loop runs on fuel); never returned by `walk` on a clean walker (theorem) -/
  | fuel
  deriving DecidableEq, Repr

/-- `self.memoization` : Python dict (keys distinct; only lookup / membership / assignment are used) -/
abbrev Memo (Val : Type) := List (Expr × Val)

namespace Memo
variable {Val : Type}
/-- `self.memoization[k]` / `k in self.memoization` -/
def get? : Memo Val → Expr → Option Val
  | [], _ => none
  | (k', v) :: m, k => if k = k' then some v else get? m k
/-- `self.memoization[k] = v` (overwrites) -/
def set (m : Memo Val) (k : Expr) (v : Val) : Memo Val :=
  (k, v) :: m.filter (fun p => decide (p.1 ≠ k))
end Memo

/-- the mutable part of a `DagWalker` object -/
structure Walker (Val : Type) where
  memo : Memo Val
  stack : List (Bool × Expr)

/-- a freshly constructed walker (`DagWalker.__init__`, dag.py:32-41) -/
def Walker.fresh {Val : Type} : Walker Val := { memo := [], stack := [] }

/-- the immutable part: constructor flag and the (sub)class's methods -/
structure Spec (Arg Val ε : Type) where
  /-- `invalidate_memoization` (dag.py:39) -/
  invalidate : Bool
  /-- `self.functions[expression.node_type](expression, args=args, **kwargs)` (dag.py:60-72) -/
  fn : Arg → Expr → List Val → Except ε Val
  /-- an overriding `_push_with_children_to_stack` that computes and memoises the node's result on the
      spot instead of pushing it (`Substituter`, substituter.py:40-80, for keys and quantifiers); `none` = the
      inherited method -/
  special : Arg → Expr → Option (Except ε Val)

variable {Arg Val ε : Type}

/-- `DagWalker._get_children` (dag.py:43): `expression.args` -/
def children : Expr → List Expr
  | .leaf _ => []
  | .app _ as => as
  | .quant _ _ b => [b]

/-- `DagWalker._get_key` (dag.py:113; `Substituter._get_key`, substituter.py:37): the expression
    itself — the keyword arguments are NOT part of the key.  (The base class raises
    `NotImplementedError` when keyword arguments are present and `_get_key` is not overridden; the
    only override in the library returns the expression.) -/
def getKey (_a : Arg) (e : Expr) : Expr := e

/-- the loop of `DagWalker._push_with_children_to_stack` (dag.py:46-53): children in order, each
    pushed unless already memoised -/
def pushChildren (a : Arg) (m : Memo Val) (st : List (Bool × Expr)) : List Expr → List (Bool × Expr)
  | [] => st
  | s :: ss => pushChildren a m (if (m.get? (getKey a s)).isSome then st else (false, s) :: st) ss

/-- `_push_with_children_to_stack(expression)` on the walker whose stack (after the pop) is `rest` -/
def expand (S : Spec Arg Val ε) (a : Arg) (m : Memo Val) (rest : List (Bool × Expr)) (e : Expr) :
    Except (Err ε) (Walker Val) :=
  match S.special a e with
  | some (.ok v) => .ok { memo := m.set (getKey a e) v, stack := rest }
  | some (.error x) => .error (.node x)
  | none => .ok { memo := m, stack := pushChildren a m ((true, e) :: rest) (children e) }

/-- `[self.memoization[self._get_key(s)] for s in children]` (dag.py:67-70): first missing key raises -/
def lookupAll (a : Arg) (m : Memo Val) : List Expr → Except (Err ε) (List Val)
  | [] => .ok []
  | s :: ss =>
    match m.get? (getKey a s) with
    | none => .error (.key (getKey a s))
    | some v =>
      match lookupAll a m ss with
      | .ok vs => .ok (v :: vs)
      | .error x => .error x

/-- `DagWalker._compute_node_result` (dag.py:55-73) -/
def compute (S : Spec Arg Val ε) (a : Arg) (m : Memo Val) (e : Expr) : Except (Err ε) (Memo Val) :=
  if (m.get? (getKey a e)).isSome then .ok m
  else
    match lookupAll a m (children e) with
    | .error x => .error x
    | .ok args =>
      match S.fn a e args with
      | .ok v => .ok ((getKey a e, v) :: m)
      | .error x => .error (.node x)

/-- `DagWalker._process_stack` (dag.py:75-88): `while self.stack: pop; compute or expand`.
    On an exception the popped entry is gone and everything else is left as it was. -/
def processStack (S : Spec Arg Val ε) (a : Arg) : Nat → Walker Val → Except (Err ε) Unit × Walker Val
  | fuel, w =>
    match w.stack with
    | [] => (.ok (), w)
    | (expanded, e) :: rest =>
      match fuel with
      | 0 => (.error .fuel, w)
      | fuel + 1 =>
        if expanded then
          match compute S a w.memo e with
          | .ok m' => processStack S a fuel { memo := m', stack := rest }
          | .error x => (.error x, { memo := w.memo, stack := rest })
        else
          match expand S a w.memo rest e with
          | .ok w' => processStack S a fuel w'
          | .error x => (.error x, { memo := w.memo, stack := rest })

/-- `DagWalker.iter_walk` (dag.py:90-95) -/
def iterWalk (S : Spec Arg Val ε) (a : Arg) (fuel : Nat) (w : Walker Val) (e : Expr) :
    Except (Err ε) Val × Walker Val :=
  match processStack S a fuel { memo := w.memo, stack := (false, e) :: w.stack } with
  | (.error x, w') => (.error x, w')
  | (.ok (), w') =>
    match w'.memo.get? (getKey a e) with
    | some v => (.ok v, w')
    | none => (.error (.key (getKey a e)), w')

/-- fuel given to the loop by `walk`: every node occurrence is popped at most twice
    (`Lemmas/DagWalkerLemmas`: this always suffices) -/
def fuelFor (e : Expr) : Nat := 2 * e.size

/-- `del self.stack[n:]` — keep the bottom `n` entries -/
def keepBottom (n : Nat) (st : List (Bool × Expr)) : List (Bool × Expr) := st.drop (st.length - n)

/-- the `finally` block of the repaired `walk` -/
def finish (S : Spec Arg Val ε) (n : Nat) (w : Walker Val) : Walker Val :=
  { stack := keepBottom n w.stack, memo := if S.invalidate then [] else w.memo }

/-- `DagWalker.walk` (dag.py:97-111) as REPAIRED:
```
if expression in self.memoization: return self.memoization[expression]
stack_size = len(self.stack)
try:     return self.iter_walk(expression, **kwargs)
finally: del self.stack[stack_size:]
         if self.invalidate_memoization: self.memoization.clear()
``` -/
def walk (S : Spec Arg Val ε) (a : Arg) (w : Walker Val) (e : Expr) : Except (Err ε) Val × Walker Val :=
  match w.memo.get? e with
  | some v => (.ok v, w)
  | none =>
    let r := iterWalk S a (fuelFor e) w e
    (r.1, finish S w.stack.length r.2)

/-- `DagWalker.walk` AS FOUND: the cache is cleared only after a successful walk and nothing is
    restored when an exception escapes -/
def walkAsFound (S : Spec Arg Val ε) (a : Arg) (w : Walker Val) (e : Expr) :
    Except (Err ε) Val × Walker Val :=
  match w.memo.get? e with
  | some v => (.ok v, w)
  | none =>
    match iterWalk S a (fuelFor e) w e with
    | (.ok v, w') => (.ok v, { stack := w'.stack, memo := if S.invalidate then [] else w'.memo })
    | (.error x, w') => (.error x, w')

/-- a history of calls on ONE walker object: the answers, and the walker afterwards -/
def runHistory (wk : Arg → Walker Val → Expr → Except (Err ε) Val × Walker Val) :
    Walker Val → List (Arg × Expr) → List (Except (Err ε) Val) × Walker Val
  | w, [] => ([], w)
  | w, (a, e) :: h =>
    let r := wk a w e
    let rs := runHistory wk r.2 h
    (r.1 :: rs.1, rs.2)

/-! ### the pure structural recursion the machine is supposed to compute

Children are evaluated LAST FIRST (the last child is on top of the stack), so that when several
subterms fail the recursion reports the same exception as the machine. -/

/-- result of a node given the results of its children -/
def nodeResult (S : Spec Arg Val ε) (a : Arg) (e : Expr) (r : Except ε (List Val)) : Except ε Val :=
  match S.special a e with
  | some x => x
  | none =>
    match r with
    | .ok vs => S.fn a e vs
    | .error x => .error x

mutual
def pureWalk (S : Spec Arg Val ε) (a : Arg) : Expr → Except ε Val
  | .leaf l => nodeResult S a (.leaf l) (.ok [])
  | .app op args => nodeResult S a (.app op args) (pureList S a args)
  | .quant q vs b =>
    nodeResult S a (.quant q vs b)
      (match pureWalk S a b with
       | .ok v => .ok [v]
       | .error x => .error x)
def pureList (S : Spec Arg Val ε) (a : Arg) : List Expr → Except ε (List Val)
  | [] => .ok []
  | e :: es =>
    match pureList S a es with
    | .error x => .error x
    | .ok vs =>
      match pureWalk S a e with
      | .error x => .error x
      | .ok v => .ok (v :: vs)
end

/-- a pure result seen as the answer of a `walk()` call -/
def liftPure : Except ε Val → Except (Err ε) Val
  | .ok v => .ok v
  | .error x => .error (.node x)

/-! ## Instances -/

/-! ### Substituter (substituter.py) on top of IdentityDagWalker (identitydag.py) -/

/-- the expression manager refuses to build this node (the type check in `create_node` raises:
    `UPTypeError`, `ZeroDivisionError` from `TypeChecker.walk_div`, …) -/
inductive SubErr where
  | rejected (n : Expr)
  deriving DecidableEq, Repr

/-- `IdentityDagWalker.walk_*` : rebuild the node from its new children through the manager;
    `reject n` = `create_node` raises on `n` (a parameter: which constructions are ill-typed is C15's
    subject).  Leaves are re-requested from the manager and come back as the same node. -/
def rebuildE (reject : Expr → Bool) (e : Expr) (args : List Expr) : Except SubErr Expr :=
  match e with
  | .leaf l => .ok (.leaf l)
  | .app op _ =>
    let n := Expr.rebuild op args
    if reject n then .error (.rejected n) else .ok n
  | .quant q vs _ =>
    match args with
    | [b] =>
      let n := Expr.quant q vs b
      if reject n then .error (.rejected n) else .ok n
    | _ => .error (.rejected (.quant q vs (.leaf (.boolC false))))   -- unreachable: one child

/-- `Substituter.walk_replace_or_identity` (substituter.py:129-141): the ORIGINAL node is looked up -/
def substFn (reject : Expr → Bool) (σ : Expr.Subst) (e : Expr) (args : List Expr) : Except SubErr Expr :=
  match σ.lookup e with
  | some v => .ok v
  | none => rebuildE reject e args

/-- pairs kept for the body of a quantifier binding `vs` (substituter.py:52-64) -/
def bodySubst (σ : Expr.Subst) (vs : List Var) : Expr.Subst :=
  σ.filter (fun kv => (Expr.freeVars kv.1).all (fun m => !vs.contains m))

mutual
/-- what a FRESH `Substituter` computes for `walk(e, subs=σ)`; children last first.
    `_push_with_children_to_stack` (substituter.py:40-80, after notes/patches/C13-substituter-top-down.patch):
    a node that IS a key is memoised as its value on the spot and its children are never visited;
    at a quantifier the body is substituted by a new Substituter object through `substitute()`
    (which returns the body untouched for an empty map) and `walk_replace_or_identity` is applied to
    the result; anything else has its children walked first. -/
def substE (reject : Expr → Bool) (σ : Expr.Subst) : Expr → Except SubErr Expr
  | .leaf l =>
    match σ.lookup (.leaf l) with
    | some v => .ok v
    | none => substFn reject σ (.leaf l) []
  | .app op args =>
    match σ.lookup (.app op args) with
    | some v => .ok v
    | none =>
      match substListE reject σ args with
      | .ok as' => substFn reject σ (.app op args) as'
      | .error x => .error x
  | .quant q vs b =>
    match σ.lookup (.quant q vs b) with
    | some v => .ok v
    | none =>
      match (if (bodySubst σ vs).isEmpty then .ok b else substE reject (bodySubst σ vs) b) with
      | .ok b' => substFn reject σ (.quant q vs b) [b']
      | .error x => .error x
def substListE (reject : Expr → Bool) (σ : Expr.Subst) : List Expr → Except SubErr (List Expr)
  | [] => .ok []
  | e :: es =>
    match substListE reject σ es with
    | .error x => .error x
    | .ok vs =>
      match substE reject σ e with
      | .error x => .error x
      | .ok v => .ok (v :: vs)
end

/-- the `Substituter` as an instance of the machine: `invalidate_memoization=True`
    (substituter.py:32), the key ignores `subs` (`getKey`), keys and quantifiers are computed on the
    spot by the overriding `_push_with_children_to_stack` — quantifier bodies by a new Substituter,
    a fresh, hence clean, walker, which by `C14_result` computes `substE`. -/
def substSpec (reject : Expr → Bool) : Spec Expr.Subst Expr SubErr where
  invalidate := true
  fn := substFn reject
  special := fun σ e =>
    match σ.lookup e with
    | some v => some (.ok v)
    | none =>
      match e with
      | .quant q vs b =>
        some (match (if (bodySubst σ vs).isEmpty then .ok b else substE reject (bodySubst σ vs) b) with
              | .ok b' => substFn reject σ (.quant q vs b) [b']
              | .error x => .error x)
      | _ => none

/-! ### FreeVarsOracle (model/variable.py:174-220) and FreeVarsExtractor (walkers/free_vars.py) -/

/-- `FreeVarsOracle.walk_variable_exp / walk_quantifier / walk_constant / walk_all`
    (frozensets as lists: only membership is observed) -/
def freeVarsFn (_ : Unit) (e : Expr) (args : List (List Var)) : Except Empty (List Var) :=
  match e with
  | .leaf (.var v) => .ok [v]
  | .leaf _ => .ok []
  | .app _ _ => .ok args.flatten
  | .quant _ vs _ => .ok (args.flatten.filter (fun v => !vs.contains v))

def freeVarsSpec : Spec Unit (List Var) Empty where
  invalidate := false
  fn := freeVarsFn
  special := fun _ _ => none

/-- `FreeVarsExtractor.walk_all_types` (free_vars.py:38-45) -/
def fluentsFn (_ : Unit) (e : Expr) (args : List (List Expr)) : Except Empty (List Expr) :=
  match e with
  | .app (.fluent f) as => .ok (args.flatten ++ [.app (.fluent f) as])
  | _ => .ok args.flatten

def fluentsSpec : Spec Unit (List Expr) Empty where
  invalidate := false
  fn := fluentsFn
  special := fun _ _ => none

/-! ### probe walkers: table-driven node functions over the real machinery

`harness/props/C14.py` defines two subclasses of the real `DagWalker` whose node function is
`(salt + #children + Σ (i+2)·args[i]) mod 1000003`, raising on the nodes listed in `bad`:
`ProbeInv` is built with `invalidate_memoization=True`, takes `salt`/`bad` as keyword arguments and
overrides `_get_key` like the Substituter; `ProbeKeep` keeps its cache and has `salt`/`bad` fixed at
construction. -/

structure ProbeArg where
  salt : Nat
  bad : List Expr

def probeVal (salt : Nat) (n : Nat) (args : List Nat) : Nat :=
  let rec go (i : Nat) : List Nat → Nat
    | [] => 0
    | x :: xs => (i + 2) * x + go (i + 1) xs
  (salt + n + go 0 args) % 1000003

def probeFn (p : ProbeArg) (e : Expr) (args : List Nat) : Except Expr Nat :=
  if p.bad.contains e then .error e else .ok (probeVal p.salt (children e).length args)

def probeInvSpec : Spec ProbeArg Nat Expr where
  invalidate := true
  fn := probeFn
  special := fun _ _ => none

def probeKeepSpec (p : ProbeArg) : Spec Unit Nat Expr where
  invalidate := false
  fn := fun _ => probeFn p
  special := fun _ _ => none

/-! ### the environment: several shared walkers, calls interleaved -/

/-- the walker singletons of one `Environment` that the model follows -/
structure Env where
  sub : Walker Expr
  fv : Walker (List Var)
  fl : Walker (List Expr)

def Env.fresh : Env := { sub := Walker.fresh, fv := Walker.fresh, fl := Walker.fresh }

inductive Call where
  /-- `e.substitute(σ)`; each pair carries the outcome of the type-compatibility test of
      `Substituter.substitute` (substituter.py:116-126) -/
  | subst (σ : List (Expr × Expr × Bool)) (e : Expr)
  /-- `env.free_vars_oracle.get_free_variables(e)` -/
  | freeVars (e : Expr)
  /-- `env.free_vars_extractor.get(e)` -/
  | fluents (e : Expr)

inductive Ans where
  | expr (e : Expr)
  | vars (vs : List Var)
  | exprs (es : List Expr)
  /-- `UPTypeError` raised by `substitute()` before the walk -/
  | incompatible
  /-- an exception out of the walk: the node the manager refused -/
  | raised (n : Expr)
  /-- `KeyError` / out of fuel: never on a clean environment (theorem) -/
  | broken
  deriving DecidableEq, Repr

def ansOfSub : Except (Err SubErr) Expr → Ans
  | .ok e => .expr e
  | .error (.node (.rejected n)) => .raised n
  | .error _ => .broken

def ansOfVars : Except (Err Empty) (List Var) → Ans
  | .ok vs => .vars vs
  | .error _ => .broken

def ansOfExprs : Except (Err Empty) (List Expr) → Ans
  | .ok es => .exprs es
  | .error _ => .broken

/-- one call on the shared environment (`Substituter.substitute`, substituter.py:82-127: empty map →
    the expression itself; any incompatible pair → `UPTypeError`; else `walk`) -/
def Env.call (reject : Expr → Bool) (E : Env) : Call → Ans × Env
  | .subst σ e =>
    if σ.isEmpty then (.expr e, E)
    else if σ.all (fun kvc => kvc.2.2) then
      let r := walk (substSpec reject) (σ.map (fun kvc => (kvc.1, kvc.2.1))) E.sub e
      (ansOfSub r.1, { E with sub := r.2 })
    else (.incompatible, E)
  | .freeVars e =>
    let r := walk freeVarsSpec () E.fv e
    (ansOfVars r.1, { E with fv := r.2 })
  | .fluents e =>
    let r := walk fluentsSpec () E.fl e
    (ansOfExprs r.1, { E with fl := r.2 })

def Env.run (reject : Expr → Bool) : Env → List Call → List Ans × Env
  | E, [] => ([], E)
  | E, c :: cs =>
    let r := E.call reject c
    let rs := Env.run reject r.2 cs
    (r.1 :: rs.1, rs.2)

/-- the same call answered from its arguments alone (no environment) -/
def pureCall (reject : Expr → Bool) : Call → Ans
  | .subst σ e =>
    if σ.isEmpty then .expr e
    else if σ.all (fun kvc => kvc.2.2) then
      ansOfSub (liftPure (substE reject (σ.map (fun kvc => (kvc.1, kvc.2.1))) e))
    else .incompatible
  | .freeVars e => .vars (Expr.freeVars e)
  | .fluents e => .exprs (Expr.fluentExps e)

/-! ## `ExpressionManager.create_node` (expression.py:175-218): hash-consing table + type check

`check n` is `self.environment.type_checker.get_type(n)` (raises on an ill-typed node). -/

/-- `self.expressions` (node contents already built) and `_next_free_id` -/
structure Manager where
  table : List Expr
  nextId : Nat

def Manager.fresh : Manager := { table := [], nextId := 0 }

/-- AS FOUND: the node is registered, then type-checked -/
def createAsFound {ε : Type} (check : Expr → Except ε Unit) (M : Manager) (c : Expr) : Except ε Expr × Manager :=
  if M.table.contains c then (.ok c, M)
  else
    let M' : Manager := { table := c :: M.table, nextId := M.nextId + 1 }
    match check c with
    | .ok () => (.ok c, M')
    | .error x => (.error x, M')

/-- REPAIRED: the node is registered only once `get_type` has accepted it -/
def create {ε : Type} (check : Expr → Except ε Unit) (M : Manager) (c : Expr) : Except ε Expr × Manager :=
  if M.table.contains c then (.ok c, M)
  else
    match check c with
    | .ok () => (.ok c, { table := c :: M.table, nextId := M.nextId + 1 })
    | .error x => (.error x, { table := M.table, nextId := M.nextId + 1 })

def createHistory {ε : Type} (mk : Manager → Expr → Except ε Expr × Manager) :
    Manager → List Expr → List (Except ε Expr) × Manager
  | M, [] => ([], M)
  | M, c :: cs =>
    let r := mk M c
    let rs := createHistory mk r.2 cs
    (r.1 :: rs.1, rs.2)

end UPVerif.Dag
