/-
`CompilerResult` (`unified_planning/engines/results.py:313`) — the decision table of its dataclass
hook `__post_init__` (results.py:327; named `_post_init` and therefore never run before the repair),
`SequentialPlan.replace_action_instances` (plans/sequential_plan.py:88) and the composition of
map-back functions done by `CompilersPipeline.compile` (compilers_pipeline.py:75-97,
`map_back_action_instance` compilers_pipeline.py:110).

Action instances of the compiled problem are `α`, those of the original problem `β`; a sequential plan
is the list of its instances.  Callables are functions.
-/
namespace UPVerif.Result

/-- the `UPUsageError`s of `__post_init__`, in the order of the checks -/
inductive Err where
  | noProblemButMapBack      -- "The compiled Problem is None but the map_back_action_instance Callable is not None."
  | noProblemButPlanBack     -- "The compiled Problem is None but the plan_back_conversion Callable is not None."
  | problemButNoWayBack      -- "The compiled Problem is not None but both … are None."
  | bothWaysBack             -- "Both map_back_action_instance and plan_back_conversion can't be specified"
  deriving Repr, DecidableEq

/-- the constructor arguments that matter (`problem is not None`, the two optional callables) -/
structure Raw (α β : Type) where
  hasProblem : Bool
  mapBack : Option (α → Option β)
  planBack : Option (List α → List β)

/-- `SequentialPlan.replace_action_instances(f)`: instances mapped to `None` are dropped -/
def replaceActionInstances {α β : Type} (f : α → Option β) (plan : List α) : List β := plan.filterMap f

/-- `CompilerResult.__post_init__` -/
def postInit {α β : Type} (r : Raw α β) : Except Err (Raw α β) :=
  if !r.hasProblem then
    if r.mapBack.isSome then .error .noProblemButMapBack
    else if r.planBack.isSome then .error .noProblemButPlanBack
    else .ok r          -- (the last `if` of the hook is skipped: map_back is None)
  else if r.mapBack.isNone && r.planBack.isNone then .error .problemButNoWayBack
  else
    match r.mapBack with
    | none => .ok r
    | some f =>
      if r.planBack.isSome then .error .bothWaysBack
      else .ok { r with planBack := some (replaceActionInstances f) }

/-- `compilers_pipeline.map_back_action_instance(action, map_back_functions)`: the functions are applied in
    list order, `None` is absorbing -/
def composeBack {α : Type} (fs : List (α → Option α)) (a : α) : Option α :=
  fs.foldl (fun acc f => acc.bind f) (some a)

/-- what `CompilersPipeline.compile` hands to the constructor when every stage produced a problem:
    `stages` are the stages' map-back functions in compilation order (the code reverses the list) -/
def pipelineRaw {α : Type} (stages : List (α → Option α)) : Raw α α :=
  { hasProblem := true, mapBack := some (composeBack stages.reverse), planBack := none }

end UPVerif.Result
