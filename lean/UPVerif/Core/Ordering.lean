/-!
# Core/Ordering — executable model of HTN task-network ordering extraction (property C34)

Mirrors, function by function,
* `unified_planning/model/htn/ordering.py` (`ordering`, `_build_total_order`, the result classes
  `TemporalConstraints` / `PartialOrder` / `TotalOrder`), and
* the part of `unified_planning/model/htn/task_network.py` that feeds and reads it
  (`add_subtask`, `add_constraint`, `temporal_constraints`, `_ordering`, `partial_order`,
  `total_order`),
* the three `ExpressionManager` normalisations a constraint can go through on its way into a
  network (`Not(Not e) = e`, `GT(a,b) = LT(b,a)`, `GE(a,b) = LE(b,a)`; `model/expression.py`).

Mathlib-free (linked into the driver).  The model mirrors the REPAIRED code
(`notes/patches/C34-total-order-keeps-precedences.patch`): a `TotalOrder` keeps the precedences it
was derived from instead of replacing them by the chain of consecutive elements.
-/
namespace UPVerif.Ordering

/-- `TimepointKind` (model/timing.py:30) -/
inductive TPKind where
  | globalStart | globalEnd | start | end_
  deriving DecidableEq, Repr

/-- `Timing` = `Timepoint(kind, container)` + constant `delay` (model/timing.py:46,115).
    The delay is an `int`/`Fraction` constant in the code, a `Rat` here. -/
structure Timing where
  kind : TPKind
  container : Option String
  delay : Rat
  deriving DecidableEq

/-- The fragment of `FNode` that can occur in a task-network constraint here: timing expressions,
    integer constants, `TRUE`, `<`, `<=`, `not`, binary `and` / `or`.  Node identity in the code
    (hash-consing, C16) is structural equality here. -/
inductive TExpr where
  | timing (t : Timing)
  | int (z : Int)
  | tru
  | lt (a b : TExpr)
  | le (a b : TExpr)
  | not (a : TExpr)
  | and (a b : TExpr)
  | or (a b : TExpr)
  deriving DecidableEq

/-- `ExpressionManager.Not` (model/expression.py:300): a double negation is not built -/
def mkNot : TExpr → TExpr
  | .not e => e
  | e => .not e

/-- `ExpressionManager.GT` (model/expression.py:747): `a > b` is the node `b < a` -/
def mkGT (a b : TExpr) : TExpr := .lt b a

/-- `ExpressionManager.GE`: `a >= b` is the node `b <= a` -/
def mkGE (a b : TExpr) : TExpr := .le b a

/-- `AnyChecker(predicate = is_timing_exp).any` (task_network.py:49, ordering.py:67) -/
def hasTime : TExpr → Bool
  | .timing _ => true
  | .int _ => false
  | .tru => false
  | .lt a b => hasTime a || hasTime b
  | .le a b => hasTime a || hasTime b
  | .not a => hasTime a
  | .and a b => hasTime a || hasTime b
  | .or a b => hasTime a || hasTime b

/-- `AbstractTaskNetwork` state that matters for the ordering: subtask identifiers (in insertion
    order) and the constraint list -/
structure Network where
  subtasks : List String := []
  constraints : List TExpr := []

/-- `add_subtask` (task_network.py:56): the identifier must be new (`assert`); `none` = rejected -/
def Network.addSubtask (n : Network) (ident : String) : Option Network :=
  if n.subtasks.contains ident then none else some { n with subtasks := n.subtasks ++ [ident] }

/-- `add_constraint` (task_network.py:125): `TRUE` and already present constraints are not stored -/
def Network.addConstraint (n : Network) (c : TExpr) : Network :=
  if c ≠ .tru ∧ c ∉ n.constraints then { n with constraints := n.constraints ++ [c] } else n

/-- `temporal_constraints` (task_network.py:87) -/
def Network.temporalConstraints (n : Network) : List TExpr := n.constraints.filter hasTime

/-- `non_temporal_constraints` (task_network.py:91) -/
def Network.nonTemporalConstraints (n : Network) : List TExpr := n.constraints.filter (fun c => !hasTime c)

/-- body of the loop of `ordering` (ordering.py:77-93) for one constraint: `some (a, b)` when the
    constraint is appended as a precedence, `none` where the code `break`s.  Same tests, same order:
    `is_lt`, both sides timing expressions, both delays 0, kinds END / START, both containers set. -/
def asPrecedence : TExpr → Option (String × String)
  | .lt (.timing l) (.timing r) =>
    if l.delay != 0 || r.delay != 0 then none
    else if l.kind != .end_ || r.kind != .start then none
    else
      match l.container, r.container with
      | some a, some b => some (a, b)
      | _, _ => none
  | _ => none

/-- the loop itself: precedences of the longest prefix of constraints that are precedences
    (`break` at the first one that is not) -/
def collect : List TExpr → List (String × String)
  | [] => []
  | c :: cs =>
    match asPrecedence c with
    | some p => p :: collect cs
    | none => []

/-- `set(task_ids)` (ordering.py:98): duplicates collapse (there are none in a network, `add_subtask`
    rejects them; kept so that the model is total over all lists) -/
def dedup : List String → List String
  | [] => []
  | x :: xs => if x ∈ xs then dedup xs else x :: dedup xs

/-- `firsts` of `_build_total_order` (ordering.py:117): pending tasks that are the target of no
    pending precedence -/
def firsts (pending : List String) (precs : List (String × String)) : List String :=
  pending.filter (fun t => precs.all (fun p => p.2 != t))

/-- the `while len(pending_tasks) > 0` loop of `_build_total_order` (ordering.py:115-130).
    `fuel` bounds the number of iterations; every iteration removes one pending task, so
    `fuel = pending.length` always suffices (this is what `buildTotalOrder` passes, and the
    characterisation theorem `C34_total_iff` is about that instance).  The order is accumulated
    front to back exactly as `order.append(first)` does.  `len(firsts) != 1 → return None` is the
    `| _ => none` branch. -/
def buildLoop : Nat → List String → List (String × String) → Option (List String)
  | 0, pending, _ => if pending.isEmpty then some [] else none
  | fuel + 1, pending, precs =>
    if pending.isEmpty then some []
    else
      match firsts pending precs with
      | [first] =>
        (buildLoop fuel (pending.erase first) (precs.filter (fun p => p.1 != first))).map (first :: ·)
      | _ => none

/-- `_build_total_order(tasks, precedences)` (ordering.py:108) applied to `set(task_ids)` -/
def buildTotalOrder (taskIds : List String) (precs : List (String × String)) : Option (List String) :=
  buildLoop (dedup taskIds).length (dedup taskIds) precs

/-- the three result classes of ordering.py.  `total` carries the order and (repaired code) the
    precedences it was derived from. -/
inductive Ord where
  | temporal (cs : List TExpr)
  | partialOrd (precs : List (String × String))
  | total (order : List String) (precs : List (String × String))

/-- `ordering(task_ids, time_constraints)` (ordering.py:64).  The initial `assert` (every
    constraint contains a timing) cannot fire on the output of `temporal_constraints`, which
    filters by the same predicate, and is not modelled. -/
def ordering (taskIds : List String) (tcs : List TExpr) : Ord :=
  let precs := collect tcs
  if precs.length != tcs.length then .temporal tcs
  else
    match buildTotalOrder taskIds precs with
    | some to => .total to precs
    | none => .partialOrd precs

/-- `_ordering` (task_network.py:95) -/
def Network.ordering (n : Network) : Ord := Ordering.ordering n.subtasks n.temporalConstraints

/-- `partial_order` (task_network.py:101): `isinstance(order, PartialOrder)` includes `TotalOrder` -/
def Network.partialOrder (n : Network) : Option (List (String × String)) :=
  match n.ordering with
  | .partialOrd p => some p
  | .total _ p => some p
  | .temporal _ => none

/-- `total_order` (task_network.py:113) -/
def Network.totalOrder (n : Network) : Option (List String) :=
  match n.ordering with
  | .total o _ => some o
  | _ => none

/-! ## Reference notions used by the statements of C34 (not code-shaped) -/

/-- the constraint "subtask `p.1` ends strictly before subtask `p.2` starts":
    `end(p.1) + 0 < start(p.2) + 0` -/
def precOf (p : String × String) : TExpr :=
  .lt (.timing ⟨.end_, some p.1, 0⟩) (.timing ⟨.start, some p.2, 0⟩)

/-- `l` is a linear ordering of all of `tasks` (each exactly once) in which, for every precedence
    `(a, b)`, `a` occurs before `b` (`[a, b]` is a subsequence of `l`) -/
def LinExt (tasks : List String) (precs : List (String × String)) (l : List String) : Prop :=
  l.Nodup ∧ (∀ t, t ∈ l ↔ t ∈ tasks) ∧ ∀ p ∈ precs, List.Sublist [p.1, p.2] l

/-- `l` is the one and only such ordering -/
def UniqueLinExt (tasks : List String) (precs : List (String × String)) (l : List String) : Prop :=
  LinExt tasks precs l ∧ ∀ l', LinExt tasks precs l' → l' = l

/-- the precedences relate subtasks of the network -/
def PrecsWithin (tasks : List String) (precs : List (String × String)) : Prop :=
  ∀ p ∈ precs, p.1 ∈ tasks ∧ p.2 ∈ tasks

end UPVerif.Ordering
