import UPVerif.Core.AnmlSyntax
import UPVerif.Core.AnmlRead
import UPVerif.Core.Walkers.FreeVars
/-
The ANML-expressible fragment (`inFragment`, decidable) and the admissible renamings (`goodRen`,
decidable): the hypotheses of the round-trip theorem C19, also evaluated by the driver on every case
(a case outside the fragment is answered `out-of-fragment`, never printed).
-/
namespace UPVerif.Anml
open UPVerif

/-! ### everything that gets a name -/

inductive Item where
  | ty (n : String)
  | fl (n : String)
  | act (n : String)
  | obj (n : String)
  | par (n : String) (t : Ty)
  | var (n : String) (t : Ty)
  deriving DecidableEq, Repr

def Ren.name (ρ : Ren) : Item → String
  | .ty n => ρ.ty n
  | .fl n => ρ.fl n
  | .act n => ρ.act n
  | .obj n => ρ.obj n
  | .par n t => ρ.par n t
  | .var n t => ρ.var n t

def varsOfLeaf : Leaf → List Var
  | .var v => [v]
  | _ => []

mutual
/-- the variables of an expression: occurrences and binders -/
def varsOfE : Expr → List Var
  | .leaf l => varsOfLeaf l
  | .app _ args => varsOfEs args
  | .quant _ vs b => vs ++ varsOfE b
def varsOfEs : List Expr → List Var
  | [] => []
  | e :: es => varsOfE e ++ varsOfEs es
end

def varsOfEff (e : Effect) : List Var := e.forall_ ++ varsOfE e.fluent ++ varsOfE e.value ++ varsOfE e.cond

def AAction.exprs : AAction → List Expr
  | .inst _ _ pre _ => pre
  | .dur _ _ d conds _ => d.lo :: d.hi :: conds.map (·.2)

def AProblem.allEffects (P : AProblem) : List Effect :=
  P.actions.flatMap (·.allEffects) ++ P.timedEffects.map (·.2)

def AProblem.allExprs (P : AProblem) : List Expr :=
  P.init.flatMap (fun i => [i.1, i.2]) ++ P.actions.flatMap (·.exprs) ++ P.goals ++ P.timedGoals.map (·.2) ++ P.invariants

def AProblem.vars (P : AProblem) : List Var :=
  varsOfEs P.allExprs ++ P.allEffects.flatMap varsOfEff

def AProblem.items (P : AProblem) : List Item :=
  P.types.map (fun t => .ty t.1)
  ++ P.fluents.map (fun f => .fl f.ref.name)
  ++ P.actions.map (fun a => .act a.name)
  ++ P.objects.map (fun o => .obj o.1)
  ++ P.fluents.flatMap (fun f => (f.pnames.zip f.ref.sig).map (fun p => .par p.1 p.2))
  ++ P.actions.flatMap (fun a => a.params.map (fun p => .par p.1 p.2))
  ++ P.vars.map (fun v => .var v.name v.ty)

/-- the renaming gives different items different names (C38: `anml_names_distinct`) -/
def Good (ρ : Ren) (P : AProblem) : Prop :=
  ∀ i j, i ∈ P.items → j ∈ P.items → ρ.name i = ρ.name j → i = j

def injOn (ρ : Ren) : List Item → Bool
  | [] => true
  | i :: is => is.all (fun j => i == j || ρ.name i != ρ.name j) && injOn ρ is

/-- decidable form of `Good` -/
def goodRen (ρ : Ren) (P : AProblem) : Bool := injOn ρ P.items

/-! ### the fragment -/

/-- the types the writer can name: Boolean, (bounded) numbers, declared user types -/
def wfTy (P : AProblem) : Ty → Bool
  | .user n => (P.types.map (·.1)).contains n
  | .time => false
  | _ => true

def isNot : Expr → Bool
  | .app .not _ => true
  | _ => false

def wfLeaf (P : AProblem) (params : List (String × Ty)) (vars : List Var) : Leaf → Bool
  | .boolC _ => true
  | .intC _ => true
  | .realC _ => true
  | .obj n t => P.objects.contains (n, t)
  | .param n t => params.contains (n, t)
  | .var v => vars.contains v
  | .timing _ => false
  | .present _ => false

/-- the operator and the shape of its argument list -/
def wfApp (P : AProblem) (op : Op) (args : List Expr) : Bool :=
  match op with
  | .fluent f => (P.fluents.map (·.ref)).contains f && args.length == f.sig.length
  | .and | .or | .plus | .times => decide (2 ≤ args.length)
  | .not => (match args with | [a] => !isNot a | _ => false)
  | .implies | .minus | .div | .le | .lt => args.length == 2
  | .iff => (match args with | [a, _] => isBoolTyped a | _ => false)
  | .eq => (match args with | [a, _] => !isBoolTyped a | _ => false)
  | _ => false

mutual
/-- expressions the writer prints and the reader resolves back: `params` are the parameters in scope,
    `vars` the quantified variables in scope -/
def wfE (P : AProblem) (params : List (String × Ty)) (vars : List Var) : Expr → Bool
  | .leaf l => wfLeaf P params vars l
  | .app op args => wfApp P op args && wfEs P params vars args
  | .quant _ vs b => !vs.isEmpty && vs.all (fun v => wfTy P v.ty) && wfE P params (vs ++ vars) b
def wfEs (P : AProblem) (params : List (String × Ty)) (vars : List Var) : List Expr → Bool
  | [] => true
  | e :: es => wfE P params vars e && wfEs P params vars es
end

def wfTiming (glob : Bool) (t : Timing) : Bool :=
  t.tp.isGlobal == glob && (if t.tp.fromStart then decide (0 ≤ t.delay) else decide (t.delay ≤ 0))

def wfInterval (glob : Bool) (i : Interval) : Bool :=
  wfTiming glob i.lo && wfTiming glob i.hi && (i.lo != i.hi || (!i.lopen && !i.ropen))

def wfEff (P : AProblem) (params : List (String × Ty)) (e : Effect) : Bool :=
  e.forall_.all (fun v => wfTy P v.ty)
  && e.forall_.all (fun v => (e.fluent.freeVars ++ e.value.freeVars ++ e.cond.freeVars).contains v)
  && (match e.fluent with
      | .app (.fluent _) _ => true
      | _ => false)
  && wfE P params e.forall_ e.fluent && wfE P params e.forall_ e.value && wfE P params e.forall_ e.cond

def wfAction (P : AProblem) : AAction → Bool
  | .inst _ ps pre effs =>
    ps.all (fun p => wfTy P p.2) && pre.all (wfE P ps []) && effs.all (wfEff P ps)
  | .dur _ ps d conds effs =>
    ps.all (fun p => wfTy P p.2) && wfE P ps [] d.lo && wfE P ps [] d.hi
    && conds.all (fun c => wfInterval false c.1 && wfE P ps [] c.2)
    && effs.all (fun e => wfTiming false e.1 && wfEff P ps e.2)

def wfFluent (P : AProblem) (f : AFluent) : Bool :=
  wfTy P f.ref.ty && f.ref.sig.all (wfTy P) && f.pnames.length == f.ref.sig.length

def nodupB {α} [BEq α] : List α → Bool
  | [] => true
  | a :: as => !as.contains a && nodupB as

/-- the ANML-expressible fragment -/
def inFragment (P : AProblem) : Bool :=
  P.types.all (fun t => match t.2 with | some f => (P.types.map (·.1)).contains f | none => true)
  && P.fluents.all (wfFluent P) && nodupB (P.fluents.map (·.ref.name))
  && P.objects.all (fun o => (P.types.map (·.1)).contains o.2) && nodupB (P.objects.map (·.1))
  && nodupB (P.types.map (·.1))
  && P.init.all (fun i => (match i.1 with | .app (.fluent _) _ => true | _ => false)
                          && wfE P [] [] i.1 && wfE P [] [] i.2)
  && P.actions.all (wfAction P)
  && P.timedEffects.all (fun e => wfTiming true e.1 && e.1 != ⟨.gstart, 0⟩ && wfEff P [] e.2)
  && P.goals.all (wfE P [] [])
  && P.timedGoals.all (fun g => wfInterval true g.1 && g.1.lo != ⟨.gend, 0⟩ && wfE P [] [] g.2)
  && P.invariants.all (wfE P [] [])

end UPVerif.Anml
