import UPVerif.Core.Sexp
import UPVerif.Core.ExprSexp
import UPVerif.Core.Problem
import UPVerif.Core.TT
/-
Wire format of temporal problems and time-triggered plans (driver infrastructure of C04/C05; trusted
base of the correspondence check, not a model).

  temporal ::= (temporal (dactions DA*) (teff (TIMING eff*)*) (tgoal (INTERVAL e*)*))
  DA       ::= (daction name ((p type)*) (dur lo hi T|F T|F) (conds (INTERVAL e*)*) (effs (TIMING eff*)*))
  TIMING   ::= (S q) | (E q) | (GS q) | (GE q)          StartTiming / EndTiming / GlobalStartTiming / GlobalEndTiming + delay
  INTERVAL ::= (TIMING TIMING T|F T|F)                   lower upper is_left_open is_right_open
  plan     ::= (plan (start name (obj*) dur|-)*)         in listing order; `name` is an action or a durative action
  verdict  ::= valid | (invalid inapplicable i|-) | (invalid goals -) | (raise missing|zero-div|other) | fuel
-/
namespace UPVerif.TT
open UPVerif Sexp

def parseTiming : Sexp → Option Timing
  | .list [.atom k, .atom d] => do
    let kind ← (match k with
      | "S" => some TPKind.start | "E" => some .end | "GS" => some .gstart | "GE" => some .gend
      | _ => none)
    let q ← parseRat d
    some ⟨kind, q⟩
  | _ => none

def parseInterval : Sexp → Option TInterval
  | .list [lo, hi, l, r] => do
    let a ← parseTiming lo
    let b ← parseTiming hi
    let lopen ← l.asBool?
    let ropen ← r.asBool?
    some ⟨a, b, lopen, ropen⟩
  | _ => none

def parseTimedEffs (xs : List Sexp) : Option (List (Timing × List Effect)) :=
  xs.mapM (fun x => match x with
    | .list (t :: effs) => do
      let tt ← parseTiming t
      let es ← effs.mapM parseEffect
      some (tt, es)
    | _ => none)

def parseTimedConds (xs : List Sexp) : Option (List (TInterval × List Expr)) :=
  xs.mapM (fun x => match x with
    | .list (i :: cs) => do
      let ii ← parseInterval i
      let es ← cs.mapM parseExpr
      some (ii, es)
    | _ => none)

def parseDurAction : Sexp → Option DurAction
  | .list [.atom "daction", .atom n, .list ps, .list [.atom "dur", lo, hi, l, r],
           .list (.atom "conds" :: cs), .list (.atom "effs" :: es)] => do
    let params ← ps.mapM (fun p => match p with
      | .list [.atom pn, t] => (parseTy t).map (fun ty => (pn, ty))
      | _ => none)
    let dlo ← parseExpr lo
    let dhi ← parseExpr hi
    let lopen ← l.asBool?
    let ropen ← r.asBool?
    let conds ← parseTimedConds cs
    let effs ← parseTimedEffs es
    some { name := n, params := params, durLo := dlo, durHi := dhi, durLeftOpen := lopen,
           durRightOpen := ropen, conds := conds, effs := effs }
  | _ => none

def parseTemporal : Sexp → Option TProblem
  | .list [.atom "temporal", .list (.atom "dactions" :: das), .list (.atom "teff" :: tes),
           .list (.atom "tgoal" :: tgs)] => do
    let d ← das.mapM parseDurAction
    let e ← parseTimedEffs tes
    let g ← parseTimedConds tgs
    some ⟨d, e, g⟩
  | _ => none

def parsePlan (P : Problem) (T : TProblem) : Sexp → Option (List Step)
  | .list (.atom "plan" :: steps) =>
    steps.mapM (fun s => match s with
      | .list [.atom st, .atom n, args, du] => do
        let start ← parseRat st
        let as ← args.asStrs?
        let dur ← (match du with
          | .atom "-" => some none
          | .atom q => (parseRat q).map some
          | _ => none)
        let act ← (match P.action? n with
          | some a => some (ActRef.inst a)
          | none => (T.dactions.find? (fun d => d.name == n)).map ActRef.dur)
        some ({ start := start, act := act, args := as, dur := dur } : Step)
      | _ => none)
  | _ => none

def errSexp : Err → Sexp
  | .fuel => .atom "fuel"
  | .raised .missing => .list [.atom "raise", .atom "missing"]
  | .raised .zeroDiv => .list [.atom "raise", .atom "zero-div"]
  | .raised .other => .list [.atom "raise", .atom "other"]

def whoSexp : Option Nat → Sexp
  | none => .atom "-"
  | some i => Sexp.ofNat i

def verdictSexp : Except Err Verdict → Sexp
  | .error e => errSexp e
  | .ok .valid => .atom "valid"
  | .ok (.invalid .inapplicable w) => .list [.atom "invalid", .atom "inapplicable", whoSexp w]
  | .ok (.invalid .goals w) => .list [.atom "invalid", .atom "goals", whoSexp w]

end UPVerif.TT
