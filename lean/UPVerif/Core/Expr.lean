/-
The expression IR (`unified_planning/model/fnode.py`, `operators.py`, `types.py`).

An `FNode` is `(node_type, args, payload)`; the model keeps exactly that shape:
leaves carry their payload, `app` is an operator applied to a tuple of children, `quant` carries
the bound variables.  Arity is NOT enforced by the type (as in Python, where walkers `assert` it).
Integers are unbounded `Int`, reals are exact `Rat` (Python `int` / `fractions.Fraction`).

Hash-consing (C16) is what licenses modelling `FNode` identity (`==`, dict keys) as structural
equality of these trees.
-/
namespace UPVerif

/-- `unified_planning.model.types`: bounds `none` = unbounded; user types by name (the hierarchy
    lives in `TypeEnv`) -/
inductive Ty where
  | bool
  | int (lb ub : Option Int)
  | real (lb ub : Option Rat)
  | user (name : String)
  | time
  deriving DecidableEq, Repr, Inhabited

structure Var where
  name : String
  ty : Ty
  deriving DecidableEq, Repr, Inhabited

/-- payload of a FLUENT_EXP: the `Fluent` object (name, type, signature types) -/
structure FluentRef where
  name : String
  ty : Ty
  sig : List Ty
  deriving DecidableEq, Repr, Inhabited

/-- payload of an INTERPRETED_FUNCTION_EXP -/
structure FunRef where
  name : String
  ty : Ty
  sig : List Ty
  deriving DecidableEq, Repr, Inhabited

inductive Leaf where
  | boolC (b : Bool)
  | intC (z : Int)
  | realC (r : Rat)
  | obj (name : String) (ty : String)
  | param (name : String) (ty : Ty)
  | var (v : Var)
  | timing (repr : String)     -- TIMING_EXP, opaque
  | present (repr : String)    -- PRESENT_EXP, opaque
  deriving DecidableEq, Repr, Inhabited

inductive Op where
  | and | or | not | implies | iff
  | fluent (f : FluentRef)
  | ifun (g : FunRef)
  | dot (agent : String)
  | plus | minus | times | div
  | le | lt | eq
  | always | sometime | sometimeBefore | sometimeAfter | atMostOnce
  deriving DecidableEq, Repr, Inhabited

inductive Quant where
  | ex | all
  deriving DecidableEq, Repr, Inhabited

inductive Expr where
  | leaf (l : Leaf)
  | app (op : Op) (args : List Expr)
  | quant (q : Quant) (vs : List Var) (body : Expr)
  deriving Repr, Inhabited

namespace Expr

/-! structural equality, decidable (needed because the nested `List Expr` blocks `deriving`) -/
mutual
def beq : Expr → Expr → Bool
  | .leaf a, .leaf b => a == b
  | .app o as, .app p bs => o == p && beqList as bs
  | .quant q vs a, .quant r ws b => q == r && vs == ws && beq a b
  | _, _ => false
def beqList : List Expr → List Expr → Bool
  | [], [] => true
  | a :: as, b :: bs => beq a b && beqList as bs
  | _, _ => false
end

mutual
theorem eq_of_beq : ∀ (a b : Expr), beq a b = true → a = b
  | .leaf a, .leaf b, h => by simp [beq] at h; rw [h]
  | .app o as, .app p bs, h => by
    simp only [beq, Bool.and_eq_true, beq_iff_eq] at h
    rw [h.1, eq_of_beqList as bs h.2]
  | .quant q vs a, .quant r ws b, h => by
    simp only [beq, Bool.and_eq_true, beq_iff_eq] at h
    rw [h.1.1, h.1.2, eq_of_beq a b h.2]
  | .leaf _, .app _ _, h => by simp [beq] at h
  | .leaf _, .quant _ _ _, h => by simp [beq] at h
  | .app _ _, .leaf _, h => by simp [beq] at h
  | .app _ _, .quant _ _ _, h => by simp [beq] at h
  | .quant _ _ _, .leaf _, h => by simp [beq] at h
  | .quant _ _ _, .app _ _, h => by simp [beq] at h
theorem eq_of_beqList : ∀ (as bs : List Expr), beqList as bs = true → as = bs
  | [], [], _ => rfl
  | a :: as, b :: bs, h => by
    simp only [beqList, Bool.and_eq_true] at h
    rw [eq_of_beq a b h.1, eq_of_beqList as bs h.2]
  | [], _ :: _, h => by simp [beqList] at h
  | _ :: _, [], h => by simp [beqList] at h
end

mutual
theorem beq_refl : ∀ (a : Expr), beq a a = true
  | .leaf a => by simp [beq]
  | .app o as => by simp [beq, beqList_refl as]
  | .quant q vs a => by simp [beq, beq_refl a]
theorem beqList_refl : ∀ (as : List Expr), beqList as as = true
  | [] => rfl
  | a :: as => by simp [beqList, beq_refl a, beqList_refl as]
end

instance : DecidableEq Expr := fun a b =>
  if h : beq a b = true then isTrue (eq_of_beq a b h)
  else isFalse (fun e => h (e ▸ beq_refl a))

/-! ### constructors mirroring `ExpressionManager` (only the normalisations the manager performs) -/
def tt : Expr := .leaf (.boolC true)
def ff : Expr := .leaf (.boolC false)
def bool (b : Bool) : Expr := .leaf (.boolC b)
def int (z : Int) : Expr := .leaf (.intC z)
def real (r : Rat) : Expr := .leaf (.realC r)

/-- `manager.And(args)` -/
def mkAnd : List Expr → Expr
  | [] => tt
  | [x] => x
  | xs => .app .and xs
/-- `manager.Or(args)` -/
def mkOr : List Expr → Expr
  | [] => ff
  | [x] => x
  | xs => .app .or xs
/-- `manager.Not(e)` (double negation collapsed) -/
def mkNot : Expr → Expr
  | .app .not [x] => x
  | e => .app .not [e]
def mkImplies (a b : Expr) : Expr := .app .implies [a, b]
def mkIff (a b : Expr) : Expr := .app .iff [a, b]
/-- `manager.Plus(args)` -/
def mkPlus : List Expr → Expr
  | [] => int 0
  | [x] => x
  | xs => .app .plus xs
/-- `manager.Times(args)` -/
def mkTimes : List Expr → Expr
  | [] => int 1
  | [x] => x
  | xs => .app .times xs
def mkMinus (a b : Expr) : Expr := .app .minus [a, b]
def mkDiv (a b : Expr) : Expr := .app .div [a, b]
def mkLE (a b : Expr) : Expr := .app .le [a, b]
def mkLT (a b : Expr) : Expr := .app .lt [a, b]
/-- `manager.GE(a,b)` is stored as `LE(b,a)` -/
def mkGE (a b : Expr) : Expr := .app .le [b, a]
def mkGT (a b : Expr) : Expr := .app .lt [b, a]
def mkEq (a b : Expr) : Expr := .app .eq [a, b]
def mkFluent (f : FluentRef) (args : List Expr) : Expr := .app (.fluent f) args

/-! ### recognisers (`FNode.is_*`) -/
def isTrue : Expr → Bool
  | .leaf (.boolC true) => true
  | _ => false
def isFalse : Expr → Bool
  | .leaf (.boolC false) => true
  | _ => false
def boolConst? : Expr → Option Bool
  | .leaf (.boolC b) => some b
  | _ => none
def isConstant : Expr → Bool
  | .leaf (.boolC _) | .leaf (.intC _) | .leaf (.realC _) | .leaf (.obj _ _) => true
  | _ => false

/-! size, used as fuel bound / measure by walkers that are not structurally recursive -/
mutual
def size : Expr → Nat
  | .leaf _ => 1
  | .app _ as => 1 + sizeList as
  | .quant _ _ b => 1 + size b
def sizeList : List Expr → Nat
  | [] => 0
  | a :: as => size a + sizeList as
end

end Expr

/-- Python's `int` vs `Fraction` distinction in constant arithmetic (needed for the *syntactic*
    output of walkers: `int + Fraction` is a `Fraction` even when integral) -/
inductive Num where
  | i (z : Int)
  | q (r : Rat)
  deriving DecidableEq, Repr, Inhabited

namespace Num
def toRat : Num → Rat
  | .i z => (z : Rat)
  | .q r => r
def add : Num → Num → Num
  | .i a, .i b => .i (a + b)
  | a, b => .q (a.toRat + b.toRat)
def sub : Num → Num → Num
  | .i a, .i b => .i (a - b)
  | a, b => .q (a.toRat - b.toRat)
def mul : Num → Num → Num
  | .i a, .i b => .i (a * b)
  | a, b => .q (a.toRat * b.toRat)
def neg : Num → Num
  | .i a => .i (-a)
  | .q r => .q (-r)
/-- `Simplifier._number_to_fnode` -/
def toExpr : Num → Expr
  | .i z => Expr.int z
  | .q r => Expr.real r
end Num

namespace Expr
/-- numeric constant payload (`is_int_constant() or is_real_constant()` + `constant_value()`) -/
def num? : Expr → Option Num
  | .leaf (.intC z) => some (.i z)
  | .leaf (.realC r) => some (.q r)
  | _ => none
end Expr

/-- user-type hierarchy: `father t` (single inheritance) as an association list -/
structure TypeEnv where
  fathers : List (String × Option String)
  deriving Repr, Inhabited

namespace TypeEnv
def father (E : TypeEnv) (t : String) : Option String := (E.fathers.lookup t).join
/-- `t` is `u` or a descendant of `u`; fuel = number of declared types (chains are acyclic by
    construction in Python: a father must exist before its child) -/
def isSubtypeFuel (E : TypeEnv) : Nat → String → String → Bool
  | 0, t, u => t == u
  | n + 1, t, u => t == u || (match E.father t with
      | some f => isSubtypeFuel E n f u
      | none => false)
def isSubtype (E : TypeEnv) (t u : String) : Bool := isSubtypeFuel E E.fathers.length t u
end TypeEnv

end UPVerif
