/-
Executable model of `OversubscriptionPlanner._solve`
(unified_planning/engines/oversubscription_planner.py:120-196), Mathlib-free.

The underlying planner is an ABSTRACT parameter `ans : Query → Answer Plan`: a function from the
exact-subset goal encoding it is asked about to its `PlanGenerationResult` (status + optional plan).
A function of the query loses no generality over a history-dependent planner: the keys of the
`Oversubscription` dict are pairwise distinct, so every subset - hence every query - is asked at most
once.  `timeout=None`: the time bookkeeping (lines 160-165) is not modelled.

Goals are identified by an abstract key type `G` with decidable equality (the code compares FNodes
with `in`, i.e. `==`, which is identity of hash-consed nodes: C16).
-/
namespace UPVerif.Oversub

/-- `PlanGenerationResultStatus` (engines/results.py:57-88) -/
inductive Status where
  | solvedSat | solvedOpt | unsolvableProven | unsolvableIncomplete
  | timeout | memout | internalError | unsupported | intermediate
  deriving DecidableEq, Repr, Inhabited

/-- `status in POSITIVE_OUTCOMES` (engines/results.py:85-90) -/
def Status.isPositive : Status → Bool
  | .solvedSat | .solvedOpt => true
  | _ => false

/-- the statuses that set `incomplete = True` (oversubscription_planner.py:181-187) -/
def Status.isIncomplete : Status → Bool
  | .memout | .internalError | .unsupported | .unsolvableIncomplete => true
  | _ => false

def Status.name : Status → String
  | .solvedSat => "SOLVED_SATISFICING" | .solvedOpt => "SOLVED_OPTIMALLY"
  | .unsolvableProven => "UNSOLVABLE_PROVEN" | .unsolvableIncomplete => "UNSOLVABLE_INCOMPLETELY"
  | .timeout => "TIMEOUT" | .memout => "MEMOUT" | .internalError => "INTERNAL_ERROR"
  | .unsupported => "UNSUPPORTED_PROBLEM" | .intermediate => "INTERMEDIATE"

def Status.all : List Status :=
  [.solvedSat, .solvedOpt, .unsolvableProven, .unsolvableIncomplete, .timeout, .memout,
   .internalError, .unsupported, .intermediate]

def Status.ofName (s : String) : Option Status := Status.all.find? (fun st => st.name == s)

/-- `PlanGenerationResult` restricted to the two fields the meta-engines read -/
structure Answer (Plan : Type) where
  status : Status
  plan : Option Plan

/-- `itertools.combinations(s, r)`: the `r`-element subsequences in lexicographic position order -/
def combs {α : Type} : List α → Nat → List (List α)
  | _, 0 => [[]]
  | [], _ + 1 => []
  | x :: xs, r + 1 => (combs xs r).map (x :: ·) ++ combs xs (r + 1)

/-- `unified_planning.utils.powerset` (utils.py:20-23):
    `chain.from_iterable(combinations(s, r) for r in range(len(s) + 1))` -/
def powerset {α : Type} (s : List α) : List (List α) :=
  (List.range (s.length + 1)).flatMap (combs s)

/-- weight of a subset: `weight = 0; for g, c in l: weight += c` (lines 141-146) -/
def weight {G : Type} (l : List (G × Rat)) : Rat := l.foldl (fun w gc => w + gc.2) 0

/-- one element `(weight, sg)` of `q` (lines 141-147) -/
def entry {G : Type} (l : List (G × Rat)) : Rat × List G := (weight l, l.map Prod.fst)

/-- insertion step of a STABLE sort by descending first component: `x` precedes, in the input, every
    element of the (already sorted) list, so it goes in front of the first element that is not heavier -/
def insertDesc {β : Type} (x : Rat × β) : List (Rat × β) → List (Rat × β)
  | [] => [x]
  | y :: ys => if y.1 ≤ x.1 then x :: y :: ys else y :: insertDesc x ys

/-- `q.sort(reverse=True, key=lambda t: t[0])` (line 148): Python's sort is stable also with
    `reverse=True` (elements with equal keys keep their original order) -/
def sortDesc {β : Type} : List (Rat × β) → List (Rat × β)
  | [] => []
  | x :: xs => insertDesc x (sortDesc xs)

/-- the list `q` of lines 139-148 -/
def queue {G : Type} (goals : List (G × Rat)) : List (Rat × List G) :=
  sortDesc ((powerset goals).map entry)

/-- the query handed to the underlying planner for the subset `chosen` (lines 153-158): the hard
    goals are kept by `problem.clone()`; every oversubscription goal is added positively if it is in
    the subset and NEGATED otherwise (exact-subset encoding) -/
def encode {G : Type} [DecidableEq G] (goals : List (G × Rat)) (chosen : List G) : List (G × Bool) :=
  goals.map (fun gc => (gc.1, decide (gc.1 ∈ chosen)))

/-- result of the meta-engine: status, plan, and (for the correspondence) the number of calls made to
    the underlying planner -/
structure Result (Plan : Type) where
  status : Status
  plan : Option Plan
  calls : Nat

/-- the `for t in q` loop with its status logic (lines 149-196); `n` counts the calls made so far -/
def loop {G Plan : Type} [DecidableEq G] (ans : List (G × Bool) → Answer Plan) (goals : List (G × Rat)) :
    List (Rat × List G) → Bool → Nat → Result Plan
  | [], incomplete, n =>
    ⟨if incomplete then .unsolvableIncomplete else .unsolvableProven, none, n⟩
  | t :: rest, incomplete, n =>
    let res := ans (encode goals t.2)
    if res.status.isPositive then
      ⟨if incomplete || goals.isEmpty then .solvedSat else .solvedOpt, res.plan, n + 1⟩
    else if res.status = .timeout then ⟨.timeout, none, n + 1⟩
    else if res.status.isIncomplete then loop ans goals rest true (n + 1)
    else loop ans goals rest incomplete (n + 1)

/-- `OversubscriptionPlanner._solve` for a problem whose (single or absent) oversubscription metric has
    the goal/weight list `goals` (dict order) -/
def solve {G Plan : Type} [DecidableEq G] (ans : List (G × Bool) → Answer Plan) (goals : List (G × Rat)) :
    Result Plan :=
  loop ans goals (queue goals) false 0

end UPVerif.Oversub
