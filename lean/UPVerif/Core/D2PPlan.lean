/-
Executable model of the plan conversions of the durative-actions-to-processes compiler
(`/repo/unified_planning/engines/compilers/durative_actions_to_processes.py`).

Mirrored functions (same order of operations, same failure points):
  * `variableDuration`  — `_action_variable_duration`                      (l. 862-864)
  * `firstEndTiming`    — `_get_first_end_timing`                          (l. 867-896)
  * `endDelay`          — what `_compile` / `_compile_durative_action` record per original action:
                          a compiled *start* action always (l. 319, 338), a compiled *first_end*
                          action with its `first_end_timing` only if the duration is variable
                          (l. 482-513, 339-341)
  * `forwardStep`/`forward` — `_forward_plan_to_plan`                      (l. 1090-1120)
  * `sortByTime`        — `sorted(plan.timed_actions, key=lambda x: x[0])` (stable)   (l. 1029)
  * `appendTo`/`closeLast`/`backStep`/`backFold`/`finalize`/`back` — `_back_plan_to_plan` (l. 1016-1087)
  * `evalD`             — `Fraction(simplifier.simplify(duration.lower.substitute(subs)).constant_value())`
                          (l. 1049-1056): the VALUE of the lower duration bound under the actual parameters
                          (static fluents read from the initial state); `none` = "does not simplify to a constant".

Identity of compiled actions: the Python dictionaries `start_actions` / `first_end_actions` are keyed
by the compiled `Action` objects; the model names a compiled action by its role and the name of the
original action it came from (`CAct`), i.e. it assumes the dictionaries are injective (fresh names).

No Mathlib; unbounded `Int`/`Rat`.
-/
namespace UPVerif.D2P

/-- a constant actual parameter of an action instance (`FNode` constants: `Int(2)` ≠ `Real(2)`) -/
inductive PVal where
  | int (z : Int)
  | real (q : Rat)
  | obj (name : String)
  | bool (b : Bool)
  deriving DecidableEq, Repr, Inhabited

/-- duration-bound expressions (compared STRUCTURALLY by `_action_variable_duration`, like `FNode`s) -/
inductive DExpr where
  | intC (z : Int)
  | realC (q : Rat)
  | param (i : Nat)                       -- i-th parameter of the action
  | sfl (f : String) (args : List Nat)     -- static fluent applied to parameters
  | plus (a b : DExpr)
  | minus (a b : DExpr)
  | times (a b : DExpr)
  | div (a b : DExpr)
  deriving DecidableEq, Repr, Inhabited

/-- a static fluent's initial state: default value and explicit entries -/
structure SFluent where
  name : String
  default : Option Rat
  entries : List (List PVal × Rat)
  deriving Repr, Inhabited

def pvalNum : PVal → Option Rat
  | .int z => some (z : Rat)
  | .real q => some q
  | _ => none

def lookupS (S : List SFluent) (f : String) : Option SFluent := S.find? (fun s => s.name == f)

def assocGet (k : List PVal) : List (List PVal × Rat) → Option Rat
  | [] => none
  | (k', v) :: r => if k' = k then some v else assocGet k r

def getParams (ps : List PVal) : List Nat → Option (List PVal)
  | [] => some []
  | i :: r =>
    match ps[i]?, getParams ps r with
    | some v, some vs => some (v :: vs)
    | _, _ => none

/-- value of a duration bound under actual parameters `ps` (l. 1049-1056) -/
def evalD (S : List SFluent) (ps : List PVal) : DExpr → Option Rat
  | .intC z => some (z : Rat)
  | .realC q => some q
  | .param i =>
    match ps[i]? with
    | some v => pvalNum v
    | none => none
  | .sfl f args =>
    match lookupS S f, getParams ps args with
    | some fl, some vs =>
      match assocGet vs fl.entries with
      | some v => some v
      | none => fl.default
    | _, _ => none
  | .plus a b =>
    match evalD S ps a, evalD S ps b with
    | some x, some y => some (x + y)
    | _, _ => none
  | .minus a b =>
    match evalD S ps a, evalD S ps b with
    | some x, some y => some (x - y)
    | _, _ => none
  | .times a b =>
    match evalD S ps a, evalD S ps b with
    | some x, some y => some (x * y)
    | _, _ => none
  | .div a b =>
    match evalD S ps a, evalD S ps b with
    | some x, some y => if y = 0 then none else some (x / y)
    | _, _ => none

/-- an action-relative timing: `StartTiming(delay)` / `EndTiming() + delay` -/
structure Timing where
  fromEnd : Bool
  delay : Rat
  deriving DecidableEq, Repr, Inhabited

inductive AKind where
  | inst
  /-- duration interval (bounds, openness) and the timings of conditions then effects, in the
      iteration order of `chain(action.conditions.items(), action.effects.items())` -/
  | dur (lo hi : DExpr) (lopen ropen : Bool) (timings : List Timing)
  deriving Repr, Inhabited

def AKind.isInst : AKind → Bool
  | .inst => true
  | .dur .. => false

structure ADecl where
  name : String
  kind : AKind
  deriving Repr, Inhabited

structure Problem where
  sfl : List SFluent
  acts : List ADecl
  deriving Repr, Inhabited

def Problem.lookup (P : Problem) (n : String) : Option ADecl := P.acts.find? (fun a => a.name == n)

/-- `_action_variable_duration` (l. 862): `d.is_left_open() or d.is_right_open() or d.lower != d.upper` -/
def variableDuration (lo hi : DExpr) (lopen ropen : Bool) : Bool :=
  lopen || ropen || decide (lo ≠ hi)

/-- `_get_first_end_timing` (l. 882-896): the end-relative timing with the smallest delay (first one wins ties) -/
def firstEndTiming : List Timing → Option Rat → Option Rat
  | [], acc => acc
  | t :: ts, acc =>
    if t.fromEnd then
      match acc with
      | none => firstEndTiming ts (some t.delay)
      | some d => if d > t.delay then firstEndTiming ts (some t.delay) else firstEndTiming ts (some d)
    else firstEndTiming ts acc

/-- delay of the first-end action recorded by `_compile` for an original action; `none` = no end action
    (instantaneous, or fixed duration).  l. 482-492: `first_end_timing = _get_first_end_timing(action)`,
    defaulting to `EndTiming()` (delay 0). -/
def endDelay (a : ADecl) : Option Rat :=
  match a.kind with
  | .inst => none
  | .dur lo hi lopen ropen ts =>
    if variableDuration lo hi lopen ropen then
      match firstEndTiming ts none with
      | some d => some d
      | none => some 0
    else none

/-- timed action instance of the ORIGINAL problem `(start, action(params), duration)` -/
structure TA where
  t : Rat
  act : String
  ps : List PVal
  dur : Option Rat
  deriving DecidableEq, Repr, Inhabited

/-- a compiled action, named by its provenance -/
inductive CAct where
  | start (orig : String)
  | fend (orig : String)
  | other (name : String)      -- an action that is neither (only in adversarial `back` inputs)
  deriving DecidableEq, Repr, Inhabited

/-- timed action instance of the COMPILED problem (its duration is always `None`) -/
structure CA where
  t : Rat
  act : CAct
  ps : List PVal
  deriving DecidableEq, Repr, Inhabited

inductive Err where
  | key         -- KeyError: forward conversion of an action unknown to the compiler result
  | assertion   -- AssertionError
  | value       -- UPValueError: neither a start nor an end action
  | index       -- IndexError: end event with no started instance
  deriving DecidableEq, Repr, Inhabited

/-- one iteration of the loop of `_forward_plan_to_plan` (l. 1101-1118) -/
def forwardStep (P : Problem) (x : TA) : Except Err (List CA) :=
  match P.lookup x.act with
  | none => .error .key
  | some a =>
    match endDelay a with
    | none => .ok [⟨x.t, .start x.act, x.ps⟩]
    | some δ =>
      match x.dur with
      | none => .error .assertion
      | some d =>
        if 0 < d + δ ∧ d + δ ≤ d then
          .ok [⟨x.t, .start x.act, x.ps⟩, ⟨x.t + (d + δ), .fend x.act, x.ps⟩]
        else .error .assertion

/-- `_forward_plan_to_plan` -/
def forward (P : Problem) : List TA → Except Err (List CA)
  | [] => .ok []
  | x :: xs =>
    match forwardStep P x with
    | .error e => .error e
    | .ok h =>
      match forward P xs with
      | .error e => .error e
      | .ok r => .ok (h ++ r)

/-- stable insertion (before the first element that is not earlier) -/
def insertSorted (c : CA) : List CA → List CA
  | [] => [c]
  | y :: ys => if c.t ≤ y.t then c :: y :: ys else y :: insertSorted c ys

/-- stable sort by trigger time (Python `sorted(..., key=lambda x: x[0])`) -/
def sortByTime : List CA → List CA
  | [] => []
  | c :: cs => insertSorted c (sortByTime cs)

abbrev Key := String × List PVal
/-- `(start_trigger_time, duration)`; the action instance is determined by the group's key -/
abbrev Entry := Rat × Option Rat
/-- `new_actions`: insertion-ordered dict `(original_action, parameters) -> list of entries` -/
abbrev Groups := List (Key × List Entry)

/-- `new_actions[k].append(e)` -/
def appendTo (k : Key) (e : Entry) : Groups → Groups
  | [] => [(k, [e])]
  | (k', es) :: g => if k' = k then (k', es ++ [e]) :: g else (k', es) :: appendTo k e g

/-- l. 1069-1075: pop the last entry of `new_actions[k]`, check it is open, re-append it with the duration -/
def closeLast (k : Key) (te δ : Rat) : Groups → Except Err Groups
  | [] => .error .index
  | (k', es) :: g =>
    if k' = k then
      match es.getLast? with
      | none => .error .index
      | some (ts, dur) =>
        if dur.isSome then .error .assertion
        else if ¬ (ts ≤ te) then .error .assertion
        else if ¬ (δ ≤ 0) then .error .assertion
        else .ok ((k', es.dropLast ++ [(ts, some (te - ts - δ))]) :: g)
    else
      match closeLast k te δ g with
      | .error e => .error e
      | .ok g' => .ok ((k', es) :: g')

/-- one iteration of the first loop of `_back_plan_to_plan` (l. 1032-1075) -/
def backStep (P : Problem) (st : Groups) (c : CA) : Except Err Groups :=
  match c.act with
  | .start n =>
    match P.lookup n with
    | none => .error .value
    | some a =>
      match a.kind with
      | .inst => .ok (appendTo (n, c.ps) (c.t, none) st)
      | .dur lo hi lopen ropen _ =>
        if variableDuration lo hi lopen ropen then .ok (appendTo (n, c.ps) (c.t, none) st)
        else
          match evalD P.sfl c.ps lo with
          | none => .error .assertion
          | some d => .ok (appendTo (n, c.ps) (c.t, some d) st)
  | .fend n =>
    match P.lookup n with
    | none => .error .value
    | some a =>
      match endDelay a with
      | none => .error .value
      | some δ => closeLast (n, c.ps) c.t δ st
  | .other _ => .error .value

def backFold (P : Problem) (st : Groups) : List CA → Except Err Groups
  | [] => .ok st
  | c :: cs =>
    match backStep P st c with
    | .error e => .error e
    | .ok st' => backFold P st' cs

/-- l. 1078-1085 for the entries of one group -/
def finalizeEntries (isInst : Bool) (n : String) (ps : List PVal) : List Entry → Except Err (List TA)
  | [] => .ok []
  | (t, d) :: es =>
    if isInst == d.isSome then .error .assertion   -- instantaneous ⇒ no duration; durative ⇒ a duration
    else
      match finalizeEntries isInst n ps es with
      | .error e => .error e
      | .ok r => .ok (⟨t, n, ps, d⟩ :: r)

/-- second loop of `_back_plan_to_plan` (l. 1077-1087): `chain(*new_actions.values())` -/
def finalize (P : Problem) : Groups → Except Err (List TA)
  | [] => .ok []
  | ((n, ps), es) :: g =>
    match P.lookup n with
    | none => .error .value    -- unreachable: groups are only created for looked-up actions
    | some a =>
      match finalizeEntries a.kind.isInst n ps es with
      | .error e => .error e
      | .ok h =>
        match finalize P g with
        | .error e => .error e
        | .ok r => .ok (h ++ r)

/-- `_back_plan_to_plan` -/
def back (P : Problem) (cs : List CA) : Except Err (List TA) :=
  match backFold P [] (sortByTime cs) with
  | .error e => .error e
  | .ok st => finalize P st

end UPVerif.D2P
