import UPVerif.Core.Sexp
import UPVerif.Core.Expr
import UPVerif.Core.Problem
import UPVerif.Core.PddlNum
/-
Model of `PDDLWriter` (unified_planning/io/pddl_writer.py) on the classical / numeric fragment of
`Core/Problem.lean`: problem syntax ↦ the s-expression TREES of the written domain and problem (the text the
real writer produces, tokenised), laid out exactly as the writer lays them out (section order, requirement
flags, typed lists, flattening of top-level conjunctions, operand nesting of `+`/`*`, expansion of `iff`).

Taken as PARAMETERS (owned by other models; the harness supplies what the real code computed):
* `ρ : Ren`   the writer's renaming `_get_mangled_name` / `_get_pddl_name` (C38) as a finite map;
* `K : PKind` the features of `problem.kind` (C10) that the writer consults;
* expressions are fixed points of the simplifier (C11): every `simplify()` the writer performs is the
  identity on the case (the harness checks that on the real simplifier for every expression it sends).

`none` = the real writer raises (or the input is outside the modelled fragment).
Mirrors the code as repaired by notes/patches/C18-*.patch (skipped `true` goals, exact finite decimals).
-/
namespace UPVerif.Pddl
open UPVerif

/-- the items the writer renames (`otn_renamings` keys); parameters and variables are equal when name and
    type are equal, whatever action / quantifier they belong to -/
inductive NameKey where
  | problem
  | ty (n : String)
  | fluent (n : String)
  | obj (n : String)
  | action (n : String)
  | param (n : String) (ty : String)
  | var (n : String) (ty : String)
  deriving DecidableEq, Repr, Inhabited

/-- `get_pddl_name`; parameters and variables carry their leading `?` -/
abbrev Ren := NameKey → Option String

/-- `problem.kind.features` -/
structure PKind where
  feats : List String
  deriving Repr, Inhabited

def PKind.has (K : PKind) (f : String) : Bool := K.feats.contains f

def A (s : String) : Sexp := .atom s
def L (xs : List Sexp) : Sexp := .list xs

def tyName? : Ty → Option String
  | .user n => some n
  | _ => none

/-! ### expressions — `ConverterToPDDLString` (pddl_writer.py:163-307) -/

/-- `reduce(lambda x, y: f"({op} {y} {x})", args)` (walk_plus / walk_times) -/
def nestRev (op : String) : List Sexp → Option Sexp
  | [] => none
  | a :: rest => some (rest.foldl (fun acc y => L [A op, y, acc]) a)

/-- `?v - t` triples of a quantifier / forall-effect variable list -/
def printVars (ρ : Ren) : List Var → Option (List Sexp)
  | [] => some []
  | v :: vs => do
    let t ← tyName? v.ty
    let vn ← ρ (.var v.name t)
    let tn ← ρ (.ty t)
    let rest ← printVars ρ vs
    some (A vn :: A "-" :: A tn :: rest)

mutual
def printExpr (ρ : Ren) : Expr → Option Sexp
  | .leaf (.boolC _) => none                                  -- walk_bool_constant raises
  | .leaf (.intC z) => some (A (intStr z))                    -- walk_int_constant
  | .leaf (.realC r) => (decimalStr r).map A                  -- walk_real_constant (exact branch)
  | .leaf (.obj n _) => (ρ (.obj n)).map A                    -- walk_object_exp
  | .leaf (.param n ty) => (tyName? ty).bind (fun t => (ρ (.param n t)).map A)   -- walk_param_exp
  | .leaf (.var v) => (tyName? v.ty).bind (fun t => (ρ (.var v.name t)).map A)   -- walk_variable_exp
  | .leaf (.timing _) => none
  | .leaf (.present _) => none
  | .app .and as => if as.length > 1 then (printExprs ρ as).map (fun xs => L (A "and" :: xs)) else none
  | .app .or as => if as.length > 1 then (printExprs ρ as).map (fun xs => L (A "or" :: xs)) else none
  | .app .not [a] => (printExpr ρ a).map (fun x => L [A "not", x])
  | .app .implies [a, b] => do
    let x ← printExpr ρ a
    let y ← printExpr ρ b
    some (L [A "imply", x, y])
  | .app .iff [a, b] => do                                     -- walk_iff: (and (imply a b) (imply b a))
    let x ← printExpr ρ a
    let y ← printExpr ρ b
    some (L [A "and", L [A "imply", x, y], L [A "imply", y, x]])
  | .app (.fluent f) as => do                                  -- walk_fluent_exp
    let n ← ρ (.fluent f.name)
    let xs ← printExprs ρ as
    some (L (A n :: xs))
  | .app .plus as => if as.length > 1 then (printExprs ρ as).bind (nestRev "+") else none
  | .app .times as => if as.length > 1 then (printExprs ρ as).bind (nestRev "*") else none
  | .app .minus [a, b] => do
    let x ← printExpr ρ a
    let y ← printExpr ρ b
    some (L [A "-", x, y])
  | .app .div [a, b] => do
    let x ← printExpr ρ a
    let y ← printExpr ρ b
    some (L [A "/", x, y])
  | .app .le [a, b] => do
    let x ← printExpr ρ a
    let y ← printExpr ρ b
    some (L [A "<=", x, y])
  | .app .lt [a, b] => do
    let x ← printExpr ρ a
    let y ← printExpr ρ b
    some (L [A "<", x, y])
  | .app .eq [a, b] => do
    let x ← printExpr ρ a
    let y ← printExpr ρ b
    some (L [A "=", x, y])
  | .app _ _ => none                                           -- arity errors, dot, interpreted functions, trajectory operators
  | .quant q vs b => do                                        -- walk_exists / walk_forall
    let vl ← printVars ρ vs
    let x ← printExpr ρ b
    some (L [A (match q with | .ex => "exists" | .all => "forall"), L vl, x])
def printExprs (ρ : Ren) : List Expr → Option (List Sexp)
  | [] => some []
  | e :: es => do
    let x ← printExpr ρ e
    let xs ← printExprs ρ es
    some (x :: xs)
end

/-! ### effects — `_write_effect` (pddl_writer.py:1103) with `timing = None`, `rewrite_bool_assignments = False` -/

def fluentIsBool : Expr → Bool
  | .app (.fluent f) _ => f.ty == .bool
  | _ => false

/-- the zero or one trees written for an effect -/
def printEffect (ρ : Ren) (e : Effect) : Option (List Sexp) :=
  if fluentIsBool e.fluent && !(e.value.isTrue || e.value.isFalse) then none   -- non-constant Boolean assignment
  else if e.cond.isFalse then some []
  else do
    let f ← printExpr ρ e.fluent
    let inner ←
      if e.value.isTrue then some f
      else if e.value.isFalse then some (L [A "not", f])
      else do
        let v ← printExpr ρ e.value
        some (L [A (match e.kind with | .increase => "increase" | .decrease => "decrease" | .assign => "assign"), f, v])
    let w ←
      if e.cond.isTrue then some inner
      else do
        let c ← printExpr ρ e.cond
        some (L [A "when", c, inner])
    if e.forall_.isEmpty then some [w]
    else do
      let vl ← printVars ρ e.forall_
      some [L [A "forall", L vl, w]]

def printEffects (ρ : Ren) : List Effect → Option (List Sexp)
  | [] => some []
  | e :: es => do
    let x ← printEffect ρ e
    let xs ← printEffects ρ es
    some (x ++ xs)

/-! ### costs (`_write_domain`, pddl_writer.py:533-549) -/

/-- `costs[a]`: `none` = `a not in costs`; `some none` = the cost is `None` (the later `convert` raises) -/
def actionCost (P : Problem) (a : Action) : Option (Option Expr) :=
  match P.metrics with
  | [.minActionCosts costs dflt] => some (match costs.lookup a.name with | some c => some c | none => dflt)
  | [.minLength] => some (some (Expr.int 1))
  | _ => none

/-! ### actions -/

def printParams (ρ : Ren) : List (String × Ty) → Option (List Sexp)
  | [] => some []
  | (n, ty) :: ps => do
    let t ← tyName? ty
    let pn ← ρ (.param n t)
    let tn ← ρ (.ty t)
    let rest ← printParams ρ ps
    some (A pn :: A "-" :: A tn :: rest)

/-- conjuncts written for a list of (simplified) conditions: `true` dropped, top-level `and` flattened -/
def conjuncts : List Expr → List Expr
  | [] => []
  | p :: ps =>
    (if p.isTrue then [] else match p with
      | .app .and as => as
      | _ => [p]) ++ conjuncts ps

/-- `(:action …)`; `[]` when the action is skipped because a precondition is `false` -/
def printAction (ρ : Ren) (P : Problem) (a : Action) : Option (List Sexp) :=
  if a.pre.any Expr.isFalse then some []
  else do
    let name ← ρ (.action a.name)
    let ps ← printParams ρ a.params
    let pre ←
      if a.pre.isEmpty then some []
      else do
        let cs ← printExprs ρ (conjuncts a.pre)
        some [A ":precondition", L (A "and" :: cs)]
    let eff ←
      if a.effs.isEmpty then some []
      else do
        let es ← printEffects ρ a.effs
        let cost ← (match actionCost P a with
          | none => some []
          | some none => none
          | some (some c) => (printExpr ρ c).map (fun x => [L [A "increase", L [A "total-cost"], x]]))
        some [A ":effect", L (A "and" :: (es ++ cost))]
    some [L ([A ":action", A name, A ":parameters", L ps] ++ pre ++ eff)]

def printActions (ρ : Ren) (P : Problem) : List Action → Option (List Sexp)
  | [] => some []
  | a :: as => do
    let x ← printAction ρ P a
    let xs ← printActions ρ P as
    some (x ++ xs)

/-! ### requirements -/

def requirements (K : PKind) : List String :=
  let opt (b : Bool) (s : String) : List String := if b then [s] else []
  [":strips"]
  ++ opt (K.has "FLAT_TYPING") ":typing"
  ++ opt (K.has "NEGATIVE_CONDITIONS") ":negative-preconditions"
  ++ opt (K.has "DISJUNCTIVE_CONDITIONS") ":disjunctive-preconditions"
  ++ opt (K.has "EQUALITIES") ":equality"
  ++ opt (K.has "INT_FLUENTS" || K.has "REAL_FLUENTS" || K.has "FLUENTS_IN_ACTIONS_COST") ":numeric-fluents"
  ++ opt (K.has "CONDITIONAL_EFFECTS") ":conditional-effects"
  ++ opt (K.has "EXISTENTIAL_CONDITIONS") ":existential-preconditions"
  ++ opt (K.has "TRAJECTORY_CONSTRAINTS" || K.has "STATE_INVARIANTS") ":constraints"
  ++ opt (K.has "UNIVERSAL_CONDITIONS") ":universal-preconditions"
  ++ opt (K.has "CONTINUOUS_TIME" || K.has "DISCRETE_TIME") ":durative-actions"
  ++ opt (K.has "DURATION_INEQUALITIES") ":duration-inequalities"
  ++ opt (K.has "INCREASE_CONTINUOUS_EFFECTS" || K.has "DECREASE_CONTINUOUS_EFFECTS") ":continuous-effects"
  ++ opt (K.has "ACTIONS_COST" || K.has "PLAN_LENGTH") ":action-costs"

/-- features whose presence takes the problem out of the modelled fragment (temporal, hierarchical, …) -/
def unsupportedFeatures : List String :=
  ["INTERMEDIATE_CONDITIONS_AND_EFFECTS", "TIMED_GOALS", "TIMED_EFFECTS", "HIERARCHICAL", "METHOD_PRECONDITIONS",
   "PROCESSES", "EVENTS", "CONTINUOUS_TIME", "DISCRETE_TIME", "TRAJECTORY_CONSTRAINTS", "STATE_INVARIANTS"]

/-! ### types -/

/-- `user_types_hierarchy[f]`: direct sons in declaration order -/
def sonsOf (E : TypeEnv) (f : Option String) : List String :=
  (E.fathers.filter (fun p => p.2 == f)).map (·.1)

def renTypes (ρ : Ren) : List String → Option (List Sexp)
  | [] => some []
  | t :: ts => do
    let n ← ρ (.ty t)
    let rest ← renTypes ρ ts
    some (A n :: rest)

/-- the `while stack:` loop of the hierarchical `:types` section (pddl_writer.py:458); the fuel counts pops -/
def typeLines (ρ : Ren) (E : TypeEnv) : Nat → List String → Option (List Sexp)
  | _, [] => some []
  | 0, _ :: _ => none
  | fuel + 1, s :: ss =>
    let stack := s :: ss
    let cur := stack.getLast (by simp [stack])
    let rest := stack.dropLast
    let sons := sonsOf E (some cur)
    if sons.isEmpty then typeLines ρ E fuel rest
    else do
      let names ← renTypes ρ sons
      let c ← ρ (.ty cur)
      let tail ← typeLines ρ E fuel (rest ++ sons)
      some (names ++ [A "-", A c] ++ tail)

def printTypes (ρ : Ren) (K : PKind) (E : TypeEnv) : Option (List Sexp) :=
  if K.has "HIERARCHICAL_TYPING" then do
    let roots := sonsOf E none
    let rn ← renTypes ρ roots
    let rest ← typeLines ρ E (E.fathers.length + 1) roots
    some [L (A ":types" :: (rn ++ [A "-", A "object"] ++ rest))]
  else do
    let names ← renTypes ρ (E.fathers.map (·.1))
    let names := names.filter (fun x => x != A "object")
    some (if names.isEmpty then [] else [L (A ":types" :: names)])

/-! ### constants — `problem.domain_constants` (model/problem.py:775) -/

mutual
def objsOf : Expr → List String
  | .leaf (.obj n _) => [n]
  | .leaf _ => []
  | .app _ as => objsOfList as
  | .quant _ _ b => objsOf b
def objsOfList : List Expr → List String
  | [] => []
  | e :: es => objsOf e ++ objsOfList es
end

def effectObjs (e : Effect) : List String := objsOf e.fluent ++ objsOf e.value ++ objsOf e.cond

def metricObjs : Metric → List String
  | .minActionCosts costs _ => costs.flatMap (fun c => objsOf c.2)
  | .minLength => []
  | .minFinal e => objsOf e
  | .maxFinal e => objsOf e
  | .oversub gs => gs.flatMap (fun g => objsOf g.1)

/-- names of the objects used as constants; the Python value is a `set` (its iteration order is hash order —
    the model lists them in the problem's object order, the harness sorts both sides) -/
def domainConstants (P : Problem) : List String :=
  let used := P.actions.flatMap (fun a => objsOfList a.pre ++ a.effs.flatMap effectObjs)
              ++ P.metrics.flatMap metricObjs
  (P.objects.filter (fun o => used.contains o.1)).map (·.1)

def printTypedObjs (ρ : Ren) : List (String × String) → Option (List Sexp)
  | [] => some []
  | (o, t) :: os => do
    let on ← ρ (.obj o)
    let tn ← ρ (.ty t)
    let rest ← printTypedObjs ρ os
    some (A on :: A "-" :: A tn :: rest)

/-! ### predicates and functions -/

/-- `?a0 - t0 ?a1 - t1 …` (the harness names signature parameters `a<i>`) -/
def printSig (ρ : Ren) : Nat → List Ty → Option (List Sexp)
  | _, [] => some []
  | i, ty :: tys => do
    let t ← tyName? ty
    let pn ← ρ (.param ("a" ++ toString i) t)
    let tn ← ρ (.ty t)
    let rest ← printSig ρ (i + 1) tys
    some (A pn :: A "-" :: A tn :: rest)

def printFluentDecl (ρ : Ren) (f : FluentRef) : Option Sexp := do
  let n ← ρ (.fluent f.name)
  let sg ← printSig ρ 0 f.sig
  some (L (A n :: sg))

def isNumTy : Ty → Bool
  | .int _ _ => true
  | .real _ _ => true
  | _ => false

/-- (predicates, functions); `none` for a fluent that is neither Boolean nor numeric -/
def printFluents (ρ : Ren) : List FluentDecl → Option (List Sexp × List Sexp)
  | [] => some ([], [])
  | fd :: fds => do
    let (ps, fs) ← printFluents ρ fds
    let d ← printFluentDecl ρ fd.ref
    if fd.ref.ty == .bool then some (d :: ps, fs)
    else if isNumTy fd.ref.ty then some (ps, d :: fs)
    else none

def hasCosts (K : PKind) : Bool := K.has "ACTIONS_COST" || K.has "PLAN_LENGTH"

/-! ### the domain — `_write_domain` (pddl_writer.py:370) -/

def printDomain (ρ : Ren) (K : PKind) (P : Problem) : Option Sexp :=
  if unsupportedFeatures.any K.has || P.metrics.length > 1 || !P.traj.isEmpty then none
  else do
    let name ← ρ .problem
    let types ← printTypes ρ K P.types
    let consts := domainConstants P
    let cs ← printTypedObjs ρ (P.objects.filter (fun o => consts.contains o.1))
    let (preds, funs) ← printFluents ρ P.fluents
    let funs := if hasCosts K then funs ++ [L [A "total-cost"]] else funs
    let acts ← printActions ρ P P.actions
    some (L ([A "define", L [A "domain", A (name ++ "-domain")], L (A ":requirements" :: (requirements K).map A)]
      ++ types
      ++ (if cs.isEmpty then [] else [L (A ":constants" :: cs)])
      ++ (if preds.isEmpty then [] else [L (A ":predicates" :: preds)])
      ++ (if funs.isEmpty then [] else [L (A ":functions" :: funs)])
      ++ acts))

/-! ### the problem — `_write_problem` (pddl_writer.py:742) -/

/-- `get_all_fluent_exp`: all argument tuples, first parameter varying fastest -/
def groundArgs (P : Problem) : List Ty → Option (List (List Expr))
  | [] => some [[]]
  | ty :: tys => do
    let t ← tyName? ty
    let rest ← groundArgs P tys
    let dom := (P.objects.filter (fun o => P.types.isSubtype o.2 t)).map (fun o => Expr.leaf (.obj o.1 o.2))
    some (rest.flatMap (fun r => dom.map (fun x => x :: r)))

def groundFluents (P : Problem) : List FluentDecl → Option (List (Expr × Option Expr))
  | [] => some []
  | fd :: fds => do
    let args ← groundArgs P fd.ref.sig
    let rest ← groundFluents P fds
    some (args.map (fun as => (Expr.app (.fluent fd.ref) as, fd.default)) ++ rest)

/-- `problem.initial_values` (model/mixins/initial_state.py:94): the explicit values in insertion order, then
    every other ground fluent that has a default, in fluent / grounding order -/
def initialValues (P : Problem) : Option (List (Expr × Expr)) := do
  let all ← groundFluents P P.fluents
  some (P.init ++ all.filterMap (fun fd =>
    if P.init.any (fun p => p.1 == fd.1) then none else fd.2.map (fun d => (fd.1, d))))

def printInit (ρ : Ren) : List (Expr × Expr) → Option (List Sexp)
  | [] => some []
  | (f, v) :: r => do
    let rest ← printInit ρ r
    if v.isTrue then do
      let x ← printExpr ρ f
      some (x :: rest)
    else if v.isFalse then some rest
    else do
      let x ← printExpr ρ f
      let y ← printExpr ρ v
      some (L [A "=", x, y] :: rest)

/-- per declared type, the objects of exactly that type that are not domain constants -/
def printObjects (ρ : Ren) (P : Problem) (consts : List String) : List String → Option (List Sexp)
  | [] => some []
  | t :: ts => do
    let rest ← printObjects ρ P consts ts
    let os := P.objects.filter (fun o => o.2 == t && !consts.contains o.1)
    if os.isEmpty then some rest
    else do
      let names ← os.mapM (fun o => (ρ (.obj o.1)).map A)
      let tn ← ρ (.ty t)
      some (names ++ [A "-", A tn] ++ rest)

/-- goals: simplified conjuncts, `true` skipped (repaired), top-level `and` flattened -/
def printGoals (ρ : Ren) (gs : List Expr) : Option (List Sexp) := printExprs ρ (conjuncts gs)

def printMetric (ρ : Ren) : List Metric → Option (List Sexp)
  | [] => some []
  | [.minFinal e] => (printExpr ρ e).map (fun x => [L [A ":metric", A "minimize", x]])
  | [.maxFinal e] => (printExpr ρ e).map (fun x => [L [A ":metric", A "maximize", x]])
  | [.minActionCosts _ _] => some [L [A ":metric", A "minimize", L [A "total-cost"]]]
  | [.minLength] => some [L [A ":metric", A "minimize", L [A "total-cost"]]]
  | _ => none

def printProblem (ρ : Ren) (K : PKind) (P : Problem) : Option Sexp :=
  if unsupportedFeatures.any K.has || P.metrics.length > 1 || !P.traj.isEmpty then none
  else do
    let name ← ρ .problem
    let consts := domainConstants P
    let tys := P.types.fathers.map (·.1)
    let objs ← printObjects ρ P consts tys
    let iv ← initialValues P
    let init ← printInit ρ iv
    let init := if hasCosts K then init ++ [L [A "=", L [A "total-cost"], A "0"]] else init
    let goals ← printGoals ρ P.goals
    let metric ← printMetric ρ P.metrics
    some (L ([A "define", L [A "problem", A (name ++ "-problem")], L [A ":domain", A (name ++ "-domain")]]
      ++ (if tys.isEmpty then [] else [L (A ":objects" :: objs)])
      ++ [L (A ":init" :: init), L [A ":goal", L (A "and" :: goals)]]
      ++ metric))

/-! ### plans — `_write_plan` (pddl_writer.py:857), sequential plans: one `(action obj…)` tree per line -/

def printPlanStep (ρ : Ren) (step : String × List String) : Option Sexp := do
  let a ← ρ (.action step.1)
  let os ← step.2.mapM (fun o => (ρ (.obj o)).map A)
  some (L (A a :: os))

def printPlan (ρ : Ren) (plan : List (String × List String)) : Option (List Sexp) := plan.mapM (printPlanStep ρ)

end UPVerif.Pddl
