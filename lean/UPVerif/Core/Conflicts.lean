/-
Model of the effect-conflict bookkeeping of unified-planning:

* `unified_planning/model/effect.py`      `check_conflicting_effects` (l.385), `check_conflicting_simulated_effects` (l.472)
* `unified_planning/model/transition.py`  `UntimedEffectMixin._add_effect_instance` (l.377), `set_simulated_effect` (l.396)
                                           (InstantaneousAction, Event)
* `unified_planning/model/mixins/timed_conds_effs.py` `_add_effect_instance` (l.347), `set_simulated_effect` (l.377)
                                           (DurativeAction: one bookkeeping slot per Timing)
* `unified_planning/model/problem.py`     `_add_effect_instance` (l.610) (timed effects: one slot per Timing, never a
                                           simulated effect)

The Python functions MUTATE the two bookkeeping containers while they check, and signal a conflict
by raising.  To make "a rejected insertion leaves everything unchanged" a statement that can fail,
the model is mutation-faithful: every function returns the containers AS THE CALL LEFT THEM together
with a flag "raised", also on the raising paths; histories continue from whatever a raising call left.

Fluent expressions, non-constant value expressions and conditions are hash-consed `FNode`s compared
by identity (property C16), so they are modelled as opaque names.
-/
namespace UPVerif.Conflicts

/-- the value expression of an effect, as far as the conflict check looks at it -/
inductive Val where
  | bool (b : Bool)
  | int (z : Int)
  | real (q : Rat)
  | obj (name : String)
  | sym (id : String)      -- any non-constant expression (identified by its node)
  deriving DecidableEq, Repr

/-- `FNode.is_constant()` (fnode.py:169) -/
def Val.isConstant : Val → Bool
  | .sym _ => false
  | _ => true

/-- numeric reading of a Python payload: `bool` is a subclass of `int`, `int == Fraction` is numeric -/
def Val.num? : Val → Option Rat
  | .bool b => some (if b then 1 else 0)
  | .int z => some (z : Rat)
  | .real q => some q
  | _ => none

/-- Python `a.constant_value() == b.constant_value()` for two constants -/
def payloadEq : Val → Val → Bool
  | .obj a, .obj b => a == b
  | a, b =>
    match a.num?, b.num? with
    | some x, some y => x == y
    | _, _ => false

/-- negation of the test in effect.py:434-438:
    `assigned_value != effect.value and not (both constant and constant_value() equal)` -/
def sameValue (stored new : Val) : Bool :=
  stored == new || (stored.isConstant && new.isConstant && payloadEq stored new)

inductive EKind where
  | assign | inc | dec
  deriving DecidableEq, Repr

/-- an `Effect` object (effect.py:63) -/
structure Eff where
  fluent : String          -- `effect.fluent` (an FNode)
  boolTyped : Bool         -- `effect.fluent.type.is_bool_type()`
  kind : EKind
  value : Val
  cond : Option String     -- `none` = condition is the constant TRUE (`not effect.is_conditional()`)
  deriving DecidableEq, Repr

/-- the two containers handed to the check functions -/
structure Book where
  assigned : List (String × Val)   -- dict `fluents_assigned`, in insertion order
  incDec : List String             -- set `fluents_inc_dec`
  deriving DecidableEq, Repr

def Book.empty : Book := ⟨[], []⟩

/-- `f in simulated_effect.fluents` guarded by `simulated_effect is not None` -/
def simHas (sim : Option (List String)) (f : String) : Bool :=
  match sim with
  | some fl => fl.contains f
  | none => false

/-- `set.add` -/
def setAdd (l : List String) (f : String) : List String :=
  if l.contains f then l else l ++ [f]

/-- `check_conflicting_effects` (effect.py:385) in the REPAIRED order (patch C24-incdec-residue):
    returns the containers as the call left them and whether it raised. -/
def checkConflictingEffects (e : Eff) (sim : Option (List String)) (bk : Book) : Book × Bool :=
  let assignedValue := bk.assigned.lookup e.fluent
  if e.cond.isNone && !e.boolTyped then
    match e.kind with
    | .assign =>
      if bk.incDec.contains e.fluent then (bk, true)
      else if simHas sim e.fluent then (bk, true)
      else match assignedValue with
        | some v => if !(sameValue v e.value) then (bk, true) else (bk, false)
        | none => ({ bk with assigned := bk.assigned ++ [(e.fluent, e.value)] }, false)
    | _ =>   -- increase / decrease
      if (bk.assigned.lookup e.fluent).isSome then (bk, true)
      else if simHas sim e.fluent then (bk, true)
      else ({ bk with incDec := setAdd bk.incDec e.fluent }, false)
  else (bk, false)

/-- the same function as found before the patch: the fluent is recorded as increased BEFORE the
    simulated-effect test may raise (effect.py:458 of the unpatched tree).  Kept only for the
    refutation `C24.asFound_leaves_residue`. -/
def checkConflictingEffectsAsFound (e : Eff) (sim : Option (List String)) (bk : Book) : Book × Bool :=
  let assignedValue := bk.assigned.lookup e.fluent
  if e.cond.isNone && !e.boolTyped then
    match e.kind with
    | .assign =>
      if bk.incDec.contains e.fluent then (bk, true)
      else if simHas sim e.fluent then (bk, true)
      else match assignedValue with
        | some v => if !(sameValue v e.value) then (bk, true) else (bk, false)
        | none => ({ bk with assigned := bk.assigned ++ [(e.fluent, e.value)] }, false)
    | _ =>
      if (bk.assigned.lookup e.fluent).isSome then (bk, true)
      else
        let bk' := { bk with incDec := setAdd bk.incDec e.fluent }
        if simHas sim e.fluent then (bk', true) else (bk', false)
  else (bk, false)

/-- `check_conflicting_simulated_effects` (effect.py:472): raises iff some fluent of the simulated
    effect is increased/decreased or assigned; never mutates. -/
def checkConflictingSimulated (fl : List String) (bk : Book) : Bool :=
  fl.any (fun f => bk.incDec.contains f || (bk.assigned.lookup f).isSome)

/-- everything stored for ONE time point (an instantaneous action / event has exactly one) -/
structure Slot where
  effects : List Eff               -- `_effects` / `_effects[timing]` / `_timed_effects[timing]`
  sim : Option (List String)       -- fluents of `_simulated_effect` / `_simulated_effects.get(timing)`
  book : Book
  deriving DecidableEq, Repr

def Slot.empty : Slot := ⟨[], none, Book.empty⟩

/-- `_add_effect_instance` (transition.py:377, timed_conds_effs.py:347, problem.py:610):
    check (mutating the bookkeeping), and only if it did not raise append the effect. -/
def Slot.addEffectInstance (s : Slot) (e : Eff) : Slot × Bool :=
  let (bk, raised) := checkConflictingEffects e s.sim s.book
  if raised then ({ s with book := bk }, true)
  else ({ s with book := bk, effects := s.effects ++ [e] }, false)

/-- `set_simulated_effect` (transition.py:396, timed_conds_effs.py:377): check, then REPLACE the
    simulated effect of this time point. -/
def Slot.setSimulatedEffect (s : Slot) (fl : List String) : Slot × Bool :=
  if checkConflictingSimulated fl s.book then (s, true)
  else ({ s with sim := some fl }, false)

/-- one insertion attempt -/
inductive Op where
  | eff (e : Eff)
  | sim (fl : List String)
  deriving DecidableEq, Repr

def Slot.step (s : Slot) : Op → Slot × Bool
  | .eff e => s.addEffectInstance e
  | .sim fl => s.setSimulatedEffect fl

/-- a history of insertion attempts whose caller catches the exception and goes on: final content
    and the raise pattern.  It continues from whatever state a raising call left. -/
def Slot.run (s : Slot) : List Op → Slot × List Bool
  | [] => (s, [])
  | op :: l =>
    let r := s.step op
    let rest := r.1.run l
    (rest.1, r.2 :: rest.2)

/-- "adding the collection raises a conflicting-effects error" -/
def Slot.raises (s : Slot) (l : List Op) : Bool := (s.run l).2.any id

/-- the insertion attempts of `l` that were accepted, in order -/
def accepted : List Op → List Bool → List Op
  | op :: l, r :: rs => if r then accepted l rs else op :: accepted l rs
  | _, _ => []

/-! ### several time points (DurativeAction, Problem timed effects) -/

/-- the dictionaries keyed by `Timing`; a missing key reads as the empty slot (`setdefault`/`get`) -/
abbrev Store := String → Slot

def Store.empty : Store := fun _ => Slot.empty

def Store.step (st : Store) (x : String × Op) : Store × Bool :=
  let r := (st x.1).step x.2
  (fun u => if u = x.1 then r.1 else st u, r.2)

def Store.run (st : Store) : List (String × Op) → Store × List Bool
  | [] => (st, [])
  | x :: l =>
    let r := st.step x
    let rest := Store.run r.1 l
    (rest.1, r.2 :: rest.2)

def Store.raises (st : Store) (l : List (String × Op)) : Bool := (st.run l).2.any id

/-- the insertion attempts of a multi-timing history made at time point `t` -/
def atTiming (t : String) (l : List (String × Op)) : List Op :=
  (l.filter (fun x => x.1 == t)).map (·.2)

/-! ### what "in conflict" means (specification side of the characterisation theorem) -/

/-- the part of an insertion the bookkeeping reacts to -/
inductive View where
  | skip                          -- conditional effect, or effect on a Boolean fluent
  | asg (f : String) (v : Val)    -- unconditional assignment to a non-Boolean fluent
  | idc (f : String)              -- unconditional increase / decrease
  | sim (fl : List String)
  deriving DecidableEq, Repr

def Op.view : Op → View
  | .sim fl => .sim fl
  | .eff e =>
    if e.cond.isNone && !e.boolTyped then
      match e.kind with
      | .assign => .asg e.fluent e.value
      | _ => .idc e.fluent
    else .skip

/-- two insertions at one time point are compatible (symmetric by definition of the cases) -/
def View.compat : View → View → Bool
  | .skip, _ => true
  | _, .skip => true
  | .asg f v, .asg g w => f != g || sameValue v w
  | .asg f _, .idc g => f != g
  | .idc f, .asg g _ => f != g
  | .idc _, .idc _ => true
  | .sim fl, .asg f _ => !fl.contains f
  | .sim fl, .idc f => !fl.contains f
  | .asg f _, .sim fl => !fl.contains f
  | .idc f, .sim fl => !fl.contains f
  | .sim _, .sim _ => true

def Op.compat (a b : Op) : Bool := a.view.compat b.view

/-- an insertion is compatible with what a slot already holds -/
def Slot.admits (s : Slot) (op : Op) : Bool :=
  match op.view with
  | .skip => true
  | .asg f v =>
    !s.book.incDec.contains f && !simHas s.sim f &&
      (match s.book.assigned.lookup f with
       | some u => sameValue u v
       | none => true)
  | .idc f => !(s.book.assigned.lookup f).isSome && !simHas s.sim f
  | .sim fl => !fl.any (fun f => s.book.incDec.contains f || (s.book.assigned.lookup f).isSome)

def Op.isSim : Op → Bool
  | .sim _ => true
  | _ => false

/-- number of simulated effects in play: the one already set plus those in the collection.
    `set_simulated_effect` REPLACES, so order independence is only intended when this is ≤ 1. -/
def simLoad (s : Slot) (l : List Op) : Nat :=
  (if s.sim.isSome then 1 else 0) + l.countP Op.isSim

end UPVerif.Conflicts
