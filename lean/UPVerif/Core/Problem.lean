import UPVerif.Core.Expr
import UPVerif.Core.ExprSexp
/-
Problem syntax: the part of `unified_planning.model.Problem` shared by the simulator, validators,
compilers, kind computation and model-building properties (classical / numeric fragment with
instantaneous actions).  Temporal extensions (durative actions, timed effects/goals) live in
`Core/Temporal.lean`.

Field order and list order follow the Python containers (lists / insertion-ordered dicts),
because several modelled algorithms fold over them in that order.
-/
namespace UPVerif

inductive EffKind where
  | assign | increase | decrease
  deriving DecidableEq, Repr, Inhabited

/-- `unified_planning.model.Effect`: `fluent` is a FLUENT_EXP node, `cond` is TRUE when the effect
    is unconditional, `forall_` the variables of a forall-effect -/
structure Effect where
  fluent : Expr
  value : Expr
  cond : Expr
  kind : EffKind
  forall_ : List Var
  deriving Repr, Inhabited

instance : DecidableEq Effect := fun a b =>
  if h : a.fluent = b.fluent ∧ a.value = b.value ∧ a.cond = b.cond ∧ a.kind = b.kind ∧ a.forall_ = b.forall_ then
    isTrue (by cases a; cases b; simp_all)
  else isFalse (by intro e; subst e; simp at h)

def Effect.isConditional (e : Effect) : Bool := !e.cond.isTrue

/-- `InstantaneousAction` -/
structure Action where
  name : String
  params : List (String × Ty)
  pre : List Expr
  effs : List Effect
  deriving Repr, Inhabited

structure FluentDecl where
  ref : FluentRef
  /-- `default_initial_value` (a constant expression) -/
  default : Option Expr
  deriving Repr, Inhabited

inductive Metric where
  /-- `MinimizeActionCosts(costs, default)` — actions missing from `costs` take `default` -/
  | minActionCosts (costs : List (String × Expr)) (default : Option Expr)
  | minLength
  | minFinal (e : Expr)
  | maxFinal (e : Expr)
  /-- `Oversubscription(goals)` with rational weights -/
  | oversub (goals : List (Expr × Rat))
  deriving Repr, Inhabited

structure Problem where
  name : String
  types : TypeEnv
  /-- objects in declaration order: (name, user type) -/
  objects : List (String × String)
  fluents : List FluentDecl
  /-- explicit initial values: ground fluent expression ↦ constant -/
  init : List (Expr × Expr)
  actions : List Action
  goals : List Expr
  /-- trajectory constraints (state invariants are the `Always` ones) -/
  traj : List Expr
  metrics : List Metric
  deriving Repr, Inhabited

namespace Problem

/-- `problem.objects(t)`: objects whose type is `t` or a descendant of `t`, in declaration order -/
def objectsOf (P : Problem) (t : String) : List String :=
  (P.objects.filter (fun o => P.types.isSubtype o.2 t)).map (·.1)

def action? (P : Problem) (n : String) : Option Action := P.actions.find? (fun a => a.name == n)

/-- `problem.state_invariants`: bodies of the `Always` trajectory constraints -/
def stateInvariants (P : Problem) : List Expr :=
  P.traj.filterMap (fun e => match e with
    | .app .always [b] => some b
    | _ => none)

end Problem

/-! ### wire format

```
(problem name (types (T _) (S T) …) (objects (o T) …) (fluents ((name type (sig…)) default|_) …)
  (init (fluent-exp const) …)
  (actions (action name ((p type) …) (pre e…) (effs (eff assign|increase|decrease fluent-exp value cond ((v type)…)) …)) …)
  (goals e…) (traj e…) (metrics m…))
m ::= (min-action-costs ((action e)…) default|_) | (min-length) | (min-final e) | (max-final e) | (oversub ((e w)…))
```
-/
open Sexp

def parseEffect : Sexp → Option Effect
  | .list [.atom "eff", .atom k, f, v, c, .list vs] => do
    let kind ← (match k with
      | "assign" => some EffKind.assign | "increase" => some .increase | "decrease" => some .decrease
      | _ => none)
    let fe ← parseExpr f
    let ve ← parseExpr v
    let ce ← parseExpr c
    let vars ← vs.mapM parseVar
    some { fluent := fe, value := ve, cond := ce, kind := kind, forall_ := vars }
  | _ => none

def parseAction : Sexp → Option Action
  | .list [.atom "action", .atom n, .list ps, .list (.atom "pre" :: pre), .list (.atom "effs" :: effs)] => do
    let params ← ps.mapM (fun p => match p with
      | .list [.atom pn, t] => (parseTy t).map (fun ty => (pn, ty))
      | _ => none)
    let pre' ← pre.mapM parseExpr
    let effs' ← effs.mapM parseEffect
    some { name := n, params := params, pre := pre', effs := effs' }
  | _ => none

def parseMetric : Sexp → Option Metric
  | .list [.atom "min-action-costs", .list cs, d] => do
    let costs ← cs.mapM (fun c => match c with
      | .list [.atom a, e] => (parseExpr e).map (fun x => (a, x))
      | _ => none)
    let dflt ← (match d with
      | .atom "_" => some none
      | e => (parseExpr e).map some)
    some (.minActionCosts costs dflt)
  | .list [.atom "min-length"] => some .minLength
  | .list [.atom "min-final", e] => (parseExpr e).map .minFinal
  | .list [.atom "max-final", e] => (parseExpr e).map .maxFinal
  | .list [.atom "oversub", .list gs] => do
    let goals ← gs.mapM (fun g => match g with
      | .list [e, .atom w] => do
        let x ← parseExpr e
        let q ← parseRat w
        some (x, q)
      | _ => none)
    some (.oversub goals)
  | _ => none

def parseProblem : Sexp → Option Problem
  | .list [.atom "problem", .atom name, tys, .list (.atom "objects" :: objs),
           .list (.atom "fluents" :: fls), .list (.atom "init" :: inits),
           .list (.atom "actions" :: acts), .list (.atom "goals" :: goals),
           .list (.atom "traj" :: traj), .list (.atom "metrics" :: ms)] => do
    let types ← parseTypeEnv tys
    let objects ← objs.mapM (fun o => match o with
      | .list [.atom n, .atom t] => some (n, t)
      | _ => none)
    let fluents ← fls.mapM (fun f => match f with
      | .list [r, d] => do
        let (n, ty, sig) ← parseRef r
        let dflt ← (match d with
          | .atom "_" => some none
          | e => (parseExpr e).map some)
        some ({ ref := { name := n, ty := ty, sig := sig }, default := dflt } : FluentDecl)
      | _ => none)
    let init ← inits.mapM (fun i => match i with
      | .list [f, v] => do
        let fe ← parseExpr f
        let ve ← parseExpr v
        some (fe, ve)
      | _ => none)
    let actions ← acts.mapM parseAction
    let goals' ← goals.mapM parseExpr
    let traj' ← traj.mapM parseExpr
    let metrics ← ms.mapM parseMetric
    some { name := name, types := types, objects := objects, fluents := fluents, init := init,
           actions := actions, goals := goals', traj := traj', metrics := metrics }
  | _ => none

def effectToSexp (e : Effect) : Sexp :=
  .list [.atom "eff", .atom (match e.kind with | .assign => "assign" | .increase => "increase" | .decrease => "decrease"),
         exprToSexp e.fluent, exprToSexp e.value, exprToSexp e.cond, .list (e.forall_.map varToSexp)]

def actionToSexp (a : Action) : Sexp :=
  .list [.atom "action", .atom a.name, .list (a.params.map (fun p => .list [.atom p.1, tyToSexp p.2])),
         .list (.atom "pre" :: a.pre.map exprToSexp), .list (.atom "effs" :: a.effs.map effectToSexp)]

end UPVerif
