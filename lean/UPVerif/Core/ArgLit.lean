import UPVerif.Core.Expr
/-
Spelling of the constants that can be actual parameters of Boolean / integer / real ACTION parameters
(`Core/Sim.lean` `argExpr`, `paramDomain`).  An action instance is carried as the action and the list of
the STRINGS that spell its actual parameters (`ActionInstance.actual_parameters` are constant FNodes):

  Boolean   `true` | `false`
  integer   Python `str(int)`: optional `-`, decimal digits
  real      an integer spelling (Python `int`, promoted to an `Int` constant by `auto_promote`), or
            `n/d` (a `Fraction`, promoted to a `Real` constant; `d` may be `1`)

Everything works on `List Char` (`String.toList` of a literal reduces in the kernel, `String.toInt?`
does not), so instances with numeric arguments can be evaluated by `decide +kernel`.
-/
namespace UPVerif.ArgLit

/-- `str(n)` for a natural number -/
def natStr (n : Nat) : List Char := Nat.toDigits 10 n

/-- `str(z)` -/
def intChars : Int → List Char
  | .ofNat n => natStr n
  | .negSucc n => '-' :: natStr (n + 1)

/-- `str(z)` as a string -/
def intStr (z : Int) : String := String.ofList (intChars z)

/-- `int(s)` on a plain run of decimal digits -/
def parseNat (cs : List Char) : Option Nat :=
  if cs ≠ [] ∧ cs.all Char.isDigit = true then some (Nat.ofDigitChars 10 cs 0) else none

/-- `int(s)`: optional leading `-`, then digits -/
def parseInt : List Char → Option Int
  | [] => none
  | c :: cs =>
    if c = '-' then (parseNat cs).map (fun n => - (n : Int))
    else (parseNat (c :: cs)).map (fun n => (n : Int))

/-- split at the first `/` -/
def splitSlash : List Char → List Char × Option (List Char)
  | [] => ([], none)
  | c :: rest =>
    if c = '/' then ([], some rest)
    else let (a, b) := splitSlash rest; (c :: a, b)

/-- a numeric constant: `.i z` for an integer spelling, `.q (n/d)` for `n/d` with `d ≠ 0` -/
def parseNum (cs : List Char) : Option Num :=
  match splitSlash cs with
  | (a, none) => (parseInt a).map Num.i
  | (a, some b) =>
    match parseInt a, parseNat b with
    | some z, some d => if d = 0 then none else some (.q ((z : Rat) / (d : Rat)))
    | _, _ => none

/-- `"n/d"` for a `Fraction` (the denominator is always written) -/
def fracStr (r : Rat) : String := String.ofList (intChars r.num ++ '/' :: natStr r.den)

end UPVerif.ArgLit
