import UPVerif.Core.STN
/-!
# Executable model of the time-triggered ↔ STN plan conversions

Mirrors, function by function and in the same order of operations,

* `unified_planning/plans/time_triggered_plan.py`: `TimeTriggeredPlan.extract_epsilon` (:192),
  `_absolute_time` (:230), `_convert_to_stn` (:248), `_extract_action_timings` (:464),
  `_extract_instantenous_actions` (:492, only the timings: the contents of the event actions reach
  the result through the deordering alone);
* `unified_planning/plans/stn_plan.py`: `flatten_dict_structure` (:93), `STNPlan.__init__` (:122, the
  sequence of insertions into the `DeltaSimpleTemporalNetwork`), `is_consistent` (:471),
  `get_constraints` (:315), `_convert_to_time_triggered` (:478).

`DeltaSimpleTemporalNetwork` itself is C25's model (`Core/STN.lean`).

What is NOT modelled and enters as an input (`Input.adj`): the ordering edges that
`SequentialPlan.convert_to(PARTIAL_ORDER_PLAN)` (deordering, property C27) followed by
`networkx.transitive_reduction` (trusted) compute for the event sequence.  They are given as positions
in the event sequence (`seqEvents`), in the order of `PartialOrderPlan.get_adjacency_list`.

Identity of Python objects: an `ActionInstance` compares by identity, so the instance of plan entry
`i` is modelled by the number `i`; the mock-up instance (timed effects and goals of the problem) by
`none`.  Python `dict`s are insertion-ordered association lists (`STN.lookup` / `STN.assign`), Python
`set`s of `Fraction`s are duplicate-free lists in insertion order (their iteration order is never
observable here: the event times of one action are pairwise different and the events are sorted by
time before use).  Times are `Rat` (`Fraction`).

Imports nothing outside core Lean.
-/
namespace UPVerif.PlanConv
open UPVerif.STN

/-! ## syntax -/

/-- `STNPlanNode(kind, action_instance)` (stn_plan.py:41) -/
inductive Node where
  | startPlan                 -- (GLOBAL_START, None)
  | endPlan                   -- (GLOBAL_END, None)
  | start (i : Nat)           -- (START, instance of plan entry i)
  | finish (i : Nat)          -- (END, instance of plan entry i)
  deriving DecidableEq, Repr

/-- `Timing(delay, Timepoint(START|END))` relative to an action (for the mock-up: GLOBAL_START/END) -/
structure Timing where
  fromStart : Bool
  delay : Rat
  deriving DecidableEq, Repr

/-- `TimeInterval(lower, upper, is_left_open, is_right_open)` -/
structure Interval where
  lower : Timing
  upper : Timing
  lopen : Bool
  ropen : Bool
  deriving Repr

/-- what the conversion reads of a `DurativeAction`: the keys of `action.effects` /
`action.simulated_effects` and the keys of `action.conditions` -/
structure Shape where
  effs : List Timing
  conds : List Interval
  deriving Repr

/-- one `(start, action_instance, duration)` of `TimeTriggeredPlan.timed_actions`; `dur = none` is an
`InstantaneousAction` (duration `None`), otherwise the duration and the action's shape -/
structure Entry where
  start : Rat
  dur : Option (Rat × Shape)
  deriving Repr

structure Input where
  /-- `problem.epsilon` -/
  eps : Option Rat
  /-- `problem.timed_effects` / `problem.timed_goals` as the mock-up action built at
  time_triggered_plan.py:279-302 sees them -/
  mock : Shape
  plan : List Entry
  /-- `partial_order_plan.get_adjacency_list` over positions of `seqEvents` (input, see above) -/
  adj : List (Nat × List Nat)
  deriving Repr

/-! ## timings -/

/-- time_triggered_plan.py:230 `_absolute_time` -/
def absoluteTime (t : Timing) (start dur : Rat) : Rat :=
  if t.fromStart then start + t.delay else start + dur + t.delay

/-- `set.add` -/
def setAdd (x : Rat) (l : List Rat) : List Rat := if x ∈ l then l else l ++ [x]

/-- time_triggered_plan.py:464 `_extract_action_timings(action, start, duration, epsilon)` -/
def extractActionTimings (sh : Shape) (start dur eps : Rat) : List Rat :=
  let t1 := sh.effs.foldl (fun acc t => setAdd (absoluteTime t start dur) acc) []
  sh.conds.foldl (fun acc iv =>
    let lowerIncrement : Rat := if iv.lopen then eps else 0
    let upperIncrement : Rat := if iv.ropen then -eps else 0
    setAdd (absoluteTime iv.upper start dur + upperIncrement)
      (setAdd (absoluteTime iv.lower start dur + lowerIncrement) acc)) t1

/-- insertion into a list sorted by `<` (used for `sorted(times)`) -/
def insertRat (x : Rat) : List Rat → List Rat
  | [] => [x]
  | y :: r => if x < y then x :: y :: r else y :: insertRat x r

def sortRat (l : List Rat) : List Rat := l.foldl (fun acc x => insertRat x acc) []

/-- time_triggered_plan.py:223-226 — the loop `epsilon = min(epsilon, current_time - prev_time)` -/
def minGap : Rat → Rat → List Rat → Rat
  | e, _, [] => e
  | e, prev, cur :: r => minGap (min e (cur - prev)) cur r

/-- time_triggered_plan.py:207-217 — what one `(start, ai, duration)` adds to `times` -/
def planTimes (acc : List Rat) (e : Entry) : List Rat :=
  let acc := setAdd e.start acc
  match e.dur with
  | none => acc
  | some (d, sh) =>
    (extractActionTimings sh e.start d 0).foldl (fun a x => setAdd x a) (setAdd (e.start + d) acc)

/-- time_triggered_plan.py:201-217 — the set `times` of `extract_epsilon` -/
def epsilonTimes (inp : Input) : List Rat :=
  let t0 : List Rat := [0]
  let t1 := inp.mock.conds.foldl (fun acc iv => setAdd iv.upper.delay (setAdd iv.lower.delay acc)) t0
  let t2 := inp.mock.effs.foldl (fun acc t => setAdd t.delay acc) t1
  inp.plan.foldl planTimes t2

/-- time_triggered_plan.py:192 `extract_epsilon(problem)` -/
def extractEpsilon (inp : Input) : Option Rat :=
  match sortRat (epsilonTimes inp) with
  | [] => none                                   -- unreachable: 0 is always a member
  | first :: rest =>
    let last := (first :: rest).getLast?.getD first
    if last = 0 then none else some (minGap last first rest)

/-- time_triggered_plan.py:260-267 — the epsilon used by `_convert_to_stn` -/
def epsilonOf (inp : Input) : Rat :=
  match inp.eps with
  | some e => e
  | none =>
    match extractEpsilon inp with
    | none => (1 : Rat) / 1000
    | some e => min (e / 10) ((1 : Rat) / 1000)

/-! ## events -/

/-- an entry of `events` / `event_creating_ais`: absolute time, generating instance (`none` = the
mock-up), relative time w.r.t. the start of the generating instance -/
structure Event where
  time : Rat
  gen : Option Nat
  skew : Rat
  deriving Repr

/-- time_triggered_plan.py:337-346 — the events of one durative instance (`absolute_timing < 0` skipped) -/
def durativeEvents (eps : Rat) (gen : Option Nat) (start dur : Rat) (sh : Shape) : List Event :=
  ((extractActionTimings sh start dur eps).filter fun t => !decide (t < 0)).map fun t =>
    { time := t, gen := gen, skew := t - start }

/-- the events one plan entry contributes (time_triggered_plan.py:323-346) -/
def entryEvents (eps : Rat) (i : Nat) (e : Entry) : List Event :=
  match e.dur with
  | none => [{ time := e.start, gen := some i, skew := 0 }]
  | some (d, sh) => durativeEvents eps (some i) e.start d sh

def planEvents (eps : Rat) : Nat → List Entry → List Event
  | _, [] => []
  | i, e :: r => entryEvents eps i e ++ planEvents eps (i + 1) r

/-- all events in the order of the loop at time_triggered_plan.py:313 (`chain([mockup], timed_actions)`);
the mock-up starts at 0 with duration -1 -/
def allEvents (inp : Input) : List Event :=
  durativeEvents (epsilonOf inp) none 0 (-1) inp.mock ++ planEvents (epsilonOf inp) 0 inp.plan

/-- stable insertion by time (after the elements with an equal time) -/
def insertEvent (e : Event) : List Event → List Event
  | [] => [e]
  | x :: r => if e.time < x.time then e :: x :: r else x :: insertEvent e r

/-- time_triggered_plan.py:358-361 — `sorted(events.items())` flattened: the events sorted by time, events
with the same time in the order in which the loop met them -/
def seqEvents (inp : Input) : List Event :=
  (allEvents inp).foldl (fun acc e => insertEvent e acc) []

/-! ## constraint generation (`_convert_to_stn`) -/

/-- a value of `stn_constraints`: `(lower, upper, other node)` -/
abbrev Bound := Rat × Option Rat × Node
abbrev ConsDict := List (Node × List Bound)

/-- `d.setdefault(k, []).append(x)` -/
def appendAt (k : Node) (x : Bound) (d : ConsDict) : ConsDict :=
  assign k ((lookup k d).getD [] ++ [x]) d

/-- `ai_to_start_node[ai]` -/
def startNodeOf : Option Nat → Node
  | none => .startPlan
  | some i => .start i

/-- time_triggered_plan.py:313-352 — the constraints created while the plan is scanned -/
def scanCons : Nat → List Entry → ConsDict → ConsDict
  | _, [], d => d
  | i, e :: r, d =>
    match e.dur with
    | none => scanCons (i + 1) r (appendAt .startPlan ((0 : Rat), none, .start i) d)
    | some (du, _) => scanCons (i + 1) r (assign (.start i) [(du, some du, .finish i)] d)

/-- time_triggered_plan.py:384-401 — the constraint for one edge `current → next` of the partial order -/
def edgeBound (eps : Rat) (cur nxt : Event) : Option Bound :=
  if cur.gen ≠ nxt.gen then
    if cur.time = nxt.time then       -- `ai_next in current_simultaneous_events`
      some (cur.skew - nxt.skew, some (cur.skew - nxt.skew), startNodeOf nxt.gen)
    else
      some (cur.skew - nxt.skew + eps, none, startNodeOf nxt.gen)
  else none

/-- inner loop `for ai_next in l_next_ai` -/
def edgesFrom (eps : Rat) (seq : List Event) (cur : Event) : List Nat → ConsDict → ConsDict
  | [], d => d
  | j :: r, d =>
    match seq[j]? with
    | none => edgesFrom eps seq cur r d
    | some nxt =>
      match edgeBound eps cur nxt with
      | some b => edgesFrom eps seq cur r (appendAt (startNodeOf cur.gen) b d)
      | none => edgesFrom eps seq cur r d

/-- time_triggered_plan.py:366 — loop over `partial_order_plan.get_adjacency_list.items()` -/
def adjCons (eps : Rat) (seq : List Event) : List (Nat × List Nat) → ConsDict → ConsDict
  | [], d => d
  | (i, js) :: r, d =>
    match seq[i]? with
    | none => adjCons eps seq r d
    | some cur => adjCons eps seq r (edgesFrom eps seq cur js d)

/-- every position mentioned by the adjacency list is a position of the event sequence (otherwise the
adjacency list given to the model does not belong to this case) -/
def adjInRange (inp : Input) : Bool :=
  let n := (seqEvents inp).length
  inp.adj.all fun (i, js) => decide (i < n) && js.all fun j => decide (j < n)

/-- the dictionary handed to `STNPlan(constraints=stn_constraints)` -/
def stnConstraints (inp : Input) : ConsDict :=
  adjCons (epsilonOf inp) (seqEvents inp) inp.adj (scanCons 0 inp.plan [])

/-! ## `STNPlan.__init__` -/

/-- stn_plan.py:93 `flatten_dict_structure`.  (For an empty list the Python yields `(k, None, None, k)`;
the dictionaries built by `_convert_to_stn` have no empty list — every key is created together with
its first element — so that branch is not modelled: `scanCons`/`adjCons` only `appendAt`/`assign`
non-empty lists; proved as `C26_no_empty_constraint_list`.) -/
def flatten (d : ConsDict) : List (Node × Rat × Option Rat × Node) :=
  d.flatMap fun (k, v) => v.map fun (lb, ub, b) => (k, lb, ub, b)

/-- stn_plan.py:224-242 — the `DeltaSTN.add` calls made for one constraint (`insert_interval(l, r,
left_bound=x)` is `add(l, r, -x)`, `right_bound=y` is `add(r, l, y)`) -/
def tupleInsertions : Node × Rat × Option Rat × Node → List (Con Node)
  | (a, lb, ub, b) =>
    (if a ≠ .startPlan then [{ x := .startPlan, y := a, b := -0 }] else []) ++
    (if a ≠ .endPlan then [{ x := a, y := .endPlan, b := -0 }] else []) ++
    (if b ≠ .startPlan then [{ x := .startPlan, y := b, b := -0 }] else []) ++
    (if b ≠ .endPlan then [{ x := b, y := .endPlan, b := -0 }] else []) ++
    [{ x := a, y := b, b := -lb }] ++
    (match ub with
     | some u => [{ x := b, y := a, b := u }]
     | none => [])

/-- stn_plan.py:200-242 — all `add` calls of `STNPlan.__init__`, in order -/
def insertionsOf (d : ConsDict) : List (Con Node) :=
  { x := .startPlan, y := .endPlan, b := -0 } :: (flatten d).flatMap tupleInsertions

/-- the insertions `TimeTriggeredPlan.convert_to(STN_PLAN)` makes for this input -/
def insertions (inp : Input) : List (Con Node) := insertionsOf (stnConstraints inp)

/-- `convert_to(STN_PLAN)`: the `DeltaSTN` inside the resulting `STNPlan` (`none` = out of fuel) -/
def convertToStn (fuel : Nat) (inp : Input) : Option (Net Node) :=
  addAll fuel empty (insertions inp)

/-- stn_plan.py:471 `is_consistent` -/
def isConsistent (s : Net Node) : Bool := checkStn s

/-! ## `STNPlan.get_constraints` -/

abbrev PairMap := List ((Node × Node) × Rat)

/-- stn_plan.py:333-348 — one `(upper_bound, a_node)` of `_stn.get_constraints()[b_node]` -/
def boundStep (bNode : Node) (acc : PairMap × PairMap) (e : Rat × Node) : PairMap × PairMap :=
  let (upperBound, aNode) := e
  if 0 < upperBound then
    let key := (aNode, bNode)
    (assign key (min upperBound ((lookup key acc.1).getD upperBound)) acc.1, acc.2)
  else
    let key := (bNode, aNode)
    (acc.1, assign key (max (-upperBound) ((lookup key acc.2).getD (-upperBound))) acc.2)

/-- stn_plan.py:315 `get_constraints`, as the list of `(left, lower, upper, right)` in the order of
the returned dictionary's lists (keys grouped by the harness) -/
def getPlanConstraints (s : Net Node) : List (Node × Option Rat × Option Rat × Node) :=
  let (ubs, lbs) := (getConstraints s).foldl
    (fun acc (p : Node × List (Rat × Node)) => p.2.foldl (boundStep p.1) acc) (([], []) : PairMap × PairMap)
  let fromUpper := ubs.map fun ((l, r), ub) => (l, lookup (l, r) lbs, some ub, r)
  let fromLower := (lbs.filter fun (k, _) => (lookup k ubs).isNone).map fun ((l, r), lb) => (l, some lb, none, r)
  fromUpper ++ fromLower

/-! ## `STNPlan._convert_to_time_triggered` -/

abbrev ActionMap := List (Nat × (Option Rat × Option Rat))

/-- stn_plan.py:485-501 — one `(node, -distance)` of `self._stn.distances.items()` -/
def mapStep (m : ActionMap) (p : Node × Rat) : ActionMap :=
  let time := -p.2
  match p.1 with
  | .startPlan => m
  | .endPlan => m
  | .start i => assign i (some time, ((lookup i m).getD (none, none)).2) m
  | .finish i => assign i (((lookup i m).getD (none, none)).1, some time) m

def actionMap (s : Net Node) : ActionMap := s.dist.foldl mapStep []

/-- one `(start, action_instance, duration)` of the resulting plan -/
abbrev BackEntry := Rat × Nat × Option Rat

/-- stable insertion by start time (`sorted(..., key=lambda x: x[1][0])`) -/
def insertBack (e : BackEntry) : List BackEntry → List BackEntry
  | [] => [e]
  | x :: r => if e.1 < x.1 then e :: x :: r else x :: insertBack e r

/-- stn_plan.py:503-510.  `none` = an instance without a START node (the Python would fail on
`assert start is not None` / on comparing `None`) -/
def backEntries : ActionMap → Option (List BackEntry)
  | [] => some []
  | (i, (some st, en)) :: r => (backEntries r).map fun l => (st, i, en.map fun e => e - st) :: l
  | (_, (none, _)) :: _ => none

/-- stn_plan.py:478 `_convert_to_time_triggered` -/
def convertToTimeTriggered (s : Net Node) : Option (List BackEntry) :=
  (backEntries (actionMap s)).map fun l => l.foldl (fun acc e => insertBack e acc) []

end UPVerif.PlanConv

/-! ## specification vocabulary (used by `Props/C26.lean`; not part of the mirrored code) -/
namespace UPVerif.PlanConv

/-- the schedule of the ORIGINAL plan: every START node at the entry's start time, every END node at
start + duration, the plan's start at 0, the plan's end at `horizon` -/
def origTime (inp : Input) (horizon : Rat) : Node → Rat
  | .startPlan => 0
  | .endPlan => horizon
  | .start i => (inp.plan[i]?.map fun e => e.start).getD 0
  | .finish i => (inp.plan[i]?.map fun e => e.start + (e.dur.map fun p => p.1).getD 0).getD 0

/-- a time not before any start or end of the plan (and not before 0) -/
def horizonOf (inp : Input) : Rat :=
  inp.plan.foldl (fun m e => max m (max e.start (e.start + (e.dur.map fun p => p.1).getD 0))) 0

/-- the time at which an event happens when the nodes are scheduled by `t` -/
def eventTimeUnder (t : Node → Rat) (e : Event) : Rat := t (startNodeOf e.gen) + e.skew

/-- "distinct happenings are at least ε apart" -/
def Separated (eps : Rat) (evs : List Event) : Prop :=
  ∀ e1 ∈ evs, ∀ e2 ∈ evs, e1.time < e2.time → e1.time + eps ≤ e2.time

/-- "the ordering edges respect the time order of the original plan" -/
def EdgesRespectTime (inp : Input) : Prop :=
  ∀ p ∈ inp.adj, ∀ j ∈ p.2, ∀ cur nxt, (seqEvents inp)[p.1]? = some cur → (seqEvents inp)[j]? = some nxt →
    cur.time ≤ nxt.time

/-- every edge points forward in the event sequence (what the deordering of a sequential plan
produces: C27) -/
def EdgesForward (inp : Input) : Prop :=
  ∀ p ∈ inp.adj, ∀ j ∈ p.2, p.1 < j

/-- starts and durations are non-negative -/
def NonNegative (inp : Input) : Prop :=
  ∀ e ∈ inp.plan, 0 ≤ e.start ∧ ∀ p, e.dur = some p → 0 ≤ p.1

end UPVerif.PlanConv
