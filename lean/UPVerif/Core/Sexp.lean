/-
S-expressions: the wire format of the line protocol between the Python harness and the Lean
driver.  Atoms are bare tokens or double-quoted strings (with \" and \\ escapes).
This file is driver infrastructure (trusted base of the correspondence check), not a model.
-/
namespace UPVerif

inductive Sexp where
  | atom (s : String)
  | list (xs : List Sexp)
  deriving Repr, Inhabited, BEq

namespace Sexp

private inductive Tok where
  | lp | rp | at (s : String)

private partial def tokenize (cs : List Char) (acc : Array Tok) : Option (Array Tok) :=
  match cs with
  | [] => some acc
  | c :: rest =>
    if c == '(' then tokenize rest (acc.push .lp)
    else if c == ')' then tokenize rest (acc.push .rp)
    else if c.isWhitespace then tokenize rest acc
    else if c == '"' then
      let rec str (cs : List Char) (buf : String) : Option (String × List Char) :=
        match cs with
        | [] => none
        | '\\' :: d :: r => str r (buf.push d)
        | '"' :: r => some (buf, r)
        | d :: r => str r (buf.push d)
      match str rest "" with
      | none => none
      | some (s, r) => tokenize r (acc.push (.at s))
    else
      let rec bare (cs : List Char) (buf : String) : String × List Char :=
        match cs with
        | [] => (buf, [])
        | d :: r =>
          if d == '(' || d == ')' || d.isWhitespace then (buf, d :: r) else bare r (buf.push d)
      let (s, r) := bare rest (String.singleton c)
      tokenize r (acc.push (.at s))

/-- parse one s-expression starting at token index `i`; returns it and the next index -/
private partial def parseAt (ts : Array Tok) (i : Nat) : Option (Sexp × Nat) :=
  if h : i < ts.size then
    match ts[i] with
    | .at s => some (.atom s, i + 1)
    | .rp => none
    | .lp =>
      let rec items (j : Nat) (acc : Array Sexp) : Option (Sexp × Nat) :=
        if h2 : j < ts.size then
          match ts[j] with
          | .rp => some (.list acc.toList, j + 1)
          | _ =>
            match parseAt ts j with
            | none => none
            | some (e, j') => items j' (acc.push e)
        else none
      items (i + 1) #[]
  else none

def parse (s : String) : Option Sexp :=
  match tokenize s.toList #[] with
  | none => none
  | some ts =>
    match parseAt ts 0 with
    | some (e, n) => if n == ts.size then some e else none
    | none => none

private def needsQuote (s : String) : Bool :=
  s.isEmpty || s.any (fun c => c == '(' || c == ')' || c == '"' || c == '\\' || c.isWhitespace)

private def quote (s : String) : String :=
  "\"" ++ s.foldl (fun acc c => if c == '"' || c == '\\' then (acc.push '\\').push c else acc.push c) "" ++ "\""

partial def toString : Sexp → String
  | .atom s => if needsQuote s then quote s else s
  | .list xs => "(" ++ " ".intercalate (xs.map toString) ++ ")"

instance : ToString Sexp := ⟨Sexp.toString⟩

/-! convenience constructors / destructors used by the per-property drivers -/
def ofBool (b : Bool) : Sexp := .atom (if b then "T" else "F")
def ofNat (n : Nat) : Sexp := .atom (ToString.toString n)
def ofInt (n : Int) : Sexp := .atom (ToString.toString n)
def ofStrs (l : List String) : Sexp := .list (l.map .atom)
def tag (t : String) (xs : List Sexp) : Sexp := .list (.atom t :: xs)

def asAtom? : Sexp → Option String
  | .atom s => some s
  | _ => none
def asList? : Sexp → Option (List Sexp)
  | .list xs => some xs
  | _ => none
def asNat? (e : Sexp) : Option Nat := e.asAtom?.bind String.toNat?
def asInt? (e : Sexp) : Option Int := e.asAtom?.bind String.toInt?
def asBool? : Sexp → Option Bool
  | .atom "T" => some true
  | .atom "F" => some false
  | _ => none
def asStrs? (e : Sexp) : Option (List String) := do
  let xs ← e.asList?
  xs.mapM asAtom?

end Sexp
end UPVerif
