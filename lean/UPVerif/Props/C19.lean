import UPVerif.Lemmas.AnmlRoundtrip
import UPVerif.Lemmas.AnmlDen
import UPVerif.Lemmas.AnmlGood
/-!
# C19 — ANML write/read round trip preserves problem semantics

Statements only (helper lemmas: `Lemmas/Anml*.lean`).  Model: `Core/AnmlSyntax.lean` (problem syntax, the
renaming `Ren`, `respell`, `reread`), `Core/AnmlPrint.lean` (the writer: problem → tokens),
`Core/AnmlRead.lean` (the reader: tokens → statement trees → problem), `Core/AnmlFragment.lean` (`inFragment`,
`Good`).

* `roundtrip` — for EVERY problem of the ANML fragment and EVERY renaming that gives different items different
  names (what C38 proves of the writer's `names_mapping`), reading the printed tokens succeeds and yields
  `reread (ρ.renProblem P)`: the renamed problem in which n-ary operators are left-nested binary ones, negative
  and rational constants are `Times(-1, n)` / `Div(n, d)`, `TRUE` preconditions/goals and duplicate
  conditions are dropped (the containers of the library), the `constant` fluents come first and the objects
  are grouped by type.  No size bound; the parser's fuel (number of tokens + 1) is proved sufficient.
* `respell_den` — that re-spelling has the same reference denotation (`Core/Den.lean`) under every
  interpretation; `static_preserved`, `targets_reread` — static-ness (hence `constant`/`fluent`) is kept.
* The Simplifier (applied by the real writer before printing and by the real reader after parsing) is C11's and
  the concrete renaming is C38's: both are parameters here.  pyparsing / `anml_grammar.py` are represented by
  the hand-written stage 1 of `Core/AnmlRead.lean` (tied by the correspondence check only).
-/
namespace UPVerif.C19
open UPVerif UPVerif.Anml

/-- **round trip**: reading what the writer prints returns the renamed, re-spelt problem -/
theorem roundtrip (ρ : Ren) (P : AProblem) (hP : inFragment P = true) (hρ : Good ρ P) :
    anmlRead (anmlPrint ρ P) = some (reread (ρ.renProblem P)) :=
  anmlRead_anmlPrint ρ P hP hρ

/-- the same with the decidable check of the renaming table that the driver runs on every case -/
theorem roundtrip_checked (ρ : Ren) (P : AProblem) (hP : inFragment P = true) (hρ : goodRen ρ P = true) :
    anmlRead (anmlPrint ρ P) = some (reread (ρ.renProblem P)) :=
  anmlRead_anmlPrint ρ P hP (goodRen_sound ρ P hρ)

/-- stage 1 alone (the part that stands for pyparsing): the printed text parses, with fuel = number of tokens + 1,
    to the statement trees of the problem -/
theorem parse_print (ρ : Ren) (P : AProblem) (hP : inFragment P = true) :
    pStmts ((anmlPrint ρ P).length + 1) (anmlPrint ρ P) = some ((stmtsOf ρ P).map (·.2)) :=
  pStmts_anmlPrint ρ P hP

/-- the round trip of one expression through the text, in any scope -/
theorem expr_roundtrip (ρ : Ren) (P : AProblem) (env : REnv) (C : RCtx ρ P env) (e : Expr)
    (params : List (String × Ty)) (vars : List Var) (hwf : wfE P params vars e = true)
    (hv : ∀ v ∈ varsOfE e, Item.var v.name v.ty ∈ P.items) (S : ScopeOK P params vars)
    (f : Nat) (r : List Tok) (hf : (printE ρ e).length ≤ f) (hr : NoLp r) :
    (pOperand f (printE ρ e ++ r)).bind
        (fun p => (resolveE env (ρ.renParams params) (renScope ρ vars) p.1).map (fun x => (x, p.2)))
      = some (respell (ρ.renE e), r) := by
  rw [pOperand_printE ρ P e params vars hwf f r hf hr]
  simp [resolveE_toU C e params vars hwf hv S]

/-- re-spelling (binary nesting, `Times(-1, n)`, `Div(n, d)`) keeps the reference denotation, for every
    expression, interpretation and variable environment -/
theorem respell_den (ι : Interp) (ρ : VEnv) (e : Expr) : den ι ρ (respell e) = den ι ρ e :=
  den_respell ι e ρ

/-- the `And(c, TRUE)` condition of a re-read conditional forall effect is true exactly when `c` is -/
theorem and_true_den (ι : Interp) (ρ : VEnv) (c : Expr) (x : Bool) (h : den ι ρ c = some (.b x)) :
    den ι ρ (.app .and [c, Expr.tt]) = some (.b x) :=
  den_and_tt ι ρ c x h

/-- renaming keeps static-ness of the declared fluents (so `constant`/`fluent` are read back as written) -/
theorem static_preserved (ρ : Ren) (P : AProblem) (hP : inFragment P = true) (hρ : Good ρ P) (f : FluentRef)
    (hf : f ∈ P.fluents.map (·.ref)) : (ρ.renProblem P).isStatic (ρ.renRef f) = P.isStatic f :=
  static_ren (frag_of_inFragment hP) hρ hf

/-- re-spelling does not change which fluents are written by effects -/
theorem targets_preserved (R : AProblem) : (reread R).targets = R.targets := targets_reread R

/-- the decidable check of the renaming table implies the hypothesis `Good` -/
theorem goodRen_good (ρ : Ren) (P : AProblem) (h : goodRen ρ P = true) : Good ρ P := goodRen_sound ρ P h

/-! non-vacuity: a concrete problem of the fragment (type hierarchy, a `constant`, a bounded numeric fluent with
    a negative bound, an instantaneous action with a quantified precondition and a conditional forall effect, a
    durative action, a timed effect, a timed goal, an invariant) and a renaming that renames a keyword -/
section example_
def bT : FluentRef := { name := "b", ty := .bool, sig := [.user "T"] }
def xR : FluentRef := { name := "x", ty := .int (some (-2)) (some 10), sig := [] }
def kR : FluentRef := { name := "when", ty := .real (some 0) none, sig := [] }
def vT : Var := { name := "v", ty := .user "T" }
def bOf (e : Expr) : Expr := .app (.fluent bT) [e]
def xE : Expr := .app (.fluent xR) []
def kE : Expr := .app (.fluent kR) []

def P0 : AProblem :=
  { types := [("T", none), ("S", some "T")],
    fluents := [{ ref := bT, pnames := ["t"] }, { ref := xR, pnames := [] }, { ref := kR, pnames := [] }],
    objects := [("o1", "T"), ("s1", "S")],
    init := [(bOf (.leaf (.obj "o1" "T")), Expr.ff), (bOf (.leaf (.obj "s1" "S")), Expr.tt), (xE, Expr.int (-1)),
             (kE, Expr.real (3 / 2 : Rat))],
    actions := [
      .inst "a" [("p", .user "T")]
        [.quant .ex [vT] (.app .and [bOf (.leaf (.var vT)), .app .not [bOf (.leaf (.param "p" (.user "T")))],
                                     .app .lt [xE, Expr.int 3]])]
        [{ fluent := bOf (.leaf (.var vT)), value := Expr.tt, cond := .app .eq [.leaf (.var vT), .leaf (.param "p" (.user "T"))],
           kind := .assign, forall_ := [vT] },
         { fluent := xE, value := .app .plus [xE, Expr.int 1, Expr.int 2], cond := Expr.tt, kind := .increase, forall_ := [] }],
      .dur "d" [] { lo := Expr.int 2, hi := .app .plus [kE, Expr.int 3], lopen := true, ropen := false }
        [({ lo := ⟨.start, 0⟩, hi := ⟨.end_, -1 / 2⟩, lopen := true, ropen := false }, .app .le [xE, Expr.int 9])]
        [(⟨.end_, 0⟩, { fluent := xE, value := Expr.int 0, cond := Expr.tt, kind := .assign, forall_ := [] })]],
    timedEffects := [(⟨.gstart, 7 / 2⟩, { fluent := bOf (.leaf (.obj "o1" "T")), value := Expr.tt, cond := Expr.tt,
                                          kind := .assign, forall_ := [] })],
    goals := [bOf (.leaf (.obj "o1" "T"))],
    timedGoals := [({ lo := ⟨.gstart, 2⟩, hi := ⟨.gstart, 6⟩, lopen := false, ropen := true }, .app .lt [xE, Expr.int 5])],
    invariants := [.app .le [xE, Expr.int 10]] }

/-- identity except for the fluent named like a keyword -/
def ρ0 : Ren :=
  { ty := fun n => n, fl := fun n => if n == "when" then "when_" else n, act := fun n => n, obj := fun n => n,
    par := fun n _ => n, var := fun n _ => n }

example : inFragment P0 = true := by decide +kernel
example : goodRen ρ0 P0 = true := by decide +kernel
example : anmlRead (anmlPrint ρ0 P0) = some (reread (ρ0.renProblem P0)) :=
  roundtrip_checked ρ0 P0 (by decide +kernel) (by decide +kernel)
end example_

end UPVerif.C19
