import UPVerif.Lemmas.ExecEnvApply
/-!
# C35 — Simulated execution environment is faithful to its contingent problem

Statements only (helper lemmas: `Lemmas/ExecEnvInit.lean`, `Lemmas/ExecEnvState.lean`,
`Lemmas/ExecEnvApply.lean`).

* `ExecEnv.*` (`Core/ExecEnv.lean`) is the executable model that mirrors
  `SimulatedExecutionEnvironment` (with the repair of
  notes/patches/C35-execution-environment-faithful-clone.patch) function by function, on top of the
  model `Sim.*` of `UPSequentialSimulator` (properties C01/C02); the correspondence check ties it to /repo.
* `Spec.declaredValue`, `Spec.IsHidden`, `Spec.holdsIn`, `Spec.simRun` (`Spec/Contingent.lean`) are the
  declarative reading of the property text.

Everything is proved for EVERY contingent problem `C`, `max_constraints` `mc`, simplifier, interpreted-
function table, element `choice` returned by the random generator, action and history: no size bound.
The SMT solver and `random.choice` are not modelled: `ExecEnv.models` is the solver's contract (all total
assignments of the hidden atoms satisfying the constraints — compared with the real list on every
case by the correspondence check) and `choice` is universally quantified; `mkEnv` succeeds only if
`choice` is one of `models`.
-/
namespace UPVerif.C35
open UPVerif UPVerif.Sim UPVerif.ExecEnv UPVerif.Spec

variable {C : CProblem} {mc : Option Nat} {simp : Expr → Expr} {fn : FunRef → List Val → Option Val}
  {choice : Asg} {E : Env}

/-- "Every non-hidden fluent takes the problem's declared initial value, whether explicit, a per-fluent
    default or a per-type default": in the environment's initial state every ground fluent that no
    initial constraint names reads exactly as `Spec.declaredValue` says (in particular it is undefined
    iff nothing was declared). -/
theorem C35_nonhidden_initial (h : mkEnv C mc simp fn choice = .ok E) (k : GKey) (hk : ¬ IsHidden C k) :
    E.st.get E.W.P k = declaredValue C k := by
  rw [env_get h k, explicit_nonhidden (mkEnv_ok h).1 hk, defaultOf_fullProblem]
  rfl

/-- the hidden part of the initial state IS the assignment the random generator picked among the
    solver's models: every hidden atom is a ground fluent and reads as chosen -/
theorem C35_hidden_reads_choice (h : mkEnv C mc simp fn choice = .ok E) (hinj : keysInjective C = true) :
    choice ∈ models C mc ∧ choice.map (·.1) = hiddenAtoms C ∧
    ∀ a b, choice.lookup a = some b → ∃ k, keyOf? a = some k ∧ E.st.get E.W.P k = some (.b b) :=
  ⟨(mkEnv_ok h).1, (mem_models (mkEnv_ok h).1).1, fun _ _ hl => env_get_hidden h hinj hl⟩

/-- "the simulated execution environment picks a hidden initial state that satisfies all oneof and or
    constraints" (default `max_constraints`): whatever element of the solver's models the random
    generator returns, in the environment's initial state EXACTLY ONE member of every oneof constraint
    and AT LEAST ONE member of every or constraint evaluates to TRUE (members are evaluated as
    expressions — a fluent or its negation — by the simulator's own evaluator). -/
theorem C35_hidden_satisfies (h : mkEnv C none simp fn choice = .ok E) (hinj : keysInjective C = true) :
    (∀ c ∈ C.oneofs, c.countP (holdsIn E) = 1) ∧ (∀ c ∈ C.ors, ∃ x ∈ c, holdsIn E x = true) := by
  have := constraints_hold h hinj
  rw [usedOrs_none] at this
  exact this

/-- the same with a `max_constraints` argument: every oneof constraint, and the or constraints the
    loop reaches before its `break` (`usedOrs`), hold; the others were never given to the solver -/
theorem C35_hidden_satisfies_truncated (h : mkEnv C mc simp fn choice = .ok E) (hinj : keysInjective C = true) :
    (∀ c ∈ C.oneofs, c.countP (holdsIn E) = 1) ∧ (∀ c ∈ usedOrs C mc, ∃ x ∈ c, holdsIn E x = true) :=
  constraints_hold h hinj

/-- no faithful hidden state is excluded: every total assignment of the hidden atoms that satisfies the
    constraints is one of the models the random generator chooses from -/
theorem C35_every_faithful_state_can_be_chosen (C : CProblem) (mc : Option Nat) (β : Expr → Bool)
    (hsat : satisfies C mc ((hiddenAtoms C).map (fun a => (a, β a))) = true) :
    (hiddenAtoms C).map (fun a => (a, β a)) ∈ models C mc := by
  unfold models
  rw [List.mem_filter]
  exact ⟨mem_allAssignments β _, hsat⟩

/-- the problem the environment simulates is the contingent problem's own classical content: same
    types, objects, fluents, actions (a sensing action keeps its parameters, preconditions and effects)
    and goals; only the initial values are completed and the defaults resolved -/
theorem C35_environment_problem (h : mkEnv C mc simp fn choice = .ok E) :
    E.W.simp = simp ∧ E.W.fn = fn ∧ E.W.P.types = C.base.types ∧ E.W.P.objects = C.base.objects ∧
    E.W.P.fluents.map (·.ref) = C.base.fluents.map (·.ref) ∧ E.W.P.actions = C.base.actions ∧
    E.W.P.goals = C.base.goals ∧ E.sensing = C.sensing := by
  obtain ⟨_, hW, _, hS⟩ := mkEnv_ok h
  rw [hW]
  refine ⟨rfl, rfl, rfl, rfl, ?_, ?_, rfl, hS⟩
  · show (resolvedFluents C).map (·.ref) = _
    unfold resolvedFluents
    rw [List.map_map]
    rfl
  · show C.base.actions.map (fun a => if isSensing C a.name then dummyOf a else a) = C.base.actions
    have : (fun a : Action => if isSensing C a.name then dummyOf a else a) = id := by
      funext a
      by_cases hs : isSensing C a.name = true
      · simp [hs, dummyOf]
      · simp [hs]
    rw [this, List.map_id]

/-- "Actions are executed exactly as the sequential simulator executes them on that state": one call of
    `apply` is one call of the simulator's `apply` on the environment's current state — a successor
    replaces the state, `None` is the documented `UPUsageError` and leaves the environment unchanged,
    an escaping exception leaves it unchanged too -/
theorem C35_apply_is_simulator (E : Env) (name : String) (args : List String) (a : Action)
    (ha : E.W.P.action? name = some a) :
    (∀ s', Sim.apply E.W E.st a args = .ok (some s') →
        ∃ obs, E.apply name args = some (.done obs, { E with st := s' })) ∧
    (Sim.apply E.W E.st a args = .ok none → E.apply name args = some (.notApplicable, E)) ∧
    (∀ e, Sim.apply E.W E.st a args = .error e → E.apply name args = some (.raised e, E)) :=
  ⟨fun _ h => ⟨_, apply_done ha h⟩, fun h => apply_refused ha h, fun _ h => apply_raised ha h⟩

/-- … for whole histories: after any sequence of `apply` calls the environment's state is the state the
    plain sequential simulator reaches by replaying the accepted actions (`Spec.simRun`), and nothing
    else of the environment has changed -/
theorem C35_history_is_simulator (E : Env) (steps : List (String × List String)) :
    (E.run steps).st = simRun E.W E.st steps ∧ (E.run steps).W = E.W ∧ (E.run steps).sensing = E.sensing :=
  run_spec steps E

/-- … hence every step meets the documented successor semantics (property C01's declarative
    `Spec.apply`): an accepted action leaves exactly the documented successor, a refused one is
    inapplicable under the documented semantics -/
theorem C35_apply_meets_documented_semantics (E E' : Env) (name : String) (args : List String) (a : Action)
    (out : Outcome) (ha : E.W.P.action? name = some a) (h : E.apply name args = some (out, E')) :
    (out = .notApplicable → Spec.apply E.W E.st a args = none ∧ E'.st = E.st) ∧
    (∀ obs, out = .done obs → Spec.apply E.W E.st a args = some (E'.st.get E.W.P)) := by
  cases hs : Sim.apply E.W E.st a args with
  | error e =>
    rw [apply_raised ha hs] at h
    cases h
    exact ⟨fun h => (by cases h), fun _ h => (by cases h)⟩
  | ok r =>
    have hspec := apply_eq_spec' E.W E.st a args r hs
    cases r with
    | none =>
      rw [apply_refused ha hs] at h
      cases h
      exact ⟨fun _ => ⟨hspec.symm, rfl⟩, fun _ h => (by cases h)⟩
    | some s' =>
      rw [apply_done ha hs] at h
      cases h
      exact ⟨fun h => (by cases h), fun _ _ => hspec.symm⟩

/-- "the returned observations are the current values of the sensed fluents": the returned dict has
    exactly one entry per sensed fluent of the action, instantiated with the actual parameters; every
    entry is a ground fluent paired with its value in the state AFTER the action (`E'`); an ordinary
    action observes nothing -/
theorem C35_observations_current (E E' : Env) (name : String) (args : List String) (a : Action)
    (obs : List (Expr × Val)) (ha : E.W.P.action? name = some a)
    (h : E.apply name args = some (.done (.ok obs), E')) :
    (∀ p ∈ obs, ∃ k, keyOf? p.1 = some k ∧ E'.st.get E'.W.P k = some p.2) ∧
    (obs.map (·.1)).Nodup ∧
    (∀ fe, fe ∈ obs.map (·.1) ↔
      ∃ fs, E.sensing.lookup name = some fs ∧ ∃ f ∈ fs, fe = substE (obsSubst E.W.P a args) f) := by
  cases hs : Sim.apply E.W E.st a args with
  | error e => rw [apply_raised ha hs] at h; cases h
  | ok r =>
    cases r with
    | none => rw [apply_refused ha hs] at h; cases h
    | some s' =>
      rw [apply_done ha hs] at h
      simp only [Option.some.injEq, Prod.mk.injEq, Outcome.done.injEq] at h
      obtain ⟨hobs, rfl⟩ := h
      cases hl : E.sensing.lookup name with
      | none =>
        rw [hl] at hobs
        cases hobs
        exact ⟨fun p hp => (by cases hp), (by simp), fun fe => (by simp)⟩
      | some fs =>
        rw [hl] at hobs
        obtain ⟨h1, h2, h3⟩ := readObs_spec _ [] obs hobs (fun p hp => (by cases hp)) (by simp)
        refine ⟨h1, h2, fun fe => ?_⟩
        rw [h3 fe]
        simp only [List.map_nil, List.not_mem_nil, false_or, List.mem_map, Option.some.injEq, exists_eq_left']
        constructor
        · rintro ⟨f, hf, rfl⟩; exact ⟨f, hf, rfl⟩
        · rintro ⟨f, hf, rfl⟩; exact ⟨f, hf, rfl⟩

/-- `is_goal_reached` is the simulator's goal test on the current state, i.e. (C01) "every goal of the
    contingent problem evaluates to TRUE" -/
theorem C35_goal (h : mkEnv C mc simp fn choice = .ok E) (steps : List (String × List String)) (b : Bool)
    (hb : (E.run steps).isGoalReached = .ok b) :
    (E.run steps).W.P.goals = C.base.goals ∧ b = Spec.isGoal E.W (simRun E.W E.st steps) := by
  obtain ⟨hst, hW, _⟩ := run_spec steps E
  refine ⟨by rw [hW]; exact (C35_environment_problem h).2.2.2.2.2.2.1, ?_⟩
  unfold Env.isGoalReached at hb
  rw [hW, hst] at hb
  exact Sim.isGoal_eq_spec hb

section examples
/-! ## non-vacuity: one concrete contingent problem exercising every clause

type `T`, objects `o1 o2 : T`; per-type defaults `bool ↦ false`, `int ↦ 7`.
fluents `a : bool` (per-fluent default TRUE — the witness of defect D-C35), `h(T) : bool` and `u : bool`
(no per-fluent default), `x : int[0,5]` (no default at all, explicit value 3), `y : int` (per-type default).
constraints `oneof(h(o1), h(o2))`, `or(Not(u), h(o1))`: hidden atoms `h(o1) h(o2) u`, `u` only through a
negated literal.  `sense(p)` is a SENSING action with an effect (`h(p) := Not(h(p))`) observing `h(p)` and `a`;
`inc` needs `a` and increases `x`.  Goal `4 <= x`. -/
def tT : Ty := .user "T"
def fa : FluentRef := ⟨"a", .bool, []⟩
def fh : FluentRef := ⟨"h", .bool, [tT]⟩
def fu : FluentRef := ⟨"u", .bool, []⟩
def fx : FluentRef := ⟨"x", .int (some 0) (some 5), []⟩
def fy : FluentRef := ⟨"y", .int none none, []⟩
def o1 : Expr := .leaf (.obj "o1" "T")
def o2 : Expr := .leaf (.obj "o2" "T")
def ea : Expr := .app (.fluent fa) []
def eu : Expr := .app (.fluent fu) []
def ex : Expr := .app (.fluent fx) []
def eh (o : Expr) : Expr := .app (.fluent fh) [o]
def pp : Expr := .leaf (.param "p" tT)
def eff (f v c : Expr) (k : EffKind) : Effect := { fluent := f, value := v, cond := c, kind := k, forall_ := [] }
def sense : Action := { name := "sense", params := [("p", tT)], pre := [],
                        effs := [eff (eh pp) (.app .not [eh pp]) Expr.tt .assign] }
def inc : Action := { name := "inc", params := [], pre := [ea], effs := [eff ex (Expr.int 1) Expr.tt .increase] }
def exC : CProblem where
  base := { name := "ex", types := ⟨[("T", none)]⟩, objects := [("o1", "T"), ("o2", "T")],
            fluents := [⟨fa, some Expr.tt⟩, ⟨fh, none⟩, ⟨fu, none⟩, ⟨fx, none⟩, ⟨fy, none⟩],
            init := [(ex, Expr.int 3)], actions := [sense, inc], goals := [Expr.mkLE (Expr.int 4) ex],
            traj := [], metrics := [] }
  typeDefaults := [(.bool, Expr.ff), (.int none none, Expr.int 7)]
  sensing := [("sense", [eh pp, ea])]
  hidden := [eh o1, eh o2, .app .not [eu]]
  oneofs := [[eh o1, eh o2]]
  ors := [[.app .not [eu], eh o1]]
def noFn : FunRef → List Val → Option Val := fun _ _ => none
def exChoice : Asg := [(eh o1, false), (eh o2, true), (eu, false)]
def keysEx : List GKey := [(fa, []), (fh, [.o "o1"]), (fh, [.o "o2"]), (fu, []), (fx, []), (fy, [])]
def readEnv (E : Env) : List (Option Val) := keysEx.map (E.st.get E.W.P)
def readInit (r : Except InitErr Env) : Option (List (Option Val)) :=
  match r with
  | .ok E => some (readEnv E)
  | .error _ => none
def E0 : Env := match mkEnv exC none id noFn exChoice with
  | .ok E => E
  | .error _ => { W := { P := default, simp := id, fn := noFn }, st := ⟨[]⟩, sensing := [] }
def summary (r : Option (Outcome × Env)) : Option (String × Option (List (Expr × Val)) × List (Option Val)) :=
  match r with
  | none => none
  | some (.raised _, E) => some ("raised", none, readEnv E)
  | some (.notApplicable, E) => some ("not-applicable", none, readEnv E)
  | some (.done (.ok obs), E) => some ("done", some obs, readEnv E)
  | some (.done (.error _), E) => some ("obs-raised", none, readEnv E)

/-- the hypotheses `mkEnv … = .ok E` and `keysInjective` of the theorems are met; the initial state:
    `a` = its per-fluent default TRUE (not the per-type default FALSE), the hidden atoms as chosen,
    `x` = its explicit value, `y` = the per-type default -/
example : keysInjective exC = true ∧
    readInit (mkEnv exC none id noFn exChoice) =
      some [some (.b true), some (.b false), some (.b true), some (.b false), some (.n 3), some (.n 7)] := by
  decide +kernel
/-- the solver's contract on the example: 3 models out of 8 assignments; a non-model is refused -/
example : (models exC none).map (fun m => m.map (·.2)) =
    [[false, true, false], [true, false, false], [true, false, true]] := by decide +kernel
example : readInit (mkEnv exC none id noFn [(eh o1, true), (eh o2, true), (eu, false)]) = none := by decide +kernel
/-- `a`, `x`, `y` are not hidden; `h(o2)` is -/
example : ¬ IsHidden exC (fa, []) ∧ ¬ IsHidden exC (fx, []) ∧ IsHidden exC (fh, [.o "o2"]) ∧ IsHidden exC (fu, []) := by
  have h1 : ∀ x ∈ exC.hidden, keyOf? (atomOf x) ≠ some (fa, []) := by decide +kernel
  have h2 : ∀ x ∈ exC.hidden, keyOf? (atomOf x) ≠ some (fx, []) := by decide +kernel
  exact ⟨fun ⟨x, hx, hk⟩ => h1 x hx hk, fun ⟨x, hx, hk⟩ => h2 x hx hk,
         ⟨eh o2, (by decide +kernel), (by decide +kernel)⟩, ⟨.app .not [eu], (by decide +kernel), (by decide +kernel)⟩⟩
/-- the oneof has exactly one true member, the or at least one (here `Not(u)`) -/
example : [eh o1, eh o2].countP (holdsIn E0) = 1 ∧ holdsIn E0 (.app .not [eu]) = true := by decide +kernel
/-- a sensing action WITH an effect: the effect is executed and the observation shows the NEW value of `h(o2)` -/
example : summary (E0.apply "sense" ["o2"]) =
    some ("done", some [(eh o2, .b false), (ea, .b true)],
          [some (.b true), some (.b false), some (.b false), some (.b false), some (.n 3), some (.n 7)]) := by
  decide +kernel
/-- an ordinary action observes nothing; the goal is reached afterwards; a second `inc` … -/
example : summary (E0.apply "inc" []) =
    some ("done", some [], [some (.b true), some (.b false), some (.b true), some (.b false), some (.n 4), some (.n 7)]) ∧
    E0.isGoalReached = .ok false ∧ (E0.run [("inc", [])]).isGoalReached = .ok true := by decide +kernel
/-- … and a third one leave the bounded type `int[0,5]`: refused, state unchanged -/
example : summary ((E0.run [("inc", []), ("inc", [])]).apply "inc" []) =
    some ("not-applicable", none,
          [some (.b true), some (.b false), some (.b true), some (.b false), some (.n 5), some (.n 7)]) := by
  decide +kernel
/-- with `max_constraints = 1` the or constraint is still used (the test sits after the append) -/
example : usedOrs exC (some 1) = exC.ors ∧ usedOrs { exC with ors := exC.ors ++ [[eu]] } (some 1) = exC.ors := by
  decide +kernel
end examples

end UPVerif.C35
