import UPVerif.Lemmas.PlanConvLemmas
import UPVerif.Lemmas.PlanConvBack
import UPVerif.Lemmas.PlanConvEps
import UPVerif.Props.C25
/-!
# C26 — Time-triggered and STN plan conversions are faithful

Statements only (model and vocabulary: `Core/PlanConv.lean`; helper lemmas: `Lemmas/PlanConvLemmas.lean`,
`Lemmas/PlanConvBack.lean`, `Lemmas/PlanConvEps.lean`; the `DeltaSTN` theorems reused here: `Props/C25.lean`).

Reading of the model.  `inp : Input` is the timing skeleton of one call
`TimeTriggeredPlan.convert_to(STN_PLAN, problem)`: `problem.epsilon`, the timings of the problem's timed
effects/goals, the plan's `(start, duration, action shape)` entries and — as an input — the ordering
edges `inp.adj` that the real deordering (`SequentialPlan → PartialOrderPlan`, property C27) and
`networkx.transitive_reduction` produced for the event sequence `seqEvents inp`.
`convertToStn fuel inp = some s` reads: the conversion ran (every `_inc_check` returned within `fuel`
pops; `C26_conversion_terminates`: some fuel always suffices) and `s` is the `DeltaSTN` inside the
resulting `STNPlan`.  `insertions inp` are the difference constraints `x - y ≤ b` it received, i.e. the
constraints of the STN plan.  `origTime inp H` is the schedule of the ORIGINAL plan (plan start 0, every
START at the entry's start time, every END at start + duration, plan end `H`).  `model s` is the
schedule `_convert_to_time_triggered` reads back (`get_stn_model` = `-distance`).

All theorems are for every input: any number of entries, any rational times, any edge list.

What is NOT proved here: that the back-converted plan is VALID for the problem needs a semantics of
temporal plans (the validator's, properties C04/C05) and the sufficiency of the deordering's edges
(C27); `C26_back_valid_partial` derives it from exactly that hypothesis, `C26_back_valid_full` is the
statement that stays open (checked differentially on the real validator by `harness/props/C26.py`).
-/
namespace UPVerif.C26
open UPVerif.STN UPVerif.PlanConv UPVerif.C25

/-! ## "the original start times and durations satisfy all of its constraints" -/

/-- If the ordering edges respect the time order of the plan and distinct happenings are at least ε
apart, the original start times and durations satisfy EVERY constraint of the STN plan (the
`0 ≤ node ≤ plan end` ones added by `STNPlan.__init__` included), for any plan end `H` not before the
last start/end. -/
theorem C26_original_satisfies (inp : Input) (H : Rat) (hnn : NonNegative inp) (h0 : 0 ≤ H)
    (hH : ∀ e ∈ inp.plan, e.start ≤ H ∧ e.start + (e.dur.map fun p => p.1).getD 0 ≤ H)
    (hedges : EdgesRespectTime inp) (hsep : Separated (epsilonOf inp) (seqEvents inp)) :
    Sol (origTime inp H) (insertions inp) :=
  orig_sol inp H hnn h0 hH hedges hsep

/-- The deordering of a sequential plan only produces edges that point forward in the sequence; since
the event sequence is sorted by time, such edges respect the time order (hypothesis `hedges` above). -/
theorem C26_forward_edges_respect_time (inp : Input) (h : EdgesForward inp) : EdgesRespectTime inp :=
  forward_respects inp h

/-! ## "the STN plan obtained by conversion is consistent" -/

/-- … hence (C25: the DeltaSTN reports consistency iff its constraints have a solution) the STN plan is
consistent -/
theorem C26_consistent (inp : Input) (hnn : NonNegative inp) (hedges : EdgesRespectTime inp)
    (hsep : Separated (epsilonOf inp) (seqEvents inp)) (fuel : Nat) (s : Net Node)
    (h : convertToStn fuel inp = some s) : isConsistent s = true := by
  obtain ⟨h0, hH⟩ := horizon_spec inp
  exact (C25_consistent_iff fuel (insertions inp) s h).mpr
    ⟨origTime inp (horizonOf inp), orig_sol inp _ hnn h0 hH hedges hsep⟩

/-- the conversion always returns: some fuel lets every `_inc_check` of `STNPlan.__init__` finish -/
theorem C26_conversion_terminates (inp : Input) : ∃ fuel s, convertToStn fuel inp = some s :=
  C25_terminates (insertions inp)

/-- Without the separation hypothesis the clause fails: with an explicit `problem.epsilon = 1/2`, a timed
goal over `[1, 7/4)` and an instantaneous action at time 1 that writes the goal's fluent (happenings at
0, 1, 7/4: all at least 1/2 apart), the conversion places a goal event at `7/4 - 1/2 = 5/4`, only 1/4
after the action, and asks for a separation of 1/2: the STN plan is inconsistent.  (Known finding
D-C26a; on the real code: `harness/props/C26.py` `FINDING_WITNESS`.) -/
def explicitEpsilonWitness : Input :=
  { eps := some (1 / 2),
    mock := { effs := [], conds := [{ lower := ⟨true, 1⟩, upper := ⟨true, 7 / 4⟩, lopen := false, ropen := true }] },
    plan := [{ start := 1, dur := none }],
    adj := [(0, [1]), (1, [2]), (2, [])] }

def C26_consistent_without_separation_full : Prop :=
  ∀ (inp : Input), NonNegative inp → EdgesForward inp → ∀ fuel s, convertToStn fuel inp = some s →
    isConsistent s = true

theorem C26_consistent_without_separation_refuted : ¬ C26_consistent_without_separation_full := by
  intro h
  have hnn : NonNegative explicitEpsilonWitness := by
    intro e he
    simp only [explicitEpsilonWitness, List.mem_singleton] at he
    subst he
    exact ⟨by decide +kernel, fun p hp => by cases hp⟩
  have hfw : EdgesForward explicitEpsilonWitness := by
    intro p hp j hj
    simp only [explicitEpsilonWitness, List.mem_cons, List.not_mem_nil, or_false] at hp
    rcases hp with rfl | rfl | rfl <;> simp_all
  have := h explicitEpsilonWitness hnn hfw 100 ((convertToStn 100 explicitEpsilonWitness).get (by decide +kernel)) (by simp)
  revert this
  decide +kernel

/-- the one branch of the mirrored code the model leaves out — `flatten_dict_structure` yielding
`(k, None, None, k)` for a key with an empty list — is never taken on the dictionaries `_convert_to_stn`
builds: no key has an empty list -/
theorem C26_no_empty_constraint_list (inp : Input) : ∀ k v, (k, v) ∈ stnConstraints inp → v ≠ [] :=
  noEmpty_stnConstraints inp

/-! ## when is "distinct happenings are at least ε apart" guaranteed? -/

/-- Every event time is a member of the set `times` of `extract_epsilon` (start, end, effect and
condition-bound times), possibly moved by `+ε` / `-ε` for an open interval end.  If distinct members of
`times` are at least `3ε` apart, the events are `ε`-separated — for any epsilon, declared or derived. -/
theorem C26_separated_of_gap (inp : Input) (hm : MockFromStart inp)
    (hg : ∀ b1 ∈ epsilonTimes inp, ∀ b2 ∈ epsilonTimes inp, b1 < b2 → 3 * epsilonOf inp ≤ b2 - b1) :
    Separated (epsilonOf inp) (seqEvents inp) :=
  separated_of_bases inp hm hg

/-- When `problem.epsilon` is `None` the conversion derives ε from the plan (`extract_epsilon / 10`, capped
at 1/1000): the separation hypothesis then ALWAYS holds (all times non-negative). -/
theorem C26_auto_epsilon_separated (inp : Input) (heps : inp.eps = none) (hm : MockFromStart inp)
    (hT : ∀ b ∈ epsilonTimes inp, 0 ≤ b) : Separated (epsilonOf inp) (seqEvents inp) :=
  separated_of_bases inp hm (auto_gap inp heps hT)

/-- … so, for problems without a declared epsilon, the STN plan of ANY plan with forward ordering edges is
consistent and is satisfied by the original times — no hypothesis on the plan's happenings is left. -/
theorem C26_consistent_auto_epsilon (inp : Input) (heps : inp.eps = none) (hm : MockFromStart inp)
    (hT : ∀ b ∈ epsilonTimes inp, 0 ≤ b) (hnn : NonNegative inp) (hfw : EdgesForward inp)
    (fuel : Nat) (s : Net Node) (h : convertToStn fuel inp = some s) :
    isConsistent s = true ∧ Sol (origTime inp (horizonOf inp)) (insertions inp) := by
  have hsep := C26_auto_epsilon_separated inp heps hm hT
  have hedges := forward_respects inp hfw
  obtain ⟨h0, hH⟩ := horizon_spec inp
  exact ⟨C26_consistent inp hnn hedges hsep fuel s h, orig_sol inp _ hnn h0 hH hedges hsep⟩

/-! ## "converting that STN plan back …": the times of the back-converted plan -/

/-- While the STN plan is consistent, `convert_to(TIME_TRIGGERED_PLAN)` returns a plan that contains
every instance of the original plan exactly once (no index twice, no foreign index, every index
present), started at the least model's time of its START node and with EXACTLY its original duration. -/
theorem C26_back_times (inp : Input) (fuel : Nat) (s : Net Node)
    (h : convertToStn fuel inp = some s) (hs : isConsistent s = true) :
    ∃ l, convertToTimeTriggered s = some l ∧ (l.map (fun x => x.2.1)).Nodup ∧
      (∀ x ∈ l, x.2.1 < inp.plan.length) ∧
      (∀ i e, inp.plan[i]? = some e → (model s (.start i), i, e.dur.map (fun p => p.1)) ∈ l) :=
  back_spec inp fuel s h hs

/-- the schedule read back satisfies every constraint of the STN plan and is non-negative -/
theorem C26_back_satisfies (inp : Input) (fuel : Nat) (s : Net Node)
    (h : convertToStn fuel inp = some s) (hs : isConsistent s = true) :
    Sol (model s) (insertions inp) ∧ ∀ n, 0 ≤ model s n :=
  ⟨C25_sat_sound fuel (insertions inp) s h hs, C25_model_nonneg fuel (insertions inp) s h hs⟩

/-- … and is the earliest one: no instance starts later than in the original plan, and the plan itself
still starts at 0 (so timed effects and goals keep their absolute times) -/
theorem C26_back_not_later (inp : Input) (hnn : NonNegative inp) (hedges : EdgesRespectTime inp)
    (hsep : Separated (epsilonOf inp) (seqEvents inp)) (fuel : Nat) (s : Net Node)
    (h : convertToStn fuel inp = some s) (hs : isConsistent s = true) :
    model s .startPlan = 0 ∧ ∀ i e, inp.plan[i]? = some e → model s (.start i) ≤ e.start := by
  obtain ⟨h0, hH⟩ := horizon_spec inp
  have hsol := orig_sol inp _ hnn h0 hH hedges hsep
  have hpos : ∀ v ∈ events (insertions inp), 0 ≤ origTime inp (horizonOf inp) v :=
    fun v _ => (orig_bounds inp _ hnn h0 hH v).1
  have hle := C25_least fuel (insertions inp) s h hs _ hsol hpos
  have hsp : Node.startPlan ∈ events (insertions inp) := by
    simp [events, insertions, insertionsOf]
  constructor
  · have h1 := hle _ hsp
    have h2 := C25_model_nonneg fuel (insertions inp) s h hs .startPlan
    simp only [origTime] at h1
    grind
  · intro i e hi
    have := hle _ (entry_nodes inp i e hi).1
    simpa [origTime, hi] using this

/-! ## the round trip keeps the order of every pair of events connected by an edge -/

/-- For every ordering edge `cur → nxt`: events of the same instance keep their distance; events of
different instances that were simultaneous stay simultaneous; otherwise `nxt` still happens after `cur`,
by at least ε. -/
theorem C26_roundtrip_order (inp : Input) (fuel : Nat) (s : Net Node)
    (h : convertToStn fuel inp = some s) (hs : isConsistent s = true)
    (p : Nat × List Nat) (hp : p ∈ inp.adj) (j : Nat) (hj : j ∈ p.2) (cur nxt : Event)
    (hc : (seqEvents inp)[p.1]? = some cur) (hn : (seqEvents inp)[j]? = some nxt) :
    (cur.gen = nxt.gen →
      eventTimeUnder (model s) nxt - eventTimeUnder (model s) cur = nxt.time - cur.time) ∧
    (cur.gen ≠ nxt.gen → cur.time = nxt.time →
      eventTimeUnder (model s) nxt = eventTimeUnder (model s) cur) ∧
    (cur.gen ≠ nxt.gen → cur.time ≠ nxt.time →
      eventTimeUnder (model s) cur + epsilonOf inp ≤ eventTimeUnder (model s) nxt) := by
  have hsol := C25_sat_sound fuel (insertions inp) s h hs
  have tc := event_time inp 0 cur ((mem_seqEvents inp cur).mp (List.mem_of_getElem? hc))
  have tn := event_time inp 0 nxt ((mem_seqEvents inp nxt).mp (List.mem_of_getElem? hn))
  refine ⟨?_, ?_, ?_⟩
  · intro hg
    simp only [eventTimeUnder]
    rw [hg] at tc ⊢
    grind
  · intro hg ht
    have hb : edgeBound (epsilonOf inp) cur nxt =
        some (cur.skew - nxt.skew, some (cur.skew - nxt.skew), startNodeOf nxt.gen) := by
      simp [edgeBound, hg, ht]
    obtain ⟨c1, c2, _⟩ := insertions_of_inDict _ _ _ _ _ (edge_constraint inp p hp j hj cur nxt _ hc hn hb)
    have h1 := hsol _ c1
    have h2 := hsol _ (c2 _ rfl)
    simp only [eventTimeUnder] at h1 h2 ⊢
    grind
  · intro hg ht
    have hb : edgeBound (epsilonOf inp) cur nxt =
        some (cur.skew - nxt.skew + epsilonOf inp, none, startNodeOf nxt.gen) := by
      simp [edgeBound, hg, ht]
    obtain ⟨c1, _, _⟩ := insertions_of_inDict _ _ _ _ _ (edge_constraint inp p hp j hj cur nxt _ hc hn hb)
    have h1 := hsol _ c1
    simp only [eventTimeUnder] at h1 ⊢
    grind

/-! ## "… yields a plan that is still valid for the problem" -/

/-- a schedule `t` of the plan's nodes keeps what the conversion extracted from the original plan: the plan
starts at 0, nothing is scheduled before it, every durative instance keeps its duration, and every
ordering edge is kept (simultaneous events of different instances stay simultaneous, the others stay
ordered by at least ε) -/
def KeepsOrder (inp : Input) (t : Node → Rat) : Prop :=
  t .startPlan = 0 ∧ (∀ n, 0 ≤ t n) ∧
  (∀ i e du sh, inp.plan[i]? = some e → e.dur = some (du, sh) → t (.finish i) - t (.start i) = du) ∧
  ∀ p ∈ inp.adj, ∀ j ∈ p.2, ∀ cur nxt, (seqEvents inp)[p.1]? = some cur → (seqEvents inp)[j]? = some nxt →
    (cur.time = nxt.time → eventTimeUnder t nxt = eventTimeUnder t cur) ∧
    (cur.time ≠ nxt.time → eventTimeUnder t cur + epsilonOf inp ≤ eventTimeUnder t nxt)

/-- the schedule of the back-converted plan keeps the order extracted from the original plan -/
theorem C26_back_keeps_order (inp : Input) (hnn : NonNegative inp) (hedges : EdgesRespectTime inp)
    (hsep : Separated (epsilonOf inp) (seqEvents inp)) (fuel : Nat) (s : Net Node)
    (h : convertToStn fuel inp = some s) : KeepsOrder inp (model s) := by
  have hs := C26_consistent inp hnn hedges hsep fuel s h
  have hsol := C25_sat_sound fuel (insertions inp) s h hs
  refine ⟨(C26_back_not_later inp hnn hedges hsep fuel s h hs).1,
    C25_model_nonneg fuel (insertions inp) s h hs,
    fun i e du sh hi hd => duration_kept inp (model s) hsol i e du sh hi hd, ?_⟩
  intro p hp j hj cur nxt hc hn
  obtain ⟨r1, r2, r3⟩ := C26_roundtrip_order inp fuel s h hs p hp j hj cur nxt hc hn
  have hle := hedges p hp j hj cur nxt hc hn
  by_cases hg : cur.gen = nxt.gen
  · have := r1 hg
    constructor
    · intro ht; grind
    · intro ht
      have hlt : cur.time < nxt.time := by
        rcases Rat.le_iff_lt_or_eq.mp hle with h' | h'
        · exact h'
        · exact (ht h').elim
      have := hsep cur (List.mem_of_getElem? hc) nxt (List.mem_of_getElem? hn) hlt
      grind
  · exact ⟨r2 hg, r3 hg⟩

/-- The full clause: for every notion `Valid inp t` of "the time-triggered plan that schedules the plan's
instances by `t` is valid for the problem", validity of the original schedule carries over to the schedule
read back from the STN plan.  NOT proved: it needs the temporal semantics of plans (C04/C05) and the
sufficiency of the deordering's edges (C27). -/
def C26_back_valid_full (Valid : Input → (Node → Rat) → Prop) : Prop :=
  ∀ (inp : Input), NonNegative inp → EdgesRespectTime inp → Separated (epsilonOf inp) (seqEvents inp) →
    Valid inp (origTime inp (horizonOf inp)) →
    ∀ fuel s, convertToStn fuel inp = some s → Valid inp (model s)

/-- Proved part: the clause holds for every `Valid` that is determined by the extracted order, i.e. such
that every schedule keeping the durations and the ordering edges of a valid plan is valid (for
sequentialised instantaneous plans this is C27's theorem "every linearisation of the deordered plan is
valid"; for durative plans it is the unproved part). -/
theorem C26_back_valid_partial (Valid : Input → (Node → Rat) → Prop)
    (hC27 : ∀ inp t, Valid inp (origTime inp (horizonOf inp)) → KeepsOrder inp t → Valid inp t) :
    C26_back_valid_full Valid := by
  intro inp hnn hedges hsep hv fuel s h
  exact hC27 inp (model s) hv (C26_back_keeps_order inp hnn hedges hsep fuel s h)

/-! ## non-vacuity: a concrete conversion meeting the hypotheses -/

section examples

/-- a durative action `a` (start 1, duration 2, effects at start and at end, a condition over the OPEN
interval `(start, end)`) and an instantaneous action `b` at time 2 that needs `a`'s start effect and is
undone by `a`'s end effect; no explicit epsilon.  Events: a@1, a@1+ε, b@2, a@3-ε, a@3 (ε = 1/1000);
adjacency as returned by the real deordering. -/
def exInp : Input :=
  { eps := none, mock := { effs := [], conds := [] },
    plan := [{ start := 1, dur := some (2, { effs := [⟨true, 0⟩, ⟨false, 0⟩],
                                              conds := [{ lower := ⟨true, 0⟩, upper := ⟨false, 0⟩, lopen := true, ropen := true }] }) },
             { start := 2, dur := none }],
    adj := [(0, [2, 3, 1]), (1, [4]), (2, [4]), (3, [4]), (4, [])] }

example : epsilonOf exInp = 1 / 1000 ∧ (seqEvents exInp).map (fun e => (e.time, e.gen)) =
    [(1, some 0), (1001 / 1000, some 0), (2, some 1), (2999 / 1000, some 0), (3, some 0)] := by
  decide +kernel

/-- hypothesis `hnn` -/
example : NonNegative exInp := by
  intro e he
  simp only [exInp, List.mem_cons, List.not_mem_nil, or_false] at he
  rcases he with rfl | rfl
  · exact ⟨by decide +kernel, fun p hp => by cases hp; decide +kernel⟩
  · exact ⟨by decide +kernel, fun p hp => by cases hp⟩

/-- hypothesis `EdgesForward` (hence `hedges`) -/
example : EdgesForward exInp := by
  intro p hp j hj
  simp only [exInp, List.mem_cons, List.not_mem_nil, or_false] at hp
  rcases hp with rfl | rfl | rfl | rfl | rfl <;> simp_all <;> omega

/-- hypothesis `hsep` -/
example : Separated (epsilonOf exInp) (seqEvents exInp) := by
  unfold Separated
  decide +kernel

/-- hypotheses `h`, `hs` of the back-conversion theorems, and what they give here: the conversion returns,
the STN plan is consistent, `a` is moved to time 0 with its duration 2 and `b` to 1/1000 -/
example : ∃ s, convertToStn 100 exInp = some s ∧ isConsistent s = true ∧
    convertToTimeTriggered s = some [(0, 0, some 2), (1 / 1000, 1, none)] := by
  refine ⟨(convertToStn 100 exInp).get (by decide +kernel), by simp, ?_, ?_⟩ <;> decide +kernel

/-- a problem with a timed effect at 1 and a right-open timed goal over `[1/2, 3)`, an instantaneous action
at 2 and again at 3/2 (listed out of time order) that needs the timed effect and writes the goal's fluent;
no explicit epsilon.  Adjacency as returned by the real deordering. -/
def exTimed : Input :=
  { eps := none,
    mock := { effs := [⟨true, 1⟩], conds := [{ lower := ⟨true, 1 / 2⟩, upper := ⟨true, 3⟩, lopen := false, ropen := true }] },
    plan := [{ start := 2, dur := none }, { start := 3 / 2, dur := none }],
    adj := [(0, [2]), (1, [2]), (2, [3]), (3, [4]), (4, [])] }

/-- hypotheses `heps`, `hm`, `hT` of `C26_auto_epsilon_separated` / `C26_consistent_auto_epsilon`, on an
input where they are not trivial (timed happenings present, derived ε = 1/1000, an event at `3 - ε`) -/
example : exTimed.eps = none ∧ MockFromStart exTimed ∧ (∀ b ∈ epsilonTimes exTimed, 0 ≤ b) ∧
    epsilonOf exTimed = 1 / 1000 ∧
    (seqEvents exTimed).map (fun e => (e.time, e.gen)) =
      [(1 / 2, none), (1, none), (3 / 2, some 1), (2, some 0), (2999 / 1000, none)] := by
  refine ⟨rfl, ⟨?_, ?_⟩, ?_, ?_, ?_⟩
  · intro t ht; simp only [exTimed, List.mem_singleton] at ht; subst ht; rfl
  · intro iv hiv; simp only [exTimed, List.mem_singleton] at hiv; subst hiv; exact ⟨rfl, rfl⟩
  · decide +kernel
  · decide +kernel
  · decide +kernel

/-- the gap hypothesis `hg` of `C26_separated_of_gap` for a DECLARED epsilon: the boundary of the finding
(ε = 1/4, a third of the smallest gap 3/4) still meets it -/
example : let inp := { explicitEpsilonWitness with eps := some (1 / 4) }
    ∀ b1 ∈ epsilonTimes inp, ∀ b2 ∈ epsilonTimes inp, b1 < b2 → 3 * epsilonOf inp ≤ b2 - b1 := by
  decide +kernel

/-- the witness of the refuted clause is a genuine run: it returns and reports inconsistency -/
example : ∃ s, convertToStn 100 explicitEpsilonWitness = some s ∧ isConsistent s = false := by
  refine ⟨(convertToStn 100 explicitEpsilonWitness).get (by decide +kernel), by simp, ?_⟩
  decide +kernel

/-- `C26_back_valid_partial` is not vacuous: `KeepsOrder` itself is a `Valid` meeting `hC27` -/
example : C26_back_valid_full (fun inp t => KeepsOrder inp t) :=
  C26_back_valid_partial _ (fun _ _ _ hk => hk)

end examples

end UPVerif.C26
