import UPVerif.Lemmas.TTSeq
import UPVerif.Lemmas.TTAdmissible
import UPVerif.Lemmas.SimCorollaries
/-!
# C04 — Time-triggered and sequential validation agree on instantaneous plans

Statements only (helper lemmas: `Lemmas/TTSeq.lean` on top of the lemma files of C05 —
`Lemmas/TTInterval.lean`, `TTMerge.lean`, `TTApply.lean`, `TTLoop.lean`, `TTFinish.lean`, `TTMain.lean` —
and of C01 — `Lemmas/SimFold.lean`, `SimApply.lean`).

* `TT.validate` (`Core/TT.lean`) mirrors `TimeTriggeredPlanValidator._validate`;
* `TT.seqValidate` (`Core/TT.lean`) mirrors the status part of `SequentialPlanValidator._validate` on top
  of C01's model of the simulator (`Core/Sim.lean`); both are tied to /repo by the correspondence check.

The route of the proof: both verdicts are equivalent to ONE step-by-step chain over the action
instances in start-time order — ground the instance, its preconditions TRUE in the state before, its
fired effects consistent and applied, every state invariant (bounds of bounded fluents included)
TRUE in the state after; the invariants TRUE in the initial state and the goals in the last one.
On the time-triggered side this uses C05's loop / merge / interval lemmas (one event per instant,
point intervals for preconditions, the interval `[0, ∞)` for invariants), on the sequential side C01's
fold lemma.
-/
namespace UPVerif.C04
open UPVerif UPVerif.Expr UPVerif.Sim UPVerif.TT UPVerif.Spec UPVerif.Spec.Temporal

/-- MAIN THEOREM.  For every problem (with instantaneous actions only, no timed effects or goals:
    `TProblem.empty`), every simplifier and every time-triggered plan of instantaneous action
    instances with pairwise distinct, non-negative start times: the time-triggered validator returns
    VALID iff the sequential validator returns VALID on the same instances in start-time order.
    No bound on the length of the plan; both directions are equalities of results (neither
    validator raises where the other accepts).  An initial state violating its invariants makes
    neither return VALID, so the hypothesis of the property on the initial state is not needed.
    `condsBoolean`: along the sequential execution every effect condition evaluates to a Boolean
    (decidable; the library's typing discipline — the sequential simulator skips an effect whose
    condition is a non-Boolean constant, the time-triggered validator asserts it is Boolean). -/
theorem C04_agree (W : World) (π : List Step)
    (hinst : ∀ st ∈ π, ∃ act, st.act = .inst act)
    (hdist : (π.map (·.start)).Nodup) (hpos : ∀ st ∈ π, 0 ≤ st.start)
    (hbool : condsBoolean W (seqPlanOf π) = true) :
    validate W TProblem.empty π = .ok .valid ↔ seqValidate W (seqPlanOf π) = .ok .valid :=
  agree W π hinst hdist hpos hbool

/-- "the same action instances in start-time order": the sequential plan compared with is a
    rearrangement of the plan's entries with non-decreasing — for distinct start times, increasing —
    start times -/
theorem C04_order_is_start_time_order (π : List Step) :
    (procOrder (indexed π)).Perm (indexed π) ∧ ActsSorted (procOrder (indexed π)) ∧
    ((π.map (·.start)).Nodup → StartsAsc (procOrder (indexed π))) :=
  ⟨procOrder_perm _, procOrder_sorted _, fun h => startsAsc_of_sorted_nodup (procOrder_sorted _) (procOrder_starts_nodup h)⟩

/-- "the time-triggered validator enforces state invariants": a plan it accepts (any admissible
    temporal plan, not only instantaneous ones) keeps every state invariant — the problem's `Always`
    bodies and the bounds of bounded fluents (`Sim.invariants`) — TRUE in the state in force at every
    time point from 0 on: the initial state and the state after every instant, the last one included -/
theorem C04_tt_enforces_invariants (W : World) (T : TProblem) (π : List Step) (hadm : Admissible W T π = true)
    (h : validate W T π = .ok .valid) :
    ∃ E C s0 tl, items W T π = some (E, C) ∧ initialState? W.P = some s0 ∧
      timeline W E (s0.get W.P) (happenings E) = some tl ∧
      ∀ inv ∈ invariants W, ∀ p, 0 ≤ p → HoldsIn W (stateAt (s0.get W.P) tl p) inv := by
  obtain ⟨E, C, s0, hitems, hs0, tl, htl, hconds, _⟩ := (validate_valid_iff_listing W T π hadm).1 h
  refine ⟨E, C, s0, tl, hitems, hs0, htl, ?_⟩
  intro inv hi p hp
  have hmem : (⟨0, none, false, false, inv, none⟩ : DCond) ∈ C := by
    unfold itemsOf at hitems
    split at hitems
    · cases hitems
      simp only [List.mem_append]
      left; right
      simp only [invariantConds, List.mem_map]
      exact ⟨inv, hi, rfl⟩
    · cases hitems
  exact hconds _ hmem p (inInterval_from0.2 hp)

/-- "the time-triggered validator enforces bounded numeric types": … in particular every ground
    instance of a bounded fluent stays within its bounds -/
theorem C04_tt_enforces_bounds (W : World) (T : TProblem) (π : List Step) (hadm : Admissible W T π = true)
    (h : validate W T π = .ok .valid) :
    ∃ E C s0 tl, items W T π = some (E, C) ∧ initialState? W.P = some s0 ∧
      timeline W E (s0.get W.P) (happenings E) = some tl ∧
      ∀ d ∈ W.P.fluents, ∀ fe ∈ allFluentExps W.P d.ref, ∀ p, 0 ≤ p →
        (∀ l ub, boundsOf d.ref.ty = (some l, ub) → HoldsIn W (stateAt (s0.get W.P) tl p) (Expr.mkLE l fe)) ∧
        (∀ lb u, boundsOf d.ref.ty = (lb, some u) → HoldsIn W (stateAt (s0.get W.P) tl p) (Expr.mkLE fe u)) := by
  obtain ⟨E, C, s0, tl, h1, h2, h3, h4⟩ := C04_tt_enforces_invariants W T π hadm h
  refine ⟨E, C, s0, tl, h1, h2, h3, ?_⟩
  intro d hd fe hfe p hp
  exact ⟨fun l ub hb => h4 _ (lower_bound_mem hd hb hfe) p hp, fun lb u hb => h4 _ (upper_bound_mem hd hb hfe) p hp⟩

/-- … and the sequential validator enforces them as well (C01's `bounds_and_invariants_hold_in_successor`
    along the chain): every state of a plan it accepts satisfies every invariant -/
theorem C04_seq_enforces_invariants (W : World) (plan : List (Action × List String))
    (h : seqValidate W plan = .ok .valid) :
    ∃ s0, getInitialState W = .ok (some s0) ∧ (∀ inv ∈ invariants W, evalBool (ctx W s0) inv = .ok true) ∧
      ChainQ W plan s0 := by
  obtain ⟨s0, h1, h2⟩ := (seqValidate_valid_iff W plan).1 h
  exact ⟨s0, h1, (getInitialState_some.1 h1).2, h2⟩

section examples
/-! ## non-vacuity: one concrete problem

fluents `x : int[0,3] = 1`, `b : bool = false`; goal `b`.
* `inc`: precondition `x <= 2`, effect `x += 1`;
* `setb`: effect `b := true` if `2 <= x`, and the same-value double assignment `x := 3` if `1 <= x`, `x := 3` if
  `2 <= x` (same value twice by one instance: fine in both validators). -/
def fx : FluentRef := ⟨"x", .int (some 0) (some 3), []⟩
def fb : FluentRef := ⟨"b", .bool, []⟩
def ex : Expr := .app (.fluent fx) []
def eb : Expr := .app (.fluent fb) []
def eff (f v c : Expr) (k : EffKind) : Effect := { fluent := f, value := v, cond := c, kind := k, forall_ := [] }
def inc : Action := { name := "inc", params := [], pre := [Expr.mkLE ex (Expr.int 2)], effs := [eff ex (Expr.int 1) Expr.tt .increase] }
def setb : Action := { name := "setb", params := [], pre := [], effs := [
  eff eb Expr.tt (Expr.mkLE (Expr.int 2) ex) .assign,
  eff ex (Expr.int 3) (Expr.mkLE (Expr.int 1) ex) .assign, eff ex (Expr.int 3) (Expr.mkLE (Expr.int 2) ex) .assign] }
def P0 : Problem where
  name := "ex"
  types := ⟨[]⟩
  objects := []
  fluents := [⟨fx, some (Expr.int 1)⟩, ⟨fb, some Expr.ff⟩]
  init := []
  actions := [inc, setb]
  goals := [eb]
  traj := []
  metrics := []
def W0 : World := { P := P0, simp := id, fn := fun _ _ => none }
/-- listed out of time order: `setb` at 5/2, `inc` at 1 -/
def plan1 : List Step := [⟨5/2, .inst setb, [], none⟩, ⟨1, .inst inc, [], none⟩]
/-- `inc` three times: the last one pushes `x` out of `[0,3]` (nothing happens afterwards) -/
def plan2 : List Step := [⟨0, .inst inc, [], none⟩, ⟨2, .inst inc, [], none⟩, ⟨1, .inst inc, [], none⟩]

/-- the hypotheses of `C04_agree` are met by both plans -/
example : (∀ st ∈ plan1, ∃ act, st.act = .inst act) ∧ (plan1.map (·.start)).Nodup ∧ (∀ st ∈ plan1, 0 ≤ st.start) ∧
    condsBoolean W0 (seqPlanOf plan1) = true := by
  refine ⟨?_, by decide +kernel, by decide +kernel, by decide +kernel⟩
  intro st hst
  simp only [plan1, List.mem_cons, List.not_mem_nil, or_false] at hst
  rcases hst with rfl | rfl
  · exact ⟨setb, rfl⟩
  · exact ⟨inc, rfl⟩
example : (plan2.map (·.start)).Nodup ∧ (∀ st ∈ plan2, 0 ≤ st.start) ∧ condsBoolean W0 (seqPlanOf plan2) = true := by
  decide +kernel
/-- both validators accept `plan1` (the sequential one sees `inc` first) … -/
example : validate W0 TProblem.empty plan1 = .ok .valid ∧ seqValidate W0 (seqPlanOf plan1) = .ok .valid ∧
    (seqPlanOf plan1).map (·.1.name) = ["inc", "setb"] := by decide +kernel
/-- … and both reject `plan2`, the time-triggered one because the bound of `x` fails in the LAST state -/
example : validate W0 TProblem.empty plan2 = .ok (.invalid .goals none) ∧
    seqValidate W0 (seqPlanOf plan2) = .ok (.invalid .inapplicable (some 2)) := by decide +kernel
/-- the hypotheses of `C04_tt_enforces_invariants` / `_bounds` are met by `plan1` -/
example : Admissible W0 TProblem.empty plan1 = true ∧ validate W0 TProblem.empty plan1 = .ok .valid ∧
    (invariants W0).length = 2 := by decide +kernel
end examples

end UPVerif.C04
