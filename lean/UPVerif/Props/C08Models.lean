import UPVerif.Lemmas.WellFormedModel
import UPVerif.Lemmas.WellFormedDnf
import UPVerif.Lemmas.WellFormedReal
import UPVerif.Lemmas.WellFormedDeclared
/-!
# C08 — the compiled problems of the compiler MODELS are well-formed

Statements only (helper lemmas: `Lemmas/WellFormed*.lean`).  `Core/WellFormed.lean` defines the decidable judgement
`WF.wfProblem` / the proposition `WF.WellFormed` on problem syntax — the property's "every name is unique, every
referenced action, fluent, object and type is declared" (plus: fluents are applied to as many arguments as their
signature has, parameters only occur in their own action).  `Core/Compile/Named.lean` adds the NAMES to the five
compiler models of C06/C07 (`cerCompileN`, `dcrCompileN`, `sirCompileN`, `btrCompileN`, `qrCompileN`): which compiled
actions are named by `get_fresh_name` against the problem under construction, which keep their name, and the name of
the fake goal fluent of the disjunctive-conditions remover.  Judgement and named models are tied to /repo by the
correspondence check of `harness/props/C08.py` (streams `wfcheck` and `model`).

For EACH of the five models, for ALL problems (no size bound):
* `…_preserves`: a well-formed problem compiles to a well-formed problem, and the map-back has one entry per compiled
  action, each `none` or a position of the ORIGINAL action list ("a plan back-conversion is available", total and
  landing in the original problem);
* `…_target`: the compiled problem is inside the compiler's declared target (no conditional effect / no disjunction in
  a precondition or goal / no quantifier and no forall effect / no state invariant / no fluent of a bounded type).

The statements are instances of the generic `CompilerModel.PreservesWF` / `CompilerModel.ReachesTarget`, which are
closed under `CompilersPipeline` composition (`C08_pipeline_preserves`, `C08_pipeline_target`): a new model only
provides an instance of `CompilerModel` and the two proofs.

Parameters and hypotheses (each with a non-vacuity `example`):
* the simplifier and the DNF walker are parameters (properties C11 / C12 own their models); what is assumed of them is
  "introduces no new symbol" (`SimpWF`, `DnfWF`) and, for the targets, "creates no quantifier" (`SimpQF`), "creates
  no disjunction" (`SimpDF`), "keeps the form of a trajectory constraint and creates no state invariant" (`SimpTraj`).
  `SimpWF` and `SimpQF` are PROVED for the simplifier model of C11 as the checks run it, `DnfWF` for the DNF walker
  of C12 (`C08_simplifier_no_new_symbols`, `C08_simplifier_no_new_quantifier`, `C08_dnf_no_new_symbols`), so
  `C08_models_preserve` and `C08_qr_target_real` have no such hypothesis left; `SimpDF` / `SimpTraj` stay assumed;
* fragment of the models: no quality metric (`MetricFree`; the models carry `problem.quality_metrics` over unchanged,
  the real compilers rewrite them); for the bounded-types remover default initial values are constants
  (`ConstDefaults`);
* the target of the disjunctive-conditions remover is reached w.r.t. the postcondition of the DNF walker on the
  conditions it is applied to (`DisjOut`: every disjunct is free of disjunctions — the real walker does not look
  inside quantifiers or fluent arguments); the target of the state-invariants remover for trajectory constraints of
  the form `Problem.add_trajectory_constraint` accepts (`TrajShaped`).
-/
namespace UPVerif.C08
open UPVerif UPVerif.Expr UPVerif.WF UPVerif.Compile UPVerif.Declared

/-! ## the judgement -/

/-- the driver's answer `(wf T _)` means exactly `WellFormed` -/
theorem C08_judgement_decides (P : Problem) : wfVerdict P = none ↔ WellFormed P :=
  (wfVerdict_none_iff P).trans (wellFormed_iff P).symm

/-! ## ConditionalEffectsRemover -/

theorem C08_cer_preserves (simp : Expr → Expr) (hs : SimpWF simp) : (cerModel simp).PreservesWF :=
  fun _ _ hP hm h => ⟨cer_wellFormed hs hP hm h, BackOK_of_backOK (cer_backOK h)⟩

/-- no hypothesis at all: whatever the simplifier does, no compiled action has a conditional effect -/
theorem C08_cer_target (simp : Expr → Expr) : (cerModel simp).ReachesTarget :=
  fun _ _ _ _ h => cer_target h

/-! ## DisjunctiveConditionsRemover -/

theorem C08_dcr_preserves (simp dnfE : Expr → Expr) (hs : SimpWF simp) (hd : DnfWF dnfE) :
    (dcrModel simp dnfE).PreservesWF :=
  fun _ _ hP hm h => ⟨dcr_wellFormed hs hd hP hm h, BackOK_of_backOK (dcr_backOK h)⟩

theorem C08_dcr_target (simp dnfE : Expr → Expr) (hs : SimpDF simp) : (dcrModel simp dnfE).ReachesTarget :=
  fun _ _ _ ht h => dcr_target hs ht.1 ht.2 h

/-- the DNF walker of property C12 (`Core/Walkers/Dnf.lean`, NNF first) introduces no new symbol when its simplifier
    introduces none: the hypothesis on the DNF walker is discharged for the walker the check runs -/
theorem C08_dnf_no_new_symbols (simp : Expr → Expr) (hs : SimpWF simp) : DnfWF (Expr.dnf simp) := DnfWF_dnf hs

theorem C08_dcr_preserves_with_dnf (simp : Expr → Expr) (hs : SimpWF simp) :
    (dcrModel simp (Expr.dnf simp)).PreservesWF := C08_dcr_preserves simp _ hs (DnfWF_dnf hs)

/-! ## QuantifiersRemover -/

theorem C08_qr_preserves (simp : Expr → Expr) (hs : SimpWF simp) : (qrModel simp).PreservesWF :=
  fun _ _ hP hm h => ⟨qr_wellFormed hs hP hm h, BackOK_of_backOK (qr_backOK h)⟩

theorem C08_qr_target (simp : Expr → Expr) (hq : SimpQF simp) : (qrModel simp).ReachesTarget :=
  fun _ _ _ _ h => qr_target hq h

/-! ## StateInvariantsRemover -/

theorem C08_sir_preserves (simp : Expr → Expr) (hs : SimpWF simp) : (sirModel simp).PreservesWF :=
  fun _ _ hP hm h => ⟨sir_wellFormed hs hP hm h, BackOK_of_backOK (sir_backOK h)⟩

theorem C08_sir_target (simp : Expr → Expr) (hs : SimpTraj simp) : (sirModel simp).ReachesTarget :=
  fun _ _ _ ht h => sir_target hs ht h

/-! ## BoundedTypesRemover -/

theorem C08_btr_preserves (simp : Expr → Expr) (hs : SimpWF simp) : (btrModel simp).PreservesWF :=
  fun _ _ hP hm h => ⟨btr_wellFormed hs hP hm.1 hm.2 h, BackOK_of_backOK (btr_backOK h)⟩

/-- no hypothesis at all -/
theorem C08_btr_target (simp : Expr → Expr) : (btrModel simp).ReachesTarget :=
  fun _ _ _ _ h => btr_target h

/-! ## pipelines -/

/-- `CompilersPipeline`: well-formedness and the composed map-back go through every stage -/
theorem C08_pipeline_preserves (M₁ M₂ : CompilerModel) (h₁ : M₁.PreservesWF) (h₂ : M₂.PreservesWF) :
    (M₁.pipe M₂).PreservesWF := PreservesWF.pipe h₁ h₂

theorem C08_pipeline_target (M₁ M₂ : CompilerModel) (h₂ : M₂.ReachesTarget) : (M₁.pipe M₂).ReachesTarget :=
  ReachesTarget.pipe h₂

/-- the pipeline `QuantifiersRemover → ConditionalEffectsRemover` (`pipe:qr+cer` of the end-to-end checks) on a
    well-formed metric-free problem: no side condition left -/
theorem C08_pipeline_qr_cer (simp : Expr → Expr) (hs : SimpWF simp) (P : Problem) (c : Compiled) (hP : WellFormed P)
    (hm : MetricFree P) (h : pipeCompile (qrCompileN simp) (cerCompileN simp) P = some c) :
    WellFormed c.prob ∧ BackOK P c ∧ noCondEffects c.prob = true := by
  have hdom : ((qrModel simp).pipe (cerModel simp)).dom P :=
    ⟨hm, fun c₁ hc₁ => (qr_metrics hc₁).trans hm⟩
  obtain ⟨h1, h2⟩ := C08_pipeline_preserves _ _ (C08_qr_preserves simp hs) (C08_cer_preserves simp hs) P c hP hdom h
  exact ⟨h1, h2, C08_pipeline_target (qrModel simp) _ (C08_cer_target simp) P c hdom (fun _ _ => trivial) h⟩

/-! ## the simplifier and DNF walker the checks run: hypotheses discharged

`Drv.C06.simpTotal (SimpCfg.empty E)` is what the driver hands to every compiler model: property C11's `simplify`
configured like `env.simplifier` (no problem, hence no static fluents and no interpreted-function tables), with a
marker leaf where the real simplifier raises.  `Expr.dnf` of it is property C12's DNF walker. -/

/-- the real simplifier introduces no new symbol (every fluent with its arity, object, parameter and type of the
    result occurs in the argument) -/
theorem C08_simplifier_no_new_symbols (E : TypeEnv) : SimpWF (Drv.C06.simpTotal (SimpCfg.empty E)) :=
  simpTotal_SimpWF E

/-- the real simplifier creates no quantifier -/
theorem C08_simplifier_no_new_quantifier (E : TypeEnv) : SimpQF (Drv.C06.simpTotal (SimpCfg.empty E)) :=
  simpTotal_SimpQF E

/-- the five models AS THE CHECK RUNS THEM keep well-formed problems well-formed, with total map-backs into the
    original problem — no hypothesis on simplifier or DNF walker left -/
theorem C08_models_preserve (E : TypeEnv) :
    (cerModel (Drv.C06.simpTotal (SimpCfg.empty E))).PreservesWF ∧
    (dcrModel (Drv.C06.simpTotal (SimpCfg.empty E)) (Expr.dnf (Drv.C06.simpTotal (SimpCfg.empty E)))).PreservesWF ∧
    (qrModel (Drv.C06.simpTotal (SimpCfg.empty E))).PreservesWF ∧
    (sirModel (Drv.C06.simpTotal (SimpCfg.empty E))).PreservesWF ∧
    (btrModel (Drv.C06.simpTotal (SimpCfg.empty E))).PreservesWF :=
  ⟨C08_cer_preserves _ (simpTotal_SimpWF E), C08_dcr_preserves_with_dnf _ (simpTotal_SimpWF E),
   C08_qr_preserves _ (simpTotal_SimpWF E), C08_sir_preserves _ (simpTotal_SimpWF E),
   C08_btr_preserves _ (simpTotal_SimpWF E)⟩

/-- with the real simplifier the quantifiers remover reaches its target unconditionally -/
theorem C08_qr_target_real (E : TypeEnv) : (qrModel (Drv.C06.simpTotal (SimpCfg.empty E))).ReachesTarget :=
  C08_qr_target _ (simpTotal_SimpQF E)

/-! ## "every referenced fluent, object and type is declared", as `Props/C08.lean` states it -/

/-- The clause `C08_references_declared_full` of `Props/C08.lean` (stated there with `Declared.declared` and proved
    only for the parameter substitution of grounding), for EVERY compiler model that preserves well-formedness — in
    particular the five above — on well-formed inputs: every expression of the compiled problem (preconditions, effects,
    goals, trajectory constraints, initial values, defaults) only mentions fluents, objects and types that the compiled
    problem declares.  (`WellFormed P` implies the hypothesis of the `_full` statement, `wellFormed_declared`.) -/
theorem C08_references_declared_models (M : CompilerModel) (hM : M.PreservesWF) (P : Problem) (c : Compiled)
    (hP : WellFormed P) (hd : M.dom P) (h : M.compile P = some c) :
    ∀ e ∈ problemExprs c.prob, declared (declsOf c.prob) e = true :=
  wellFormed_declared (hM P c hP hd h).1

/-! ## non-vacuity -/

example : SimpWF id ∧ SimpQF id ∧ SimpDF id ∧ SimpTraj id ∧ DnfWF id :=
  ⟨SimpWF_id, SimpQF_id, SimpDF_id, SimpTraj_id, DnfWF_id⟩

def exTypes : TypeEnv := ⟨[("T", none)]⟩
def exP : FluentRef := ⟨"p", .bool, [.user "T"]⟩
def exQ : FluentRef := ⟨"q", .bool, []⟩
def exN : FluentRef := ⟨"n", .int (some 0) (some 3), []⟩
def exPy : Expr := mkFluent exP [.leaf (.param "y" (.user "T"))]
def exQe : Expr := mkFluent exQ []
def exNe : Expr := mkFluent exN []
/-- `a(y)`: `when p(y): q := true`, `when q: p(y) := false`, `n += 1`; `a_0`, an unconditional action whose name is the
    first counter suffix of `a`; goal `q or exists x. p(x)`; invariant `always (q or not q)` (which the real simplifier turns into the constant TRUE) next to a `sometime` -/
def exProblem : Problem :=
  { name := "ex", types := exTypes, objects := [("o1", "T"), ("o_2", "T")],
    fluents := [⟨exP, some Expr.ff⟩, ⟨exQ, some Expr.ff⟩, ⟨exN, some (Expr.int 0)⟩],
    init := [(mkFluent exP [.leaf (.obj "o1" "T")], Expr.tt)],
    actions := [
      { name := "a", params := [("y", .user "T")], pre := [.app .or [exQe, exPy]],
        effs := [⟨exQe, Expr.tt, exPy, .assign, []⟩, ⟨exPy, Expr.ff, exQe, .assign, []⟩, ⟨exNe, Expr.int 1, Expr.tt, .increase, []⟩] },
      { name := "a_0", params := [], pre := [], effs := [⟨exQe, Expr.ff, Expr.tt, .assign, []⟩] }],
    goals := [.app .or [exQe, .quant .ex [⟨"x", .user "T"⟩] (mkFluent exP [.leaf (.var ⟨"x", .user "T"⟩)])]],
    traj := [.app .always [.app .or [exQe, .app .not [exQe]]], .app .sometime [exQe]],
    metrics := [] }

/-- the simplifier of the checks (C11's model, configured without a problem) -/
def exSimp : Expr → Expr := Drv.C06.simpTotal (SimpCfg.empty exTypes)

example : WellFormed exProblem ∧ MetricFree exProblem ∧ ConstDefaults exProblem ∧ TrajShaped exProblem := by
  refine ⟨(wellFormed_iff _).2 (by decide +kernel), rfl, ?_, ?_⟩
  · intro d hd e he
    simp only [exProblem, List.mem_cons, List.not_mem_nil, or_false] at hd
    rcases hd with rfl | rfl | rfl <;> simp only [Option.some.injEq] at he <;> subst he <;> rfl
  · intro t ht
    simp only [exProblem, List.mem_cons, List.not_mem_nil, or_false] at ht
    rcases ht with rfl | rfl <;> rfl

/-- the models run with the real simplifier, evaluated by the kernel: the conditional action has four variants that
    survive, named `a`, `a_1`, `a_2`, `a_3` — `a_0` is taken by the clone that is added first -/
example : (cerCompileN exSimp exProblem).map (fun c => (c.prob.actions.map (·.name), c.back, wfProblem c.prob, noCondEffects c.prob))
    = some (["a_0", "a", "a_1", "a_2", "a_3"], [some 1, some 0, some 0, some 0, some 0], true, true) := by decide +kernel

/-- the disjunctive goal: the fake fluent and two fake actions, all named afresh; every action is named afresh -/
example : (dcrCompileN exSimp (Expr.dnf exSimp) exProblem).map (fun c =>
      (c.prob.actions.map (·.name), c.back, c.prob.fluents.map (·.ref.name), wfProblem c.prob, noDisjunctions c.prob))
    = some (["a", "a_0", "a_0_0", "dcrm_fake_action", "dcrm_fake_action_0"], [some 0, some 0, some 1, none, none],
            ["p", "q", "n", "dcrm_fake_goal"], true, true) := by decide +kernel

example : (qrCompileN exSimp exProblem).map (fun c => (c.prob.actions.map (·.name), c.back, wfProblem c.prob, noQuantifiers c.prob))
    = some (["a", "a_0"], [some 0, some 1], true, true) := by decide +kernel

example : (sirCompileN exSimp exProblem).map (fun c => (c.prob.actions.map (·.name), c.back, c.prob.traj.length, wfProblem c.prob, noInvariants c.prob))
    = some (["a", "a_0"], [some 0, some 1], 2, true, true) := by decide +kernel

example : (btrCompileN exSimp exProblem).map (fun c => (c.prob.actions.map (·.name), c.back, wfProblem c.prob, noBoundedFluents c.prob))
    = some (["a", "a_0"], [some 0, some 1], true, true) := by decide +kernel

/-- the judgement does reject: an undeclared object, a fluent applied to too few arguments, a parameter of another
    action, a name used twice -/
example : wfVerdict { exProblem with goals := [mkFluent exP [.leaf (.obj "o3" "T")]] } = some "goal" ∧
    wfVerdict { exProblem with goals := [mkFluent exP []] } = some "goal" ∧
    wfVerdict { exProblem with goals := [exPy] } = some "goal" ∧
    wfVerdict { exProblem with objects := [("o1", "T"), ("q", "T")] } = some "names" := by decide +kernel

end UPVerif.C08
