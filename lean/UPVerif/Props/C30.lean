import UPVerif.Lemmas.KS0Plans
import UPVerif.Lemmas.KS0Basis
import UPVerif.Lemmas.KS0Init
import UPVerif.Lemmas.KS0Disj
/-!
# C30 — KS0 conformant-to-classical compilation is sound and complete

Statements only (helper lemmas live in `Lemmas/KS0*.lean`).  Semantics: `Spec/Conformant.lean`
(belief-space semantics over complete Boolean states, add-after-delete).  Model: `Core/KS0.lean`
(mirror of `ks0_compiler.py` from the prepared normalised problem on).

Standing hypotheses, both decidable:
* `ConsistentP P` — no action has two effect rules with complementary targets (the property's "at most
  one effect per ground fluent per action"; several rules with the *same* target are allowed);
* `WF P` — every literal of the problem is over the problem's ground fluents (only needed for the
  reduction; the Python dictionaries would raise `KeyError` otherwise).

Clauses of the property ↦ theorems:
* tracking invariant ............................ `C30_track`
* "every plan valid for the compiled problem maps back to a conformant plan" ... `C30_sound`
  (for any list of tag states), `C30_sound_end_to_end` (for the compiler's own choice of tag states:
  de-duplication + basis reduction, conformance w.r.t. ALL given states)
* "if a conformant plan exists, the compiled problem is solvable" ... `C30_complete`, `C30_complete_end_to_end`
* "possible initial states derived from oneof / or / unknown constraints" ... `C30_initial_states`
* "dropping dominated initial states never changes either answer" ... `C30_reduction_preserves`
  (+ `C30_dedup_preserves`), and its consequences for both answers in the two `_end_to_end` theorems.

Scope: the theorems above are about problems in the compiler's normal form.  Problems with disjunctive /
quantified conditions reach that form through other compilers (quantifier remover, disjunctive-conditions
remover, grounder).  Of these only the splitting of a disjunctive PRECONDITION into one action variant
per disjunct is modelled (abstractly, `normD`), because it is where the unchanged code violates the
property (known finding D-C30-disjunctive, no small safe repair):
* `C30_disj_sound` — soundness survives the split (full);
* `C30_disj_complete_full` — the completeness clause for disjunctive preconditions: FALSE for the code as
  found, refuted on a concrete witness by `C30_disj_complete_witness`;
* `C30_disj_complete_partial` — completeness under the decidable hypothesis that excludes exactly the
  cause (every precondition has a single disjunct).
Disjunctive goals fail in the same way (the remover turns them into preconditions of a fake action);
quantifiers, grounding and disjunctive effect conditions are covered by the harness oracle only.
-/
namespace UPVerif.C30
open UPVerif.Conformant UPVerif.KS0

variable {α : Type} [DecidableEq α]

/-- no action of the problem has two effect rules with complementary targets -/
def ConsistentP (P : NProblem α) : Prop := ∀ a ∈ P.actions, Consistent a

/-- a plan of the compiled problem, given by the provenance of its steps (the keys of the compiler's
`new_to_old_action` map): every step is a compiled action or a merge action of the compiled problem -/
def KPlan (P : NProblem α) (cs : List (CStep α)) : Prop := ∀ s ∈ cs, s ∈ csteps P

/-- `cs` is a valid plan of the classical problem `compile P S` from its initial state `kinit S` -/
def KValid (P : NProblem α) (S : List (State α)) (cs : List (CStep α)) : Prop :=
  KPlan P cs ∧ Valid (compile P S) (kinit S) (cs.map (CStep.compile S.length))

/-- a `KPlan` is a plan of the compiled problem in the sense of the spec -/
theorem C30_kplan_actions (P : NProblem α) (S : List (State α)) (cs : List (CStep α)) (h : KPlan P cs) :
    ∀ a ∈ cs.map (CStep.compile S.length), a ∈ (compile P S).actions := by
  intro a ha
  simp only [List.mem_map] at ha
  obtain ⟨s, hs, rfl⟩ := ha
  simp only [compile, List.mem_map]
  exact ⟨s, h s hs, rfl⟩

/-- conversely every plan of the compiled problem (a list of its actions) has a provenance -/
theorem C30_plan_provenance (P : NProblem α) (S : List (State α)) (π : List (Action (KAtom α)))
    (h : ∀ a ∈ π, a ∈ (compile P S).actions) :
    ∃ cs, KPlan P cs ∧ π = cs.map (CStep.compile S.length) := by
  induction π with
  | nil => exact ⟨[], ⟨fun s hs => (by cases hs), rfl⟩⟩
  | cons a π ih =>
    obtain ⟨cs, h1, h2⟩ := ih (fun b hb => h b (List.mem_cons_of_mem _ hb))
    have ha := h a List.mem_cons_self
    simp only [compile, List.mem_map] at ha
    obtain ⟨s, hs, rfl⟩ := ha
    refine ⟨s :: cs, ?_, by simp [h2]⟩
    intro t ht
    rcases List.mem_cons.1 ht with rfl | ht
    · exact hs
    · exact h1 t ht

/-- **Tracking invariant.**  After any executable compiled plan: for every tag state `S[i]`, `K L/sᵢ`
holds in the compiled state iff `L` holds in the state reached from `S[i]` by the mapped-back plan; and
`K L/empty` implies that `L` holds in the states reached from all of them. -/
theorem C30_track (P : NProblem α) (S : List (State α)) (cs : List (CStep α))
    (hc : ConsistentP P) (hp : KPlan P cs)
    (hex : executable (cs.map (CStep.compile S.length)) (kinit S) = true) :
    (∀ i (hi : i < S.length) (L : Lit α),
        run (cs.map (CStep.compile S.length)) (kinit S) ⟨L, Tag.st i⟩ = holds (run (mapBack cs) S[i]) L) ∧
    (∀ L : Lit α, run (cs.map (CStep.compile S.length)) (kinit S) ⟨L, Tag.empty⟩ = true →
        ∀ s ∈ S, holds (run (mapBack cs) s) L = true) := by
  have hsc : StepsConsistent cs := fun a ha => hc a (mem_csteps_act.1 (hp _ ha))
  obtain ⟨_, tr⟩ := sound_aux cs (kinit S) _ (track_init S) hsc hex
  refine ⟨?_, ?_⟩
  · intro i hi L
    have := tr.tag i hi L
    simpa [List.getD, List.getElem?_eq_getElem hi] using this
  · intro L hL s hs
    obtain ⟨i, hi, rfl⟩ := List.mem_iff_getElem.1 hs
    have := tr.empty L hL i hi
    simpa [List.getD, List.getElem?_eq_getElem hi] using this

/-- **Soundness of the translation** (any list of tag states): a valid plan of the compiled problem,
with the merge actions erased, is a conformant plan — executable from every tag state and reaching the
goals from each. -/
theorem C30_sound (P : NProblem α) (S : List (State α)) (cs : List (CStep α))
    (hc : ConsistentP P) (hv : KValid P S cs) : Conformant P S (mapBack cs) := by
  obtain ⟨hp, _, hval⟩ := hv
  simp only [validFrom, Bool.and_eq_true] at hval
  have hsc : StepsConsistent cs := fun a ha => hc a (mem_csteps_act.1 (hp _ ha))
  obtain ⟨ex, tr⟩ := sound_aux cs (kinit S) _ (track_init S) hsc hval.1
  refine ⟨fun a ha => mem_csteps_act.1 (hp _ (mem_mapBack.1 ha)), ?_⟩
  intro s hs
  obtain ⟨i, hi, rfl⟩ := List.mem_iff_getElem.1 hs
  have e := ex i hi
  simp only [List.getD, List.getElem?_eq_getElem hi, Option.getD_some] at e
  simp only [validFrom, Bool.and_eq_true, List.all_eq_true]
  refine ⟨e, ?_⟩
  intro g hg
  have hk : run (cs.map (CStep.compile S.length)) (kinit S) ⟨g, Tag.empty⟩ = true := by
    have := List.all_eq_true.1 hval.2 (kpos g Tag.empty) (by simp only [compile, List.mem_map]; exact ⟨g, hg, rfl⟩)
    simpa [holds, kpos] using this
  have := tr.empty g hk i hi
  simpa [List.getD, List.getElem?_eq_getElem hi] using this

/-- **Completeness of the translation** (any list of tag states): a conformant plan, with every
precondition literal merged right before its action and every goal literal merged at the end, is a valid
plan of the compiled problem and maps back to the conformant plan. -/
theorem C30_complete (P : NProblem α) (S : List (State α)) (π : List (Action α))
    (hc : ConsistentP P) (h : Conformant P S π) :
    KValid P S (withMerges P.goals π) ∧ mapBack (withMerges P.goals π) = π := by
  refine ⟨⟨withMerges_steps h.1, C30_kplan_actions P S _ (withMerges_steps h.1), ?_⟩, mapBack_withMerges _ _⟩
  apply complete_aux P.goals π (kinit S) _ (track_init S) (fun a ha => hc a (h.1 a ha))
  intro i hi
  have := h.2 S[i] (List.getElem_mem hi)
  simpa [List.getD, List.getElem?_eq_getElem hi] using this

/-- **Possible initial states of a contingent problem.**  When all constrained atoms are hidden, the
enumeration yields exactly the assignments to the hidden atoms under which every `oneof` group has
exactly one true literal and every `or` group (an `unknown f` is the group `[¬f, f]`) at least one. -/
theorem C30_initial_states (oneofs ors : List (List (Lit α))) (hidden : List α)
    (hh : ∀ x, x ∈ groupAtoms oneofs ∨ x ∈ groupAtoms ors → x ∈ hidden) (v : α → Bool) :
    (∃ cand ∈ enumerateHidden oneofs ors hidden, ∀ h ∈ hidden, Asg.get? cand h = some (v h)) ↔
      ((∀ g ∈ oneofs, ExactlyOne v g) ∧ ∀ g ∈ ors, ∃ l ∈ g, holds v l = true) :=
  enumerate_spec oneofs ors hidden hh v

/-- **Dropping dominated initial states changes nothing**: a plan is conformant for all possible
initial states iff it is conformant for the basis the compiler keeps. -/
theorem C30_reduction_preserves (P : NProblem α) (S : List (State α)) (π : List (Action α))
    (wf : WF P) (hc : ConsistentP P) : Conformant P S π ↔ Conformant P (basis P S) π :=
  ⟨conformant_of_subset (basis_subset P S),
   conformant_of_dominating wf (relOK_relevance wf) hc (basis_dominates P S)⟩

/-- de-duplication of the possible initial states changes nothing either -/
theorem C30_dedup_preserves (P : NProblem α) (S : List (State α)) (π : List (Action α))
    (wf : WF P) (hc : ConsistentP P) : Conformant P S π ↔ Conformant P (dedupStates P.atoms S) π := by
  refine ⟨conformant_of_subset (dedupStates_subset P.atoms S), ?_⟩
  apply conformant_of_dominating wf (relOK_relevance wf) hc
  intro s hs T _
  obtain ⟨s', hs', he⟩ := dedupStates_covers P.atoms S s hs
  exact ⟨s', hs', dom_of_signature _ T he⟩

/-- **Soundness, end to end**: every valid plan of the problem the compiler actually builds (tags =
basis of the de-duplicated states) maps back to a plan that is conformant for ALL given states. -/
theorem C30_sound_end_to_end (P : NProblem α) (S : List (State α)) (cs : List (CStep α))
    (wf : WF P) (hc : ConsistentP P) (hv : KValid P (ks0States P S) cs) : Conformant P S (mapBack cs) := by
  have h1 := C30_sound P (ks0States P S) cs hc hv
  have h2 := (C30_reduction_preserves P (dedupStates P.atoms S) (mapBack cs) wf hc).2 h1
  exact (C30_dedup_preserves P S (mapBack cs) wf hc).2 h2

/-- **Completeness, end to end**: if a plan conformant for all given states exists, the problem the
compiler actually builds is solvable, by a plan that maps back to it. -/
theorem C30_complete_end_to_end (P : NProblem α) (S : List (State α)) (π : List (Action α))
    (wf : WF P) (hc : ConsistentP P) (h : Conformant P S π) :
    KValid P (ks0States P S) (withMerges P.goals π) ∧ mapBack (withMerges P.goals π) = π := by
  have h1 := (C30_dedup_preserves P S π wf hc).1 h
  have h2 := (C30_reduction_preserves P (dedupStates P.atoms S) π wf hc).1 h1
  exact C30_complete P (ks0States P S) π hc h2

/-! ## disjunctive preconditions (known finding D-C30-disjunctive) -/

/-- **Soundness through the split of disjunctive preconditions**: a valid plan of the compiled split
problem maps back (merges erased, variants replaced by their originals) to a conformant plan of the
problem with disjunctive preconditions. -/
theorem C30_disj_sound (P : DProblem α) (S : List (State α)) (cs : List (CStep α))
    (wf : WF (normD P)) (hc : ConsistentP (normD P))
    (hv : KValid (normD P) (ks0States (normD P) S) cs) :
    ∃ π, Origins P π (mapBack cs) ∧ DConformant P S π := by
  have h := C30_sound_end_to_end (normD P) S cs wf hc hv
  obtain ⟨π, hπ⟩ := exists_origins (P := P) (mapBack cs) h.1
  exact ⟨π, hπ, origins_mem_left hπ, fun s hs => dvalid_of_valid hπ s (h.2 s hs)⟩

/-- the completeness clause for problems with disjunctive preconditions, at full strength -/
def C30_disj_complete_full : Prop :=
  ∀ (P : DProblem Nat) (S : List (State Nat)) (π : List (DAction Nat)),
    WF (normD P) → ConsistentP (normD P) → DConformant P S π →
    ∃ cs, KValid (normD P) (ks0States (normD P) S) cs ∧ Origins P π (mapBack cs)

namespace Witness
/-- atoms 0 = a, 1 = b, 2 = g; `act` requires `a ∨ b` and achieves the goal `g` -/
def act : DAction Nat := { name := "act", pre := [[⟨0, true⟩], [⟨1, true⟩]], rules := [⟨[], ⟨2, true⟩⟩] }
def P : DProblem Nat := { atoms := [0, 1, 2], actions := [act], goals := [⟨2, true⟩] }
def s0 : State Nat := fun x => x == 0
def s1 : State Nat := fun x => x == 1
def S : List (State Nat) := [s0, s1]
end Witness

/-- **Refutation of completeness for the code as found**: `[act]` is conformant (`a` holds in one
possible initial state, `b` in the other), but the compiled problem has no valid plan at all — by
soundness such a plan would be a conformant plan of the split problem, whose two variants `act/a` and
`act/b` are each inapplicable in one of the states. -/
theorem C30_disj_complete_witness : ¬ C30_disj_complete_full := by
  intro h
  have wf : WF (normD Witness.P) := by unfold WF; decide
  have hc : ConsistentP (normD Witness.P) := by unfold ConsistentP; decide
  have hconf : DConformant Witness.P Witness.S [Witness.act] := by unfold DConformant; decide
  obtain ⟨cs, hv, _⟩ := h Witness.P Witness.S [Witness.act] wf hc hconf
  have hcf := C30_sound_end_to_end (normD Witness.P) Witness.S cs wf hc hv
  generalize mapBack cs = l at hcf
  cases l with
  | nil =>
    have := hcf.2 Witness.s0 (by simp [Witness.S])
    revert this; decide
  | cons a rest =>
    have ha := hcf.1 a List.mem_cons_self
    have h0 := hcf.2 Witness.s0 (by simp [Witness.S])
    have h1 := hcf.2 Witness.s1 (by simp [Witness.S])
    simp only [validFrom, executable, Bool.and_eq_true] at h0 h1
    have hmem : a = ⟨"act", [⟨0, true⟩], [⟨[], ⟨2, true⟩⟩]⟩ ∨ a = ⟨"act", [⟨1, true⟩], [⟨[], ⟨2, true⟩⟩]⟩ := by
      simpa [normD, Witness.P, Witness.act, splitDisj] using ha
    rcases hmem with rfl | rfl
    · have := h1.1.1; revert this; decide
    · have := h0.1.1; revert this; decide

/-- **Completeness under the hypothesis that excludes the cause**: when every precondition has exactly
one disjunct, a conformant plan has a valid compiled counterpart that maps back to it. -/
theorem C30_disj_complete_partial (P : DProblem α) (S : List (State α)) (π : List (DAction α))
    (wf : WF (normD P)) (hc : ConsistentP (normD P)) (hsingle : ∀ d ∈ P.actions, d.pre.length = 1)
    (h : DConformant P S π) :
    ∃ cs, KValid (normD P) (ks0States (normD P) S) cs ∧ Origins P π (mapBack cs) := by
  have h1 : ∀ d ∈ π, d.pre.length = 1 := fun d hd => hsingle d (h.1 d hd)
  have horig := origins_soleVariant (P := P) π h.1 h1
  have hconf : Conformant (normD P) S (π.map soleVariant) := by
    refine ⟨?_, fun s hs => valid_of_dvalid π h1 s (h.2 s hs)⟩
    intro a ha
    simp only [List.mem_map] at ha
    obtain ⟨d, hd, rfl⟩ := ha
    apply mem_normD_actions.2
    exact ⟨d, h.1 d hd, by rw [splitDisj_single (h1 d hd)]; simp⟩
  obtain ⟨hv, hm⟩ := C30_complete_end_to_end (normD P) S _ wf hc hconf
  exact ⟨_, hv, by rw [hm]; exact horig⟩

/-! ## non-vacuity: a concrete problem that needs reasoning by cases and a dropped state -/
namespace Ex

/-- atoms 0 = p, 1 = t, 2 = u; `a` adds t when p, `c` adds t when ¬p (and deletes p when t), `b` needs t and adds the goal u -/
def a : Action Nat := { name := "a", pre := [], rules := [⟨[⟨0, true⟩], ⟨1, true⟩⟩] }
def b : Action Nat := { name := "b", pre := [⟨1, true⟩], rules := [⟨[], ⟨2, true⟩⟩] }
def c : Action Nat := { name := "c", pre := [], rules := [⟨[⟨0, false⟩], ⟨1, true⟩⟩, ⟨[⟨1, true⟩], ⟨0, false⟩⟩] }
def P : NProblem Nat := { atoms := [0, 1, 2], actions := [a, b, c], goals := [⟨2, true⟩] }
def s0 : State Nat := fun x => x == 0
def s1 : State Nat := fun _ => false
def s2 : State Nat := fun x => x == 0 || x == 2
def S : List (State Nat) := [s0, s1, s0, s2]

example : ConsistentP P := by unfold ConsistentP; decide
example : WF P := by unfold WF; decide
/-- `[a, c, b]` is conformant (t is reached by `a` from s0, s2 and by `c` from s1), `[a, b]` is not -/
example : Conformant P S [a, c, b] := by unfold Conformant; decide
example : ¬ Conformant P S [a, b] := by unfold Conformant; decide
/-- the compiler keeps 2 of the 4 states: the duplicate and the dominated `s2` are dropped -/
example : (ks0States P S).length = 2 := by decide
/-- a valid compiled plan with a merge, and what it maps back to -/
example : KValid P (ks0States P S) [.act a, .act c, .merge ⟨1, true⟩, .act b, .merge ⟨2, true⟩] := by
  unfold KValid KPlan Valid; decide
example : mapBack [.act a, .act c, .merge ⟨1, true⟩, .act b, .merge (⟨2, true⟩ : Lit Nat)] = [a, c, b] := rfl
/-- constraints: oneof(p, t), unknown u — hypotheses of `C30_initial_states` and a satisfying assignment -/
example : ∀ x, x ∈ groupAtoms [[(⟨0, true⟩ : Lit Nat), ⟨1, true⟩]] ∨ x ∈ groupAtoms [[(⟨2, false⟩ : Lit Nat), ⟨2, true⟩]]
    → x ∈ [0, 1, 2] := by
  intro x; simp [groupAtoms]; omega
example : (enumerateHidden [[(⟨0, true⟩ : Lit Nat), ⟨1, true⟩]] [[⟨2, false⟩, ⟨2, true⟩]] [0, 1, 2]).length = 4 := by decide

/-- hypotheses of `C30_disj_complete_partial` and `C30_disj_sound` on a concrete instance -/
def d1 : DAction Nat := { name := "a", pre := [[]], rules := [⟨[⟨0, true⟩], ⟨1, true⟩⟩] }
def d2 : DAction Nat := { name := "c", pre := [[]], rules := [⟨[⟨0, false⟩], ⟨1, true⟩⟩] }
def PD : DProblem Nat := { atoms := [0, 1, 2], actions := [d1, d2], goals := [⟨1, true⟩] }
example : WF (normD PD) := by unfold WF; decide
example : ConsistentP (normD PD) := by unfold ConsistentP; decide
example : ∀ d ∈ PD.actions, d.pre.length = 1 := by decide
example : DConformant PD S [d1, d2] := by unfold DConformant; decide
example : WF (normD Witness.P) ∧ ConsistentP (normD Witness.P) := by unfold WF ConsistentP; decide

end Ex

end UPVerif.C30
