import UPVerif.Lemmas.OrderingLemmas
/-!
# C34 — HTN task-network ordering extraction is exact

Statements only (helper lemmas live in `Lemmas/OrderingLemmas.lean`; the model and the reference
notions `precOf`, `LinExt`, `UniqueLinExt`, `PrecsWithin` live in `Core/Ordering.lean`).

The theorems hold for EVERY network: any number of subtasks, any constraint list, any order of the
constraints — no size bound.  `Network.partialOrder` / `Network.totalOrder` are the models of
`TaskNetwork.partial_order()` / `total_order()`; they are tied to the code by the correspondence
check of `harness/props/C34.py`.
-/
namespace UPVerif.C34
open UPVerif.Ordering

/-- Clause 1.  If the temporal constraints of a network are exactly the strict end-before-start
    precedences `P` (in this order), `partial_order` returns `P` — all of them, nothing else,
    whether or not they happen to determine a total order. -/
theorem C34_partial_exact (N : Network) (P : List (String × String))
    (h : N.temporalConstraints = P.map precOf) : N.partialOrder = some P := by
  unfold Network.partialOrder Network.ordering Ordering.ordering
  simp only [h, collect_map_precOf, List.length_map, bne_self_eq_false, Bool.false_eq_true, if_false]
  cases buildTotalOrder N.subtasks P <;> rfl

/-- Clause 2.  For such a network whose precedences relate its own subtasks, `total_order` returns
    `l` iff `l` is a linear ordering of all subtasks compatible with the precedences and the only
    one; in particular it returns nothing when there are several or none (cycles). -/
theorem C34_total_iff (N : Network) (P : List (String × String))
    (h : N.temporalConstraints = P.map precOf) (hw : PrecsWithin N.subtasks P) (l : List String) :
    N.totalOrder = some l ↔ UniqueLinExt N.subtasks P l := by
  rw [← buildTotalOrder_iff N.subtasks P (fun p hp => (hw p hp).2) l]
  unfold Network.totalOrder Network.ordering Ordering.ordering
  simp only [h, collect_map_precOf, List.length_map, bne_self_eq_false, Bool.false_eq_true, if_false]
  cases buildTotalOrder N.subtasks P <;> simp

/-- Clause 2, read the other way: `total_order` returns nothing iff the precedences do not admit
    exactly one linear ordering. -/
theorem C34_total_none_iff (N : Network) (P : List (String × String))
    (h : N.temporalConstraints = P.map precOf) (hw : PrecsWithin N.subtasks P) :
    N.totalOrder = none ↔ ¬ ∃ l, UniqueLinExt N.subtasks P l := by
  constructor
  · rintro hn ⟨l, hl⟩
    rw [← C34_total_iff N P h hw l, hn] at hl
    cases hl
  · intro hne
    cases ht : N.totalOrder with
    | none => rfl
    | some l => exact absurd ⟨l, (C34_total_iff N P h hw l).1 ht⟩ hne

/-- Clause 3.  A network with a temporal constraint that is not a strict end-before-start
    precedence (a delay, `<=`, start-before-start, a disjunction, a comparison with a constant, a
    reference to the enclosing method's own start/end, …) reports neither order. -/
theorem C34_non_qualitative_neither (N : Network)
    (h : ∃ c ∈ N.temporalConstraints, ¬ ∃ p, c = precOf p) :
    N.partialOrder = none ∧ N.totalOrder = none := by
  have hlen : (collect N.temporalConstraints).length ≠ N.temporalConstraints.length := by
    intro e
    obtain ⟨c, hc, hn⟩ := h
    exact hn (collect_length_eq e c hc)
  unfold Network.partialOrder Network.totalOrder Network.ordering Ordering.ordering
  simp [hlen]

/-- Clauses 1–2 and clause 3 together cover every network: either all temporal constraints are
    precedences (and then they are `P.map precOf` for exactly one `P`), or one of them is not. -/
theorem C34_dichotomy (N : Network) :
    (∃ P : List (String × String), N.temporalConstraints = P.map precOf) ∨
    (∃ c ∈ N.temporalConstraints, ¬ ∃ p, c = precOf p) := by
  by_cases h : ∀ c ∈ N.temporalConstraints, ∃ p, c = precOf p
  · exact Or.inl ((all_precOf_iff _).1 h)
  · obtain ⟨c, hc⟩ := Classical.not_forall.1 h
    obtain ⟨hm, hn⟩ := Classical.not_imp.1 hc
    exact Or.inr ⟨c, hm, hn⟩

/-- The temporal constraints are exactly the stored constraints that mention a timepoint, so the
    hypotheses above are about the network as built: non-temporal constraints never matter. -/
theorem C34_temporal_constraints (N : Network) (c : TExpr) :
    c ∈ N.temporalConstraints ↔ c ∈ N.constraints ∧ hasTime c = true := by
  simp [Network.temporalConstraints, List.mem_filter]

/-! ## non-vacuity: concrete networks meet the hypotheses and reach every branch -/
section examples

/-- three subtasks, a chain plus the redundant precedence (t0, t2), plus a non-temporal constraint -/
def nTotal : Network :=
  { subtasks := ["t0", "t1", "t2"],
    constraints := [precOf ("t1", "t2"), .lt (.int 1) (.int 2), precOf ("t0", "t2"), precOf ("t0", "t1")] }

example : nTotal.temporalConstraints = [("t1", "t2"), ("t0", "t2"), ("t0", "t1")].map precOf := by decide
example : PrecsWithin nTotal.subtasks [("t1", "t2"), ("t0", "t2"), ("t0", "t1")] := by
  intro p hp; revert p; decide
/-- the redundant precedence is reported (the unrepaired code dropped it) -/
example : nTotal.partialOrder = some [("t1", "t2"), ("t0", "t2"), ("t0", "t1")] := by decide
example : nTotal.totalOrder = some ["t0", "t1", "t2"] := by decide

/-- a fork: two linear extensions, so no total order -/
def nFork : Network :=
  { subtasks := ["t0", "t1", "t2"], constraints := [precOf ("t0", "t1"), precOf ("t0", "t2")] }
example : nFork.temporalConstraints = [("t0", "t1"), ("t0", "t2")].map precOf := by decide
example : nFork.partialOrder = some [("t0", "t1"), ("t0", "t2")] ∧ nFork.totalOrder = none := by decide

/-- a cycle: no linear extension, so no total order, but still a set of precedences -/
def nCycle : Network :=
  { subtasks := ["t0", "t1"], constraints := [precOf ("t0", "t1"), precOf ("t1", "t0")] }
example : nCycle.partialOrder = some [("t0", "t1"), ("t1", "t0")] ∧ nCycle.totalOrder = none := by decide

/-- a delayed constraint after a precedence: neither -/
def nDelay : Network :=
  { subtasks := ["t0", "t1"],
    constraints := [precOf ("t0", "t1"), .lt (.timing ⟨.end_, some "t0", 3⟩) (.timing ⟨.start, some "t1", 0⟩)] }
example : ∃ c ∈ nDelay.temporalConstraints, ¬ ∃ p, c = precOf p := by
  refine ⟨.lt (.timing ⟨.end_, some "t0", 3⟩) (.timing ⟨.start, some "t1", 0⟩), by decide, ?_⟩
  rintro ⟨p, hp⟩
  simp only [precOf, TExpr.lt.injEq, TExpr.timing.injEq, Timing.mk.injEq] at hp
  exact absurd hp.1.2.2 (by decide)
example : nDelay.partialOrder = none ∧ nDelay.totalOrder = none := by decide

end examples

end UPVerif.C34
