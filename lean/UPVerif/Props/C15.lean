import UPVerif.Lemmas.TypeOfSound
/-!
# C15 — Expression type inference is sound and symmetric

Statements only (helper lemmas: `Lemmas/TypeOfLemmas.lean`, `Lemmas/TypeOfSound.lean`).

The model is `typeOf` / `isCompatible` of `Core/Walkers/TypeOf.lean`, one function per `walk_*` of
`unified_planning/model/walkers/type_checker.py` (as repaired by
`notes/patches/C15-typechecker-exact-bounds.patch`), tied to the code by the correspondence check.
The semantics is the reference denotation `den` (`Core/Den.lean`, exact rationals).  The
hypotheses "each leaf ranges over its declared type" are (`Core/Walkers/TypeOf.lean`, end of file):

* `InterpOK E O ι` — every fluent / interpreted function only takes values inside its declared
  result type (`inTy`: integral rationals inside the bounds for int types, rationals inside the
  bounds for real types, an object whose declared type `O name` is a descendant of the user type);
* `LeafOK E O ι l` for the leaves `l` of the expression — a parameter's value is inside the type
  written on the parameter, an object leaf carries the object's declared type;
* `VEnvOK E O ρ` — bound variables take values of their type.

All theorems hold for EVERY expression, interpretation and magnitude of constants; there is no size
bound.
-/
namespace UPVerif.C15
open UPVerif UPVerif.TypeOf

variable {E : TypeEnv} {O : String → Option String} {ι : Interp} {ρ : VEnv}

/-- **Soundness.** If a type is inferred, every value the expression can take when each leaf
    ranges over its declared type belongs to that type. -/
theorem C15_sound (hI : InterpOK E O ι) (hρ : VEnvOK E O ρ) (e : Expr) (t : Ty) (v : Val)
    (hl : ∀ l, l ∈ e.leaves → LeafOK E O ι l)
    (ht : typeOf E e = some t) (hd : den ι ρ e = some v) : inTy E O v t = true :=
  sound_aux hI hρ e t v ht hl hd

/-- **Numeric reading of soundness**: the inferred bounds form an interval that contains the value
    under exact rational arithmetic (`lb`/`ub` = `none` means unbounded), and an int type is only
    inferred for integral values.  This covers `walk_plus/minus/times/div`, in particular division
    by a non-zero constant (a `[d,d]`-typed divisor) and products with unbounded factors
    (`Ext.mul`, `0 * inf = 0`). -/
theorem C15_sound_interval (hI : InterpOK E O ι) (hρ : VEnvOK E O ρ) (e : Expr) (t : Ty) (q : Rat)
    (hl : ∀ l, l ∈ e.leaves → LeafOK E O ι l)
    (ht : typeOf E e = some t) (hd : den ι ρ e = some (.n q)) :
    t.isNum = true ∧ (∀ x, t.lb = some x → x ≤ q) ∧ (∀ x, t.ub = some x → q ≤ x) ∧
      (t.isReal = false → q.den = 1) := by
  have h := C15_sound hI hρ e t (.n q) hl ht hd
  have hn : t.isNum = true := by cases t <;> simp [inTy, Ty.isNum] at h ⊢
  obtain ⟨q', hq, hin⟩ := inTy_num h hn
  cases hq
  exact ⟨hn, hin.lo, hin.hi, hin.int⟩

/-- **Boolean and user-typed expressions get exactly their type** (semantic reading): an
    expression with a Boolean value is typed `bool`; an expression whose value is an object is typed
    with a user type of which the object's declared type is a descendant. -/
theorem C15_exact_bool_user (hI : InterpOK E O ι) (hρ : VEnvOK E O ρ) (e : Expr) (t : Ty)
    (hl : ∀ l, l ∈ e.leaves → LeafOK E O ι l) (ht : typeOf E e = some t) :
    (∀ b, den ι ρ e = some (.b b) → t = .bool) ∧
    (∀ n, den ι ρ e = some (.o n) →
      ∃ u d, t = .user u ∧ O n = some d ∧ E.isSubtype d u = true) := by
  constructor
  · intro b hd
    have h := C15_sound hI hρ e t _ hl ht hd
    cases t <;> simp [inTy] at h ⊢
  · intro n hd
    have h := C15_sound hI hρ e t _ hl ht hd
    cases t <;> simp [inTy] at h
    rename_i u
    cases hO : O n with
    | none => simp [hO] at h
    | some d => exact ⟨u, d, rfl, rfl, by simpa [hO] using h⟩

/-- **… exactly their type** (syntactic reading): an accepted Boolean connective, relation,
    equality or quantifier is typed exactly `bool`; an accepted fluent / interpreted-function
    application exactly the declared result type; an object, parameter or variable leaf exactly
    its declared type. -/
theorem C15_exact_declared :
    (∀ (op : Op) (args : List Expr) (t : Ty),
        op = .and ∨ op = .or ∨ op = .not ∨ op = .implies ∨ op = .iff ∨ op = .le ∨ op = .lt ∨ op = .eq →
        typeOf E (.app op args) = some t → t = .bool) ∧
    (∀ (q : Quant) (xs : List Var) (body : Expr) (t : Ty),
        typeOf E (.quant q xs body) = some t → t = .bool) ∧
    (∀ (f : FluentRef) (args : List Expr) (t : Ty),
        typeOf E (.app (.fluent f) args) = some t → t = f.ty) ∧
    (∀ (g : FunRef) (args : List Expr) (t : Ty),
        typeOf E (.app (.ifun g) args) = some t → t = g.ty) ∧
    (∀ n u, typeOf E (.leaf (.obj n u)) = some (.user u)) ∧
    (∀ n t, typeOf E (.leaf (.param n t)) = some t) ∧
    (∀ x : Var, typeOf E (.leaf (.var x)) = some x.ty) := by
  refine ⟨?_, ?_, ?_, ?_, ?_, ?_, ?_⟩
  · intro op args t hop h
    simp only [typeOf] at h
    split at h
    · rcases hop with rfl | rfl | rfl | rfl | rfl | rfl | rfl | rfl
      all_goals first
        | exact typeBoolToBool_eq h
        | exact typeRel_eq h
        | exact typeEquals_eq h
    · simp at h
  · intro q xs body t h
    simp only [typeOf] at h
    split at h
    · exact typeBoolToBool_eq h
    · simp at h
  · intro f args t h
    simp only [typeOf] at h
    split at h
    · exact typeApply_eq h
    · simp at h
  · intro g args t h
    simp only [typeOf] at h
    split at h
    · exact typeApply_eq h
    · simp at h
  · intro n u; rfl
  · intro n t; rfl
  · intro x; rfl

/-- **Well-formedness is symmetric**: an equality is accepted iff its mirrored equality is. -/
theorem C15_equals_symmetric (E : TypeEnv) (a b : Expr) :
    (typeOf E (.app .eq [a, b])).isSome = (typeOf E (.app .eq [b, a])).isSome := by
  cases hta : typeOf E a <;> cases htb : typeOf E b <;>
    simp [typeOf, typeOfList, hta, htb, typeOp]
  exact typeEquals_symm E _ _

/-! ## non-vacuity: concrete inputs meeting the hypotheses, and the defect witnesses -/
section examples

def E0 : TypeEnv := { fathers := [("T", none), ("S", some "T"), ("U", none)] }
def O0 : String → Option String := fun n => if n = "s1" then some "S" else if n = "t1" then some "T" else none
def xb : FluentRef := { name := "xb", ty := .int (some 0) (some 10), sig := [] }
def xu : FluentRef := { name := "x", ty := .int none none, sig := [] }
def atF : FluentRef := { name := "at", ty := .user "T", sig := [] }
/-- `xb = 7`, `x = -3`, `at = s1` (an object of the sub-type `S` of the declared `T`) -/
def ι0 : Interp :=
  { fl := fun f _ => if f = xb then some (.n 7) else if f = xu then some (.n (-3))
                     else if f = atF then some (.o "s1") else none
    fn := fun _ _ => none, par := fun _ => none, dom := fun _ => [] }

theorem nonvacuous_interp_ok : InterpOK E0 O0 ι0 := by
  constructor
  · intro f vs v h
    simp only [ι0] at h
    split at h
    · rename_i hf; subst hf; cases h; decide +kernel
    · split at h
      · rename_i hf; subst hf; cases h; decide +kernel
      · split at h
        · rename_i hf; subst hf; cases h; decide +kernel
        · cases h
  · intro g vs v h; cases h

theorem nonvacuous_venv_ok : VEnvOK E0 O0 [] := by intro v x h; cases h

/-- D-C15a: `1/3 : real[1/3, 1/3]` (the unrepaired code gave a float-rounded interval) … -/
example : typeOf E0 (.app .div [.int 1, .int 3]) = some (.real (some (1/3)) (some (1/3))) := by
  decide +kernel
/-- … `xb / 3 : real[0, 10/3]`, and the value `7/3` is inside, as `C15_sound` says -/
example : typeOf E0 (.app .div [.app (.fluent xb) [], .int 3]) = some (.real (some 0) (some (10/3))) := by
  decide +kernel
example : den ι0 [] (.app .div [.app (.fluent xb) [], .int 3]) = some (.n (7/3)) := by
  decide +kernel
example : inTy E0 O0 (.n (7/3)) (.real (some 0) (some (10/3))) = true :=
  C15_sound nonvacuous_interp_ok nonvacuous_venv_ok (.app .div [.app (.fluent xb) [], .int 3]) _ _
    (by intro l hl; simp [Expr.leaves, Expr.leavesList, Expr.int] at hl; subst hl; simp [LeafOK])
    (by decide +kernel) (by decide +kernel)
/-- a negative constant divisor swaps the bounds -/
example : typeOf E0 (.app .div [.app (.fluent xb) [], .real (-1/3)])
    = some (.real (some (-30)) (some 0)) := by decide +kernel
/-- D-C15c: products and sums with unbounded factors and huge constants are typed without overflow;
    `0 * x` is exactly `0` -/
example : typeOf E0 (.app .times [.int (10 ^ 400), .app (.fluent xu) []]) = some (.int none none) := by
  decide +kernel
example : typeOf E0 (.app .plus [.app (.fluent xu) [], .int (10 ^ 400)]) = some (.int none none) := by
  decide +kernel
example : typeOf E0 (.app .times [.int 0, .app (.fluent xu) []]) = some (.int (some 0) (some 0)) := by
  decide +kernel
example : typeOf E0 (.app .times [.app (.fluent xb) [], .int (-(10 ^ 400))])
    = some (.int (some (-(10 ^ 401))) (some 0)) := by decide +kernel
/-- user-typed expression: the fluent `at : T` takes the value `s1 : S`, a descendant of `T` -/
example : typeOf E0 (.app (.fluent atF) []) = some (.user "T") := by decide +kernel
example : den ι0 [] (.app (.fluent atF) []) = some (.o "s1") := by decide +kernel
/-- D-C15b: an object is never comparable with a number, in either orientation … -/
example : typeOf E0 (.app .eq [.leaf (.obj "t1" "T"), .int 5]) = none := by decide +kernel
example : typeOf E0 (.app .eq [.int 5, .leaf (.obj "t1" "T")]) = none := by decide +kernel
/-- … related user types are, in both; unrelated ones are not -/
example : typeOf E0 (.app .eq [.leaf (.obj "t1" "T"), .leaf (.obj "s1" "S")]) = some .bool := by
  decide +kernel
example : typeOf E0 (.app .eq [.leaf (.obj "s1" "S"), .leaf (.obj "t1" "T")]) = some .bool := by
  decide +kernel
example : typeOf E0 (.app .eq [.leaf (.obj "u1" "U"), .leaf (.obj "t1" "T")]) = none := by
  decide +kernel

end examples

end UPVerif.C15
