import UPVerif.Lemmas.CompileNCRSim
import UPVerif.Lemmas.CompileCERSim
/-!
# C06 — compiler soundness: NegativeConditionsRemover

Statements only (model: `Core/Compile/NCR.lean`, mirroring `negative_conditions_remover.py` function by function and
tied to the real compiler by the variant correspondence of `./check C06`; helper lemmas:
`Lemmas/CompileNCR{Eval,Walk,Fired,State,Step,Act,Sim}.lean`).  Frame, transition system `tsOf` (parameterless actions,
a step = C01's documented successor `Spec.successorOf`) and `SimpExact` as in `Props/C06.lean`.

THE RELATION.  `StRel M s' s` (`M` = `ncrMap simp P`, the final `fluent ↦ complementary fluent` mapping of the
compilation): the compiled state `s'` restricted to the original fluents IS the original state `s`, and every
complementary fluent holds the negation of its fluent on EVERY ground instance (both undefined, or `b` / `not b`).
It holds between the initial states, is preserved by every step (`ncr_step_partial`) — hence soundness for every
plan length (`ncr_sound_partial`), with the visited states related one by one (`ncr_same_trace_partial`) — and the
compiled plan is literally the original plan (`ncr_same_plan_partial`).

THE CONDITIONS.  One condition `e` becomes `walk(simplify(nnf(e)))`; `ncr_condition_partial` is its correctness in
related states: `nnf` is property C12's model and keeps the value of a condition (`Compile.ev_nnf`, proved through the
connective laws by the proof of `C12.nnf_equiv`, `Compile.BoolView.nnf`), the simplifier is exact, the walk replaces
`not f(args)` by `nf(args)` and `not (a <= b)`, `not (a < b)` by `b < a`, `b <= a`.

THE HYPOTHESIS THAT EXCLUDES THE KNOWN FINDING (C06-ncr-add-after-delete).  Mirroring `f(args) := v` as
`nf(args) := not v` is wrong exactly when one ground instance of `f` is assigned BOTH values by one action instance:
Boolean assignments merge by "true wins" (C01), so `f` ends true and `nf` — assigned `false` and `true` — ends true
too.  The two assignments need not be syntactically on the same target; they meet on one ground instance
* when the targets are syntactically equal (`f := false`, `c → f := true`: `NCR.ncr_add_after_delete_witness`);
* through a forall effect (`forall w. p(w) := false` and `p(o) := true`: `NCR.ncr_forall_alias_witness`);
* through parameters (`a(x, y)`: `p(x) := false`, `p(y) := true` on the instance `a(o, o)`) — not expressible in the
  parameterless transition system of these theorems, the general form is in `ncr_sound_full`.
Effect targets cannot alias through nested fluents (`Effect.__init__` rejects a fluent among the target's arguments).
So the hypothesis is on the EXPANDED (forall-free) effects of every action instance: `Compile.noDoubleB M E` — any two
effects of `E` that write the same fluent `f ∈ dom M` have ground targets that differ, or assign the same value
expression.  It is decidable, and it is needed: `NCR.ncr_sound_unrestricted_false` is a kernel-checked refutation of the
statement without it, replayed on the real code by `./check C06` (known_findings.json, corpus).

WHAT ELSE `ncrOK` ASKS (all decidable, each a restriction of the PROVED fragment, none of the model):
* `litOK (simplify (nnf e))` for every condition of a parameterless action and every goal: after NNF and
  simplification negations sit on fluent applications or `<=` / `<` comparisons.  NOT covered: negated equalities
  (`not (a == b)` → `a > b or a < b` on numbers needs numeric fluents to hold numbers; → the disjunction over pairs of
  distinct objects on user types needs object fluents to hold objects of their type: a typing invariant of states that
  `tsOf` does not carry).  Covered by the model, the correspondence and the end-to-end differential only.
* `nnfRootOK e`: the root of a condition is in manager normal form (`And`/`Or` with ≥ 2 arguments, no `Not(Not _)`);
* conditional effects and effects on a fluent with a complementary fluent are not forall effects (`ncrEffOK`; a forall
  effect needs `eval (subst σ e) = eval_σ e` for the state evaluator and a simplifier exact under substitution);
  unconditional forall effects on other fluents are covered;
* no trajectory constraints / state invariants (`traj = []`; `SimpExact` says nothing about `Always(…)` nodes);
* every initial value is explicit (no fluent defaults): the compiled problem lists the initial value of every ground
  instance, the original state answers a default for ANY argument tuple, also ill-typed ones, so the two initial
  states agree on all keys only if there are no defaults (again the missing typing invariant);
* `mapOKB M` (no fluent mapped twice, complementary fluents pairwise distinct and Boolean), complementary fluents
  mentioned nowhere in the conditions, values, targets, bounds and initial values of the problem: FACTS about the
  compilation (the names are fresh, `Fresh.getFreshName_not_mem`), taken as decidable hypotheses instead of proved
  from the declaredness of the problem's fluents.
-/
namespace UPVerif.C06
open UPVerif UPVerif.Expr UPVerif.Sim UPVerif.Spec UPVerif.Simulation UPVerif.Compile

/-! ## one condition -/

/-- `remove_negative_fluents(e)` evaluates in a compiled state to what `e` evaluates to in the related original state
    (`none` = an evaluation error on both sides) -/
theorem ncr_condition_partial (simp : Expr → Expr) (hs : SimpExact simp) (P : Problem) (M : NMap) (c' c : EvalCtx)
    (hR : CtxRel M c' c) (e e' : Expr) (m m' : NMap) (hok : condOK simp M e = true)
    (h : nfrRemove simp P m e = some (e', m')) (hle : NMap.le m' M) : ev c' [] e' = ev c [] e :=
  nfrRemove_ev hs hR hok h hle

/-- the NNF step alone: C12's `nnf` keeps the VALUE of a condition in every state (not only its Boolean view, which
    is `bev_nnf`, the evaluator's `C12.nnf_equiv`) when the root is in manager normal form -/
theorem ncr_nnf_step (c : EvalCtx) (ρ : VEnv) (e : Expr) (h : nnfRootOK e = true) : ev c ρ (nnf true e) = ev c ρ e :=
  ev_nnf c ρ e h

/-! ## one step -/

/-- THE STEP LEMMA: from related states, the compiled action and the original action both have no successor, or
    their successors are related — `R` is preserved by every step -/
theorem ncr_step_partial (simp : Expr → Expr) (hs : SimpExact simp) (M : NMap) (hM : MapOK M) (W : World) (Q : Problem)
    (hQ : ProbRel M W Q) (a a' : Action) (hrel : ActRel simp W.P M a a') (hok : actOK simp W.P M a = true)
    (g' g : St) (hR : StRel M g' g) :
    OptRel (StRel M) (stepAct (withProblem W Q) g' a') (stepAct W g a) := ncr_step hs hM hQ hrel hok hR

/-- the heart of it: when the compiled action fires the original effects `F` followed by their mirror images, and no
    ground instance of a fluent with a complementary fluent is assigned both values (`FiredOK.noDouble`), the
    successors are related -/
theorem ncr_successor_partial (M : NMap) (hM : MapOK M) (g' g : St) (F : List Fired) (hR : StRel M g' g)
    (hF : FiredOK M F) : StRel M (succGet g' (F ++ mirList M F)) (succGet g F) := succGet_mirror hM hR hF

/-! ## every plan -/

/-- NegativeConditionsRemover is a forward simulation with the relation `StRel (ncrMap simp P)` -/
theorem ncr_forward_simulation_partial (simp : Expr → Expr) (hs : SimpExact simp) (W : World) (c : Compiled)
    (hc : ncrCompile simp W.P = some c) (hok : ncrOK simp W.P = true) :
    Fwd (tsOf W) (tsOf (withProblem W c.prob)) (backOf c) (StRel (ncrMap simp W.P)) (fun _ => True) :=
  ncr_fwd hs W hc hok

/-- SOUNDNESS of NegativeConditionsRemover for every plan of every length -/
theorem ncr_sound_partial (simp : Expr → Expr) (hs : SimpExact simp) (W : World) (c : Compiled)
    (hc : ncrCompile simp W.P = some c) (hok : ncrOK simp W.P = true) (π : List Nat)
    (hv : (tsOf (withProblem W c.prob)).Valid π) : (tsOf W).Valid (mapBack (backOf c) π) :=
  (ncr_fwd hs W hc hok).sound π hv

/-- … the mapped-back plan is the compiled plan itself (actions are identified by position) … -/
theorem ncr_same_plan_partial (simp : Expr → Expr) (hs : SimpExact simp) (W : World) (c : Compiled)
    (hc : ncrCompile simp W.P = some c) (hok : ncrOK simp W.P = true) (π : List Nat)
    (hv : (tsOf (withProblem W c.prob)).Valid π) : (tsOf W).Valid π := (ncr_valid_iff hs W hc hok π).1 hv

/-- … and the states it visits are related one by one to those of the compiled plan (`R` all along the plan) -/
theorem ncr_same_trace_partial (simp : Expr → Expr) (hs : SimpExact simp) (W : World) (c : Compiled)
    (hc : ncrCompile simp W.P = some c) (hok : ncrOK simp W.P = true) (π : List Nat) (g' gf : St) (g : St) (t : List St)
    (hR : StRel (ncrMap simp W.P) g' g) (hr : (tsOf (withProblem W c.prob)).run g' π = some gf)
    (hg : (tsOf (withProblem W c.prob)).goal gf) (ht : (tsOf (withProblem W c.prob)).trace g' π = some t) :
    ∃ tA, (tsOf W).trace g (mapBack (backOf c) π) = some tA ∧ TraceRel (StRel (ncrMap simp W.P)) t tA := by
  have hfw := ncr_fwd hs W hc hok
  refine hfw.trace π ?_ g' gf g t hR hr hg ht
  -- every applicable compiled action maps back to an original action
  have : ∀ (π : List Nat) (g : St) gf, (tsOf (withProblem W c.prob)).run g π = some gf → ∀ b ∈ π, (backOf c b).isSome := by
    obtain ⟨M, gs, hout⟩ := ncrCompile_some hc
    intro π
    induction π with
    | nil => intro _ _ _ b hb; cases hb
    | cons x xs ih =>
      intro g gf hr b hb
      simp only [TS.run] at hr
      cases hs' : (tsOf (withProblem W c.prob)).step g x with
      | none => rw [hs'] at hr; cases hr
      | some g1 =>
        rw [hs'] at hr
        rcases List.mem_cons.1 hb with rfl | hb'
        · obtain ⟨a', ha', _⟩ := tsOf_step hs'
          have hlen := hout.acts.length
          have hlt : b < (withProblem W c.prob).P.actions.length := (List.getElem?_eq_some_iff.1 ha').1
          have hlt' : b < W.P.actions.length := by rw [hlen]; exact hlt
          rw [backOf_ncr hout.back, if_pos hlt']; rfl
        · exact ih g1 gf hr b hb'
  exact this π g' gf hr

/-- a pipeline: conditional effects removed first (ConditionalEffectsRemover, repaired), then negative conditions —
    the second stage runs on the first stage's compiled problem; soundness composes (`Simulation.sound_comp`) -/
theorem cer_then_ncr_sound_partial (simp : Expr → Expr) (hs : SimpExact simp) (W : World) (c₁ c₂ : Compiled)
    (h₁ : cerCompile simp W.P = some c₁) (hok₁ : ∀ a ∈ W.P.actions, cerOK (cerExpand W.P a) = true)
    (h₂ : ncrCompile simp c₁.prob = some c₂) (hok₂ : ncrOK simp c₁.prob = true) (π : List Nat)
    (hv : (tsOf (withProblem (withProblem W c₁.prob) c₂.prob)).Valid π) :
    (tsOf W).Valid (mapBack (compBack (backOf c₁) (backOf c₂)) π) :=
  sound_comp (fun π hv => (cer_fwd hs W h₁ hok₁).sound π hv)
    (fun π hv => (ncr_fwd hs (withProblem W c₁.prob) h₂ hok₂).sound π hv) π hv

/-! ## the full statement, and why the hypothesis is needed -/

/-- the hypothesis in general: on every instance of every action, no two expanded effects write one ground instance of
    a fluent with a complementary fluent with possibly different values -/
def NoDoubleAll (simp : Expr → Expr) (P : Problem) : Prop :=
  ∀ a ∈ P.actions, ∀ args ∈ instancesOf P a, noDoubleB (ncrMap simp P) (expandEffs P (instAct P a args).effs) = true

instance (simp : Expr → Expr) (P : Problem) : Decidable (NoDoubleAll simp P) := by
  unfold NoDoubleAll; infer_instance

/-- full clause for NegativeConditionsRemover: soundness on ALL instances of lifted actions, under the one hypothesis
    that excludes finding C06-ncr-add-after-delete.  Proved part: `ncr_sound_partial` (parameterless actions and the
    further restrictions of `ncrOK` listed in the header).  WITHOUT the hypothesis the statement is false:
    `NCR.ncr_sound_unrestricted_false`. -/
def ncr_sound_full (simp : Expr → Expr) : Prop :=
  SimpExact simp → ∀ (W : World) (c : Compiled), ncrCompile simp W.P = some c → NoDoubleAll simp W.P →
    ∀ π : List (Nat × List String), (tsLifted (withProblem W c.prob)).Valid π → (tsLifted W).Valid (mapBack (backLifted c) π)

namespace NCR
section witnesses
/-! ### finding C06-ncr-add-after-delete, kernel-checked on the model

`b : bool = false`; `a0`: pre `not b`, effects `b := false`, `b := true`.  Compiled: pre `not_b`, effects `b := false`,
`b := true`, `not_b := true`, `not_b := false`.  After `a0` both `b` and `not_b` are true, so `a0` applies again in
the compiled problem only: `[a0, a0]` is a valid compiled plan whose map-back `[a0, a0]` is not a plan. -/
def fb : FluentRef := ⟨"b", .bool, []⟩
def eb : Expr := .app (.fluent fb) []
def eff (f v c : Expr) (fa : List Var := []) : Effect := { fluent := f, value := v, cond := c, kind := .assign, forall_ := fa }
def w0 : Action where
  name := "a0"
  params := []
  pre := [Expr.mkNot eb]
  effs := [eff eb Expr.ff Expr.tt, eff eb Expr.tt Expr.tt]
def Pw : Problem where
  name := "w"
  types := ⟨[]⟩
  objects := []
  fluents := [⟨fb, none⟩]
  init := [(eb, Expr.ff)]
  actions := [w0]
  goals := []
  traj := []
  metrics := []
def Ww : World := { P := Pw, simp := id, fn := fun _ _ => none }
def cw : Compiled := (ncrCompile id Pw).getD ⟨Pw, []⟩

theorem ncr_add_after_delete_witness :
    (ncrCompile id Pw).isSome = true ∧ (tsOf (withProblem Ww cw.prob)).Valid [0, 0] ∧ mapBack (backOf cw) [0, 0] = [0, 0] ∧
    ¬ (tsOf Ww).Valid [0, 0] := by
  refine ⟨by decide +kernel, validB_sound (by decide +kernel), by decide +kernel, ?_⟩
  intro h
  have := validB_complete h
  revert this
  decide +kernel

/-- the hypothesis of the theorems is what excludes it (everything else `ncrOK` asks holds) -/
example : noDoubleB (ncrMap id Pw) (expandEffs Pw w0.effs) = false ∧ ncrOK id Pw = false ∧
    ncrOK id { Pw with actions := [{ w0 with effs := [eff eb Expr.tt Expr.tt] }] } = true := by decide +kernel

/-- SOUNDNESS WITHOUT THE HYPOTHESIS IS FALSE (for the identity simplifier, which is exact) -/
theorem ncr_sound_unrestricted_false :
    ¬ (∀ (W : World) (c : Compiled) (π : List Nat), ncrCompile id W.P = some c →
        (tsOf (withProblem W c.prob)).Valid π → (tsOf W).Valid (mapBack (backOf c) π)) := by
  intro h
  obtain ⟨h1, h2, h3, h4⟩ := ncr_add_after_delete_witness
  have hc : ncrCompile id Ww.P = some cw := by
    unfold cw
    show ncrCompile id Pw = _
    cases hx : ncrCompile id Pw with
    | none => rw [hx] at h1; cases h1
    | some c => rfl
  have := h Ww cw [0, 0] hc h2
  rw [h3] at this
  exact h4 this

/-! the same through a forall effect: objects `o1 o2 : T`, `p(T) : bool = false`; `a0`: pre `not p(o1)`, effects
    `forall w:T. p(w) := false`, `p(o1) := true` — the instance `w = o1` and the second effect meet on `p(o1)` -/
def tT : Ty := .user "T"
def fp : FluentRef := ⟨"p", .bool, [tT]⟩
def vw : Var := ⟨"w", tT⟩
def o1 : Expr := .leaf (.obj "o1" "T")
def o2 : Expr := .leaf (.obj "o2" "T")
def pOf (x : Expr) : Expr := .app (.fluent fp) [x]
def f0 : Action where
  name := "a0"
  params := []
  pre := [Expr.mkNot (pOf o1)]
  effs := [eff (pOf (.leaf (.var vw))) Expr.ff Expr.tt [vw], eff (pOf o1) Expr.tt Expr.tt]
def Pf : Problem where
  name := "f"
  types := ⟨[("T", none)]⟩
  objects := [("o1", "T"), ("o2", "T")]
  fluents := [⟨fp, none⟩]
  init := [(pOf o1, Expr.ff), (pOf o2, Expr.ff)]
  actions := [f0]
  goals := []
  traj := []
  metrics := []
def Wf : World := { P := Pf, simp := id, fn := fun _ _ => none }
def cf : Compiled := (ncrCompile id Pf).getD ⟨Pf, []⟩

theorem ncr_forall_alias_witness :
    (ncrCompile id Pf).isSome = true ∧ (tsOf (withProblem Wf cf.prob)).Valid [0, 0] ∧ mapBack (backOf cf) [0, 0] = [0, 0] ∧
    ¬ (tsOf Wf).Valid [0, 0] ∧ noDoubleB (ncrMap id Pf) (expandEffs Pf f0.effs) = false := by
  refine ⟨by decide +kernel, validB_sound (by decide +kernel), by decide +kernel, ?_, by decide +kernel⟩
  intro h
  have := validB_complete h
  revert this
  decide +kernel
end witnesses

section examples
/-! ## non-vacuity: the hypotheses hold on a concrete problem with negated literals in preconditions, effect conditions
and goals, a negated comparison, an implication, a fluent-valued and a negated assignment to fluents that have a
complementary fluent, a forall effect on a fluent that has none

`b q : bool = false`, `r(T) : bool = false`, `x : int[0,10] = 1`
* `a0`: pre `not b`, `not (x <= 0)`, `q => b`; effects `b := true`; `q := not b if (not q and not b)`; `forall w. r(w) := true`
* `a1`: pre `b`; effects `b := q`… -/
def fq : FluentRef := ⟨"q", .bool, []⟩
def fr : FluentRef := ⟨"r", .bool, [tT]⟩
def fx : FluentRef := ⟨"x", .int (some 0) (some 10), []⟩
def eq_ : Expr := .app (.fluent fq) []
def ex : Expr := .app (.fluent fx) []
def rOf (x : Expr) : Expr := .app (.fluent fr) [x]
def e0 : Action where
  name := "a0"
  params := []
  pre := [Expr.mkNot eb, Expr.mkNot (Expr.mkLE ex (Expr.int 0)), Expr.mkImplies eq_ eb]
  effs := [eff eb Expr.tt Expr.tt, eff eq_ (Expr.mkNot eb) (.app .and [Expr.mkNot eq_, Expr.mkNot eb]),
           eff (rOf (.leaf (.var vw))) Expr.tt Expr.tt [vw]]
def e1 : Action where
  name := "a1"
  params := []
  pre := [eb]
  effs := [eff eb (Expr.mkNot eq_) Expr.tt, { fluent := ex, value := Expr.int 1, cond := Expr.mkNot eq_, kind := .increase, forall_ := [] }]
def Pe : Problem where
  name := "e"
  types := ⟨[("T", none)]⟩
  objects := [("o1", "T"), ("o2", "T")]
  fluents := [⟨fb, none⟩, ⟨fq, none⟩, ⟨fr, none⟩, ⟨fx, none⟩]
  init := [(eb, Expr.ff), (eq_, Expr.ff), (rOf o1, Expr.ff), (rOf o2, Expr.ff), (ex, Expr.int 1)]
  actions := [e0, e1]
  goals := [Expr.mkNot eb, eq_, rOf o2]
  traj := []
  metrics := []
def We : World := { P := Pe, simp := id, fn := fun _ _ => none }
def ce : Compiled := (ncrCompile id Pe).getD ⟨Pe, []⟩

/-- the compilation succeeds, creates `not_b` and `not_q` (in this order), and the hypotheses of the theorems hold -/
example : (ncrCompile id Pe).isSome = true ∧ (ncrMap id Pe).map (fun kv => (kv.1.name, kv.2.name)) = [("b", "not_b"), ("q", "not_q")] ∧
    ncrOK id Pe = true := by decide +kernel
/-- a valid compiled plan and its map-back: `[a0, a1]` (after `a0`: `b q`; `a1` sets `b := not q = false`) -/
example : validB (withProblem We ce.prob) [0, 1] = true ∧ mapBack (backOf ce) [0, 1] = [0, 1] ∧ validB We [0, 1] = true ∧
    validB (withProblem We ce.prob) [0] = false ∧ validB We [0] = false ∧
    validB (withProblem We ce.prob) [1] = false ∧ validB We [1] = false := by decide +kernel
/-- the compiled preconditions of `a0` contain no negation: `not_b`, `0 < x`, `not_q or b` -/
example : (ce.prob.actions.map (·.pre)).head? =
    some [.app (.fluent ⟨"not_b", .bool, []⟩) [], Expr.mkGT ex (Expr.int 0),
          .app .or [.app (.fluent ⟨"not_q", .bool, []⟩) [], eb]] := by decide +kernel
example : SimpExact id := SimpExact_id
end examples
end NCR

end UPVerif.C06
