import UPVerif.Lemmas.FreshLemmas
import UPVerif.Lemmas.ResultLemmas
import UPVerif.Lemmas.DeclaredLemmas
/-!
# C08 — Compilers succeed and produce well-formed results inside their supported kind

Statements only (helper lemmas: `Lemmas/FreshLemmas.lean`, `Lemmas/ResultLemmas.lean`,
`Lemmas/DeclaredLemmas.lean`).  Models: `Core/Fresh.lean` (`utils.get_fresh_name`, the naming disciplines
of the compilers, the grounder's naming), `Core/Result.lean` (`CompilerResult.__post_init__`,
`replace_action_instances`, the pipeline's composed map-back), `Core/Declared.lean` (declaredness of the
symbols of an expression).  All of them are tied to the code by the correspondence check of
`harness/props/C08.py`.

What is proved for ALL inputs (no size bound):
* the counter search of `get_fresh_name` terminates (no fuel) and its answer is the FIRST candidate that is
  not taken, in particular not taken;
* "Object, parameter or action names that contain separator characters never cause name clashes":
  whatever strings the identifiers are, names handed out against the CURRENT name set are pairwise
  distinct and distinct from every declared name (`C08_names_unique`), and so are the names of the
  repaired grounder (`C08_grounder_names_unique`); the stale discipline of the unrepaired code clashes
  (`C08_stale_discipline_clashes`, kernel-checked on move(a_b,c) / move(a,b_c));
* "a plan back-conversion is available": `C08_back_conversion_available`,
  `C08_result_with_problem_has_back_conversion`, `C08_pipeline_back_conversion`;
* "every referenced … is declared": only for the parameter substitution of grounding
  (`C08_references_declared_partial`); the full statement is `C08_references_declared_full`.
-/
namespace UPVerif.C08
open UPVerif UPVerif.Fresh UPVerif.Result UPVerif.Declared

/-! ## fresh names -/

/-- the `while` loop of `get_fresh_name` always exits: the search over the first `|names|+1` candidates
    succeeds (pigeonhole), so the model needs no fuel -/
theorem fresh_terminates (names : List String) (base : String) (params : List String) (t : Option String) :
    (firstFree names (joinName base params t)).isSome = true :=
  firstFree_isSome names _

/-- the answer is not a name of the problem (nor one of the `used_names`) -/
theorem fresh_not_mem (names : List String) (base : String) (params : List String) (t : Option String) :
    getFreshName names base params t ∉ names :=
  getFreshName_not_mem names base params t

/-- the answer is exactly what the loop computes: the first of `b, b_0, b_1, …` that is free -/
theorem fresh_is_first_free (names : List String) (base : String) (params : List String) (t : Option String) :
    ∃ k, getFreshName names base params t = candidate (joinName base params t) k ∧
      candidate (joinName base params t) k ∉ names ∧
      ∀ j, j < k → candidate (joinName base params t) j ∈ names :=
  getFreshName_spec names base params t

/-- After ANY sequence of requests answered against the current name set and registered, all names of
    the problem are pairwise distinct, the new ones are pairwise distinct and none of them was declared
    before — for arbitrary identifier strings (separators, digits, prefixes of one another, …). -/
theorem C08_names_unique (names : List String) (reqs : List Req) (h : names.Nodup) :
    (runCurrent names reqs).2.Nodup ∧ (runCurrent names reqs).1.Nodup ∧
    ∀ n ∈ (runCurrent names reqs).1, n ∉ names :=
  let s := runCurrent_spec reqs names h
  ⟨s.1, s.2.1, s.2.2.1⟩

/-- the final name set is exactly the old names plus the chosen ones (nothing is lost or invented) -/
theorem C08_names_accounted (names : List String) (reqs : List Req) (h : names.Nodup) :
    ∀ n, n ∈ (runCurrent names reqs).2 ↔ n ∈ (runCurrent names reqs).1 ∨ n ∈ names :=
  (runCurrent_spec reqs names h).2.2.2

/-! non-vacuity / the property's own example: `move(a_b, c)` and `move(a, b_c)` -/
def moveNames : List String := ["move", "f", "a_b", "c", "a", "b_c", "T"]
def moveReqs : List Req := [⟨"move", ["a_b", "c"], none⟩, ⟨"move", ["a", "b_c"], none⟩]
example : moveNames.Nodup := by decide +kernel
example : (runCurrent moveNames moveReqs).1 = ["move_a_b_c", "move_a_b_c_0"] := by decide +kernel

/-- the discipline of the unrepaired grounder / negative-conditions remover (every request answered against
    the ORIGINAL problem) does clash -/
theorem C08_stale_discipline_clashes : ¬ (runStale moveNames moveReqs).Nodup := by decide +kernel

/-! ## the grounder's names (repaired code) -/

/-- All declared names of the grounded problem are pairwise distinct: `other` are the names the compiled
    problem inherits (types, objects, fluents), `actNames` the action names of the original problem;
    hypotheses: the original problem's names are distinct, and the actions without parameters (the only
    ones that keep their name) have distinct names that are action names of the original problem. -/
theorem C08_grounder_names_unique (other actNames : List String) (acts : List GAct)
    (hN : (other ++ actNames).Nodup)
    (hk : (keptNames (flatten acts)).Nodup) (hin : ∀ n ∈ keptNames (flatten acts), n ∈ actNames) :
    (other ++ (groundNames (other ++ actNames) acts).map (·.1)).Nodup :=
  groundNames_problem_nodup other actNames acts hN hk hin

def moveActs : List GAct :=
  [⟨"move", [⟨true, ["a_b", "c"]⟩, ⟨false, ["a_b", "a"]⟩, ⟨true, ["a", "b_c"]⟩]⟩, ⟨"stop", [⟨true, []⟩]⟩]
example : (["f", "a_b", "c", "a", "b_c", "T"] ++ ["move", "stop"]).Nodup ∧
    (keptNames (flatten moveActs)).Nodup ∧ (∀ n ∈ keptNames (flatten moveActs), n ∈ ["move", "stop"]) := by
  decide +kernel
example : (groundNames (["f", "a_b", "c", "a", "b_c", "T"] ++ ["move", "stop"]) moveActs).map (·.1)
    = ["move_a_b_c", "move_a_b_c_0", "stop"] := by decide +kernel
/-- the unrepaired grounder on the same input produces the clash D-C08a -/
theorem C08_stale_grounder_clashes :
    ¬ ((groundFlatStale (["f", "a_b", "c", "a", "b_c", "T"] ++ ["move", "stop"]) (flatten moveActs)).map (·.1)).Nodup := by
  decide +kernel

/-! ## the result record -/

/-- a result with a problem and an action map-back (and no explicit back-conversion) is accepted and has
    a usable plan back-conversion: `replace_action_instances` with the map-back -/
theorem C08_back_conversion_available {α β : Type} (f : α → Option β) :
    ∃ r, postInit (⟨true, some f, none⟩ : Raw α β) = .ok r ∧ r.hasProblem = true ∧
      ∃ g, r.planBack = some g ∧ ∀ plan, g plan = plan.filterMap f :=
  ⟨_, rfl, rfl, _, rfl, fun _ => rfl⟩

/-- every completed result that has a problem has a plan back-conversion -/
theorem C08_result_with_problem_has_back_conversion {α β : Type} (raw r : Raw α β)
    (h : postInit raw = .ok r) (hp : r.hasProblem = true) : r.planBack.isSome = true := by
  unfold postInit at h
  cases hprob : raw.hasProblem <;> cases hm : raw.mapBack <;> cases hb : raw.planBack <;>
    simp [hprob, hm, hb] at h <;> subst h <;> simp_all

/-- the result built by `CompilersPipeline.compile` is accepted and converts a plan back by converting it
    back through the stages, last stage first -/
theorem C08_pipeline_back_conversion {α : Type} (stages : List (α → Option α)) :
    ∃ r, postInit (pipelineRaw stages) = .ok r ∧
      ∃ g, r.planBack = some g ∧ ∀ plan, g plan = stages.reverse.foldl (fun p f => p.filterMap f) plan :=
  ⟨_, rfl, _, rfl, fun plan => filterMap_composeBack stages.reverse plan⟩

example : postInit (⟨true, none, none⟩ : Raw String String) = .error .problemButNoWayBack := rfl
example : (postInit (⟨false, none, none⟩ : Raw String String)).isOk = true := rfl

/-! ## every reference declared -/

/-- The full clause, to be proved of the model `compile` of EACH compiler (a partial function on problems with
    declarations `decls` and expressions `exprs`): every expression of the compiled problem only mentions
    declared symbols.  Not proved: the compilers' transformations are not modelled (they are only checked on
    the real code by the oracle of harness/props/C08.py). -/
def C08_references_declared_full {Problem : Type} (decls : Problem → Decls) (exprs : Problem → List Expr)
    (compile : Problem → Option Problem) : Prop :=
  ∀ P P', compile P = some P' → (∀ e ∈ exprs P, declared (decls P) e = true) →
    ∀ e ∈ exprs P', declared (decls P') e = true

/-- Proved part: the parameter substitution by which the grounder instantiates every expression of an
    action (`create_action_with_given_subs`) keeps every referenced fluent, object and type declared,
    provided the actual parameters are declared objects.  Missing for the full clause: the simplification
    that follows (C11's model), and every other compiler's transformation. -/
theorem C08_references_declared_partial (D : Decls) (params : List (String × Ty)) (objs : List (String × String))
    (hobjs : ∀ o ∈ objs, D.objects.contains o = true ∧ D.types.contains o.2 = true)
    (e : Expr) (he : declared D e = true) :
    declared D (Expr.subst (groundSubst params objs) e) = true :=
  declared_subst D _ (groundSubst_values D params objs hobjs) e he

def exD : Decls := { types := ["T"], objects := [("a_b", "T"), ("c", "T")], fluents := [⟨"f", .bool, [.user "T"]⟩] }
def exE : Expr := .app .not [.app (.fluent ⟨"f", .bool, [.user "T"]⟩) [.leaf (.param "y" (.user "T"))]]
example : declared exD exE = true ∧ (∀ o ∈ [("c", "T")], exD.objects.contains o = true ∧ exD.types.contains o.2 = true) := by
  decide +kernel
example : Expr.subst (groundSubst [("y", .user "T")] [("c", "T")]) exE
    = .app .not [.app (.fluent ⟨"f", .bool, [.user "T"]⟩) [.leaf (.obj "c" "T")]] := by decide +kernel

end UPVerif.C08
