import UPVerif.Lemmas.SubstLemmas
/-!
# C13 — Substitution replaces exactly the free occurrences of its keys

Statements only.  The model is `Core/Walkers/Substitute.lean` (`subst` = what one
`Substituter.walk` memoises for a node, `substituteChecked` = `Substituter.substitute`), tied to the
code by the correspondence check on the exact produced expression.  The declarative notions used in
the statements (`Replaces`, `updInterp`, `updEnv`, `SemOK`, `noCapture`, `CollapseOK`, …) are defined
in `Lemmas/SubstSpec.lean`; the proofs are in `Lemmas/SubstLemmas.lean`, the reusable facts about the
reference denotation in `Lemmas/DenLemmas.lean`.

Clauses of the property and where they are:

* "each maximal occurrence of a key replaced by its value, top-down, without re-substituting inside
  inserted values; inside a quantifier no key containing a variable bound by it is replaced":
  `subst_spec`, `subst_spec_under`, `subst_no_resubstitution`, `subst_binder_drops_captured_key`;
* "the result evaluates like the original under the interpretation updated by the map":
  `subst_semantics_partial` / `substitute_semantics_partial` — PARTIAL: proved under `noCapture`;
  the statement without that hypothesis (`subst_semantics_full`) is FALSE for the code as it is
  (finding F-C13-capture: a free variable of a value is captured by a binder of the expression),
  refuted on a concrete witness in `subst_semantics_full_refuted`;
* "a map with incompatible types is rejected before anything changes": `substitute_rejects_first`,
  `substitute_accepts`, `substitute_empty` (in the pure model "before anything changes" is: the answer
  is computed from the verdicts alone; the state of the shared walker is property C14).
-/
namespace UPVerif.C13
open UPVerif UPVerif.Expr

/-! ## the syntactic clause -/

/-- Below quantifiers binding `B`, the walker run with the still-active pairs produces exactly the
    expression the declarative relation describes — and the relation describes only that one. -/
theorem subst_spec_under (σ : Subst) (B : List Var) (e r : Expr) :
    Replaces σ B e r ↔ r = subst (restrict B σ) e :=
  ⟨replaces_fun σ e B r, fun h => h ▸ replaces_subst σ e B⟩

/-- The walker equals the declarative replacement: `r` is the expression with each maximal free
    occurrence of a key replaced by its value iff `r` is what `Substituter.walk` returns. -/
theorem subst_spec (σ : Subst) (e r : Expr) : Replaces σ [] e r ↔ r = subst σ e := by
  have h := subst_spec_under σ [] e r
  rwa [restrict_nil] at h

/-- A key occurrence is replaced by the value VERBATIM: nothing is substituted inside the inserted
    value, whatever keys it contains. -/
theorem subst_no_resubstitution (σ : Subst) (e v : Expr) (h : σ.lookup e = some v) :
    subst σ e = v :=
  subst_of_lookup_some σ e v h

/-- Inside a quantifier a key that mentions one of its bound variables is inert: adding such a pair
    to the map changes nothing at that quantifier (unless the pair's key is the quantifier itself). -/
theorem subst_binder_drops_captured_key (σ : Subst) (k v : Expr) (q : Quant) (vs : List Var) (b : Expr)
    (hcap : capturedBy vs k = true) (hne : k ≠ .quant q vs b) :
    subst ((k, v) :: σ) (.quant q vs b) = subst σ (.quant q vs b) :=
  subst_cons_captured σ k v q vs b hcap hne

/-! ### non-vacuity and the documented examples of `Substituter.substitute` -/

private def fl0 (n : String) : Expr := .app (.fluent { name := n, ty := .bool, sig := [] }) []
private def A := fl0 "a"
private def Bx := fl0 "b"
private def C := fl0 "c"
private def D := fl0 "d"
private def T : Ty := .user "T"
private def q1 : Var := { name := "q1", ty := T }
private def bq (x : Expr) : Expr := .app (.fluent { name := "bq", ty := .bool, sig := [T] }) [x]

/-- docstring example 1: `f = a & b`, `{a -> c, (c & b) -> d, (a & b) -> c}` gives `c` (top-down) -/
example : subst [(A, C), (.app .and [C, Bx], D), (.app .and [A, Bx], C)] (.app .and [A, Bx]) = C := by
  decide
/-- docstring example 2: `f = a`, `{a -> c, c -> d}` gives `c` (no re-substitution) -/
example : subst [(A, C), (C, D)] A = C := by decide
example : ([(A, C), (C, D)] : Subst).lookup A = some C := by decide
/-- the relation is inhabited on a case with a binder: `bq(q1) ∧ ∀q1. bq(q1)` under `{bq(q1) -> a}` -/
example : Replaces [(bq (.leaf (.var q1)), A)] []
    (.app .and [bq (.leaf (.var q1)), .quant .all [q1] (bq (.leaf (.var q1)))])
    (.app .and [A, .quant .all [q1] (bq (.leaf (.var q1)))]) :=
  (subst_spec _ _ _).2 (by decide)
/-- hypotheses of `subst_binder_drops_captured_key` are satisfiable -/
example : capturedBy [q1] (bq (.leaf (.var q1))) = true ∧
    bq (.leaf (.var q1)) ≠ .quant .all [q1] (bq (.leaf (.var q1))) := by decide

/-! ## the rejection clause -/

/-- `substitute` with an empty map returns the expression itself (not even re-normalised). -/
theorem substitute_empty (compat : Expr → Expr → Bool) (e : Expr) :
    substituteChecked compat [] e = some e := rfl

/-- A non-empty map with an incompatible pair is rejected (`UPTypeError`), whatever the expression
    and whatever the other pairs: the walk is never started. -/
theorem substitute_rejects_first (compat : Expr → Expr → Bool) (σ : Subst) (e : Expr)
    (k v : Expr) (hmem : (k, v) ∈ σ) (hbad : compat k v = false) :
    substituteChecked compat σ e = none := by
  unfold substituteChecked
  have hne : σ.isEmpty = false := by cases σ with
    | nil => cases hmem
    | cons _ _ => rfl
  have hall : σ.all (fun kv => compat kv.1 kv.2) = false := by
    cases h : σ.all (fun kv => compat kv.1 kv.2) with
    | false => rfl
    | true =>
      rw [List.all_eq_true] at h
      have := h (k, v) hmem
      simp only [hbad] at this
      cases this
  simp [hne, hall]

/-- A non-empty map all of whose pairs are compatible is walked. -/
theorem substitute_accepts (compat : Expr → Expr → Bool) (σ : Subst) (e : Expr)
    (hne : σ ≠ []) (hall : ∀ kv ∈ σ, compat kv.1 kv.2 = true) :
    substituteChecked compat σ e = some (subst σ e) := by
  unfold substituteChecked
  have h1 : σ.isEmpty = false := by cases σ with
    | nil => exact absurd rfl hne
    | cons _ _ => rfl
  have h2 : σ.all (fun kv => compat kv.1 kv.2) = true := List.all_eq_true.2 hall
  simp [h1, h2]

example : ((A, C) : Expr × Expr) ∈ [(Bx, D), (A, C)] ∧ (fun k _ => decide (k = Bx)) A C = false := by
  decide
example : ([(Bx, D), (A, C)] : Subst) ≠ [] ∧ ∀ kv ∈ ([(Bx, D), (A, C)] : Subst), (fun _ _ => true) kv.1 kv.2 = true := by
  decide

/-! ## the semantic clause -/

/-- The semantic clause at full strength (for the key forms of DESIGN 2.11, under the decidable
    separation conditions `SemOK`, defined replacement values for variable keys, and meaning-preserving
    manager normalisations) — WITHOUT any condition on the free variables of the values. -/
def subst_semantics_full : Prop :=
  ∀ (ι : Interp) (ρ : VEnv) (σ : Subst) (e : Expr),
    SemOK σ e = true → VarValuesDefined ι ρ σ → CollapseOK ι σ e →
    den ι ρ (subst σ e) = den (updInterp ι ρ σ) (updEnv ι ρ σ) e

/-- What is proved: the same statement under `noCapture σ e` — no variable bound by a quantifier of
    `e` occurs free in a value of `σ`.  Missing for the full statement: the real walker (and hence the
    model) does not rename bound variables, so a value mentioning a bound variable is captured. -/
theorem subst_semantics_partial (ι : Interp) (ρ : VEnv) (σ : Subst) (e : Expr)
    (hok : SemOK σ e = true) (hcap : noCapture σ e = true)
    (hdef : VarValuesDefined ι ρ σ) (hcol : CollapseOK ι σ e) :
    den ι ρ (subst σ e) = den (updInterp ι ρ σ) (updEnv ι ρ σ) e :=
  subst_sem ι ρ σ e hok hcap hdef hcol

/-- The same for `Substituter.substitute` (type check included; the empty map updates nothing). -/
theorem substitute_semantics_partial (compat : Expr → Expr → Bool) (ι : Interp) (ρ : VEnv) (σ : Subst)
    (e r : Expr) (hr : substituteChecked compat σ e = some r)
    (hok : SemOK σ e = true) (hcap : noCapture σ e = true)
    (hdef : VarValuesDefined ι ρ σ) (hcol : CollapseOK ι σ e) :
    den ι ρ r = den (updInterp ι ρ σ) (updEnv ι ρ σ) e := by
  unfold substituteChecked at hr
  cases σ with
  | nil =>
    simp only [List.isEmpty_nil, if_true, Option.some.injEq] at hr
    subst hr
    rw [(upd_nil ι ρ).1, (upd_nil ι ρ).2]
  | cons kv σ =>
    simp only [List.isEmpty_cons, Bool.false_eq_true, if_false] at hr
    split at hr
    · cases hr
      exact subst_sem ι ρ _ e hok hcap hdef hcol
    · cases hr

/-- `CollapseOK` holds whenever the decidable check `collapseSafe` does (no collapsing constructor
    fires, or it fires around an argument whose head operator fixes its sort). -/
theorem collapseOK_of_collapseSafe (ι : Interp) (σ : Subst) (e : Expr) (h : collapseSafe σ e = true) :
    CollapseOK ι σ e :=
  collapseOK_of_safe ι e σ h

/-! ### non-vacuity of the semantic theorem: parameter, variable and ground-fluent keys, a binder, a
    collapsing double negation -/

private def S : Ty := .user "S"
private def q2 : Var := { name := "q2", ty := S }
private def pt : Expr := .leaf (.param "pt" T)
private def xfl : Expr := .app (.fluent { name := "x", ty := .int none none, sig := [] }) []
private def bs (x : Expr) : Expr := .app (.fluent { name := "bs", ty := .bool, sig := [S] }) [x]
private def ob (n t : String) : Expr := .leaf (.obj n t)
private def br (x : Expr) : Expr := .app (.fluent { name := "br", ty := .bool, sig := [T] }) [x]

private def e0 : Expr :=
  .app .and [ .app .eq [pt, ob "t2" "T"],
              .quant .all [q1] (.app .or [br (.leaf (.var q1)), A, bq (ob "t2" "T")]),
              .app .not [A],
              bq (ob "t1" "T"),
              bs (.leaf (.var q2)) ]
private def σ0 : Subst :=
  [ (pt, ob "t1" "T"),
    (A, .app .not [.app .le [xfl, Expr.int 3]]),
    (bq (ob "t2" "T"), Bx),
    (.leaf (.var q2), ob "s1" "S") ]

example : SemOK σ0 e0 = true ∧ noCapture σ0 e0 = true ∧ collapseSafe σ0 e0 = true := by decide
example (ι : Interp) (ρ : VEnv) : VarValuesDefined ι ρ σ0 := by
  intro kv hkv x hx
  simp only [σ0, List.mem_cons, List.not_mem_nil, or_false] at hkv
  rcases hkv with rfl | rfl | rfl | rfl
  · cases hx
  · cases hx
  · cases hx
  · rfl
example : substituteChecked (fun _ _ => true) σ0 e0 = some (subst σ0 e0) := by decide
/-- and the substitution really does something there (the double negation collapses) -/
example : subst σ0 e0 =
    .app .and [ .app .eq [ob "t1" "T", ob "t2" "T"],
                .quant .all [q1] (.app .or [br (.leaf (.var q1)), .app .not [.app .le [xfl, Expr.int 3]], Bx]),
                .app .le [xfl, Expr.int 3],
                bq (ob "t1" "T"),
                bs (ob "s1" "S") ] := by decide

/-! ### the full statement is false: finding F-C13-capture

`∀q1:S. pb` under `{pb ↦ bq(q1)}` becomes `∀q1:S. bq(q1)`: the free `q1` of the value is captured.
With `q1 = s1` outside, `bq(s1)` true and `bq(s2)` false, the original under the updated
interpretation (`pb := bq(s1) = true`) is true, the result is false.  (Witness found by
`./check C13` on the real code and minimised there.) -/

private def qS : Var := { name := "q1", ty := S }
private def bqS (x : Expr) : Expr := .app (.fluent { name := "bq", ty := .bool, sig := [T] }) [x]
private def pb : Expr := .leaf (.param "pb" .bool)
private def eW : Expr := .quant .all [qS] pb
private def σW : Subst := [(pb, bqS (.leaf (.var qS)))]
private def ιW : Interp where
  fl := fun _ as => some (.b (decide (as = [.o "s1"])))
  fn := fun _ _ => none
  par := fun _ => none
  dom := fun _ => [.o "s1", .o "s2"]
private def ρW : VEnv := [(qS, .o "s1")]

theorem subst_semantics_full_refuted : ¬ subst_semantics_full := by
  intro h
  have hdef : VarValuesDefined ιW ρW σW := by
    intro kv hkv x hx
    simp only [σW, List.mem_cons, List.not_mem_nil, or_false] at hkv
    subst hkv
    cases hx
  have hcol : CollapseOK ιW σW eW := collapseOK_of_safe ιW eW σW (by decide)
  have := h ιW ρW σW eW (by decide) hdef hcol
  have hl : den ιW ρW (subst σW eW) = some (.b false) := by decide
  have hr : den (updInterp ιW ρW σW) (updEnv ιW ρW σW) eW = some (.b true) := by decide
  rw [hl, hr] at this
  cases this

end UPVerif.C13
