import UPVerif.Lemmas.ValidateMain
/-!
# C03 — Sequential plan validation decides validity and metric values exactly

Statements only (helper lemmas: `Lemmas/ValidateStep.lean` — one iteration against the documented step,
determinism of runs up to readings —, `Lemmas/ValidateLoop.lean` — the loop invariant —,
`Lemmas/ValidateMain.lean`).

* `Validate.validate` (`Core/Validate.lean`) is the executable model that mirrors
  `SequentialPlanValidator._validate` statement by statement on top of the simulator model of C01
  (`Core/Sim.lean`); the correspondence check ties it to /repo.  `Variant.repaired` is the code with
  notes/patches/C03-final-state-metric-empty-plan.patch, `Variant.asFound` the code before it.
* `Spec.Exec`, `Spec.reported`, `Spec.metricValue` (`Spec/Plan.lean`) say what "executable", "goal state"
  and "the value the metric defines" mean, on top of the documented one-step semantics `Spec.apply`
  of C01 (`Spec/Successor.lean`).

Everything is proved for EVERY world `W` (problem, simplifier, interpreted-function tables) and EVERY
plan `π` — no bound on the length of the plan, no hypothesis on the simplifier.  Standing hypotheses
`hm`/`h0` only name the metric and the initial state: the problem has at most one metric and its
initial state satisfies its invariants (otherwise the validator raises the documented
`UPProblemDefinitionError`, outcome `rejected`: `C03_rejected_iff`).  `validate … = .ok r` means that no
exception of evaluation (`ZeroDivisionError`, malformed expression) escapes; the property is silent
there (DESIGN §2.11) and the theorems speak about calls that return.
-/
namespace UPVerif.C03
open UPVerif UPVerif.Sim UPVerif.Spec UPVerif.Validate

/-! ## validity -/

/-- MAIN THEOREM (exact form).  The validator answers VALID with metric evaluation `mv` exactly when the
    plan is executable from the initial state under the documented semantics, ends in a goal state,
    and `mv` is what the metric defines for that run (`none` = the problem has no metric). -/
theorem C03_valid_iff_exact (W : World) (π : List Inst) (m : Option Metric) (s₀ : SimState) (r : VResult)
    (hm : theMetric W.P = .ok m) (h0 : getInitialState W = .ok (some s₀))
    (h : validate .repaired W π = .ok r) (mv : Option Rat) :
    r = .valid mv ↔
      ∃ pres sf, Exec W s₀ π pres sf ∧ Spec.isGoal W sf = true ∧ reported W m π pres sf = some mv := by
  constructor
  · intro e
    rcases validate_spec hm h0 h with ⟨mv', pres, sf, e', hex, hg, hr⟩ | ⟨w, _, _, _, _, _, e', _⟩ | ⟨w, _, _, e', _⟩
    · rw [e] at e'; cases e'; exact ⟨pres, sf, hex, hg, hr⟩
    · rw [e] at e'; cases e'
    · rw [e] at e'; cases e'
  · rintro ⟨pres, sf, hex, hg, hr⟩
    exact validate_complete hm h0 h hex hg hr

/-- the run a plan determines is unique up to the readings of its states: "the final state" and "the
    pre-state of step j" in the statements above are well defined -/
theorem C03_run_unique (W : World) (π : List Inst) (s₀ sf sf' : SimState) (pres pres' : List SimState)
    (h : Exec W s₀ π pres sf) (h' : Exec W s₀ π pres' sf') :
    SameReadings W pres pres' ∧ sf.get W.P = sf'.get W.P := exec_det rfl h h'

/-- "VALID iff the plan is executable from the initial state and ends in a goal state", for problems
    whose metric (if any) can be evaluated along every run of the plan.  (When it cannot — an action
    without cost, an expression reading a fluent without value — the validator answers INVALID:
    `C03_invalid_inapplicable_action`, `C03_invalid_unsatisfied_goals` say exactly when.) -/
theorem C03_valid_iff (W : World) (π : List Inst) (m : Option Metric) (s₀ : SimState) (r : VResult)
    (hm : theMetric W.P = .ok m) (h0 : getInitialState W = .ok (some s₀))
    (h : validate .repaired W π = .ok r)
    (hme : ∀ pres sf, Exec W s₀ π pres sf → reported W m π pres sf ≠ none) :
    (∃ mv, r = .valid mv) ↔ ValidFrom W s₀ π := by
  constructor
  · rintro ⟨mv, e⟩
    obtain ⟨pres, sf, hex, hg, _⟩ := (C03_valid_iff_exact W π m s₀ r hm h0 h mv).1 e
    exact ⟨pres, sf, hex, hg⟩
  · rintro ⟨pres, sf, hex, hg⟩
    cases hr : reported W m π pres sf with
    | none => exact absurd hr (hme pres sf hex)
    | some mv => exact ⟨mv, (C03_valid_iff_exact W π m s₀ r hm h0 h mv).2 ⟨pres, sf, hex, hg, hr⟩⟩

/-- … in particular for every problem without metric -/
theorem C03_valid_iff_without_metric (W : World) (π : List Inst) (s₀ : SimState) (r : VResult)
    (hm : theMetric W.P = .ok none) (h0 : getInitialState W = .ok (some s₀))
    (h : validate .repaired W π = .ok r) : r = .valid none ↔ ValidFrom W s₀ π := by
  rw [C03_valid_iff_exact W π none s₀ r hm h0 h none]
  constructor
  · rintro ⟨pres, sf, hex, hg, _⟩; exact ⟨pres, sf, hex, hg⟩
  · rintro ⟨pres, sf, hex, hg⟩; exact ⟨pres, sf, hex, hg, rfl⟩

/-! ## "otherwise it returns INVALID with a failure reason" -/

/-- the answer is VALID or INVALID; an INVALID answer carries `INAPPLICABLE_ACTION` together with the
    index of an action of the plan, or `UNSATISFIED_GOALS` and no action -/
theorem C03_invalid_otherwise (W : World) (π : List Inst) (m : Option Metric) (s₀ : SimState) (r : VResult)
    (hm : theMetric W.P = .ok m) (h0 : getInitialState W = .ok (some s₀))
    (h : validate .repaired W π = .ok r) :
    (∃ mv, r = .valid mv) ∨
    (∃ w j, r = .invalid w j ∧ j ≤ π.length ∧ (w.reason = .inapplicableAction ↔ 1 ≤ j)) :=
  validate_shape hm h0 h

/-- `INAPPLICABLE_ACTION` is truthful: the steps before the named one are executable and the named step
    has no documented successor in the state they lead to (the action is not of the problem, the
    instance does not ground, a precondition is not true, effects conflict, bounds/invariants fail,
    a fluent without value is read) — or it has one but its cost cannot be evaluated there -/
theorem C03_invalid_inapplicable_action (W : World) (π : List Inst) (m : Option Metric) (s₀ : SimState)
    (w : Why) (j : Nat) (hm : theMetric W.P = .ok m) (h0 : getInitialState W = .ok (some s₀))
    (h : validate .repaired W π = .ok (.invalid w j)) (hw : w.reason = .inapplicableAction) :
    ∃ π₁ ai π₂ pres sk, π = π₁ ++ ai :: π₂ ∧ j = π₁.length + 1 ∧ Exec W s₀ π₁ pres sk ∧
      (Stuck W sk ai ∨ ((∃ s', StepOK W sk ai s') ∧
        ∃ c d, m = some (.minActionCosts c d) ∧ costOf W c d ai sk = none)) := by
  rcases validate_spec hm h0 h with ⟨_, _, _, e, _⟩ | ⟨w', π₁, ai, π₂, pres, sk, e, _, eπ, hex, hst⟩ | ⟨w', _, _, e, hw', _⟩
  · cases e
  · cases e; exact ⟨π₁, ai, π₂, pres, sk, eπ, rfl, hex, hst⟩
  · cases e; rw [hw] at hw'; cases hw'

/-- `UNSATISFIED_GOALS` is truthful: the whole plan is executable and its final state is not a goal
    state — or it is one but the final-state metric cannot be evaluated there -/
theorem C03_invalid_unsatisfied_goals (W : World) (π : List Inst) (m : Option Metric) (s₀ : SimState)
    (w : Why) (j : Nat) (hm : theMetric W.P = .ok m) (h0 : getInitialState W = .ok (some s₀))
    (h : validate .repaired W π = .ok (.invalid w j)) (hw : w.reason = .unsatisfiedGoals) :
    j = 0 ∧ ∃ pres sf, Exec W s₀ π pres sf ∧
      (Spec.isGoal W sf = false ∨ (Spec.isGoal W sf = true ∧ reported W m π pres sf = none)) := by
  rcases validate_spec hm h0 h with ⟨_, _, _, e, _⟩ | ⟨w', _, _, _, _, _, e, hw', _⟩ | ⟨w', pres, sf, e, _, hex, hd⟩
  · cases e
  · cases e; rw [hw] at hw'; cases hw'
  · cases e; exact ⟨rfl, pres, sf, hex, hd⟩

/-- the documented rejections, exactly: more than one quality metric, or an initial state that
    violates the problem's own invariants -/
theorem C03_rejected_iff (W : World) (π : List Inst) :
    validate .repaired W π = .ok .rejected ↔
      ((∃ e, theMetric W.P = .error e) ∨ ((∃ m, theMetric W.P = .ok m) ∧ getInitialState W = .ok none)) := by
  constructor
  · intro h
    cases hm : theMetric W.P with
    | error e => exact .inl ⟨e, rfl⟩
    | ok m =>
      refine .inr ⟨⟨m, rfl⟩, ?_⟩
      cases h0 : getInitialState W with
      | error x => unfold validate at h; rw [hm, h0] at h; cases h
      | ok os =>
        cases os with
        | none => rfl
        | some s₀ =>
          rcases validate_shape hm h0 h with ⟨_, e⟩ | ⟨_, _, e, _⟩ <;> cases e
  · rintro (⟨e, hm⟩ | ⟨⟨m, hm⟩, h0⟩)
    · unfold validate; rw [hm]
    · unfold validate; rw [hm, h0]

/-! ## "and never raises" -/

/-- the `UnboundLocalError` outcome (local `ai` read after a loop that never ran) is unreachable in the
    repaired code, for every problem and every plan -/
theorem C03_never_crashes (W : World) (π : List Inst) : validate .repaired W π ≠ .ok .crash :=
  validate_repaired_ne_crash W π

/-- a fluent without value never escapes as `UPStateMissingFluentError`: it is always turned into an
    INVALID result -/
theorem C03_missing_never_escapes (v : Variant) (W : World) (π : List Inst) :
    validate v W π ≠ .error .missing := validate_ne_missing v W π

/-- FULL statement of "never raises".  `Supported` stands for membership in the validator's supported
    kind together with the domain restrictions under which no evaluation can fail: well-typed
    expressions, non-zero constant divisors, total interpreted-function tables, a sort-preserving
    simplifier.  NOT proved: it needs type soundness of `eval` over all reachable states (every state
    stores values of the fluents' sorts — the invariant properties C23/C36 are about), which is outside
    this model; `ZeroDivisionError` does escape from the real validator (DESIGN §2.11). -/
def C03_never_raises_full (Supported : World → Prop) : Prop :=
  ∀ (W : World) (π : List Inst), Supported W → ∃ r, validate .repaired W π = .ok r ∧ r ≠ .crash

/-- what IS proved of "never raises": no crash, and the only exceptions that can escape are those of
    an evaluation that divides by zero or meets a malformed expression -/
theorem C03_never_raises_partial (W : World) (π : List Inst) :
    validate .repaired W π ≠ .ok .crash ∧
    ∀ e, validate .repaired W π = .error e → e = .zeroDiv ∨ e = .other := by
  refine ⟨C03_never_crashes W π, ?_⟩
  intro e he
  cases e with
  | missing => exact absurd he (C03_missing_never_escapes .repaired W π)
  | zeroDiv => exact .inl rfl
  | other => exact .inr rfl

/-- the code as found differs from the repaired code on the empty plan only -/
theorem C03_asFound_agrees_on_nonempty_plans (W : World) (π : List Inst) (hπ : π ≠ []) :
    validate .asFound W π = validate .repaired W π := validate_asFound_eq hπ

/-- temporal metrics (`MinimizeMakespan`, `TemporalOversubscription` — inside the supported kind, no value
    on a sequential plan) are not evaluated by the repaired code: the validation is exactly that of the
    problem without them, so every theorem of this file applies; the code as found raised
    `NotImplementedError` for every non-empty plan that is executable and reaches the goals -/
theorem C03_temporal_metric_not_evaluated (W : World) (t : TemporalMetric) (π : List Inst) (hm : W.P.metrics = []) :
    validateT .repaired W (some t) π = validate .repaired W π ∧
    (π ≠ [] → (∃ mv, validate .repaired W π = .ok (.valid mv)) → validateT .asFound W (some t) π = .error .other) := by
  refine ⟨by simp [validateT, hm], ?_⟩
  rintro hπ ⟨mv, h⟩
  simp only [validateT, hm, ne_eq, not_true_eq_false, if_false, validate_asFound_eq hπ, h, hπ]

/-! ## metric values -/

/-- action costs: the reported value is the sum, over the steps, of the action's cost expression (the
    listed one, else the default) with the actual parameters substituted, evaluated in the PRE-state
    of the step -/
theorem C03_metric_costs (W : World) (π : List Inst) (c : List (String × Expr)) (d : Option Expr) (s₀ : SimState)
    (mv : Option Rat) (hm : theMetric W.P = .ok (some (.minActionCosts c d)))
    (h0 : getInitialState W = .ok (some s₀)) (h : validate .repaired W π = .ok (.valid mv)) :
    ∃ pres sf v, Exec W s₀ π pres sf ∧ mv = some v ∧ costSum W c d π pres = some v := by
  obtain ⟨pres, sf, hex, _, hr⟩ := (C03_valid_iff_exact W π _ s₀ _ hm h0 h mv).1 rfl
  simp only [reported, metricValue, Option.map_eq_some_iff] at hr
  obtain ⟨v, hv, e⟩ := hr
  exact ⟨pres, sf, v, hex, e.symm, hv⟩

/-- plan length: the reported value is the number of steps -/
theorem C03_metric_length (W : World) (π : List Inst) (s₀ : SimState) (mv : Option Rat)
    (hm : theMetric W.P = .ok (some .minLength)) (h0 : getInitialState W = .ok (some s₀))
    (h : validate .repaired W π = .ok (.valid mv)) : mv = some ((π.length : Nat) : Rat) := by
  obtain ⟨pres, sf, _, _, hr⟩ := (C03_valid_iff_exact W π _ s₀ _ hm h0 h mv).1 rfl
  simp only [reported, metricValue, Option.map_some, Option.some.injEq] at hr
  exact hr.symm

/-- minimize / maximize expression on final state: the reported value is the value of the expression in
    the final state of the run -/
theorem C03_metric_final (W : World) (π : List Inst) (e : Expr) (s₀ : SimState) (mv : Option Rat)
    (hm : theMetric W.P = .ok (some (.minFinal e)) ∨ theMetric W.P = .ok (some (.maxFinal e)))
    (h0 : getInitialState W = .ok (some s₀)) (h : validate .repaired W π = .ok (.valid mv)) :
    ∃ pres sf v, Exec W s₀ π pres sf ∧ mv = some v ∧ eval (ctx W sf) [] e = .ok (.n v) := by
  have key : ∀ m, theMetric W.P = .ok (some m) → metricValue W m = (fun _ _ sf => numVal W sf e) →
      ∃ pres sf v, Exec W s₀ π pres sf ∧ mv = some v ∧ eval (ctx W sf) [] e = .ok (.n v) := by
    intro m hm' hmv
    obtain ⟨pres, sf, hex, _, hr⟩ := (C03_valid_iff_exact W π _ s₀ _ hm' h0 h mv).1 rfl
    simp only [reported, hmv, Option.map_eq_some_iff] at hr
    obtain ⟨v, hv, e'⟩ := hr
    refine ⟨pres, sf, v, hex, e'.symm, ?_⟩
    unfold numVal at hv
    split at hv
    · rename_i q hq; cases hv; exact hq
    · cases hv
  rcases hm with hm | hm
  · exact key _ hm rfl
  · exact key _ hm rfl

/-- oversubscription: the reported value is the sum of the weights of the listed goals that hold in the
    final state of the run -/
theorem C03_metric_oversub (W : World) (π : List Inst) (gs : List (Expr × Rat)) (s₀ : SimState) (mv : Option Rat)
    (hm : theMetric W.P = .ok (some (.oversub gs))) (h0 : getInitialState W = .ok (some s₀))
    (h : validate .repaired W π = .ok (.valid mv)) :
    ∃ pres sf v, Exec W s₀ π pres sf ∧ mv = some v ∧ gain W sf gs = some v := by
  obtain ⟨pres, sf, hex, _, hr⟩ := (C03_valid_iff_exact W π _ s₀ _ hm h0 h mv).1 rfl
  simp only [reported, metricValue, Option.map_eq_some_iff] at hr
  obtain ⟨v, hv, e⟩ := hr
  exact ⟨pres, sf, v, hex, e.symm, hv⟩

/-! ## the empty plan -/

/-- "This includes the empty plan": it is VALID exactly when the initial state is a goal state, and the
    reported value is the metric's value on the empty run (0 for costs and length, the final-state
    expression / the oversubscription gain in the INITIAL state) -/
theorem C03_empty_plan (W : World) (m : Option Metric) (s₀ : SimState) (r : VResult)
    (hm : theMetric W.P = .ok m) (h0 : getInitialState W = .ok (some s₀))
    (h : validate .repaired W [] = .ok r) (mv : Option Rat) :
    r = .valid mv ↔ (Spec.isGoal W s₀ = true ∧ reported W m [] [] s₀ = some mv) := by
  rw [C03_valid_iff_exact W [] m s₀ r hm h0 h mv]
  constructor
  · rintro ⟨pres, sf, hex, hg, hr⟩
    obtain ⟨e1, e2⟩ := exec_nil_inv hex
    subst e1; subst e2
    exact ⟨hg, hr⟩
  · rintro ⟨hg, hr⟩
    exact ⟨[], s₀, .nil _, hg, hr⟩

section examples
/-! ## non-vacuity: concrete problems exercising every clause

types `T`; objects `o1 o2 : T`; fluents `x : int[0,9] = 1`, `wt(T) : int` with `wt(o1) = 2`, `wt(o2) = 5`,
`d : bool = false`, `u : int` (no value).
* `inc(p : T)`: pre `x <= 5`; effect `x += wt(p)`
* `fin`: pre `3 <= x`; effect `d := true`
* `rd`: pre `u <= 3` (reads a fluent without value)
goal `d` (worlds `W…g`) or no goal (worlds `W…`).  Metrics: costs `{inc ↦ wt(p) + x}` default `1`; costs
without default; plan length; maximize `x`; oversubscription `{d ↦ 3, x <= 2 ↦ 5/2}`. -/
def tT : Ty := .user "T"
def fx : FluentRef := ⟨"x", .int (some 0) (some 9), []⟩
def fw : FluentRef := ⟨"wt", .int none none, [tT]⟩
def fd : FluentRef := ⟨"d", .bool, []⟩
def fu : FluentRef := ⟨"u", .int none none, []⟩
def ex : Expr := .app (.fluent fx) []
def ed : Expr := .app (.fluent fd) []
def eu : Expr := .app (.fluent fu) []
def o1 : Expr := .leaf (.obj "o1" "T")
def o2 : Expr := .leaf (.obj "o2" "T")
def pp : Expr := .leaf (.param "p" tT)
def ew (a : Expr) : Expr := .app (.fluent fw) [a]
def eff (f v c : Expr) (k : EffKind) : Effect := { fluent := f, value := v, cond := c, kind := k, forall_ := [] }
def inc : Action := { name := "inc", params := [("p", tT)], pre := [Expr.mkLE ex (Expr.int 5)], effs := [eff ex (ew pp) Expr.tt .increase] }
def fin : Action := { name := "fin", params := [], pre := [Expr.mkLE (Expr.int 3) ex], effs := [eff ed Expr.tt Expr.tt .assign] }
def rd : Action := { name := "rd", params := [], pre := [Expr.mkLE eu (Expr.int 3)], effs := [eff ed Expr.tt Expr.tt .assign] }
def alien : Action := { name := "alien", params := [], pre := [], effs := [] }
def mkW (goals : List Expr) (ms : List Metric) : World :=
  { P := { name := "ex", types := ⟨[("T", none)]⟩, objects := [("o1", "T"), ("o2", "T")],
           fluents := [⟨fx, some (Expr.int 1)⟩, ⟨fw, none⟩, ⟨fd, some Expr.ff⟩, ⟨fu, none⟩],
           init := [(ew o1, Expr.int 2), (ew o2, Expr.int 5)],
           actions := [inc, fin, rd], goals := goals, traj := [], metrics := ms },
    simp := id, fn := fun _ _ => none }
def mCosts : Metric := .minActionCosts [("inc", Expr.mkPlus [ew pp, ex])] (some (Expr.int 1))
def mCostsNoDefault : Metric := .minActionCosts [("inc", Expr.mkPlus [ew pp, ex])] none
def mOversub : Metric := .oversub [(ed, 3), (Expr.mkLE ex (Expr.int 2), 5/2)]
def i1 : Inst := (inc, ["o1"])
def i2 : Inst := (inc, ["o2"])
def iF : Inst := (fin, [])

/-- the standing hypotheses `hm`, `h0` are met (one metric; the initial state respects the bounds) -/
example : theMetric (mkW [ed] [mCosts]).P = .ok (some mCosts) ∧
    (∃ s₀, getInitialState (mkW [ed] [mCosts]) = .ok (some s₀)) :=
  ⟨rfl, ⟨⟨[((fw, [.o "o1"]), .n 2), ((fw, [.o "o2"]), .n 5)]⟩, by decide +kernel⟩⟩

/-- action costs, parameter- and fluent-dependent, summed over PRE-states:
    `(wt(o1) + 1) + (wt(o1) + 3) + default 1 = 9` (x runs 1, 3, 5) -/
example : validate .repaired (mkW [ed] [mCosts]) [i1, i1, iF] = .ok (.valid (some 9)) := by decide +kernel
/-- the second `inc(o2)` finds `x = 6 > 5`: INVALID, inapplicable action 2 -/
example : validate .repaired (mkW [ed] [mCosts]) [i2, i2, iF] = .ok (.invalid .unsatPre 2) := by decide +kernel
/-- the bound `x <= 9` is violated by the successor of the third step (`5 + wt(o2) = 10`) -/
example : validate .repaired (mkW [] [mCosts]) [i1, i1, i2] = .ok (.invalid .invalidAction 3) := by decide +kernel
/-- a precondition reading a fluent without value -/
example : validate .repaired (mkW [] [mCosts]) [i1, (rd, [])] = .ok (.invalid .missing 2) := by decide +kernel
/-- an action that is not of the problem -/
example : validate .repaired (mkW [] [mCosts]) [i1, (alien, [])] = .ok (.invalid .usage 2) := by decide +kernel
/-- executable but not a goal state -/
example : validate .repaired (mkW [ed] [mCosts]) [i1] = .ok (.invalid .goals 0) := by decide +kernel
/-- an action without cost and no default: the metric is not evaluable (the second disjunct of
    `C03_invalid_inapplicable_action`) -/
example : validate .repaired (mkW [ed] [mCostsNoDefault]) [i1, i1, iF] = .ok (.invalid .usage 3) := by decide +kernel
/-- plan length, final value, oversubscription (`d` holds: 3; `x = 5 <= 2` does not) -/
example : validate .repaired (mkW [ed] [.minLength]) [i1, i1, iF] = .ok (.valid (some 3)) := by decide +kernel
example : validate .repaired (mkW [ed] [.maxFinal ex]) [i1, i1, iF] = .ok (.valid (some 5)) := by decide +kernel
example : validate .repaired (mkW [ed] [mOversub]) [i1, i1, iF] = .ok (.valid (some 3)) := by decide +kernel
example : validate .repaired (mkW [ed] []) [i1, i1, iF] = .ok (.valid none) := by decide +kernel
/-- final-state metric reading a fluent without value -/
example : validate .repaired (mkW [] [.minFinal eu]) [i1] = .ok (.invalid .finalMissing 0) := by decide +kernel
/-- two metrics: rejected -/
example : validate .repaired (mkW [] [.minLength, .minLength]) [i1] = .ok .rejected := by decide +kernel

/-- THE DEFECT D-C03 (empty plan + final-state metric), kernel-checked on the model of the code as found:
    `UnboundLocalError` … -/
example : validate .asFound (mkW [] [.maxFinal ex]) [] = .ok .crash := by decide +kernel
example : validate .asFound (mkW [] [mOversub]) [] = .ok .crash := by decide +kernel
/-- … and what the repaired code answers: the value in the INITIAL state (`x = 1`; `x <= 2` holds: 5/2) -/
example : validate .repaired (mkW [] [.maxFinal ex]) [] = .ok (.valid (some 1)) := by decide +kernel
example : validate .repaired (mkW [] [mOversub]) [] = .ok (.valid (some (5/2))) := by decide +kernel
example : validate .repaired (mkW [] [mCosts]) [] = .ok (.valid (some 0)) := by decide +kernel
example : validate .repaired (mkW [ed] [mCosts]) [] = .ok (.invalid .goals 0) := by decide +kernel
/-- a temporal metric on an executable plan that reaches the goals: `NotImplementedError` as found, VALID without
    metric evaluation after the repair -/
example : validateT .asFound (mkW [ed] []) (some .makespan) [i1, i1, iF] = .error .other ∧
    validateT .repaired (mkW [ed] []) (some .makespan) [i1, i1, iF] = .ok (.valid none) := by decide +kernel
/-- the hypothesis `hme` of `C03_valid_iff` is met by every problem with the plan-length metric -/
example (W : World) (π : List Inst) (s₀ : SimState) :
    ∀ pres sf, Exec W s₀ π pres sf → reported W (some .minLength) π pres sf ≠ none := by
  intro pres sf _ h; simp [reported, metricValue] at h
end examples

end UPVerif.C03
