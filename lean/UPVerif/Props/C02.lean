import UPVerif.Lemmas.SimQueries
import UPVerif.Props.C01
/-!
# C02 — Simulator applicability queries agree with apply

Statements only (helper lemmas: `Lemmas/SimQueries.lean`).  The model is `Core/Sim.lean`, which mirrors
the REPAIRED `get_unsatisfied_conditions(full_check=True)` (one shared effect loop `_evaluate_effects`,
see notes/patches/C01-simulator-single-effect-loop.patch); on the unrepaired tree the first theorem is
false (defects D-C02a/b, witnesses in harness/corpus/C02).
-/
namespace UPVerif.C02
open UPVerif UPVerif.Sim

/-- `is_applicable` returns True exactly when `apply` returns a successor state — and raises exactly
    when `apply` raises, with the same exception -/
theorem isApplicable_iff_apply (W : World) (s : SimState) (a : Action) (args : List String) :
    Sim.isApplicable W s a args = (Sim.apply W s a args).map Option.isSome :=
  isApplicable_eq_apply W s a args

/-- `get_applicable_actions` yields exactly the ground instances for which `apply` succeeds, in
    grounding order … -/
theorem applicableActions_eq_filter (W : World) (s : SimState) (l : List (Action × List String))
    (h : Sim.applicableActions W s = .ok l) : l = (allInstances W.P).filter (succeeds W s) :=
  (applicableActions_go_ok (allInstances W.P) h).1

/-- … it raises only if `apply` raises (the same exception) on some instance … -/
theorem applicableActions_raises_only_with_apply (W : World) (s : SimState) (e : EvalErr)
    (h : Sim.applicableActions W s = .error e) :
    ∃ ai ∈ allInstances W.P, Sim.apply W s ai.1 ai.2 = .error e :=
  applicableActions_go_err (allInstances W.P) h

/-- … and whenever it returns, `apply` returns on every instance -/
theorem applicableActions_total (W : World) (s : SimState) (l : List (Action × List String))
    (h : Sim.applicableActions W s = .ok l) : ∀ ai ∈ allInstances W.P, ∃ o, Sim.apply W s ai.1 ai.2 = .ok o :=
  (applicableActions_go_ok (allInstances W.P) h).2

/-- `is_goal` is True exactly when `get_unsatisfied_goals` returns an empty list (it raises on a
    fluent without value, which `is_goal` reports as False) -/
theorem isGoal_iff_no_unsatisfied_goal (W : World) (s : SimState) :
    Sim.isGoal W s = .ok true ↔ Sim.unsatisfiedGoals W s false = .ok [] := by
  unfold Sim.isGoal unsatisfiedGoals
  rw [unsatInv_nil false, ← unsatInv_nil (c := ctx W s) true W.P.goals 0]
  cases h : unsatInv (ctx W s) true W.P.goals 0 with
  | error x => cases x <;> simp
  | ok l => cases l <;> simp

/-- queries are pure: on one simulator instance every answer of a history is the answer of the same
    query asked alone (the model has no state besides the arguments; that the CODE behaves like this
    model under interleavings is the content of the correspondence check of C02) -/
theorem queries_pure (W : World) (before after : List Query) (q : Query) :
    runHistory W (before ++ q :: after) = runHistory W before ++ answer W q :: runHistory W after := by
  simp [runHistory]

/-! non-vacuity on the example problem of `Props/C01.lean` -/
section examples
open UPVerif.C01
example : Sim.isApplicable W0 s0 act [] = .ok true ∧ Sim.isApplicable W0 s0 clash [] = .ok false ∧
    Sim.isApplicable W0 s0 rd [] = .ok false ∧ Sim.isApplicable W0 s0 big [] = .ok false := by decide +kernel
example : (Sim.applicableActions W0 s0).map (fun l => l.map (fun ai => ai.1.name)) = .ok ["act"] := by decide +kernel
example : Sim.isGoal W0 s0 = .ok false ∧ Sim.unsatisfiedGoals W0 s0 false = .ok [0] := by decide +kernel
end examples

end UPVerif.C02
