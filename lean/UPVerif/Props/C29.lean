import UPVerif.Lemmas.D2PLemmas
import UPVerif.Lemmas.D2PVarLemmas
/-!
# C29 — Durative-to-processes plan conversions are mutually inverse

Statements only (helper lemmas live in `Lemmas/D2PLemmas.lean`).  The model (`Core/D2PPlan.lean`)
mirrors `_forward_plan_to_plan` / `_back_plan_to_plan` of
`unified_planning/engines/compilers/durative_actions_to_processes.py` and is tied to the code by the
correspondence check.  All theorems hold for EVERY problem, plan length, parameter list and time value
(`Rat`); there is no size bound anywhere.

Reading of the property: a "time-triggered plan of the original problem with fixed-duration actions"
is a list of timed instances whose actions are declared, are instantaneous or of fixed duration
(`AllFixed`), and whose listed durations are the declared ones (`DurationsAsDeclared`).  "The same
timed action instances" is equality as multisets (`List.Perm`): the code regroups the instances by
`(action, parameters)`, so listing order is not preserved and not part of the statement.
-/
namespace UPVerif.C29
open UPVerif.D2P

/-- every instance of the plan is of a declared action without a compiled end action, i.e. an
    instantaneous action or a durative action of fixed duration -/
def AllFixed (P : Problem) (π : List TA) : Prop :=
  ∀ x ∈ π, ∃ a, P.lookup x.act = some a ∧ endDelay a = none

/-- the duration listed with each instance is the declared one: none for an instantaneous action,
    the value of the (lower = upper) duration bound under the actual parameters otherwise -/
def DurationsAsDeclared (P : Problem) (π : List TA) : Prop :=
  ∀ x ∈ π, ∀ a, P.lookup x.act = some a → declDur P a x.ps = some x.dur

/-- **Clause 1.** Converting a fixed-duration plan forward and then back succeeds and returns the same
    timed action instances (same start times, actions, parameters, durations), as a multiset. -/
theorem C29_inverse_fixed (P : Problem) (π : List TA)
    (hfix : AllFixed P π) (hdur : DurationsAsDeclared P π) :
    ∃ cs π', forward P π = .ok cs ∧ back P cs = .ok π' ∧ π'.Perm π := by
  apply inverse_fixed_raw
  intro x hx
  obtain ⟨a, ha, he⟩ := hfix x hx
  exact ⟨a, ha, he, hdur x hx a ha⟩

/-- for a fixed-duration plan the forward plan consists of exactly one start event per instance, at the
    instance's start time and with its parameters, in listing order (no end events) -/
theorem C29_forward_fixed_shape (P : Problem) (π : List TA) (hfix : AllFixed P π) :
    forward P π = .ok (π.map toStart) :=
  forward_fixed hfix

/-- **Clause 2.** Whenever the forward conversion returns a plan, every compiled end event belongs to an
    instance of its (variable-duration) action with the same parameters and lies inside that instance's
    duration: strictly after its start, not after its end. -/
theorem C29_end_inside (P : Problem) (π : List TA) (cs : List CA) (h : forward P π = .ok cs) :
    ∀ c ∈ cs, ∀ n, c.act = .fend n →
      ∃ x ∈ π, ∃ a d, x.act = n ∧ x.ps = c.ps ∧ x.dur = some d ∧
        P.lookup n = some a ∧ (endDelay a).isSome ∧ x.t < c.t ∧ c.t ≤ x.t + d :=
  fun c hc n hn => end_inside_raw h c hc n hn

/-- the forward plan starts every original instance exactly once, at its own start time, in listing order -/
theorem C29_forward_starts (P : Problem) (π : List TA) (cs : List CA) (h : forward P π = .ok cs) :
    cs.filter (fun c => match c.act with | .start _ => true | _ => false) = π.map toStart :=
  forward_starts_raw h

/-- the timings of a durative action respect the compiler's supported kind: no end-relative timing
    lies after the end -/
def TimingsInKind (P : Problem) : Prop :=
  ∀ a ∈ P.acts, ∀ lo hi lopen ropen ts, a.kind = .dur lo hi lopen ropen ts →
    ∀ t ∈ ts, t.fromEnd = true → t.delay ≤ 0

/-- the first-end timing recorded by the compiler is never after the end -/
theorem C29_endDelay_nonpos (P : Problem) (hk : TimingsInKind P) (n : String) (a : ADecl) (δ : Rat)
    (ha : P.lookup n = some a) (hδ : endDelay a = some δ) : δ ≤ 0 := by
  have hmem : a ∈ P.acts := List.mem_of_find?_eq_some ha
  obtain ⟨nm, kind⟩ := a
  cases kind with
  | inst => simp [endDelay] at hδ
  | dur lo hi lopen ropen ts =>
    have hts := hk _ hmem lo hi lopen ropen ts rfl
    simp only [endDelay] at hδ
    split at hδ
    · split at hδ
      · next d hd =>
        cases hδ
        exact firstEndTiming_nonpos ts none hts (by intro d h; cases h) _ hd
      · cases hδ; exact Rat.le_refl
    · cases hδ

/-- the forward conversion is total on plans over declared actions in which every variable-duration
    instance lists a duration longer than the distance of its first end-relative timing from the end
    (so the assertion of `_forward_plan_to_plan` is the only way to fail, and Clause 2 is not vacuous) -/
theorem C29_forward_total (P : Problem) (hk : TimingsInKind P) (π : List TA)
    (h : ∀ x ∈ π, ∃ a, P.lookup x.act = some a ∧
      ∀ δ, endDelay a = some δ → ∃ d, x.dur = some d ∧ 0 < d + δ) :
    ∃ cs, forward P π = .ok cs := by
  apply forward_total_raw
  intro x hx
  obtain ⟨a, ha, hd⟩ := h x hx
  refine ⟨a, ha, fun δ hδ => ?_⟩
  obtain ⟨d, h1, h2⟩ := hd δ hδ
  exact ⟨d, h1, h2, C29_endDelay_nonpos P hk x.act a δ ha hδ⟩

/-! ## Extra: plans with variable-duration instances

The property's quantifier is fixed-duration plans.  The conversions are also inverse on plans with
variable-duration instances PROVIDED instances of one `(action, parameters)` do not overlap; without
that proviso the statement is false (the back conversion pairs an end event with the most recently
started instance, l. 1069-1070), which is recorded here with a kernel-checked witness. -/

/-- a plan the conversions are meant for: declared actions; instantaneous / fixed-duration instances
    list the declared duration; a variable-duration instance lists a duration `d` that puts its end
    event (`d + δ` after the start, `δ ≤ 0` the compiler's first end-relative timing) after its start -/
def WellFormedPlan (P : Problem) (π : List TA) : Prop :=
  ∀ x ∈ π, ∃ a, P.lookup x.act = some a ∧
    (endDelay a = none → declDur P a x.ps = some x.dur) ∧
    (∀ δ, endDelay a = some δ → δ ≤ 0 ∧ ∃ d, x.dur = some d ∧ 0 < d + δ)

/-- any two instances (two list positions) of one variable-duration `(action, parameters)` are
    strictly separated: the compiled events of one (start at `t`, end at `t + duration + δ`) all lie
    before those of the other -/
def NoSameInstanceOverlap (P : Problem) (π : List TA) : Prop :=
  π.Pairwise (fun x y => keyTA x = keyTA y →
    ∀ a δ, P.lookup x.act = some a → endDelay a = some δ →
      x.t + (x.dur.getD 0 + δ) < y.t ∨ y.t + (y.dur.getD 0 + δ) < x.t)

/-- the round trip for every well-formed plan — FALSE as it stands, see `C29_inverse_variable_full_refuted` -/
def C29_inverse_variable_full : Prop :=
  ∀ (P : Problem) (π : List TA), WellFormedPlan P π →
    ∃ cs π', forward P π = .ok cs ∧ back P cs = .ok π' ∧ π'.Perm π

/-- the round trip holds for every well-formed plan without same-instance overlap (this subsumes
    `C29_inverse_fixed`: a fixed-duration plan has no variable-duration instances to overlap).
    Missing for the full statement: nothing provable — the proviso is necessary. -/
theorem C29_inverse_variable_partial (P : Problem) (π : List TA)
    (hw : WellFormedPlan P π) (hs : NoSameInstanceOverlap P π) :
    ∃ cs π', forward P π = .ok cs ∧ back P cs = .ok π' ∧ π'.Perm π :=
  inverse_general_raw hw hs

/-! ## non-vacuity: concrete inputs meeting the hypotheses -/

/-- `move(n, x, y)` with fixed duration `2*n + dist(x, y)`, an instantaneous `ping`, and `load` with
    variable duration `[2, 10]` whose earliest end-relative timing is `end - 1` -/
def exP : Problem :=
  { sfl := [⟨"dist", some 3, [([.obj "l1", .obj "l2"], 7)]⟩],
    acts := [⟨"move", .dur (.plus (.times (.param 0) (.intC 2)) (.sfl "dist" [1, 2]))
                            (.plus (.times (.param 0) (.intC 2)) (.sfl "dist" [1, 2])) false false [⟨true, 0⟩]⟩,
             ⟨"ping", .inst⟩,
             ⟨"load", .dur (.intC 2) (.intC 10) false false [⟨false, 1⟩, ⟨true, -1⟩, ⟨true, -1/2⟩]⟩] }

/-- two identical `move` instances listed after a later one, plus an instantaneous action -/
def exFixed : List TA :=
  [⟨5, "move", [.int 1, .obj "l2", .obj "l2"], some 5⟩,
   ⟨0, "move", [.int 2, .obj "l1", .obj "l2"], some 11⟩,
   ⟨1, "ping", [], none⟩,
   ⟨0, "move", [.int 2, .obj "l1", .obj "l2"], some 11⟩]

def exMixed : List TA := exFixed ++ [⟨3, "load", [], some 4⟩]

example : AllFixed exP exFixed := by
  intro x hx
  simp only [exFixed, List.mem_cons, List.not_mem_nil, or_false] at hx
  rcases hx with rfl | rfl | rfl | rfl <;> exact ⟨_, rfl, by decide +kernel⟩

example : DurationsAsDeclared exP exFixed := by
  intro x hx a ha
  simp only [exFixed, List.mem_cons, List.not_mem_nil, or_false] at hx
  rcases hx with rfl | rfl | rfl | rfl <;>
    (simp only [exP, Problem.lookup, List.find?] at ha
     cases ha
     decide +kernel)

/-- the model really computes the round trip on the example (regrouped by `(action, parameters)`) -/
example : (forward exP exFixed).toOption.bind (fun cs => (back exP cs).toOption) =
    some [⟨0, "move", [.int 2, .obj "l1", .obj "l2"], some 11⟩,
          ⟨0, "move", [.int 2, .obj "l1", .obj "l2"], some 11⟩,
          ⟨1, "ping", [], none⟩,
          ⟨5, "move", [.int 1, .obj "l2", .obj "l2"], some 5⟩] := by decide +kernel

/-- Clause 2 is not vacuous: the forward plan of `exMixed` exists and contains the end event of `load`
    at `3 + 4 - 1 = 6` -/
example : forward exP exMixed =
    .ok (exFixed.map toStart ++ [⟨3, .start "load", []⟩, ⟨6, .fend "load", []⟩]) := by decide +kernel

example : TimingsInKind exP := by
  intro a ha lo hi lopen ropen ts hk t ht hfe
  simp only [exP, List.mem_cons, List.not_mem_nil, or_false] at ha
  rcases ha with rfl | rfl | rfl
  · cases hk
    simp only [List.mem_singleton] at ht
    subst ht
    decide +kernel
  · cases hk
  · cases hk
    simp only [List.mem_cons, List.not_mem_nil, or_false] at ht
    rcases ht with rfl | rfl | rfl
    · cases hfe
    · decide +kernel
    · decide +kernel

/-- two overlapping identical instances of the variable-duration `load` -/
def exOverlap : List TA := [⟨0, "load", [], some 5⟩, ⟨2, "load", [], some 5⟩]
/-- the same two instances back to back, the later one listed first, plus an instantaneous action -/
def exSeparated : List TA := [⟨6, "load", [], some 5⟩, ⟨0, "load", [], some 5⟩, ⟨1, "ping", [], none⟩]

/-! (the `ex_*` theorems only support the non-vacuity examples) -/
def exLoad : ADecl := ⟨"load", .dur (.intC 2) (.intC 10) false false [⟨false, 1⟩, ⟨true, -1⟩, ⟨true, -1/2⟩]⟩
theorem ex_lookup_load : exP.lookup "load" = some exLoad := rfl
theorem ex_lookup_ping : exP.lookup "ping" = some ⟨"ping", .inst⟩ := rfl
theorem ex_load_delay : endDelay exLoad = some (-1) := by decide +kernel

theorem ex_load_wf : ∃ a, exP.lookup "load" = some a ∧
    (endDelay a = none → declDur exP a [] = some (some 5)) ∧
    (∀ δ, endDelay a = some δ → δ ≤ 0 ∧ ∃ d, (some 5 : Option Rat) = some d ∧ 0 < d + δ) := by
  refine ⟨exLoad, ex_lookup_load, ?_, ?_⟩
  · intro h; rw [ex_load_delay] at h; cases h
  · intro δ h
    rw [ex_load_delay] at h
    cases h
    exact ⟨by decide +kernel, 5, rfl, by decide +kernel⟩

theorem ex_overlap_wf : WellFormedPlan exP exOverlap := by
  intro x hx
  simp only [exOverlap, List.mem_cons, List.not_mem_nil, or_false] at hx
  rcases hx with rfl | rfl
  · exact ex_load_wf
  · exact ex_load_wf

example : WellFormedPlan exP exSeparated := by
  intro x hx
  simp only [exSeparated, List.mem_cons, List.not_mem_nil, or_false] at hx
  rcases hx with rfl | rfl | rfl
  · exact ex_load_wf
  · exact ex_load_wf
  · exact ⟨_, ex_lookup_ping, fun _ => rfl, fun δ h => by simp [endDelay] at h⟩

example : NoSameInstanceOverlap exP exSeparated := by
  refine List.Pairwise.cons ?_ (List.Pairwise.cons ?_ (List.Pairwise.cons ?_ List.Pairwise.nil))
  · intro y hy
    simp only [List.mem_cons, List.not_mem_nil, or_false] at hy
    rcases hy with rfl | rfl
    · intro _ a δ ha hδ
      rw [show (⟨6, "load", [], some 5⟩ : TA).act = "load" from rfl, ex_lookup_load] at ha
      cases ha
      rw [ex_load_delay] at hδ
      cases hδ
      right
      decide +kernel
    · intro hkey
      exact absurd hkey (by decide)
  · intro y hy
    simp only [List.mem_cons, List.not_mem_nil, or_false] at hy
    subst hy
    intro hkey
    exact absurd hkey (by decide)
  · intro y hy
    cases hy

/-- the full statement fails on `exOverlap`: the forward plan is `start@0, end@4, start@2, end@6`; sorted,
    the end at 4 closes the instance started at 2 and the end at 6 finds no open instance -/
theorem C29_inverse_variable_full_refuted : ¬ C29_inverse_variable_full := by
  intro h
  obtain ⟨cs, π', h1, h2, _⟩ := h exP exOverlap ex_overlap_wf
  have hf : forward exP exOverlap =
      .ok [⟨0, .start "load", []⟩, ⟨4, .fend "load", []⟩, ⟨2, .start "load", []⟩, ⟨6, .fend "load", []⟩] := by
    decide +kernel
  rw [hf] at h1
  cases h1
  have hb : back exP [⟨0, .start "load", []⟩, ⟨4, .fend "load", []⟩, ⟨2, .start "load", []⟩, ⟨6, .fend "load", []⟩] =
      .error .assertion := by decide +kernel
  rw [hb] at h2
  cases h2

/-- the hypotheses of `C29_inverse_variable_partial` are met by a plan with repeated, reordered
    variable-duration instances, and the model computes its round trip -/
example : (forward exP exSeparated).toOption.bind (fun cs => (back exP cs).toOption) =
    some [⟨0, "load", [], some 5⟩, ⟨6, "load", [], some 5⟩, ⟨1, "ping", [], none⟩] := by decide +kernel

end UPVerif.C29
