import UPVerif.Lemmas.SimCorollaries
/-!
# C01 — Sequential simulator computes exactly the documented successor semantics

Statements only (helper lemmas: `Lemmas/SimFold.lean` — the fold lemma —, `Lemmas/SimApply.lean`,
`Lemmas/SpecPerm.lean`, `Lemmas/SimCorollaries.lean`).

* `Sim.*`  (`Core/Sim.lean`, `Core/Eval.lean`) is the executable model that mirrors
  `UPSequentialSimulator` function by function (left fold over the effects carrying
  `(updated_values, assigned_fluent)`); the correspondence check ties it to /repo.
* `Spec.*` (`Spec/Successor.lean`) is the documented semantics, declarative and order-free.

Everything is proved for EVERY world `W` (problem, simplifier, interpreted-function tables), every
state, every action and argument list: no size bound, no hypothesis on the simplifier.  The model's
methods return `Except EvalErr _`: `.error e` means that a Python exception other than the three
caught ones (`ZeroDivisionError`, or a malformed expression) escapes from the call; the documented
semantics is silent there (DESIGN §2.11), so the theorems speak about calls that return.
-/
namespace UPVerif.C01
open UPVerif UPVerif.Sim UPVerif.Spec

/-- MAIN THEOREM.  Whenever `apply` returns, it returns exactly the documented result: `None` iff the
    documented semantics says "inapplicable", otherwise a state that reads as the documented
    successor map on every ground fluent. -/
theorem apply_eq_spec (W : World) (s : SimState) (a : Action) (args : List String) (r : Option SimState)
    (h : Sim.apply W s a args = .ok r) : r.map (SimState.get W.P) = Spec.apply W s a args :=
  apply_eq_spec' W s a args r h

/-- … and the same for the applicability verdict -/
theorem isApplicable_eq_spec (W : World) (s : SimState) (a : Action) (args : List String) (b : Bool)
    (h : Sim.isApplicable W s a args = .ok b) : b = (Spec.apply W s a args).isSome := by
  rw [isApplicable_eq_apply] at h
  obtain ⟨r, hr, hb⟩ := map_eq_ok h
  rw [← apply_eq_spec W s a args r hr, ← hb]
  cases r <;> rfl

/-- a fluent without value never escapes as an exception: it makes the action inapplicable -/
theorem apply_never_raises_missing (W : World) (s : SimState) (a : Action) (args : List String) :
    Sim.apply W s a args ≠ .error .missing := fun h => catchFail_not_missing h rfl

/-- THE PERMUTATION LEMMA, specification side: the documented successor is a function of the
    multiset of effects -/
theorem spec_order_free (W : World) (s : SimState) (pre : List Expr) (E E' : List Effect) (h : E.Perm E') :
    successorOf W s pre E = successorOf W s pre E' := successorOf_perm W s pre h

/-- THE PERMUTATION LEMMA, code side: reordering the effects of a grounded action does not change
    what the accumulator loop of `_evaluate_effects` produces (whenever both runs return) -/
theorem fold_order_independent (W : World) (s : SimState) (g g' : GAction) (r r' : Option SimState)
    (hpre : g.pre = g'.pre) (hperm : g.effs.Perm g'.effs)
    (h : catchFail none (applyGround W s g) = .ok r) (h' : catchFail none (applyGround W s g') = .ok r') :
    r.map (SimState.get W.P) = r'.map (SimState.get W.P) := by
  rw [applyGround_spec W s g r h, applyGround_spec W s g' r' h', successor_perm W s g g' hpre hperm]

/-! ## one corollary per clause of the property statement -/

/-- "conditions, effect conditions and effect values are evaluated in the pre-state": a successful
    `apply` is determined by the evaluations `fired (ctx W s) …` made in the PRE-state `s` -/
theorem pre_state_evaluation (W : World) (s s' : SimState) (a : Action) (args : List String)
    (h : Sim.apply W s a args = .ok (some s')) :
    ∃ g F, ground W a args = .ok (some g) ∧ preOK (ctx W s) g.pre = true ∧
      fired (ctx W s) (expandAll W.P g) = some F ∧ s'.get W.P = succGet (s.get W.P) F := by
  obtain ⟨g, F, hg, hp, hF, _, hget, _⟩ := apply_some_unpack h
  exact ⟨g, F, hg, hp, hF, hget⟩

/-- "forall effects range over all objects of the variable types": every object of the type gives
    an instance that is evaluated, and there are no other instances -/
theorem forall_ranges_over_all_objects (P : Problem) (g : GAction) (e : Effect) (v : Var)
    (he : e ∈ g.effs) (hv : e.forall_ = [v]) :
    (∀ o ∈ tyDomain P v.ty, instanceOf P e v o ∈ expandAll P g) ∧
    expandEffect P e = (tyDomain P v.ty).map (instanceOf P e v) := by
  refine ⟨?_, expandEffect_single hv⟩
  intro o ho
  unfold expandAll
  rw [List.mem_flatMap]
  exact ⟨e, he, by rw [expandEffect_single hv]; exact List.mem_map.2 ⟨o, ho, rfl⟩⟩

/-- "a Boolean fluent assigned both values ends true" (whatever else is assigned to it) -/
theorem bool_both_values_ends_true (W : World) (s s' : SimState) (a : Action) (args : List String)
    (g : GAction) (F : List Fired) (k : GKey)
    (h : Sim.apply W s a args = .ok (some s')) (hg : ground W a args = .ok (some g))
    (hF : fired (ctx W s) (expandAll W.P g) = some F)
    (ht : Fired.setB k true ∈ F) (_hf : Fired.setB k false ∈ F) :
    s'.get W.P k = some (.b true) := by
  obtain ⟨g', F', hg', _, hF', _, hget, _⟩ := apply_some_unpack h
  rw [hg] at hg'; cases hg'
  rw [hF] at hF'; cases hF'
  rw [hget]; exact succGet_bool_true ht

/-- "two different values for a numeric or object fluent make the action inapplicable" -/
theorem two_values_inapplicable (W : World) (s : SimState) (a : Action) (args : List String)
    (g : GAction) (F : List Fired) (k : GKey) (v w : Val) (r : Option SimState)
    (h : Sim.apply W s a args = .ok r) (hg : ground W a args = .ok (some g))
    (hF : fired (ctx W s) (expandAll W.P g) = some F)
    (hv : Fired.setV k v ∈ F) (hw : Fired.setV k w ∈ F) (hne : v ≠ w) : r = none := by
  cases r with
  | none => rfl
  | some s' =>
    obtain ⟨g', F', hg', _, hF', hC, _, _⟩ := apply_some_unpack h
    rw [hg] at hg'; cases hg'
    rw [hF] at hF'; cases hF'
    exact absurd hC (not_cons_of_two_values hv hw hne)

/-- "increases and decreases of one fluent accumulate" -/
theorem inc_dec_accumulate (W : World) (s s' : SimState) (a : Action) (args : List String)
    (g : GAction) (F : List Fired) (k : GKey)
    (h : Sim.apply W s a args = .ok (some s')) (hg : ground W a args = .ok (some g))
    (hF : fired (ctx W s) (expandAll W.P g) = some F)
    (hB : asgB F k = []) (hV : asgV F k = []) (hD : deltas F k ≠ []) :
    ∃ q, s.get W.P k = some (.n q) ∧ s'.get W.P k = some (.n (q + sumR (deltas F k))) := by
  obtain ⟨g', F', hg', _, hF', hC, hget, _⟩ := apply_some_unpack h
  rw [hg] at hg'; cases hg'
  rw [hF] at hF'; cases hF'
  rw [hget]; exact succGet_deltas hC hB hV hD

/-- "bounded numeric types and state invariants must hold in the successor" -/
theorem bounds_and_invariants_hold_in_successor (W : World) (s s' : SimState) (a : Action) (args : List String)
    (h : Sim.apply W s a args = .ok (some s')) :
    (∀ si ∈ invariants W, evalBool (ctx W s') si = .ok true) ∧
    (∀ d ∈ W.P.fluents, ∀ fe ∈ allFluentExps W.P d.ref,
      (∀ l ub, boundsOf d.ref.ty = (some l, ub) → evalBool (ctx W s') (Expr.mkLE l fe) = .ok true) ∧
      (∀ lb u, boundsOf d.ref.ty = (lb, some u) → evalBool (ctx W s') (Expr.mkLE fe u) = .ok true)) := by
  obtain ⟨_, _, _, _, _, _, _, hI⟩ := apply_some_unpack h
  have hall := invOK_all hI
  refine ⟨hall, ?_⟩
  intro d hd fe hfe
  exact ⟨fun l ub hb => hall _ (lower_bound_mem hd hb hfe), fun lb u hb => hall _ (upper_bound_mem hd hb hfe)⟩

/-- fluents no fired effect touches keep their value (frame) -/
theorem untouched_fluents_keep_their_value (W : World) (s s' : SimState) (a : Action) (args : List String)
    (g : GAction) (F : List Fired) (k : GKey)
    (h : Sim.apply W s a args = .ok (some s')) (hg : ground W a args = .ok (some g))
    (hF : fired (ctx W s) (expandAll W.P g) = some F) (hk : ∀ f ∈ F, f.key ≠ k) :
    s'.get W.P k = s.get W.P k := by
  obtain ⟨g', F', hg', _, hF', _, hget, _⟩ := apply_some_unpack h
  rw [hg] at hg'; cases hg'
  rw [hF] at hF'; cases hF'
  rw [hget]; exact succGet_untouched hk

/-- "a condition or goal that reads a fluent with no value is never satisfied":
    reading an undefined ground fluent is the error `missing`; evaluation is strict (a defined result
    needs all children defined); a precondition whose evaluation is `missing` makes `apply` return
    `None`; a goal whose evaluation is `missing` makes `is_goal` false -/
theorem undefined_read_never_satisfied (W : World) (s : SimState) :
    (∀ ρ f args vs, evalList (ctx W s) ρ args = .ok vs → s.get W.P (f, vs) = none →
        eval (ctx W s) ρ (.app (.fluent f) args) = .error .missing) ∧
    (∀ ρ op args v, eval (ctx W s) ρ (.app op args) = .ok v → ∀ x ∈ args, ∃ vx, eval (ctx W s) ρ x = .ok vx) ∧
    (∀ a args g s', ground W a args = .ok (some g) → (∃ c ∈ g.pre, eval (ctx W s) [] c = .error .missing) →
        Sim.apply W s a args ≠ .ok (some s')) ∧
    ((∃ e ∈ W.P.goals, evalBool (ctx W s) e = .error .missing) → Sim.isGoal W s ≠ .ok true) := by
  refine ⟨?_, ?_, ?_, ?_⟩
  · intro ρ f args vs h1 h2; exact eval_fluent_undefined h1 h2
  · intro ρ op args v h; exact eval_app_strict h
  · intro a args g s' hg ⟨c, hc, hm⟩ h
    obtain ⟨g', _, hg', hp, _⟩ := apply_some_unpack h
    rw [hg] at hg'; cases hg'
    unfold preOK at hp
    rw [List.all_eq_true] at hp
    have := hp c hc
    rw [hm] at this
    cases this
  · intro ⟨e, he, hm⟩ h
    have := isGoal_eq_spec h
    unfold Spec.isGoal at this
    have h2 := this.symm
    rw [List.all_eq_true] at h2
    have h3 := h2 e he
    unfold Spec.holds at h3
    rw [hm] at h3
    cases h3

/-- `is_goal` decides exactly "every goal evaluates to TRUE" -/
theorem isGoal_eq_spec (W : World) (s : SimState) (b : Bool) (h : Sim.isGoal W s = .ok b) :
    b = Spec.isGoal W s := Sim.isGoal_eq_spec h

section examples
/-! ## non-vacuity: one concrete problem exercising every clause

types `T`; objects `o1 o2 : T`; fluents `b : bool = false`, `p(T) : bool = false`, `x : int[0,10] = 1`,
`y : int = 5`, `u : int` (no value).  State invariant `x <= 8`.  Goal `p(o1)`.
* `act`: pre `x <= 5`; effects `forall v:T. p(v) := true`, `b := false`, `b := true if y <= 5`,
  `x += 2`, `x += 1`, `y := x`
* `clash`: `y := 1 if x <= 5`, `y := 2 if x <= 5`
* `rd`: pre `u <= 3`
* `big`: `x += 9` (violates both the bound and the invariant) -/
def tT : Ty := .user "T"
def fb : FluentRef := ⟨"b", .bool, []⟩
def fp : FluentRef := ⟨"p", .bool, [tT]⟩
def fx : FluentRef := ⟨"x", .int (some 0) (some 10), []⟩
def fy : FluentRef := ⟨"y", .int none none, []⟩
def fu : FluentRef := ⟨"u", .int none none, []⟩
def eb : Expr := .app (.fluent fb) []
def ex : Expr := .app (.fluent fx) []
def ey : Expr := .app (.fluent fy) []
def eu : Expr := .app (.fluent fu) []
def vv : Var := ⟨"v", tT⟩
def o1 : Expr := .leaf (.obj "o1" "T")
def eff (f v c : Expr) (k : EffKind) (fa : List Var) : Effect :=
  { fluent := f, value := v, cond := c, kind := k, forall_ := fa }
def act : Action := { name := "act", params := [], pre := [Expr.mkLE ex (Expr.int 5)], effs := [
  eff (.app (.fluent fp) [.leaf (.var vv)]) Expr.tt Expr.tt .assign [vv],
  eff eb Expr.ff Expr.tt .assign [], eff eb Expr.tt (Expr.mkLE ey (Expr.int 5)) .assign [],
  eff ex (Expr.int 2) Expr.tt .increase [], eff ex (Expr.int 1) Expr.tt .increase [],
  eff ey ex Expr.tt .assign [] ] }
def clash : Action := { name := "clash", params := [], pre := [], effs := [
  eff ey (Expr.int 1) (Expr.mkLE ex (Expr.int 5)) .assign [], eff ey (Expr.int 2) (Expr.mkLE ex (Expr.int 5)) .assign [] ] }
def rd : Action := { name := "rd", params := [], pre := [Expr.mkLE eu (Expr.int 3)], effs := [eff eb Expr.tt Expr.tt .assign []] }
def big : Action := { name := "big", params := [], pre := [], effs := [eff ex (Expr.int 9) Expr.tt .increase []] }
def P0 : Problem where
  name := "ex"
  types := ⟨[("T", none)]⟩
  objects := [("o1", "T"), ("o2", "T")]
  fluents := [⟨fb, some Expr.ff⟩, ⟨fp, some Expr.ff⟩, ⟨fx, some (Expr.int 1)⟩, ⟨fy, some (Expr.int 5)⟩, ⟨fu, none⟩]
  init := []
  actions := [act, clash, rd, big]
  goals := [.app (.fluent fp) [o1]]
  traj := [.app .always [Expr.mkLE ex (Expr.int 8)]]
  metrics := []
def W0 : World := { P := P0, simp := id, fn := fun _ _ => none }
def s0 : SimState := ⟨[]⟩
def keys0 : List GKey := [(fb, []), (fp, [.o "o1"]), (fp, [.o "o2"]), (fx, []), (fy, []), (fu, [])]
def readAll (r : Except EvalErr (Option SimState)) : Option (List (Option Val)) :=
  match r with
  | .ok (some s') => some (keys0.map (s'.get P0))
  | _ => none

/-- forall effect over both objects, Boolean delete+add ends true, `1+2+1`, `y := x` reads the OLD `x` -/
example : readAll (Sim.apply W0 s0 act []) =
    some [some (.b true), some (.b true), some (.b true), some (.n 4), some (.n 1), none] := by decide +kernel
example : Sim.isApplicable W0 s0 act [] = .ok true := by decide +kernel
/-- two different values -/
example : Sim.apply W0 s0 clash [] = .ok none := by decide +kernel
/-- a precondition reading the undefined `u` -/
example : Sim.apply W0 s0 rd [] = .ok none := by decide +kernel
/-- bound / invariant violated in the successor -/
example : Sim.apply W0 s0 big [] = .ok none := by decide +kernel
example : Sim.isGoal W0 s0 = .ok false := by decide +kernel
/-- the grounded `act` and its fired effects (computed by the model) -/
def g0 : GAction := match ground W0 act [] with | .ok (some g) => g | _ => default
def F0 : List Fired := (fired (ctx W0 s0) (expandAll P0 g0)).getD []
/-- the hypotheses of `pre_state_evaluation`, `forall_ranges_over_all_objects`, `bool_both_values_ends_true`,
    `inc_dec_accumulate` are met by `act` in `s0`: a forall effect with two instances, a Boolean fluent
    assigned both values, two increases of `x` and nothing else on `x` -/
example : ground W0 act [] = .ok (some g0) ∧ fired (ctx W0 s0) (expandAll P0 g0) = some F0 ∧
    F0.length = 7 ∧ (expandAll P0 g0).length = 7 ∧
    Fired.setB (fb, []) true ∈ F0 ∧ Fired.setB (fb, []) false ∈ F0 ∧
    Fired.setB (fp, [.o "o1"]) true ∈ F0 ∧ Fired.setB (fp, [.o "o2"]) true ∈ F0 ∧
    asgB F0 (fx, []) = [] ∧ asgV F0 (fx, []) = [] ∧ deltas F0 (fx, []) = [2, 1] ∧
    Fired.setV (fy, []) (.n 1) ∈ F0 := by decide +kernel
/-- the hypotheses of `two_values_inapplicable` are met by `clash` -/
example : ∃ g F, ground W0 clash [] = .ok (some g) ∧ fired (ctx W0 s0) (expandAll P0 g) = some F ∧
    Fired.setV (fy, []) (.n 1) ∈ F ∧ Fired.setV (fy, []) (.n 2) ∈ F :=
  ⟨(match ground W0 clash [] with | .ok (some g) => g | _ => default),
   [.setV (fy, []) (.n 1), .setV (fy, []) (.n 2)], by decide +kernel⟩
/-- the hypothesis of the precondition part of `undefined_read_never_satisfied` is met by `rd` -/
example : ∃ g, ground W0 rd [] = .ok (some g) ∧ ∃ c ∈ g.pre, eval (ctx W0 s0) [] c = .error .missing :=
  ⟨⟨[Expr.mkLE eu (Expr.int 3)], [eff eb Expr.tt Expr.tt .assign []]⟩, by decide +kernel,
   Expr.mkLE eu (Expr.int 3), by simp, by decide +kernel⟩
/-- permuting the effects of `act`: the hypothesis of `fold_order_independent` is met (both runs return) -/
def okSome (r : Except EvalErr (Option SimState)) : Bool := match r with | .ok (some _) => true | _ => false
example : okSome (catchFail none (applyGround W0 s0 g0)) = true ∧
    okSome (catchFail none (applyGround W0 s0 { g0 with effs := g0.effs.reverse })) = true := by decide +kernel
end examples

end UPVerif.C01
