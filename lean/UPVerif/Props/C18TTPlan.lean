import UPVerif.Core.PddlTTPlan
import UPVerif.Lemmas.PddlTTPlanLemmas
import UPVerif.Lemmas.PddlTTPlanExample
/-!
# C18 — plan text: time-triggered (and sequential) plans, character by character

The last clause of C18: *a plan written by the writer parses back to an equivalent plan with the same validity*.
`Props/C18.lean` proves it for sequential plans on token trees.  Here the writer and the reader are modelled on
characters (`Core/PddlTTPlan.lean`): `writePlan` mirrors `PDDLWriter._write_plan` (as repaired by
notes/patches/C18-plan-times-positional.patch) and `parsePlanString` mirrors `UPPDDLReader.parse_plan_string` line
by line — `str.splitlines`, the comment / sequential-step / timed-step regular expressions, `line.lower()`, the
`is_tt` switch, `Fraction(group)`, `get_item_named`, the assertions and the `ActionInstance` checks.

Status
* `C18_plan_time_printable` — full: the writer has an exact text for a time iff its decimal expansion is finite
  (denominator `2^a * 5^b`); other times are printed rounded, with a warning (outside C18's quantifier);
* `C18_ttplan_roundtrip`, `C18_ttplan_roundtrip_total` — full for every time-triggered plan with at least one step
  whose names are renamed, whose steps are well typed and whose times are not negative and have finite decimal
  expansions; durative and instantaneous steps in any order, any number of steps, any number of digits;
* `C18_ttplan_same_validity` — corollary: whatever is computed from the plan (a validator's verdict) is the same;
* `C18_seqplan_text_roundtrip` — full, sequential plans (also the empty one);
* `C18_ttplan_empty_is_read_sequential`, `C18_ttplan_negative_start_not_read` — kernel-checked refutations showing
  that the two side conditions (at least one step; times not negative) cannot be dropped: the empty text carries no
  plan kind, and the reader's grammar has no sign.
-/
namespace UPVerif.C18
open UPVerif UPVerif.Pddl UPVerif.Pddl.TTP

/-! ## which times are printed exactly -/

/-- **Printability.**  `_format_time` prints a time exactly iff the time has a finite decimal expansion. -/
theorem C18_plan_time_printable (t : Rat) : (timeChars t).isSome = true ↔ ∃ a b, t.den = 2 ^ a * 5 ^ b :=
  timeChars_isSome_iff t

-- non-vacuity: both sides occur; below 1e-4 and above 1e16 `repr(float)` used exponents / lost digits (the defect repaired)
example : timeChars ((1 : Rat) / 100000) = some "0.00001".toList := by decide +kernel
example : timeChars ((12345678901234567891 : Rat) / 100) = some "123456789012345678.91".toList := by decide +kernel
example : timeChars (6 : Rat) = some "6".toList := by decide +kernel
example : timeChars ((1 : Rat) / 3) = none := by decide +kernel

/-! ## time-triggered plans -/

/-- **Time-triggered plan round trip.**  The text the writer model prints for a time-triggered plan is read back by the
    model of `parse_plan_string` as exactly that plan: same steps in the same order, same start times, same durations,
    `None` durations of instantaneous steps included.

    Hypotheses: `RenOK` — `get_item_named` inverts the renaming on actions and objects and the new names are words over
    `[a-z0-9_-]` (C38); the plan has a step; every step passes the checks of the `ActionInstance` constructor (true of
    every entry of a plan object); no start time or duration is negative.  That every time has a finite decimal
    expansion is implied by `printTTPlan ρ π = some text` (`C18_plan_time_printable`). -/
theorem C18_ttplan_roundtrip {ρ : Ren} {inv : Inv} (ok : RenOK ρ inv) (sig : PlanSig) (π : List TStep) (text : List Char)
    (hne : π ≠ []) (hty : ∀ s ∈ π, WellTyped sig s.act s.args)
    (h0 : ∀ s ∈ π, 0 ≤ s.start ∧ ∀ d, s.dur = some d → 0 ≤ d)
    (hw : printTTPlan ρ π = some text) : readTTPlan inv sig text = some π := by
  unfold printTTPlan at hw
  cases hwp : writePlan ρ (.tt π) with
  | error e => simp [hwp] at hw
  | ok t =>
    simp only [hwp, Option.some.injEq] at hw
    subst hw
    unfold readTTPlan
    rw [parsePlanString_writePlan_tt ok sig π t hne hty h0 hwp]

/-- The same with the conditions on the plan instead of on the writer's result: names in the domain of the renaming,
    times with finite decimal expansions — then the text exists and is read back as the plan. -/
theorem C18_ttplan_roundtrip_total {ρ : Ren} {inv : Inv} (ok : RenOK ρ inv) (sig : PlanSig) (π : List TStep)
    (hne : π ≠ []) (hty : ∀ s ∈ π, WellTyped sig s.act s.args)
    (hdom : ∀ s ∈ π, InDomain ρ s.act s.args)
    (hfin : ∀ s ∈ π, FiniteDecimal s.start ∧ ∀ d, s.dur = some d → FiniteDecimal d)
    (h0 : ∀ s ∈ π, 0 ≤ s.start ∧ ∀ d, s.dur = some d → 0 ≤ d) :
    ∃ text, printTTPlan ρ π = some text ∧ readTTPlan inv sig text = some π := by
  obtain ⟨text, hw⟩ := writePlan_tt_ok ρ π hdom hfin
  have hp : printTTPlan ρ π = some text := by simp [printTTPlan, hw]
  exact ⟨text, hp, C18_ttplan_roundtrip ok sig π text hne hty h0 hp⟩

/-- **Same validity.**  The re-read plan is the written plan, so every function of the plan — in particular the verdict
    of a plan validator on the (original) problem — has the same value on both. -/
theorem C18_ttplan_same_validity {α : Type} (V : List TStep → α) {ρ : Ren} {inv : Inv} (ok : RenOK ρ inv) (sig : PlanSig)
    (π : List TStep) (text : List Char) (hne : π ≠ []) (hty : ∀ s ∈ π, WellTyped sig s.act s.args)
    (h0 : ∀ s ∈ π, 0 ≤ s.start ∧ ∀ d, s.dur = some d → 0 ≤ d) (hw : printTTPlan ρ π = some text) :
    (readTTPlan inv sig text).map V = some (V π) := by
  rw [C18_ttplan_roundtrip ok sig π text hne hty h0 hw]
  rfl

/-! ### non-vacuity (`Lemmas/PddlTTPlanExample.lean`): a renaming with an upper-case action and a keyword, a plan mixing
    durative and instantaneous steps -/

-- the hypotheses of the round trip hold of the example, and its conclusion, evaluated by the kernel, agrees
example : RenOK TTExample.ρ0 TTExample.inv0 := TTExample.renOK
example : readTTPlan TTExample.inv0 TTExample.sig0 "0: (heat o1)[5]\n6.00001: (serve o1)\n6.5: (and_)[0.125]\n".toList
    = some TTExample.π0 :=
  C18_ttplan_roundtrip TTExample.renOK TTExample.sig0 TTExample.π0 _ (by decide) TTExample.wellTyped TTExample.nonneg
    TTExample.printed
-- the reader on a text the writer never emits: blanks, upper case, a comment, `5.`, `\r\n`
example : parsePlanString TTExample.inv0 TTExample.sig0 " 0 :( HEAT  O1 ) [ 5. ]\r\n; c\r\n6.00001: (serve o1)".toList
    = .ok (.tt [{ start := 0, act := "Heat", args := ["O1"], dur := some 5 },
                { start := (600001 : Rat) / 100000, act := "serve", args := ["O1"], dur := none }]) := by
  decide +kernel

/-! ### the side conditions cannot be dropped -/

/-- The empty time-triggered plan is written as the empty text, which the reader returns as the empty SEQUENTIAL plan
    (`is_tt` is never set): `π ≠ []` is necessary. -/
theorem C18_ttplan_empty_is_read_sequential (ρ : Ren) (inv : Inv) (sig : PlanSig) :
    printTTPlan ρ [] = some [] ∧ parsePlanString inv sig [] = .ok (.seq []) ∧ readTTPlan inv sig [] = none :=
  ⟨rfl, rfl, rfl⟩

/-- A negative start time is written with its sign, and the timed-step expression `\d+\.?\d*` has no sign: the reader
    raises.  `0 ≤ start` is necessary. -/
theorem C18_ttplan_negative_start_not_read :
    printTTPlan TTExample.ρ0 [{ start := -1, act := "serve", args := ["O1"], dur := none }] = some "-1: (serve o1)\n".toList ∧
    parsePlanString TTExample.inv0 TTExample.sig0 "-1: (serve o1)\n".toList = .error .upException := by
  decide +kernel

/-- the unrestricted statement (no side condition on the plan) is false -/
theorem C18_ttplan_roundtrip_unrestricted_refuted :
    ¬ (∀ (ρ : Ren) (inv : Inv) (sig : PlanSig) (π : List TStep) (text : List Char), RenOK ρ inv →
        (∀ s ∈ π, WellTyped sig s.act s.args) → printTTPlan ρ π = some text → readTTPlan inv sig text = some π) := by
  intro h
  have := h TTExample.ρ0 TTExample.inv0 TTExample.sig0 [] [] TTExample.renOK (by simp) rfl
  exact absurd this (by decide)

/-! ## sequential plans, on characters -/

/-- **Sequential plan round trip on the text.**  Every sequential plan (the empty one included) whose steps are renamed
    and well typed is written as a text that is read back as that plan. -/
theorem C18_seqplan_text_roundtrip {ρ : Ren} {inv : Inv} (ok : RenOK ρ inv) (sig : PlanSig)
    (π : List (String × List String)) (text : List Char) (hty : ∀ s ∈ π, WellTyped sig s.1 s.2)
    (hw : writePlan ρ (.seq π) = .ok text) : parsePlanString inv sig text = .ok (.seq π) :=
  parsePlanString_writePlan_seq ok sig π text hty hw

example : writePlan TTExample.ρ0 (.seq [("Heat", ["o-2"]), ("and", [])]) = .ok "(heat o-2)\n(and_)\n".toList := by
  decide +kernel
example : ∀ s ∈ [("Heat", ["o-2"]), (("and" : String), ([] : List String))], WellTyped TTExample.sig0 s.1 s.2 := by
  intro s hs
  simp only [List.mem_cons, List.not_mem_nil, or_false] at hs
  rcases hs with rfl | rfl <;> (unfold WellTyped; decide +kernel)

/-! ## the reader's error behaviour (kernel-evaluated instances; the correspondence check compares them on every case) -/

-- a sequential line after a timed one: `assert is_tt == False`
example : parsePlanString TTExample.inv0 TTExample.sig0 "0: (heat o1)[5]\n(serve o1)\n".toList = .error .assertion := by
  decide +kernel
-- a sequential line before a timed one: `TimeTriggeredPlan(actions)` on a mixed list
example : parsePlanString TTExample.inv0 TTExample.sig0 "(serve o1)\n0: (heat o1)[5]\n".toList = .error .typeError := by
  decide +kernel
-- an instantaneous step after a durative one carries no duration (the `dur = None` reset of every timed line)
example : parsePlanString TTExample.inv0 TTExample.sig0 "0: (heat o1)[5]\n6: (serve o1)\n".toList
    = .ok (.tt [{ start := 0, act := "Heat", args := ["O1"], dur := some 5 },
                { start := 6, act := "serve", args := ["O1"], dur := none }]) := by
  decide +kernel

end UPVerif.C18
