import UPVerif.Props.C03
import UPVerif.Lemmas.ArgLitLemmas
import UPVerif.Lemmas.DeorderEval
/-!
# C03 — Boolean, integer and real ACTION parameters

`SequentialPlanValidator.supported_kind()` contains `BOOL_ACTION_PARAMETERS`, `BOUNDED_INT_ACTION_PARAMETERS`,
`UNBOUNDED_INT_ACTION_PARAMETERS` and `REAL_ACTION_PARAMETERS` (plan_validator.py:109-117).  An action
instance is carried as the action and the list of the STRINGS that spell its actual parameters; since
wave 6 the validator model and its specification read a string according to the TYPE of the formal
parameter (`Core/SimTyped.lean`: `Sim.argExpr` — an object name, `true`/`false`, an integer, `n` or `n/d` —,
`Sim.paramSubstT`, `Sim.groundT`; `Spec.applyT` = C01's documented successor of that instance), so every
theorem of `Props/C03.lean` — all of them quantify over arbitrary `π : List (Action × List String)` — now
speaks about plans with such parameters too, with unchanged statements.  This file adds what is specific
to them:

* the spelling loses nothing (`C03_actual_parameter_spelling`), and for user-typed parameters the typed
  reading is exactly the one of `Core/Sim.lean` / C01's `Spec.apply` (`C03_user_typed_parameters_unchanged`);
* the action-cost clause, pointed at the shape the seeded change C03-2 broke: when one action occurs twice,
  each occurrence is charged the cost expression with ITS OWN actual parameters, in its own pre-state
  (`C03_metric_costs_same_action_twice`);
* what is and what is not true of a cost expression without fluents: its value does not depend on the
  state (`C03_fluent_free_cost_state_independent`) but does depend on the actual parameters
  (`fluent_free_cost_differs_between_arguments`, kernel-checked) — a per-action cache is wrong, a
  per-instance cache would be right;
* kernel-checked runs of the model on a problem with a bounded-integer, a real and a Boolean parameter in a
  precondition, an effect value, an effect condition and the cost.
-/
namespace UPVerif.C03
open UPVerif UPVerif.Sim UPVerif.Spec UPVerif.Validate

/-- every constant that can be an actual parameter has a spelling which the model reads back as exactly
    that constant: integers (for integer and for real parameters: Python `int` → `Int`), fractions
    (`Fraction` → `Real`), Booleans, objects -/
theorem C03_actual_parameter_spelling (P : Problem) :
    (∀ lb ub z, argExpr P (.int lb ub) (ArgLit.intStr z) = Expr.int z) ∧
    (∀ lb ub z, argExpr P (.real lb ub) (ArgLit.intStr z) = Expr.int z) ∧
    (∀ lb ub r, argExpr P (.real lb ub) (ArgLit.fracStr r) = Expr.real r) ∧
    argExpr P .bool "true" = Expr.tt ∧ argExpr P .bool "false" = Expr.ff ∧
    (∀ t o, argExpr P (.user t) o = objExpr P o) :=
  ⟨argExpr_int_roundtrip P, argExpr_real_int_roundtrip P, argExpr_real_frac_roundtrip P,
   argExpr_bool_true P, argExpr_bool_false P, argExpr_user P⟩

/-- conservativity: for actions with user-typed parameters (everything generated before wave 6, and all that
    `Core/Sim.lean` and the properties built on it speak about) the typed reading of an instance is the
    historic one — same substitution, same grounded action, same enumeration of the instances, and the step
    semantics IS C01's `Spec.apply` -/
theorem C03_user_typed_parameters_unchanged (W : World) (a : Action) (h : UserTyped a) :
    (∀ args, paramSubstT W.P a args = paramSubst W.P a args) ∧
    (∀ args, groundT W a args = ground W a args) ∧
    instancesOfT W.P a = instancesOf W.P a ∧
    (∀ s args, Spec.applyT W s a args = Spec.apply W s a args) :=
  ⟨paramSubstT_eq_paramSubst W.P h, groundT_eq_ground W h, instancesOfT_eq_instancesOf W.P h,
   fun s args => applyT_eq_apply W s h args⟩

/-- action costs when ONE action occurs twice: the reported value is the cost expression with the actual
    parameters of the first occurrence, evaluated in the initial state, plus the cost expression with the
    actual parameters of the SECOND occurrence, evaluated in the state the first one leads to -/
theorem C03_metric_costs_same_action_twice (W : World) (a : Action) (args₁ args₂ : List String)
    (c : List (String × Expr)) (d : Option Expr) (s₀ : SimState) (mv : Option Rat)
    (hm : theMetric W.P = .ok (some (.minActionCosts c d))) (h0 : getInitialState W = .ok (some s₀))
    (h : validate .repaired W [(a, args₁), (a, args₂)] = .ok (.valid mv)) :
    ∃ s₁ sf q₁ q₂, StepOK W s₀ (a, args₁) s₁ ∧ StepOK W s₁ (a, args₂) sf ∧
      costOf W c d (a, args₁) s₀ = some q₁ ∧ costOf W c d (a, args₂) s₁ = some q₂ ∧ mv = some (q₁ + q₂) := by
  obtain ⟨pres, sf, v, hex, hmv, hs⟩ := C03_metric_costs W _ c d s₀ mv hm h0 h
  cases hex with
  | cons h1 hex' =>
    cases hex' with
    | cons h2 hex'' =>
      cases hex''
      rename_i s₁
      simp only [costSum] at hs
      cases hq1 : costOf W c d (a, args₁) s₀ with
      | none => rw [hq1] at hs; cases hs
      | some q₁ =>
        cases hq2 : costOf W c d (a, args₂) s₁ with
        | none => rw [hq1, hq2] at hs; cases hs
        | some q₂ =>
          rw [hq1, hq2] at hs
          simp only [Option.some.injEq] at hs
          refine ⟨s₁, sf, q₁, q₂, h1, h2, rfl, hq2, ?_⟩
          rw [hmv, ← hs, Rat.add_zero]

/-- a cost expression that, once the actual parameters are substituted, mentions no fluent
    (`FreeVarsExtractor.get` returns nothing) has the same value in every state -/
theorem C03_fluent_free_cost_state_independent (W : World) (c : List (String × Expr)) (d : Option Expr)
    (ai : PlanStep) (e : Expr) (s s' : SimState) (hc : costExpr c d ai.1 = some e)
    (hf : Expr.fluentExps (substE (paramSubstT W.P ai.1 ai.2) e) = []) :
    costOf W c d ai s = costOf W c d ai s' := by
  unfold costOf numVal
  rw [hc]
  have key := Deorder.eval_fluentFree (ctx W s) (s'.get W.P) _ [] hf
  have e' : Deorder.setGet (ctx W s) (s'.get W.P) = ctx W s' := rfl
  rw [e'] at key
  simp only [key]

section examples
/-! ## non-vacuity: a problem whose action has an integer, a real and a Boolean parameter

fluent `total : int[0,20] = 0`, `flag : bool = false`;
`add(k : int[1,3], r : real[0,2], b : bool)`: pre `b ∨ r <= 1`; effects `total += k`, `flag := b` when `2 <= k`;
cost `2*k + r`.  Goal: none, or `flag`. -/
def tK : Ty := .int (some 1) (some 3)
def tR : Ty := .real (some 0) (some 2)
def ftot : FluentRef := ⟨"total", .int (some 0) (some 20), []⟩
def fflag : FluentRef := ⟨"flag", .bool, []⟩
def etot : Expr := .app (.fluent ftot) []
def eflag : Expr := .app (.fluent fflag) []
def pk : Expr := .leaf (.param "k" tK)
def pr : Expr := .leaf (.param "r" tR)
def pb : Expr := .leaf (.param "b" .bool)
def add : Action :=
  { name := "add", params := [("k", tK), ("r", tR), ("b", .bool)],
    pre := [Expr.mkOr [pb, Expr.mkLE pr (Expr.int 1)]],
    effs := [eff etot pk Expr.tt .increase, eff eflag pb (Expr.mkLE (Expr.int 2) pk) .assign] }
def addCost : Expr := Expr.mkPlus [Expr.mkTimes [Expr.int 2, pk], pr]
def mkWP (goals : List Expr) (ms : List Metric) : World :=
  { P := { name := "acc", types := ⟨[]⟩, objects := [],
           fluents := [⟨ftot, some (Expr.int 0)⟩, ⟨fflag, some Expr.ff⟩], init := [],
           actions := [add], goals := goals, traj := [], metrics := ms },
    simp := id, fn := fun _ _ => none }
def mAdd : Metric := .minActionCosts [("add", addCost)] none

/-- the hypotheses `hm`, `h0` of the theorems are met -/
example : theMetric (mkWP [] [mAdd]).P = .ok (some mAdd) ∧ getInitialState (mkWP [] [mAdd]) = .ok (some ⟨[]⟩) :=
  ⟨rfl, by decide +kernel⟩

/-- the grounder's enumeration: `k` over 1..3 (real parameters are not enumerable, so `add` itself has no instance;
    an action over `k` and `b` alone has the 6 instances in `domain_item` order, `True` before `False`) -/
example : instancesOfT (mkWP [] []).P { add with params := [("k", tK), ("b", .bool)] } =
    [["1", "true"], ["1", "false"], ["2", "true"], ["2", "false"], ["3", "true"], ["3", "false"]] := by decide +kernel
example : instancesOfT (mkWP [] []).P add = [] := by decide +kernel

/-- one action three times with three different argument tuples; each occurrence is charged with its own:
    `(2*1 + 1/2) + (2*3 + 3/2) + (2*2 + 0) = 14` -/
example : validate .repaired (mkWP [] [mAdd]) [(add, ["1", "1/2", "false"]), (add, ["3", "3/2", "true"]), (add, ["2", "0", "true"])]
    = .ok (.valid (some 14)) := by decide +kernel
/-- the hypothesis of `C03_metric_costs_same_action_twice` is met; the value is NOT twice the first cost -/
example : validate .repaired (mkWP [] [mAdd]) [(add, ["1", "0", "true"]), (add, ["3", "0", "true"])] = .ok (.valid (some 8)) := by
  decide +kernel
/-- the precondition `b ∨ r <= 1` with `b = false`, `r = 3/2` -/
example : validate .repaired (mkWP [] [mAdd]) [(add, ["1", "1/2", "false"]), (add, ["1", "3/2", "false"])]
    = .ok (.invalid .unsatPre 2) := by decide +kernel
/-- the conditional effect `flag := b when 2 <= k`: reached with `k = 2, b = true`, not with `k = 1` -/
example : validate .repaired (mkWP [eflag] [.minLength]) [(add, ["2", "0", "true"])] = .ok (.valid (some 1)) := by decide +kernel
example : validate .repaired (mkWP [eflag] [.minLength]) [(add, ["1", "0", "true"])] = .ok (.invalid .goals 0) := by decide +kernel
/-- final-state metric over a fluent written from an integer parameter -/
example : validate .repaired (mkWP [] [.maxFinal etot]) [(add, ["3", "1", "false"]), (add, ["2", "1", "false"])]
    = .ok (.valid (some 5)) := by decide +kernel

/-- the cost `2*k + r` mentions no fluent: `C03_fluent_free_cost_state_independent` applies to every instance … -/
example : costExpr [("add", addCost)] none add = some addCost ∧
    Expr.fluentExps (substE (paramSubstT (mkWP [] [mAdd]).P add ["3", "3/2", "true"]) addCost) = [] := by decide +kernel
/-- … but the value depends on the actual parameters: the cost of `add(1,0,true)` is 2, that of `add(3,0,true)` is 6.
    (The seeded change C03-2 cached the first value per ACTION and reported `2 + 2 = 4` for this plan.) -/
theorem fluent_free_cost_differs_between_arguments :
    costOf (mkWP [] [mAdd]) [("add", addCost)] none (add, ["1", "0", "true"]) ⟨[]⟩ = some 2 ∧
    costOf (mkWP [] [mAdd]) [("add", addCost)] none (add, ["3", "0", "true"]) ⟨[]⟩ = some 6 := by decide +kernel
end examples

end UPVerif.C03
