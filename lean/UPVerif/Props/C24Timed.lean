import UPVerif.Lemmas.ConflictsTimedLemmas
import UPVerif.Props.C24
/-!
# C24 — the time point of an insertion may be written in any accepted form

`Props/C24.lean` proves the property for a store keyed by an opaque NAME of the time point — it takes for
granted that every dictionary access of `_add_effect_instance` uses the canonical key.  Here that is part of
the model (`Core/ConflictsTimed.lean`): a history is a list of insertion attempts whose time is the Python
object the caller wrote (`Timing`, `Timepoint` or number for `add_effect` / `add_increase_effect` /
`add_decrease_effect` of a `TimedCondsEffs`; a `Timing` for `set_simulated_effect` and for a `Problem`'s timed
effects, as their signatures demand); the four dictionaries are keyed by raw Python objects;
`Timing.from_time` is modelled.  The theorems below are the clauses of C24 for such histories — "the same
time point" means `TOp.point`, the canonical `Timing`, however it was written — and hold for every content of
the dictionaries, every history, without size bound.

Hypotheses.  `tb.WF l`: the object is a `TimedCondsEffs` (no `Problem` insertion in `l`) or a `Problem` (no
simulated effect stored or set) — the two classes do not share objects.  `simLoad … ≤ 1` as in `Props/C24`
(`set_simulated_effect` replaces).  Nothing else.
-/
namespace UPVerif.C24
open UPVerif.Conflicts

/-! ## canonicalisation -/

/-- what `Timing.from_time` computes: a number is that delay after the global start, a `Timepoint` is itself
    with delay 0, a `Timing` is itself; and it is idempotent -/
theorem C24T_fromTime_spec :
    (∀ q, Timing.fromTime (.num q) = ⟨q, ⟨.globalStart, none⟩⟩) ∧
    (∀ p, Timing.fromTime (.timepoint p) = ⟨0, p⟩) ∧
    (∀ t, Timing.fromTime (.timing t) = t) ∧
    (∀ te, Timing.fromTime (.timing (Timing.fromTime te)) = Timing.fromTime te) := by
  refine ⟨?_, fun _ => rfl, fun _ => rfl, fun _ => rfl⟩
  intro q
  simp [Timing.fromTime, Timing.add, globalStartTiming, Rat.zero_add]

/-- One insertion attempt does the same — verdict and all four dictionaries — whether its time point is
    written as a number, a `Timepoint` or the canonical `Timing`. -/
theorem C24T_step_spelling (tb : Tables) (x : TOp) : tb.step x.canon = tb.step x := step_canon tb x

/-- Two histories that differ only in the way their time points are written have the same raise pattern
    and leave the same dictionaries. -/
theorem C24T_spelling_irrelevant (tb : Tables) (l₁ l₂ : List TOp)
    (h : l₁.map TOp.canon = l₂.map TOp.canon) : tb.run l₁ = tb.run l₂ := by
  rw [← run_map_canon l₁, ← run_map_canon l₂, h]

/-- Nothing is ever stored under a key that is not a canonical `Timing` (so the dictionaries never hold two
    entries for one time point). -/
theorem C24T_keys_canonical (tb : Tables) (l : List TOp) (hwf : tb.WF l) (h : tb.KeysCanonical) :
    (tb.run l).1.KeysCanonical := keysCanonical_run tb l hwf h

/-! ## exception safety -/

/-- A rejected insertion leaves all four dictionaries exactly as they were — under every key. -/
theorem C24T_reject_noop (tb : Tables) (x : TOp) (h : (tb.step x).2 = true) : (tb.step x).1 = tb :=
  tables_step_noop tb x h

/-- A history with rejected insertions behaves as if they had never been attempted: replaying only the
    accepted insertions raises nothing and yields the same dictionaries, and any later insertions `l'` are
    judged the same and lead to the same dictionaries. -/
theorem C24T_as_if_never_attempted (tb : Tables) (l l' : List TOp) :
    let acc := acceptedT l (tb.run l).2
    (tb.run acc).2 = acc.map (fun _ => false) ∧ (tb.run acc).1 = (tb.run l).1 ∧
    (tb.run (l ++ l')).1 = (tb.run (acc ++ l')).1 ∧
    (tb.run (l ++ l')).2.drop l.length = (tb.run (acc ++ l')).2.drop acc.length := by
  intro acc
  have h := tables_run_accepted l tb
  have e1 : (tb.run acc).1 = (tb.run l).1 := by rw [show tb.run acc = _ from h]
  have e2 : (tb.run acc).2 = acc.map (fun _ => false) := by rw [show tb.run acc = _ from h]
  refine ⟨e2, e1, ?_, ?_⟩
  · rw [tables_run_append, tables_run_append, e1]
  · rw [tables_run_append, tables_run_append, e1]
    have n1 : (tb.run l).2.length = l.length := tables_run_length l tb
    have n2 : (tb.run acc).2.length = acc.length := tables_run_length acc tb
    simp only []
    rw [← n1, ← n2, List.drop_left, List.drop_left]

/-- Frame: what the dictionaries hold for time point `t` after a history is what the slot of `t` gets from
    the insertions made at `t` — in whatever form `t` was written — and nothing else changes. -/
theorem C24T_frame (tb : Tables) (l : List TOp) (hwf : tb.WF l) (t : Timing) :
    (tb.run l).1.slot (.timing t) = ((tb.slot (.timing t)).run (atTime t l)).1 :=
  run_slot_timing l tb hwf t

/-! ## order independence -/

/-- A history is added without any error iff, at every time point, each insertion made there (in whatever
    form the time point was written) is admissible for the current content and they are pairwise compatible. -/
theorem C24T_accept_iff (tb : Tables) (l : List TOp) (hwf : tb.WF l)
    (hload : ∀ t : Timing, simLoad (tb.slot (.timing t)) (atTime t l) ≤ 1) :
    tb.raises l = false ↔
      ∀ t : Timing, (∀ op ∈ atTime t l, (tb.slot (.timing t)).admits op = true) ∧
        (atTime t l).Pairwise (fun a b => a.compat b = true) := by
  have h := tables_raises_iff l tb hwf
  constructor
  · intro hr t
    apply (raises_false_iff (atTime t l) (tb.slot (.timing t)) (hload t)).1
    cases hc : (tb.slot (.timing t)).raises (atTime t l) with
    | false => rfl
    | true => rw [h.2 ⟨t, hc⟩] at hr; cases hr
  · intro hall
    cases hc : tb.raises l with
    | false => rfl
    | true =>
      obtain ⟨t, ht⟩ := h.1 hc
      rw [(raises_false_iff (atTime t l) (tb.slot (.timing t)) (hload t)).2 (hall t)] at ht
      cases ht

/-- Whether adding a collection raises a conflicting-effects error depends neither on the insertion order
    nor on the way the time points are written: `l₂` is any permutation of `l₁` in which, moreover, every
    time point may be written differently. -/
theorem C24T_perm (tb : Tables) (l₁ l₂ : List TOp)
    (p : (l₁.map TOp.canon).Perm (l₂.map TOp.canon)) (hwf : tb.WF l₁)
    (hload : ∀ t : Timing, simLoad (tb.slot (.timing t)) (atTime t l₁) ≤ 1) :
    tb.raises l₁ = tb.raises l₂ :=
  tables_raises_perm tb p hwf hload

/-- … in particular for a plain permutation of a history written in mixed forms. -/
theorem C24T_perm_plain (tb : Tables) (l₁ l₂ : List TOp) (p : l₁.Perm l₂) (hwf : tb.WF l₁)
    (hload : ∀ t : Timing, simLoad (tb.slot (.timing t)) (atTime t l₁) ≤ 1) :
    tb.raises l₁ = tb.raises l₂ :=
  tables_raises_perm tb (p.map _) hwf hload

/-- … and the two orders leave dictionaries that judge every later collection `l'` identically. -/
theorem C24T_perm_later (tb : Tables) (l₁ l₂ l' : List TOp)
    (p : (l₁.map TOp.canon).Perm (l₂.map TOp.canon)) (hwf : tb.WF (l₁ ++ l'))
    (hload : ∀ t : Timing, simLoad (tb.slot (.timing t)) (atTime t (l₁ ++ l')) ≤ 1) :
    tb.raises (l₁ ++ l') = tb.raises (l₂ ++ l') := by
  apply tables_raises_perm tb _ hwf hload
  rw [List.map_append, List.map_append]
  exact p.append_right _

/-! ## the seeded change C24-2 as a function, refuted; non-vacuity -/

section witnesses
def tStart : Timing := ⟨0, ⟨.start, none⟩⟩
def tEnd2 : Timing := ⟨-2, ⟨.end, none⟩⟩
def tG5 : Timing := ⟨5, ⟨.globalStart, none⟩⟩
def tActStart : Timing := ⟨0, ⟨.start, some "act1"⟩⟩

/-- looking the simulated effect up under the time expression as written (seeded change C24-2): the
    simulated effect set at `StartTiming()` is missed by an increase added at `Timepoint(START)`, so the
    verdict depends on the order; the model of the code as it is rejects in both orders.  The same with a
    plain number for a global time point. -/
theorem rawSimLookup_order_dependent :
    (Tables.empty.runRawSimLookup [.sim tStart ["x"], .eff (.timepoint ⟨.start, none⟩) eIncX]).2 = [false, false] ∧
    (Tables.empty.runRawSimLookup [.eff (.timepoint ⟨.start, none⟩) eIncX, .sim tStart ["x"]]).2 = [false, true] ∧
    (Tables.empty.run [.sim tStart ["x"], .eff (.timepoint ⟨.start, none⟩) eIncX]).2 = [false, true] ∧
    (Tables.empty.run [.eff (.timepoint ⟨.start, none⟩) eIncX, .sim tStart ["x"]]).2 = [false, true] ∧
    (Tables.empty.runRawSimLookup [.sim tG5 ["x"], .eff (.num 5) eAsgX1]).2 = [false, false] ∧
    (Tables.empty.run [.sim tG5 ["x"], .eff (.num 5) eAsgX1]).2 = [false, true] := by decide +kernel

/-- a history of a `TimedCondsEffs` whose time points are written in mixed forms -/
def mixedHistory : List TOp :=
  [.eff (.timepoint ⟨.start, none⟩) eAsgX1, .sim tStart ["y"], .eff (.timing tStart) eAsgX1r,
   .eff (.num 5) eIncX, .eff (.timing tG5) eAsgX2, .eff (.timing tEnd2) eIncY,
   .eff (.timepoint ⟨.start, some "act1"⟩) eAsgX2, .eff (.timing tActStart) eCondX]

-- hypotheses of the theorems above are met by it
example : Tables.empty.WF mixedHistory := Or.inl (by decide)
example : ∀ t : Timing, simLoad (Tables.empty.slot (.timing t)) (atTime t mixedHistory) ≤ 1 :=
  simLoad_of_countP _ _ (fun _ => rfl) (by decide)
example : Tables.empty.KeysCanonical := fun _ _ => rfl
-- its raise pattern: the increase at the number 5 is accepted, the assignment at GlobalStartTiming(5) then
-- conflicts with it; the two assignments at the start written differently are the same assignment (1 = 1.0)
example : (Tables.empty.run mixedHistory).2 = [false, false, false, false, true, false, false, false] := by
  decide +kernel
-- the same history with every time point in canonical form, reversed: a permutation up to spelling
example : ((mixedHistory.map TOp.canon).reverse.map TOp.canon).Perm (mixedHistory.map TOp.canon) := by
  have : ∀ l : List TOp, (l.map TOp.canon).map TOp.canon = l.map TOp.canon := by
    intro l; simp [List.map_map]
    intro x _; cases x <;> rfl
  rw [← List.map_reverse, this]
  exact (List.reverse_perm _).map _
-- a rejected insertion (hypothesis of `C24T_reject_noop`) whose time point is written as a number
example : ((Tables.empty.run [.sim tG5 ["x"]]).1.step (.eff (.num 5) eIncX)).2 = true := by decide +kernel
-- a `Problem` history (second disjunct of `WF`)
example : Tables.empty.WF [.peff tG5 eAsgX1, .peff tG5 eIncX] :=
  Or.inr ⟨fun _ => rfl, by decide⟩
example : (Tables.empty.run [.peff tG5 eAsgX1, .peff tG5 eIncX, .peff tG5 eAsgX1r]).2 = [false, true, false] := by
  decide +kernel
end witnesses

end UPVerif.C24
