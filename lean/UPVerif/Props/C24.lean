import UPVerif.Lemmas.ConflictsLemmas
/-!
# C24 — Effect conflict detection is order-independent and exception-safe

Statements only (helper lemmas live in `Lemmas/ConflictsLemmas.lean`).  The model
(`Core/Conflicts.lean`) mirrors `check_conflicting_effects`, `check_conflicting_simulated_effects`,
`_add_effect_instance` and `set_simulated_effect` of /repo (after patch `C24-incdec-residue`) and is
tied to the code by the correspondence check.  It is mutation-faithful: a raising call hands back
the containers as it left them, so exception safety is a theorem about the order of operations in
the model, not an artefact of a functional encoding (`asFound_leaves_residue` shows it failing for
the order of operations found in the unpatched tree).

All theorems quantify over every slot content `s` (also contents no history can produce), every
insertion and every collection/history — no size bound.

Scope of "order-independent".  `set_simulated_effect` REPLACES the simulated effect of its time point
("the only simulated effect"), so with two simulated effects in play acceptance legitimately depends
on which one is current (`two_simulated_effects_order_dependent`).  The symmetric class is: at most
one simulated effect, counting one already set (`simLoad s l ≤ 1`) — exactly the property's
"with and without a simulated effect".  Inside that class nothing else is excluded: conditional
effects, Boolean fluents, equal and different values, constants equal across int/real.
-/
namespace UPVerif.C24
open UPVerif.Conflicts

/-! ## exception safety -/

/-- A rejected insertion (effect or simulated effect) leaves the stored effects, the simulated effect
    and both bookkeeping containers exactly as they were. -/
theorem C24_reject_noop (s : Slot) (op : Op) (h : (s.step op).2 = true) : (s.step op).1 = s :=
  step_noop s op h

/-- The same for containers with several time points: no time point changes. -/
theorem C24_reject_noop_store (st : Store) (x : String × Op) (h : (st.step x).2 = true) :
    ∀ t, (st.step x).1 t = st t :=
  store_step_noop st x h

/-- A history with rejected insertions behaves as if they had never been attempted: replaying only the
    accepted insertions raises nothing and yields the same content, and any later insertions `l'` are
    judged the same and lead to the same content. -/
theorem C24_as_if_never_attempted (s : Slot) (l l' : List Op) :
    let acc := accepted l (s.run l).2
    (s.run acc).2 = acc.map (fun _ => false) ∧ (s.run acc).1 = (s.run l).1 ∧
    (s.run (l ++ l')).1 = (s.run (acc ++ l')).1 ∧
    (s.run (l ++ l')).2.drop l.length = (s.run (acc ++ l')).2.drop acc.length := by
  intro acc
  have h := run_accepted l s
  have e1 : (s.run acc).1 = (s.run l).1 := by rw [show s.run acc = _ from h]
  have e2 : (s.run acc).2 = acc.map (fun _ => false) := by rw [show s.run acc = _ from h]
  refine ⟨e2, e1, ?_, ?_⟩
  · rw [run_append, run_append, e1]
  · rw [run_append, run_append, e1]
    have n1 : (s.run l).2.length = l.length := run_length l s
    have n2 : (s.run acc).2.length = acc.length := run_length acc s
    simp only []
    rw [← n1, ← n2, List.drop_left, List.drop_left]

/-- An insertion made at one time point never changes what is stored for another one, and what is
    stored for `t` after a multi-timing history is what the insertions made at `t` alone produce. -/
theorem C24_frame (st : Store) (h : List (String × Op)) (t : String) :
    (st.run h).1 t = ((st t).run (atTiming t h)).1 :=
  store_run_at h st t

/-! ## order independence -/

/-- The comparison of values used for "same assignment" is an equivalence relation (otherwise the
    verdict on three assignments could depend on which one was stored first). -/
theorem C24_sameValue_equivalence :
    (∀ a, sameValue a a = true) ∧ (∀ a b, sameValue a b = sameValue b a) ∧
    (∀ a b c, sameValue a b = true → sameValue b c = true → sameValue a c = true) :=
  ⟨sameValue_refl, sameValue_symm, sameValue_trans⟩

/-- Conflict between two insertions is a symmetric relation. -/
theorem C24_compat_symm (a b : Op) : a.compat b = b.compat a := compat_symm a b

/-- What the sequential checks compute: a collection is added without any error iff each member is
    admissible for the current content and the members are pairwise compatible. -/
theorem C24_accept_iff (s : Slot) (l : List Op) (hload : simLoad s l ≤ 1) :
    s.raises l = false ↔
      ((∀ op ∈ l, s.admits op = true) ∧ l.Pairwise (fun a b => a.compat b = true)) :=
  raises_false_iff l s hload

/-- Whether adding a collection raises a conflicting-effects error does not depend on the insertion
    order — from ANY current content of the time point. -/
theorem C24_perm (s : Slot) (l₁ l₂ : List Op) (h : l₁.Perm l₂) (hload : simLoad s l₁ ≤ 1) :
    s.raises l₁ = s.raises l₂ :=
  raises_perm s h hload

/-- … and the two orders leave contents that judge every later collection `l'` identically. -/
theorem C24_perm_later (s : Slot) (l₁ l₂ l' : List Op) (h : l₁.Perm l₂)
    (hload : simLoad s (l₁ ++ l') ≤ 1) :
    s.raises (l₁ ++ l') = s.raises (l₂ ++ l') :=
  raises_perm s (h.append_right l') hload

/-- Multi-timing containers (DurativeAction, Problem timed effects): permuting a whole history, across
    time points, does not change whether some insertion raises. -/
theorem C24_perm_store (st : Store) (h₁ h₂ : List (String × Op)) (p : h₁.Perm h₂)
    (hload : ∀ t, simLoad (st t) (atTiming t h₁) ≤ 1) :
    st.raises h₁ = st.raises h₂ := by
  have key : st.raises h₁ = true ↔ st.raises h₂ = true := by
    rw [store_raises_iff, store_raises_iff]
    constructor
    · rintro ⟨t, ht⟩
      exact ⟨t, by rw [← raises_perm (st t) (atTiming_perm t p) (hload t)]; exact ht⟩
    · rintro ⟨t, ht⟩
      exact ⟨t, by rw [raises_perm (st t) (atTiming_perm t p) (hload t)]; exact ht⟩
  cases h1 : st.raises h₁ <;> cases h2 : st.raises h₂ <;> simp_all

/-! ## boundary of the symmetric class, and the defect found in the unpatched tree -/

section witnesses
def eAsgX1 : Eff := ⟨"x", false, .assign, .int 1, none⟩
def eAsgX1r : Eff := ⟨"x", false, .assign, .real 1, none⟩
def eAsgX2 : Eff := ⟨"x", false, .assign, .int 2, none⟩
def eIncX : Eff := ⟨"x", false, .inc, .int 1, none⟩
def eIncY : Eff := ⟨"y", false, .inc, .sym "x+1", none⟩
def eCondX : Eff := ⟨"x", false, .assign, .int 7, some "c"⟩
def eBool : Eff := ⟨"b", true, .assign, .bool true, none⟩

/-- two simulated effects: `set_simulated_effect` replaces, so the order decides (outside the class) -/
theorem two_simulated_effects_order_dependent :
    Slot.empty.raises [.sim ["x"], .sim ["y"], .eff eAsgX1] = false ∧
    Slot.empty.raises [.sim ["y"], .sim ["x"], .eff eAsgX1] = true := by decide +kernel

/-- the order of operations of the unpatched `check_conflicting_effects`: a rejected increase that
    conflicts with the simulated effect leaves the fluent recorded as increased -/
theorem asFound_leaves_residue :
    checkConflictingEffectsAsFound eIncX (some ["x"]) Book.empty = (⟨[], ["x"]⟩, true) ∧
    checkConflictingEffects eIncX (some ["x"]) Book.empty = (Book.empty, true) := by decide +kernel

/-! non-vacuity -/
-- a rejected insertion (hypothesis of `C24_reject_noop`), three different reasons
example : ((Slot.empty.run [.sim ["x"]]).1.step (.eff eIncX)).2 = true := by decide +kernel
example : ((Slot.empty.run [.eff eAsgX1]).1.step (.eff eAsgX2)).2 = true := by decide +kernel
example : ((Slot.empty.run [.eff eIncX]).1.step (.sim ["y", "x"])).2 = true := by decide +kernel
-- a history with rejections followed by accepted insertions
example : (Slot.empty.run [.sim ["x"], .eff eIncX, .eff eIncY, .eff eAsgX1, .eff eCondX, .eff eBool]).2
    = [false, true, false, true, false, false] := by decide +kernel
-- collections inside the class: load 1, both a raising and a non-raising one, non-trivially permuted
example : simLoad Slot.empty [.sim ["y"], .eff eAsgX1, .eff eAsgX1r, .eff eCondX] ≤ 1 ∧
    Slot.empty.raises [.sim ["y"], .eff eAsgX1, .eff eAsgX1r, .eff eCondX] = false ∧
    Slot.empty.raises [.eff eAsgX1, .eff eIncX, .sim ["y"]] = true := by decide +kernel
example : [Op.eff eAsgX1, .eff eIncX, .sim ["y"]].Perm [.sim ["y"], .eff eIncX, .eff eAsgX1] :=
  (List.reverse_perm [Op.sim ["y"], .eff eIncX, .eff eAsgX1])
-- a multi-timing history meeting the hypothesis of `C24_perm_store`
example : ∀ t, simLoad (Store.empty t)
    (atTiming t [("start", .sim ["x"]), ("end", .eff eIncX), ("start", .eff eIncY), ("end", .sim ["y"])]) ≤ 1 := by
  intro t
  by_cases h1 : t = "start"
  · subst h1; decide +kernel
  · by_cases h2 : t = "end"
    · subst h2; decide +kernel
    · have e1 : ("start" == t) = false := by simp [Ne.symm h1]
      have e2 : ("end" == t) = false := by simp [Ne.symm h2]
      simp [atTiming, simLoad, Store.empty, Slot.empty, e1, e2]
end witnesses

end UPVerif.C24
