import UPVerif.Lemmas.IFChangingLemmas
import UPVerif.Lemmas.IFChangingSem
/-!
# C31 — the changing-fluents closure of the interpreted-functions remover

`Props/C31.lean` proves the completeness of the interpreted-functions planner only under the hypothesis
`RemoverRelaxes` (the relaxed problem of `InterpretedFunctionsRemover` is a relaxation), which is sampled, not proved.
One ingredient of that hypothesis is modelled and proved here: the set of fluents that get an `_is_unknown` tracking
fluent, `InterpretedFunctionsRemover._find_changing_fluents` (model: `Core/IFChanging.lean`, tied to the real method by
the correspondence check of harness/props/C31.py on every interpreted-functions case and on dedicated `ifchg` cases).
A fluent WITHOUT tracking fluent is trusted by the relaxed problem: preconditions and goals that read it are kept as
they are and effects that read it copy its value.  That is only sound if its value cannot depend on what an interpreted
function returns.  Proved:

* the loop terminates within the model's fuel and its result is a fixpoint of the sweep (`C31_changing_terminates`,
  `C31_changing_fixpoint`);
* the result is EXACTLY the set of fluents that depend on an interpreted-function result through a chain of effects
  (value or condition reads), of any length, in any declaration order of actions and effects (`C31_changing_exact`,
  `C31_changing_least`, `C31_changing_chain`);
* what this buys: along ANY sequence of action instances, the values of all fluents outside the result are the same
  whatever the interpreted functions return (`C31_unchanging_independent`), and a set that is not closed does not have
  this property (kernel-checked counterexample on the problem of seeded change C31-2, where one sweep stops short).

The remaining distance to `RemoverRelaxes` (the compilation of conditions, effects and goals with the tracking fluents,
`_expand_action`) stays sampled by the end-to-end oracle.
-/
namespace UPVerif.C31
open UPVerif UPVerif.IFChanging

/-- **C31_changing_terminates.** The `while len_end > len_start` loop ends within the model's fuel (`#effects + 2`
    loop tests): every pass but the first runs only after a pass that added the target of some effect. -/
theorem C31_changing_terminates (P : Problem) : (findChanging P).isSome = true := by
  unfold findChanging findChangingEffs
  exact loop_isSome _ _ [] 0 1 List.nodup_nil (by intro g hg; cases hg) (Or.inr (by simp))

/-- **C31_changing_fixpoint.** One more sweep over all effects does not change the result, i.e. for every effect of
    every action: if its value contains an interpreted function its target is in the result, and otherwise, if its value
    or its condition reads a fluent of the result, its target is in the result. -/
theorem C31_changing_fixpoint (P : Problem) (S : List FluentRef) (h : findChanging P = some S) :
    sweep (effectsOf P) S = S ∧
    ∀ a ∈ P.actions, ∀ ef ∈ a.effs, ∀ f, target? ef = some f →
      (hasIfun ef.value = true → f ∈ S) ∧ (hasIfun ef.value = false → ∀ g ∈ reads ef, g ∈ S → f ∈ S) := by
  have hs : sweep (effectsOf P) S = S := loop_closed _ _ [] 0 1 S (by omega) h
  refine ⟨hs, ?_⟩
  intro a ha ef hef f ht
  have hmem : ef ∈ effectsOf P := List.mem_flatMap.mpr ⟨a, ha, hef⟩
  exact closed_rule (closed_of_sweep_eq _ _ hs) hmem ht

/-- **C31_changing_exact.** The result is exactly the set of fluents that depend, through a chain of effects of any
    length, on the result of an interpreted function (`Dep`, Lemmas/IFChangingLemmas.lean): nothing is missing and
    nothing is added. -/
theorem C31_changing_exact (P : Problem) (S : List FluentRef) (h : findChanging P = some S) (f : FluentRef) :
    f ∈ S ↔ Dep (effectsOf P) f := by
  constructor
  · exact loop_dep _ _ [] 0 1 S (by intro g hg; cases hg) h f
  · exact dep_mem_of_closed (closed_of_sweep_eq _ _ (C31_changing_fixpoint P S h).1)

/-- **C31_changing_least.** The result is contained in every set that satisfies the rule of the sweep. -/
theorem C31_changing_least (P : Problem) (S T : List FluentRef) (h : findChanging P = some S)
    (hT : ∀ ef ∈ effectsOf P, ∀ f, target? ef = some f →
      (hasIfun ef.value = true → f ∈ T) ∧ (hasIfun ef.value = false → ∀ g ∈ reads ef, g ∈ T → f ∈ T)) :
    ∀ f ∈ S, f ∈ T :=
  fun f hf => dep_mem_of_closed (closed_of_rule hT) ((C31_changing_exact P S h f).mp hf)

/-- a dependency chain `x₀, x₁, …`: `x₀` is assigned a value with an interpreted function, every later fluent is the
    target of an effect without interpreted function whose value or condition reads its predecessor -/
inductive ChainFrom (effs : List Effect) : List FluentRef → Prop where
  | source {ef : Effect} {x : FluentRef} : ef ∈ effs → target? ef = some x → hasIfun ef.value = true →
      ChainFrom effs [x]
  | link {ef : Effect} {x y : FluentRef} {xs : List FluentRef} : ChainFrom effs (x :: xs) → ef ∈ effs →
      target? ef = some y → hasIfun ef.value = false → x ∈ reads ef → ChainFrom effs (y :: x :: xs)

/-- **C31_changing_chain.** Every fluent of a dependency chain (listed last-to-first) is in the result, whatever the
    length of the chain and wherever its effects are declared. -/
theorem C31_changing_chain (P : Problem) (S : List FluentRef) (h : findChanging P = some S) (xs : List FluentRef)
    (hc : ChainFrom (effectsOf P) xs) : ∀ x ∈ xs, x ∈ S := by
  have hd : ∀ x ∈ xs, Dep (effectsOf P) x := by
    induction hc with
    | source hef ht hi =>
      intro x hx
      simp at hx; subst hx
      exact Dep.direct hef ht hi
    | link _ hef ht hi hr ih =>
      intro z hz
      rcases List.mem_cons.mp hz with rfl | hz'
      · exact Dep.step hef ht hi hr (ih _ (List.mem_cons_self ..))
      · exact ih z hz'
  exact fun x hx => (C31_changing_exact P S h x).mpr (hd x hx)

/-- **C31_unchanging_independent.** Let `S` be the result for `P`.  Take any two valuations of the interpreted
    functions and any sequence of steps, each made of effect instances of `P`'s actions (any parameter values, any
    variable assignment of forall-effects, applicable or not).  Started in states that agree outside `S`, the two runs
    end in states that agree outside `S`: the value of a fluent without `_is_unknown` tracking fluent never depends on
    an interpreted function, so the relaxed problem may trust it.
    Restriction (`TargetsPlain`): no interpreted function in an effect CONDITION (open finding D-C31-unremoved-ifun),
    which `_find_changing_fluents` does not look at; its other half - no fluent application and no interpreted function
    among the ARGUMENTS of an effect target - holds for every real `Effect` (the constructor raises otherwise). -/
theorem C31_unchanging_independent (P : Problem) (S : List FluentRef) (h : findChanging P = some S)
    (hp : TargetsPlain (effectsOf P))
    (fn₁ fn₂ : FunRef → List Val → Option Val) (dom : Ty → List Val)
    (steps : List Step) (hin : ∀ s ∈ steps, ∀ i ∈ s.insts, i.2 ∈ effectsOf P)
    (σ₁ σ₂ : St) (hσ : AgreeOff S σ₁ σ₂) :
    AgreeOff S (run fn₁ dom steps σ₁) (run fn₂ dom steps σ₂) :=
  run_agree (closed_of_sweep_eq _ _ (C31_changing_fixpoint P S h).1) hp fn₁ fn₂ dom steps hin σ₁ σ₂ hσ

/-! ### non-vacuity and the need for the closure: the problem of seeded change C31-2

`copy: y := x` is declared BEFORE `compute: x := plus5(seed)`; goal `y == 7` with `seed = 2`. -/

def tyI : Ty := .int (some 0) (some 10)
def fSeed : FluentRef := ⟨"seed", tyI, []⟩
def fX : FluentRef := ⟨"x", tyI, []⟩
def fY : FluentRef := ⟨"y", tyI, []⟩
def plus5 : FunRef := ⟨"plus5", tyI, [tyI]⟩

def effCopy : Effect where
  fluent := .app (.fluent fY) []
  value := .app (.fluent fX) []
  cond := Expr.tt
  kind := .assign
  forall_ := []

def effCompute : Effect where
  fluent := .app (.fluent fX) []
  value := .app (.ifun plus5) [.app (.fluent fSeed) []]
  cond := Expr.tt
  kind := .assign
  forall_ := []

def demo : Problem where
  name := "chain"
  types := ⟨[]⟩
  objects := []
  fluents := [⟨fSeed, some (Expr.int 2)⟩, ⟨fX, some (Expr.int 0)⟩, ⟨fY, some (Expr.int 0)⟩]
  init := []
  actions := [⟨"copy", [], [], [effCopy]⟩, ⟨"compute", [], [], [effCompute]⟩]
  goals := [Expr.mkEq (.app (.fluent fY) []) (Expr.int 7)]
  traj := []
  metrics := []

/-- the first sweep finds only `x` (the effect on `y` is visited before `x` is known to change) … -/
example : sweep (effectsOf demo) [] = [fX] := by decide +kernel
/-- … the loop goes on and finds `y` -/
example : findChanging demo = some [fX, fY] := by decide +kernel
/-- the result of the first sweep is NOT closed: stopping there (what seeded change C31-2 does, because
    `len_end` starts at 1) breaks `C31_changing_fixpoint` -/
example : sweep (effectsOf demo) [fX] ≠ [fX] := by decide +kernel

example : ChainFrom (effectsOf demo) [fY, fX] :=
  .link (.source (ef := effCompute) (by decide +kernel) rfl (by decide +kernel))
    (ef := effCopy) (by decide +kernel) rfl (by decide +kernel) (by decide +kernel)

/-- a set satisfying the rule of the sweep (hypothesis of `C31_changing_least`): all three fluents -/
example : ∀ ef ∈ effectsOf demo, ∀ f, target? ef = some f →
    (hasIfun ef.value = true → f ∈ [fSeed, fX, fY]) ∧
    (hasIfun ef.value = false → ∀ g ∈ reads ef, g ∈ [fSeed, fX, fY] → f ∈ [fSeed, fX, fY]) := by
  intro ef hef f ht
  have : ef = effCopy ∨ ef = effCompute := by simpa [effectsOf, demo] using hef
  rcases this with rfl | rfl
  · have hf : f = fY := by
      have : target? effCopy = some fY := rfl
      rw [this] at ht; cases ht; rfl
    subst hf
    exact ⟨fun _ => by decide +kernel, fun _ _ _ _ => by decide +kernel⟩
  · have hf : f = fX := by
      have : target? effCompute = some fX := rfl
      rw [this] at ht; cases ht; rfl
    subst hf
    exact ⟨fun _ => by decide +kernel, fun _ _ _ _ => by decide +kernel⟩

example : TargetsPlain (effectsOf demo) := by
  intro ef hef
  have : ef = effCopy ∨ ef = effCompute := by simpa [effectsOf, demo] using hef
  rcases this with rfl | rfl
  · refine ⟨by decide +kernel, ?_⟩
    intro f args hfl
    simp only [effCopy] at hfl
    cases hfl
    exact ⟨rfl, rfl⟩
  · refine ⟨by decide +kernel, ?_⟩
    intro f args hfl
    simp only [effCompute] at hfl
    cases hfl
    exact ⟨rfl, rfl⟩

/-- two valuations of `plus5` -/
def fnPlus5 : FunRef → List Val → Option Val
  | _, [.n q] => some (.n (q + 5))
  | _, _ => none
def fnZero : FunRef → List Val → Option Val := fun _ _ => some (.n 0)

def σ0 : St := fun f ws => if ws = [] then (if f = fSeed then some (.n 2) else some (.n 0)) else none
def plan : List Step := [⟨fun _ => none, [([], effCompute)]⟩, ⟨fun _ => none, [([], effCopy)]⟩]

/-- the plan `compute, copy` of the demo really makes `y = 7` with the real function … -/
example : run fnPlus5 (fun _ => []) plan σ0 fY [] = some (.n 7) := by decide +kernel
/-- … and `y = 0` with another valuation: `y` DOES depend on the interpreted function, so a set without `y` (the
    one-sweep set `[x]`) does not enjoy `C31_unchanging_independent` -/
example : ¬ AgreeOff [fX] (run fnPlus5 (fun _ => []) plan σ0) (run fnZero (fun _ => []) plan σ0) := by
  intro h
  have := h fY (by decide +kernel) []
  revert this
  decide +kernel
/-- while `seed`, outside the closure `[x, y]`, is untouched, as the theorem says -/
example : AgreeOff [fX, fY] (run fnPlus5 (fun _ => []) plan σ0) (run fnZero (fun _ => []) plan σ0) :=
  C31_unchanging_independent demo [fX, fY] (by decide +kernel)
    (by
      intro ef hef
      have : ef = effCopy ∨ ef = effCompute := by simpa [effectsOf, demo] using hef
      rcases this with rfl | rfl
      · refine ⟨by decide +kernel, ?_⟩
        intro f args hfl
        simp only [effCopy] at hfl
        cases hfl
        exact ⟨rfl, rfl⟩
      · refine ⟨by decide +kernel, ?_⟩
        intro f args hfl
        simp only [effCompute] at hfl
        cases hfl
        exact ⟨rfl, rfl⟩)
    fnPlus5 fnZero (fun _ => []) plan
    (by
      intro s hs i hi
      simp [plan] at hs
      rcases hs with rfl | rfl <;> simp at hi <;> subst hi <;> simp [effectsOf, demo])
    σ0 σ0 (fun _ _ _ => rfl)

end UPVerif.C31
