import UPVerif.Props.C10
import UPVerif.Lemmas.KindOfExtHC
import UPVerif.Lemmas.KindOfExtS
import UPVerif.Lemmas.KindOfExtM
import UPVerif.Lemmas.KindLemmas
import UPVerif.Gen.Features
/-!
# C10 for the problem subclasses — hierarchical, contingent, scheduling and multi-agent problems

Statements only (helper lemmas live in `Lemmas/KindOfExt*.lean`).

* `kindOfH`, `kindOfC`, `kindOfS`, `kindOfM` (`Core/KindOfExt.lean`) mirror `HierarchicalProblem.kind`,
  `ContingentProblem.kind`, `SchedulingProblem.kind` and `MultiAgentProblem.kind` statement by
  statement and are tied to the code by the correspondence check (exact equality of feature sets on
  generated problems of each class and on the bundled examples).
* `UsesH`, `UsesC`, `UsesS`, `UsesM` (`Spec/UsesExt.lean`) are the positional specifications.

`C10_complete_htn`, `C10_complete_contingent`, `C10_complete_scheduling` are full: every used feature
is in the computed kind, for every problem of the class and every answer of the walkers the model
does not contain.  For multi-agent problems the code as found violates the property (open finding
D-C10-MA): `C10_complete_ma_full` is refuted on a concrete problem and `C10_complete_ma_partial`
holds for every feature outside `maBlind M` — the features that only the positions
`MultiAgentProblem.kind` never looks at would contribute.
-/
namespace UPVerif.C10
open UPVerif UPVerif.KindOf UPVerif.Spec

/-- a feature of one of the specifications is never removed again -/
theorem ext_feature_stable {f : Feature} (h : f ∈ statementFeatures ∨ f ∈ classFeatures) :
    f ≠ SNP ∧ f ≠ "CONTINUOUS_TIME" := by
  rcases h with h | h
  · exact statementFeatures_stable f h
  · exact classFeatures_stable f h

/-! ## hierarchical problems -/

/-- **Completeness, hierarchical problems.** -/
theorem C10_complete_htn (F : Facts) (H : HProblem) (f : Feature) (h : UsesH H f) :
    ∀ k, kindOfH F H = some k → f ∈ k := by
  intro k hk
  unfold kindOfH at hk
  cases hu : undefFluents H.base H.base.fluents with
  | none => simp [hu] at hk
  | some u =>
    simp only [hu, Option.some.injEq] at hk
    subst hk
    have hs := ext_feature_stable (usesH_feature h)
    refine finalize_mono H.base hs.1 hs.2 ?_
    have base_case : Sets f (kindProg F H.base (staticUnusedH H) u) → f ≠ "ACTION_BASED" →
        f ∈ run (hProg F H) (hClass (run (kindProg F H.base (staticUnusedH H) u) [])) := fun hsets hne =>
      run_mono hs.1 _ _ (mem_hClass hne (run_sets hs.1 hsets []))
    rcases usesH_sets (F := F) (u := u) h with hb | hk | hp | rfl
    · exact base_case (uses_sets_of (soundSU_H H) (undef_complete hu) hb)
        (statementFeatures_not_class f (uses_statementFeature hb)).1
    · refine base_case hk ?_
      rcases usesH_feature h with hf | hf
      · exact (statementFeatures_not_class f hf).1
      · intro he; subst he; simp [classFeatures] at hf
    · exact run_sets hs.1 hp _
    · exact run_mono hs.1 _ _ (hierarchical_mem_hClass _)

/-! ## contingent problems -/

/-- **Completeness, contingent problems.** -/
theorem C10_complete_contingent (F : Facts) (C : CProblem) (f : Feature) (h : UsesC C f) :
    ∀ k, kindOfC F C = some k → f ∈ k := by
  intro k hk
  unfold kindOfC at hk
  cases hu : undefFluents C.toK C.toK.fluents with
  | none => simp [hu] at hk
  | some u =>
    simp only [hu, Option.some.injEq] at hk
    subst hk
    have hs := ext_feature_stable (usesC_feature h)
    have lift : Sets f (kindProg F C.toK (staticUnusedC C) u) →
        f ∈ "CONTINGENT" :: finalize C.toK (run (.seq [kindProg F C.toK (staticUnusedC C) u,
          .seq (C.sensing.map (fun _ => Prog.set "CONTINGENT"))]) []) := fun hsets =>
      List.mem_cons_of_mem _ (finalize_mono C.toK hs.1 hs.2 (run_sets hs.1 (Sets.head hsets) []))
    cases h with
    | base hb => exact lift (uses_sets_of (soundSU_C C) (undef_complete hu) hb)
    | intFluents hd ht hr => exact lift (kind_fluent (P := C.toK) hd (updFluent_int ht (guard_of_CRead hr)))
    | realFluents hd ht hr => exact lift (kind_fluent (P := C.toK) hd (updFluent_real ht (guard_of_CRead hr)))
    | contingent => exact List.mem_cons_self

/-! ## scheduling problems -/

/-- **Completeness, scheduling problems.** -/
theorem C10_complete_scheduling (F : Facts) (X : SProblem) (f : Feature) (h : UsesS X f) :
    ∀ k, kindOfS F X = some k → f ∈ k := by
  intro k hk
  unfold kindOfS at hk
  cases hu : undefFluents X.toK X.fluents with
  | none => simp [hu] at hk
  | some u =>
    simp only [hu, Option.some.injEq] at hk
    subst hk
    have hs := ext_feature_stable (usesS_feature h)
    refine finalize_mono X.toK hs.1 hs.2 (run_sets hs.1 ?_ [])
    rcases usesS_sets (F := F) (S := staticUnusedS X) (u := u) h with hb | hp
    · exact kindProg_sProg (uses_sets_of (soundSU_S X) (undef_complete (P := X.toK) hu) hb)
        (statementFeatures_not_class f (uses_statementFeature hb)).1
    · exact hp

/-! ## multi-agent problems (open finding D-C10-MA) -/

/-- the full statement — which the code as found violates -/
def C10_complete_ma_full : Prop := ∀ (M : MProblem) (f : Feature), UsesM M f → f ∈ kindOfM M

/-- **Completeness, multi-agent problems, outside the open finding**: every used feature that is not one
    of those only the unscanned positions contribute (`maBlind M`, a decidable condition on `M` and `f`) is
    in the computed kind. -/
theorem C10_complete_ma_partial (M : MProblem) (f : Feature) (h : UsesM M f) (hb : f ∉ maBlind M) :
    f ∈ kindOfM M := by
  have hs := ext_feature_stable (usesM_feature h)
  unfold kindOfM
  rcases usesM_class_sets h with ⟨hu, h1, h2⟩ | hp
  · have hf := uses_statementFeature hu
    have hsets : Sets f (kindProg { lin := fun _ => true, simpFluentExps := fun _ => [] } M.toK
        (staticUnused M.toK) M.toK.fluents) :=
      uses_sets_of (soundSU_staticUnused M.toK) (fun hd _ _ _ => hd) hu
    rcases kindProg_mProg hf h1 h2 hsets with hm | hbl
    · exact run_sets hs.1 hm []
    · exact absurd (run_sets hs.1 hbl []) hb
  · exact run_sets hs.1 hp []

/-! ## all four classes -/

/-- a problem of one of the four subclasses -/
inductive ExtProblem where
  | hierarchical (H : HProblem)
  | contingent (C : CProblem)
  | scheduling (X : SProblem)
  | multiAgent (M : MProblem)

def kindOfExt (F : Facts) : ExtProblem → Option KS
  | .hierarchical H => kindOfH F H
  | .contingent C => kindOfC F C
  | .scheduling X => kindOfS F X
  | .multiAgent M => some (kindOfM M)

def UsesExt : ExtProblem → Feature → Prop
  | .hierarchical H, f => UsesH H f
  | .contingent C, f => UsesC C f
  | .scheduling X, f => UsesS X f
  | .multiAgent M, f => UsesM M f

/-- what the open finding D-C10-MA excludes -/
def extBlind : ExtProblem → KS
  | .multiAgent M => maBlind M
  | _ => []

/-- **Completeness for the subclasses** (for multi-agent problems: outside the open finding). -/
theorem C10_complete_ext_partial (F : Facts) (P : ExtProblem) (f : Feature) (h : UsesExt P f) (hb : f ∉ extBlind P) :
    ∀ k, kindOfExt F P = some k → f ∈ k := by
  cases P with
  | hierarchical H => exact C10_complete_htn F H f h
  | contingent C => exact C10_complete_contingent F C f h
  | scheduling X => exact C10_complete_scheduling F X f h
  | multiAgent M =>
    intro k hk
    simp only [kindOfExt, Option.some.injEq] at hk
    subst hk
    exact C10_complete_ma_partial M f h hb

/-- the full statement for the four classes -/
def C10_complete_ext_full : Prop :=
  ∀ (F : Facts) (P : ExtProblem) (f : Feature), UsesExt P f → ∀ k, kindOfExt F P = some k → f ∈ k

/-- every feature the four specifications can demand exists at the latest kind version of /repo -/
theorem class_features_valid :
    classFeatures.all (fun f => Kind.isValid Gen.tables Gen.tables.latest f) = true := by
  decide +kernel

/-- **Engine consequence** for the subclasses: a supported kind `K` (latest version) that contains the
    computed kind declares every used feature (outside the open finding). -/
theorem C10_engine_consequence_ext (F : Facts) (P : ExtProblem) (f : Feature) (k : KS) (K : Kind.Kind)
    (hk : kindOfExt F P = some k) (hv : K.ver Gen.tables = Gen.tables.latest)
    (hle : Kind.Kind.le Gen.tables { feats := k, version := some Gen.tables.latest } K = true)
    (hu : UsesExt P f) (hb : f ∉ extBlind P) : f ∈ K.feats := by
  have hver : ({ feats := k, version := some Gen.tables.latest } : Kind.Kind).ver Gen.tables = K.ver Gen.tables := by
    rw [hv]; rfl
  rw [Kind.le_same hver, Kind.subset_iff] at hle
  have hf : f ∈ k := C10_complete_ext_partial F P f hu hb k hk
  have hfeat : f ∈ statementFeatures ∨ f ∈ classFeatures := by
    cases P with
    | hierarchical H => exact usesH_feature hu
    | contingent C => exact usesC_feature hu
    | scheduling X => exact usesS_feature hu
    | multiAgent M => exact usesM_feature hu
  have hval : Kind.isValid Gen.tables (K.ver Gen.tables) f = true := by
    rw [hv]
    rcases hfeat with h | h
    · exact List.all_eq_true.1 statement_features_valid f h
    · exact List.all_eq_true.1 class_features_valid f h
  exact (Kind.mem_validPart.1 (hle f (Kind.mem_validPart.2 ⟨hf, hval⟩))).1

/-! ## non-vacuity and the refutation -/
section examples

def xb : FluentRef := { name := "b", ty := .bool, sig := [] }
def xn : FluentRef := { name := "n", ty := .int none none, sig := [] }
def notB : Expr := .app .not [.app (.fluent xb) []]

def emptyK : KProblem :=
  { types := { fathers := [("T", none), ("S", some "T")] }, objects := [],
    fluents := [{ ref := xb, default := some Expr.ff }],
    init := [], iactions := [], dactions := [], processes := [], events := [], timedEffects := [], timedGoals := [],
    goals := [], traj := [], metrics := [], discreteTime := false, selfOverlapping := false }

/-- one task with a parameter of the subtype `S`, one method whose only precondition is `not b` -/
def exH : HProblem :=
  { base := emptyK, tasks := [("go", [("x", .user "S")])],
    methods := [{ name := "m", params := [("x", .user "S")], pre := [notB], subtasks := [], constraints := [] }],
    tn := { vars := [], subtasks := [], constraints := [] } }

example : UsesH exH "NEGATIVE_CONDITIONS" :=
  .negativeConditions (c := notB)
    (.methodPrecondition (m := exH.methods.head!) List.mem_cons_self List.mem_cons_self) (.refl _)

example : UsesH exH "HIERARCHICAL_TYPING" :=
  .hierarchicalTyping (n := "S") (.taskParameter (t := ("go", [("x", .user "S")])) (n := "x") List.mem_cons_self List.mem_cons_self)
    (by decide)

example : kindOfH exF exH = some ["TASK_ORDER_TOTAL", "NEGATIVE_CONDITIONS", "METHOD_PRECONDITIONS", "HIERARCHICAL_TYPING",
    "FLAT_TYPING", "HIERARCHICAL_TYPING", "FLAT_TYPING", "HIERARCHICAL"] := by decide +kernel

/-- a sensing action observing the integer fluent `n`, whose only other use is an action cost -/
def exC : CProblem :=
  { base := { emptyK with
      fluents := [{ ref := xb, default := some Expr.ff }, { ref := xn, default := some (Expr.int 0) }],
      metrics := [.minActionCosts [("sense", .app (.fluent xn) [])] none] },
    sensing := [{ act := { name := "sense", params := [], pre := [], effs := [], sim := none },
                  observed := [.app (.fluent xn) []] }],
    orConstraints := [], oneofConstraints := [] }

example : UsesC exC "INT_FLUENTS" :=
  .intFluents (d := { ref := xn, default := some (Expr.int 0) }) (lb := none) (ub := none)
    (List.mem_cons_of_mem _ List.mem_cons_self) rfl
    (.observed (a := exC.sensing.head!) (o := .app (.fluent xn) []) List.mem_cons_self List.mem_cons_self ⟨[], .refl _⟩)

example : (kindOfC exF exC).map (fun k => k.contains "INT_FLUENTS" && k.contains "CONTINGENT") = some true := by
  decide +kernel

/-- one activity whose duration is the never-modified fluent `n`, one Boolean variable -/
def exS : SProblem :=
  { types := { fathers := [] }, objects := [],
    fluents := [{ ref := xn, default := some (Expr.int 2) }], init := [], metrics := [],
    discreteTime := true, selfOverlapping := false,
    vars := [("v", .bool)], conds := [], effs := [], constraints := [],
    activities := [{ name := "a", optional := false, params := [], durLo := .app (.fluent xn) [],
                     durHi := .app (.fluent xn) [], conds := [], effs := [], constraints := [] }] }

example : UsesS exS "BOOL_ACTION_PARAMETERS" := .boolVariable (v := "v") List.mem_cons_self

example : UsesS exS "STATIC_FLUENTS_IN_DURATIONS" :=
  .base (.staticFluentsInDurations (f := xn)
    ⟨exS.toK.dactions.head!, List.mem_cons_self, Or.inl ⟨[], .refl _⟩⟩
    ⟨⟨{ ref := xn, default := some (Expr.int 2) }, List.mem_cons_self, rfl⟩, by
      intro hw
      have := mem_written_of_Written hw
      revert this
      decide +kernel⟩)

example : kindOfS exF exS = some ["DISCRETE_TIME", "STATIC_FLUENTS_IN_DURATIONS", "INT_TYPE_DURATIONS", "INT_TYPE_DURATIONS",
    "BOOL_ACTION_PARAMETERS", "INT_FLUENTS", "SIMPLE_NUMERIC_PLANNING", "SCHEDULING"] := by decide +kernel

/-- an engine kind that contains the computed kind of `exS` (hypothesis `hle` of the engine consequence) -/
example : Kind.Kind.le Gen.tables
    { feats := ["DISCRETE_TIME", "STATIC_FLUENTS_IN_DURATIONS", "INT_TYPE_DURATIONS", "INT_TYPE_DURATIONS",
                "BOOL_ACTION_PARAMETERS", "INT_FLUENTS", "SIMPLE_NUMERIC_PLANNING", "SCHEDULING"],
      version := some Gen.tables.latest }
    { feats := ["SCHEDULING", "SIMPLE_NUMERIC_PLANNING", "INT_FLUENTS", "BOOL_ACTION_PARAMETERS", "INT_TYPE_DURATIONS",
                "STATIC_FLUENTS_IN_DURATIONS", "FLUENTS_IN_DURATIONS", "DISCRETE_TIME", "CONTINUOUS_TIME"],
      version := some Gen.tables.latest } = true := by decide +kernel

/-- an agent with an instantaneous action whose precondition is `not b` -/
def exAgent : MAgent :=
  { name := "a1", fluents := [{ ref := xb, default := some Expr.ff }],
    iactions := [{ name := "act", params := [], pre := [notB], effs := [], sim := none }], dactions := [],
    publicGoals := [], privateGoals := [notB] }

def exM : MProblem :=
  { types := { fathers := [] }, objects := [], envFluents := [], agents := [exAgent], goals := [] }

example : UsesM exM "NEGATIVE_CONDITIONS" :=
  .base (.negativeConditions (c := notB)
    (.precondition (a := exAgent.iactions.head!) List.mem_cons_self List.mem_cons_self) (.refl _)) (by decide) (by decide)

example : "NEGATIVE_CONDITIONS" ∉ maBlind exM := by decide +kernel

/-- the witness of D-C10-MA: the same `not b`, as the start condition of a DURATIVE action -/
def exMdur : MProblem :=
  { types := { fathers := [] }, objects := [], envFluents := [],
    agents := [{ name := "a1", fluents := [{ ref := xb, default := some Expr.ff }], iactions := [],
                 dactions := [{ name := "dact", params := [], durLo := Expr.int 1, durHi := Expr.int 1,
                                conds := [({ lower := { kind := .start, delay := 0 }, upper := { kind := .start, delay := 0 } }, notB)],
                                effs := [], ceffs := [], sims := [] }],
                 publicGoals := [], privateGoals := [] }],
    goals := [] }

theorem exMdur_uses : UsesM exMdur "NEGATIVE_CONDITIONS" :=
  .base (.negativeConditions (c := notB)
    (.durativeCondition (a := exMdur.toK.dactions.head!)
      (i := { lower := { kind := .start, delay := 0 }, upper := { kind := .start, delay := 0 } })
      List.mem_cons_self List.mem_cons_self) (.refl _)) (by decide) (by decide)

/-- **Refutation of the full statement** (kernel-checked): the multi-agent kind of `exMdur` lacks
    NEGATIVE_CONDITIONS although the problem uses it. -/
theorem C10_complete_ma_full_refuted : ¬ C10_complete_ma_full := by
  intro h
  have := h exMdur "NEGATIVE_CONDITIONS" exMdur_uses
  revert this
  decide +kernel

theorem C10_complete_ext_full_refuted : ¬ C10_complete_ext_full := by
  intro h
  have := h exF (.multiAgent exMdur) "NEGATIVE_CONDITIONS" exMdur_uses (kindOfM exMdur) rfl
  revert this
  decide +kernel

/-- the excluded set is exactly what the unscanned positions contribute on the witness -/
example : maBlind exMdur = ["NEGATIVE_CONDITIONS", "INT_TYPE_DURATIONS", "INT_TYPE_DURATIONS"] := by decide +kernel

end examples

end UPVerif.C10
