import UPVerif.Lemmas.StateLemmas
/-!
# C36 — Planning states behave like finite maps under any update history

Statements only (helper lemmas live in `Lemmas/StateLemmas.lean`).  The model (`Core/State.lean`) is a
heap of mutable `UPState` objects: `make_child` either links a new object to its father or, past the
ancestor limit (`none` = always, `some n`), builds a condensed father-less object; `hash`, `==`,
`repr` and the error path of `get_value` condense an object IN PLACE although other objects may
have it as father.  A history is any list of such calls (`Op`) on any objects created so far.

The reference semantics (`FMap.root`, `FMap.update`, `specRun`, end of `Core/State.lean`) is the
property text: a state is the finite map "most recent update along its history, else the fluent's
default, else nothing (= raises)".  `none` as a value means `UPStateMissingFluentError`.

All theorems hold for every ancestor limit of the root's class (`rl`) and of `UPState` (`bl`), every
defaults table, every history; there is no bound on lengths.  Updates and initial values are
Python dicts, i.e. association lists with distinct keys (`NodupKeys`, `Op.WF`).
-/
namespace UPVerif.C36
open UPVerif.State

/-- a legal start: `st0` is the heap right after `UPState(vals, problem)` succeeded, for a root class
    with limit `rl` while `UPState.MAX_ANCESTORS = bl` is a legal limit -/
structure Start (ds : Defaults) (rl bl : Option Nat) (vals : Dict) (st0 : Store) : Prop where
  dict : NodupKeys vals
  base : limitOk bl = true
  made : mkRoot ds rl bl vals = some st0

/-- the constructor accepts exactly the legal limits of the root's class -/
theorem constructor_accepts_iff_limit_positive (ds : Defaults) (rl bl : Option Nat) (vals : Dict) :
    (mkRoot ds rl bl vals).isSome = true ↔ limitOk rl = true := by
  unfold mkRoot
  constructor
  · intro h
    cases hc : initNode ds rl vals none with
    | none => simp [hc] at h
    | some c => exact (initNode_eq_some hc).1
  · intro h
    have := initNode_isSome (ds := ds) vals none h
    cases hc : initNode ds rl vals none with
    | none => rw [hc] at this; cases this
    | some c => rfl

/-- the heap invariant (fathers are older objects; `_values` are dicts; father-less objects store
    only non-default values; a cached hash is that of the current condensed `_values`) holds after
    every history -/
theorem invariant_after_every_history {ds rl bl vals st0} (h0 : Start ds rl bl vals st0)
    (ops : List Op) (hops : ∀ op ∈ ops, op.WF) : Inv (run st0 ops) := by
  obtain ⟨hI, hb, _, _, hs⟩ := mkRoot_spec h0.dict h0.made
  exact (run_sim hI (by rw [hb]; exact h0.base) hs hops).1

/-- the walk along `_father` terminates: from object `i`, any fuel above `i` gives the same chain
    as the `i + 1` used by the model -/
theorem chain_fuel_suffices {st : Store} (hI : Inv st) (i fuel : Nat) (h : i < fuel) :
    chain fuel st.nodes (some i) = chainOf st i :=
  chain_fuel hI.fatherLt fuel (i + 1) i h (by omega)

/-- REFINEMENT.  After every history, under every pair of limits, the heap has exactly one object per
    state of the reference semantics and object `k` gives every fluent the value of the `k`-th
    finite map: the most recent update along its history, else the default, else nothing. -/
theorem every_history_refines_finite_maps {ds rl bl vals st0} (h0 : Start ds rl bl vals st0)
    (ops : List Op) (hops : ∀ op ∈ ops, op.WF) :
    (run st0 ops).nodes.length = (specRun [FMap.root ds vals] ops).length ∧
    ∀ (k : Nat) (m : FMap), (specRun [FMap.root ds vals] ops)[k]? = some m →
      ∀ f, abs (run st0 ops) k f = m f := by
  obtain ⟨hI, hb, _, _, hs⟩ := mkRoot_spec h0.dict h0.made
  exact (run_sim hI (by rw [hb]; exact h0.base) hs hops).2

/-- `get_value` after any history returns the reference value, and raises (`none`) exactly when the
    fluent has neither an update along the history nor a default -/
theorem get_value_is_most_recent_update_or_default {ds rl bl vals st0}
    (h0 : Start ds rl bl vals st0) (ops : List Op) (hops : ∀ op ∈ ops, op.WF)
    (k : Nat) (m : FMap) (hk : (specRun [FMap.root ds vals] ops)[k]? = some m) (f : FExp) :
    (getValue (run st0 ops) k f).2 = m f := by
  rw [(getValue_spec (invariant_after_every_history h0 ops hops) k f).2]
  exact (every_history_refines_finite_maps h0 ops hops).2 k m hk f

/-- `==` after any history holds iff the two states give every fluent the same value -/
theorem eq_iff_same_value_for_every_fluent {ds rl bl vals st0} (h0 : Start ds rl bl vals st0)
    (ops : List Op) (hops : ∀ op ∈ ops, op.WF) (i j : Nat) (mi mj : FMap)
    (hi : (specRun [FMap.root ds vals] ops)[i]? = some mi)
    (hj : (specRun [FMap.root ds vals] ops)[j]? = some mj) :
    (eqOp (run st0 ops) i j).2 = true ↔ ∀ f, mi f = mj f := by
  obtain ⟨hlen, hmap⟩ := every_history_refines_finite_maps h0 ops hops
  have hil : i < (run st0 ops).nodes.length := by rw [hlen]; exact lt_length_of_getElem? hi
  have hjl : j < (run st0 ops).nodes.length := by rw [hlen]; exact lt_length_of_getElem? hj
  rw [(eqOp_spec (invariant_after_every_history h0 ops hops) hil hjl).2]
  constructor
  · intro h f; rw [← hmap i mi hi f, ← hmap j mj hj f]; exact h f
  · intro h f; rw [hmap i mi hi f, hmap j mj hj f]; exact h f

/-- the hashed items of two states coincide iff they give every fluent the same value; in
    particular equal states have equal hashes -/
theorem hash_eq_iff_same_value_for_every_fluent {ds rl bl vals st0}
    (h0 : Start ds rl bl vals st0) (ops : List Op) (hops : ∀ op ∈ ops, op.WF) (i j : Nat)
    (mi mj : FMap) (hi : (specRun [FMap.root ds vals] ops)[i]? = some mi)
    (hj : (specRun [FMap.root ds vals] ops)[j]? = some mj) :
    (hashEqOp (run st0 ops) i j).2 = true ↔ ∀ f, mi f = mj f := by
  obtain ⟨hlen, hmap⟩ := every_history_refines_finite_maps h0 ops hops
  have hil : i < (run st0 ops).nodes.length := by rw [hlen]; exact lt_length_of_getElem? hi
  have hjl : j < (run st0 ops).nodes.length := by rw [hlen]; exact lt_length_of_getElem? hj
  rw [(hashEqOp_spec (invariant_after_every_history h0 ops hops) hil hjl).2]
  constructor
  · intro h f; rw [← hmap i mi hi f, ← hmap j mj hj f]; exact h f
  · intro h f; rw [hmap i mi hi f, hmap j mj hj f]; exact h f

theorem equal_states_have_equal_hashes {st : Store} (hI : Inv st) {i j : Nat}
    (hi : i < st.nodes.length) (hj : j < st.nodes.length) (h : (eqOp st i j).2 = true) :
    (hashEqOp st i j).2 = true :=
  (hashEqOp_spec hI hi hj).2.2 ((eqOp_spec hI hi hj).2.1 h)

/-! The same facts call by call, on any heap satisfying the invariant (hence on every reachable
heap).  They say more than the refinement: which objects a call may touch. -/

/-- `make_child`, under every limit (linking or condensing): the new state gives the update's value
    where the update has one and the parent's value elsewhere; every existing state keeps its map -/
theorem make_child_overrides_parent {st st' : Store} (hI : Inv st) {i k : Nat} {u : Dict}
    (hu : NodupKeys u) (h : makeChild st i u = some (st', k)) :
    Inv st' ∧ k = st.nodes.length ∧
    (∀ f, abs st' k f = (dget u f).or (abs st i f)) ∧
    (∀ j, j < st.nodes.length → ∀ f, abs st' j f = abs st j f) := by
  obtain ⟨hk, _, _, _, hI', hold, hnew⟩ := makeChild_spec hI hu h
  exact ⟨hI', hk, hnew, hold⟩

/-- `make_child` fails only on a non-object or when `UPState.MAX_ANCESTORS` is illegal -/
theorem make_child_succeeds {st : Store} {i : Nat} (u : Dict) (hi : i < st.nodes.length)
    (hb : limitOk st.baseLimit = true) : (makeChild st i u).isSome = true :=
  makeChild_isSome u hi hb

/-- `get_value` returns the state's map, and whatever it condenses on its error path is invisible -/
theorem get_value_reads_the_map {st : Store} (hI : Inv st) (i : Nat) (f : FExp) :
    (getValue st i f).2 = abs st i f ∧
    Inv (getValue st i f).1 ∧
    ∀ j, j < st.nodes.length → ∀ g, abs (getValue st i f).1 j g = abs st j g :=
  ⟨(getValue_spec hI i f).2, (getValue_spec hI i f).1.inv, (getValue_spec hI i f).1.abs⟩

/-- `hash`, `==`, `repr`, `get_value` mutate objects in place (`_condense_state`, hash caching) but
    never change the map of any state, including states whose chain runs through the mutated one -/
theorem observers_change_no_state {st : Store} (hI : Inv st) (op : Op)
    (hc : ∀ i u, op ≠ .child i u) :
    Inv (exec st op).1 ∧ (exec st op).1.nodes.length = st.nodes.length ∧
    ∀ j, j < st.nodes.length → ∀ f, abs (exec st op).1 j f = abs st j f :=
  ⟨(exec_frame hI op hc).inv, (exec_frame hI op hc).length, (exec_frame hI op hc).abs⟩

/-- `==` on any legal heap: true iff the two states give every fluent the same value -/
theorem eq_iff_same_maps {st : Store} (hI : Inv st) {i j : Nat} (hi : i < st.nodes.length)
    (hj : j < st.nodes.length) : (eqOp st i j).2 = true ↔ ∀ f, abs st i f = abs st j f :=
  (eqOp_spec hI hi hj).2

/-- `_condense_state` leaves a father-less object with the same map and the same cached hash -/
theorem condense_keeps_every_map {st : Store} (hI : Inv st) {i : Nat} {n : Node}
    (hi : st.nodes[i]? = some n) :
    Inv (condense st i) ∧
    (∀ j, j < st.nodes.length → ∀ f, abs (condense st i) j f = abs st j f) ∧
    ∃ n', (condense st i).nodes[i]? = some n' ∧ n'.father = none ∧ n'.hash = n.hash := by
  obtain ⟨h1, h2, n', h3, h4, h5, _⟩ := condense_spec hI hi
  exact ⟨h1, h2, n', h3, h4, h5⟩

/-! ### non-vacuity: concrete histories meet the hypotheses and exercise both `make_child` paths,
a default-valued update over a stored non-default value, in-place condensation of a shared
father, and a fluent with neither value nor default -/
section examples

def x : FExp := ("x", [])
def y : FExp := ("y", [])
def atl : FExp := ("at", ["l1"])
def exDs : Defaults := [("x", "i0"), ("at", "bF")]
def exVals : Dict := [(x, "i7"), (atl, "bF")]
/-- state 1: `x := default` over the stored 7; state 2: child of 1 (under limit 1 it is built by
    condensing, under limit 20 it points to 1); `hash 1` then condenses object 1 in place while 2 may
    point to it; state 3: the map of 2 reached in one step from the root; state 4: child of 1
    that sets `x` back to 7, i.e. the root's map by another route -/
def exOps : List Op :=
  [.child 0 [(x, "i0")], .child 1 [(atl, "bT")], .hash 1, .child 0 [(atl, "bT"), (x, "i0")],
   .eq 2 3, .get 2 y, .child 1 [(x, "i7")], .repr 2]

def exStore (rl bl : Option Nat) : Store :=
  match mkRoot exDs rl bl exVals with
  | some st => run st exOps
  | none => { defaults := [], baseLimit := none, nodes := [] }

example : ∃ st0, Start exDs (some 1) (some 1) exVals st0 :=
  ⟨_, by decide, by decide, rfl⟩
example : ∃ st0, Start exDs (some 2) (some 20) exVals st0 :=
  ⟨_, by decide, by decide, rfl⟩
example : ∃ st0, Start exDs none none exVals st0 :=
  ⟨_, by decide, by decide, rfl⟩
example : ∀ op ∈ exOps, op.WF := by decide
example : (mkRoot exDs (some 0) (some 1) exVals).isSome = false := by decide

/-- limits 1/1: the default-valued update hides the stored 7; states 2 and 3 are equal although built
    along different routes and representations; `y` raises; state 4 equals the root -/
example : (exStore (some 1) (some 1)).nodes.length = 5 ∧
    abs (exStore (some 1) (some 1)) 1 x = some "i0" ∧
    abs (exStore (some 1) (some 1)) 2 x = some "i0" ∧
    abs (exStore (some 1) (some 1)) 2 atl = some "bT" ∧
    (getValue (exStore (some 1) (some 1)) 2 y).2 = none ∧
    (eqOp (exStore (some 1) (some 1)) 2 3).2 = true ∧
    (eqOp (exStore (some 1) (some 1)) 4 0).2 = true ∧
    (eqOp (exStore (some 1) (some 1)) 1 0).2 = false := by decide +kernel

/-- the same history under limits 20/20 (everything linked) and none/none (everything condensed) -/
example : (eqOp (exStore (some 20) (some 20)) 2 3).2 = true ∧
    (eqOp (exStore none none) 2 3).2 = true ∧
    (eqOp (exStore (some 20) (some 20)) 4 0).2 = true ∧
    abs (exStore (some 20) (some 20)) 2 x = some "i0" ∧
    (chainOf (exStore (some 20) (some 20)) 4).length = 2 ∧
    (chainOf (exStore none none) 4).length = 1 := by decide +kernel

/-- the hypotheses of the call-by-call theorems are met by that heap -/
example : Inv (exStore (some 1) (some 1)) :=
  invariant_after_every_history (ds := exDs) (rl := some 1) (bl := some 1) (vals := exVals)
    ⟨by decide, by decide, rfl⟩ exOps (by decide)
example : (makeChild (exStore (some 1) (some 1)) 2 [(y, "i1")]).isSome = true ∧
    (makeChild (exStore (some 20) (some 20)) 4 [(y, "i1")]).isSome = true ∧
    (exStore (some 20) (some 20)).nodes[4]?.isSome = true := by decide +kernel

end examples

end UPVerif.C36
