import UPVerif.Lemmas.DagWalkerLemmas
import UPVerif.Lemmas.DagSubstLemmas
/-!
# C14 — Shared environment walkers are history-independent, even after failures

Statements only (helper lemmas live in `Lemmas/DagWalkerLemmas.lean`).

`Dag.walk` is the stack-and-cache machine of `unified_planning/model/walkers/dag.py` with the
REPAIRED `walk()` (try/finally).  The theorems hold for EVERY node function (`Spec.fn`, which may
raise), every override of `_push_with_children_to_stack` that computes a node on the spot
(`Spec.special`), both values of `invalidate_memoization`, every expression and every history of
calls — no size bound.  `pureWalk` is the plain structural recursion (children last first), i.e.
what a call "depending only on its arguments" returns; a walker that keeps its cache across calls
must not look at keyword arguments (`ArgIndep` — the base class's `_get_key` enforces exactly this).

`Dag.walkAsFound` (no `finally`) is refuted on a concrete two-call history: the defect D-C14a.
`Dag.create` / `Dag.createAsFound` are the two orders of `ExpressionManager.create_node` (D-C14b).
-/
namespace UPVerif.C14
open UPVerif UPVerif.Dag

variable {Arg Val ε : Type}

/-! ## the generic machine -/

/-- **A failed call leaves the shared walker able to answer later calls**: whatever the call did —
    returned or raised — the walker is `Clean` again (empty stack; cache empty or sound). -/
theorem C14_step (S : Spec Arg Val ε) (hS : ArgIndep S) (a : Arg) (w : Walker Val) (e : Expr)
    (hw : Clean S w) : Clean S (walk S a w e).2 :=
  (walk_spec S hS a w e hw).2

/-- **The answer depends only on the call's arguments**: on a clean walker `walk` returns the value
    of the pure recursion, and raises exactly when the pure recursion raises, with the same
    exception — in particular never a `KeyError` from a stale stack entry and never out of fuel
    (`fuelFor e = 2 * size e` pops always suffice). -/
theorem C14_result (S : Spec Arg Val ε) (hS : ArgIndep S) (a : Arg) (w : Walker Val) (e : Expr)
    (hw : Clean S w) : (walk S a w e).1 = liftPure (pureWalk S a e) :=
  (walk_spec S hS a w e hw).1

/-- no `KeyError`, no fuel exhaustion on a clean walker -/
theorem C14_no_internal_error (S : Spec Arg Val ε) (hS : ArgIndep S) (a : Arg) (w : Walker Val)
    (e : Expr) (hw : Clean S w) :
    (∀ k, (walk S a w e).1 ≠ .error (.key k)) ∧ (walk S a w e).1 ≠ .error .fuel := by
  rw [C14_result S hS a w e hw]
  cases pureWalk S a e <;> simp [liftPure]

/-- **History independence**: any interleaving of calls (any arguments, failing or not) on one
    clean walker answers every call with the value computed from that call's arguments alone. -/
theorem C14_history_independent (S : Spec Arg Val ε) (hS : ArgIndep S) (w : Walker Val)
    (hw : Clean S w) (h : List (Arg × Expr)) :
    (runHistory (walk S) w h).1 = h.map (fun c => liftPure (pureWalk S c.1 c.2)) :=
  (runHistory_spec S hS h w hw).1

/-- … which is the answer of the same call on a FRESH walker (the property's own comparison) -/
theorem C14_same_as_fresh (S : Spec Arg Val ε) (hS : ArgIndep S) (w : Walker Val)
    (hw : Clean S w) (h : List (Arg × Expr)) :
    (runHistory (walk S) w h).1 = h.map (fun c => (walk S c.1 Walker.fresh c.2).1) := by
  rw [C14_history_independent S hS w hw h]
  apply List.map_congr_left
  intro c _
  rw [C14_result S hS c.1 Walker.fresh c.2 (Clean.fresh S)]

/-- and the walker is still clean after the whole history -/
theorem C14_history_clean (S : Spec Arg Val ε) (hS : ArgIndep S) (w : Walker Val)
    (hw : Clean S w) (h : List (Arg × Expr)) : Clean S (runHistory (walk S) w h).2 :=
  (runHistory_spec S hS h w hw).2

/-! non-vacuity: a fresh walker is clean; the instances below meet `ArgIndep` -/
example (S : Spec Arg Val ε) : Clean S Walker.fresh := Clean.fresh S
example (reject : Expr → Bool) : ArgIndep (substSpec reject) := argIndep_of_invalidate rfl
example : ArgIndep probeInvSpec := argIndep_of_invalidate rfl
example (p : ProbeArg) : ArgIndep (probeKeepSpec p) := argIndep_unit _
example : ArgIndep freeVarsSpec := argIndep_unit _

/-! ## the code as found violates the property (D-C14a)

Probe walker with a one-time cache whose key ignores the keyword arguments (as the Substituter's
does).  Call 1 walks `and(x, y)` with `salt = 1` and raises at `x` — after `y` was cached.
Call 2 asks for `y` with `salt = 2`. -/

def wX : Expr := .leaf (.param "x" .bool)
def wY : Expr := .leaf (.param "y" .bool)
def witnessHistory : List (ProbeArg × Expr) :=
  [({ salt := 1, bad := [wX] }, .app .and [wX, wY]), ({ salt := 2, bad := [] }, wY)]

/-- as found: the first call raises, the second returns the value cached under `salt = 1` -/
theorem asFound_witness :
    (runHistory (walkAsFound probeInvSpec) Walker.fresh witnessHistory).1 =
      [.error (.node wX), .ok 1] := by decide +kernel

/-- … although the second call's own arguments give `2` -/
theorem asFound_witness_pure :
    witnessHistory.map (fun c => liftPure (pureWalk probeInvSpec c.1 c.2)) =
      [.error (.node wX), .ok 2] := by decide +kernel

/-- so history independence is FALSE for `walk` as found … -/
theorem asFound_not_history_independent :
    ¬ ∀ h : List (ProbeArg × Expr),
      (runHistory (walkAsFound probeInvSpec) Walker.fresh h).1 =
        h.map (fun c => liftPure (pureWalk probeInvSpec c.1 c.2)) := by
  intro H
  have := H witnessHistory
  rw [asFound_witness, asFound_witness_pure] at this
  exact absurd this (by decide)

/-- … and the failed call leaves a pending stack entry and a stale cache entry behind -/
theorem asFound_leaves_dirty :
    let w := (walkAsFound probeInvSpec { salt := 1, bad := [wX] } Walker.fresh (.app .and [wX, wY])).2
    w.stack = [(true, .app .and [wX, wY])] ∧ w.memo = [(wY, 1)] := by decide +kernel

/-- the repaired `walk` answers the witness history correctly (instance of the theorem, re-checked
    by evaluation) -/
theorem repaired_witness :
    (runHistory (walk probeInvSpec) Walker.fresh witnessHistory).1 = [.error (.node wX), .ok 2] := by
  decide +kernel

/-! ## the walkers of one environment, calls interleaved -/

/-- **Substituter, free-variables oracle and fluents extractor of one environment**: any
    interleaving of `substitute` (any maps, including incompatible ones and ones under which the
    manager refuses a node mid-walk), `get_free_variables` and `free_vars_extractor.get` answers each
    call from its own arguments: `substE` (what a fresh Substituter computes), `freeVars`,
    `fluentExps` of the shared core.  `reject` (which constructions the manager refuses) is arbitrary. -/
theorem C14_env_history_independent (reject : Expr → Bool) (E : Env) (hE : EnvClean reject E)
    (h : List Call) : (Env.run reject E h).1 = h.map (pureCall reject) :=
  (envRun_spec reject h E hE).1

theorem C14_env_stays_clean (reject : Expr → Bool) (E : Env) (hE : EnvClean reject E)
    (h : List Call) : EnvClean reject (Env.run reject E h).2 :=
  (envRun_spec reject h E hE).2

example (reject : Expr → Bool) : EnvClean reject Env.fresh := EnvClean.fresh reject

/-- the machine instantiated for the Substituter computes `substE` -/
theorem C14_substituter_pure (reject : Expr → Bool) (σ : Expr.Subst) (e : Expr) :
    pureWalk (substSpec reject) σ e = substE reject σ e := substSpec_pure reject σ e

/-- the machine instantiated for `FreeVarsOracle` computes the shared core's `freeVars` (never raises) -/
theorem C14_freeVars_pure (e : Expr) : pureWalk freeVarsSpec () e = .ok (Expr.freeVars e) :=
  freeVarsSpec_pure e

/-- the machine instantiated for `FreeVarsExtractor` computes the shared core's `fluentExps` -/
theorem C14_fluents_pure (e : Expr) : pureWalk fluentsSpec () e = .ok (Expr.fluentExps e) :=
  fluentsSpec_pure e

/-- when the manager refuses nothing the Substituter never raises and computes exactly the shared
    core's `Expr.subst` (the function C13's theorems are about), for every map and expression -/
theorem C14_substituter_agrees_with_subst (σ : Expr.Subst) (e : Expr) :
    substE (fun _ => false) σ e = .ok (Expr.subst σ e) := substE_eq_subst σ e

/-! ## `ExpressionManager.create_node` (D-C14b) -/

/-- **Repaired order: no ill-typed node is ever left in the table**, whatever was requested before
    (including requests that raised) -/
theorem C14_create_no_illtyped_left (check : Expr → Except ε Unit) (M : Manager)
    (hM : TableOK check M) (cs : List Expr) :
    TableOK check (createHistory (create check) M cs).2 :=
  (createHistory_spec check cs M hM).2

/-- **and every request is answered from the requested node alone**: the node if it type-checks,
    the type checker's exception otherwise — the second time as the first -/
theorem C14_create_history_independent (check : Expr → Except ε Unit) (M : Manager)
    (hM : TableOK check M) (cs : List Expr) :
    (createHistory (create check) M cs).1 =
      cs.map (fun c => match check c with | .ok () => .ok c | .error x => .error x) :=
  (createHistory_spec check cs M hM).1

example (check : Expr → Except ε Unit) : TableOK check Manager.fresh := by
  intro c hc; cases hc

/-- a type check that refuses exactly `wX` -/
def refuseX (c : Expr) : Except Unit Unit := if c = wX then .error () else .ok ()

/-- as found: the second request for the ill-typed node returns it without any error -/
theorem createAsFound_witness :
    (createHistory (createAsFound refuseX) Manager.fresh [wX, wX]).1 = [.error (), .ok wX] := by
  decide +kernel

theorem create_witness :
    (createHistory (create refuseX) Manager.fresh [wX, wX]).1 = [.error (), .error ()] := by
  decide +kernel

end UPVerif.C14
