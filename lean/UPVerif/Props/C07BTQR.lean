import UPVerif.Props.C07
import UPVerif.Props.C06BTQR
/-!
# C07 (continued) — completeness of BoundedTypesRemover and QuantifiersRemover, and a pipeline of three compilers

Statements only; same frame, semantics, models and hypotheses as `Props/C06BTQR.lean` (read its header first).
Both compilers keep the plan length: every valid plan of the original problem has a valid compiled plan of the SAME
length that maps back to exactly the same sequence; hence an unsolvable compiled problem implies an unsolvable
original one.
-/
namespace UPVerif.C07
open UPVerif UPVerif.Expr UPVerif.Sim UPVerif.Spec UPVerif.Simulation UPVerif.Compile

/-! ## BoundedTypesRemover -/

/-- COMPLETENESS of BoundedTypesRemover with the SAME plan length: in a valid original plan every state satisfies
    the bounds (the simulator checks them), hence every added precondition and the added goals -/
theorem btr_complete_partial (simp : Expr → Expr) (W : World) (c : Compiled) (hc : btrCompile simp W.P = some c)
    (hok : BtrOK simp W c) (π : List Nat) (hv : (tsOf W).Valid π) :
    ∃ π', (tsOf (withProblem W c.prob)).Valid π' ∧ mapBack (backOf c) π' = π ∧ π'.length ≤ π.length := by
  have := (btr_bwd W hc hok).complete π hv
  simpa using this

theorem btr_unsolvable_partial (simp : Expr → Expr) (W : World) (c : Compiled) (hc : btrCompile simp W.P = some c)
    (hok : BtrOK simp W c) (hB : ¬ (tsOf (withProblem W c.prob)).Solvable) : ¬ (tsOf W).Solvable :=
  (btr_bwd W hc hok).unsolvable hB

/-- the same with the hypotheses in the executable form the driver evaluates on every generated problem -/
theorem btr_complete_of_clauses_partial (simp : Expr → Expr) (hs : SimpTruth simp) (W : World) (c : Compiled)
    (hw : SimpTruthOn W.simp (stateInvariants W.P)) (hwc : SimpTruthOn W.simp (stateInvariants c.prob))
    (hc : btrCompile simp W.P = some c) (h : (btrClauses simp W.P c).all (·.2) = true) (π : List Nat)
    (hv : (tsOf W).Valid π) :
    ∃ π', (tsOf (withProblem W c.prob)).Valid π' ∧ mapBack (backOf c) π' = π ∧ π'.length ≤ π.length :=
  btr_complete_partial simp W c hc (BtrOK.of_clauses hs hw hwc h) π hv

/-- no action is dropped where it matters: an original action applicable in a state whose bounds hold has its
    compiled counterpart (the helper drops an action only when its condition simplifies to FALSE) -/
theorem btr_step_complete (simp : Expr → Expr) (W : World) (c : Compiled) (hc : btrCompile simp W.P = some c)
    (hok : BtrOK simp W c) (gB gA : St) (j : Nat) (gA' : St) (hR : Rel (declared W.P) gB gA)
    (hV : invB W (ctxOf W gA) = true) (h : (tsOf W).step gA j = some gA') :
    ∃ i gB', backOf c i = some j ∧ (tsOf (withProblem W c.prob)).step gB i = some gB' ∧
      Rel (declared W.P) gB' gA' ∧ invB W (ctxOf W gA') = true := by
  obtain ⟨i, gB', h1, h2, h3, h4⟩ := (btr_bwd W hc hok).step gB gA j gA' ⟨hR, hV⟩ h
  exact ⟨i, gB', h1, h2, h3, h4⟩

/-- full clause for BoundedTypesRemover; proved part: `btr_complete_partial` (missing: as for `C06.btr_sound_full`) -/
def btr_complete_full (simp : Expr → Expr) : Prop := SimpTruth simp → CompleteOnAllInstances (btrCompile simp) 0

/-! ## QuantifiersRemover -/

/-- COMPLETENESS of QuantifiersRemover with the SAME plan length (identity simulation) -/
theorem qr_complete_partial (simp : Expr → Expr) (W : World) (c : Compiled) (hc : qrCompile simp W.P = some c)
    (hok : QrOK simp W c) (π : List Nat) (hv : (tsOf W).Valid π) :
    ∃ π', (tsOf (withProblem W c.prob)).Valid π' ∧ mapBack (backOf c) π' = π ∧ π'.length ≤ π.length := by
  have := (qr_bwd W hc hok).complete π hv
  simpa using this

theorem qr_unsolvable_partial (simp : Expr → Expr) (W : World) (c : Compiled) (hc : qrCompile simp W.P = some c)
    (hok : QrOK simp W c) (hB : ¬ (tsOf (withProblem W c.prob)).Solvable) : ¬ (tsOf W).Solvable :=
  (qr_bwd W hc hok).unsolvable hB

/-- COMPLETENESS of QuantifiersRemover on typed (ADL + numeric, division-free) problems: all hypotheses on the problem are decidable -/
theorem qr_complete_typed_partial (simp : Expr → Expr) (hs : SimpDen simp) (W : World) (c : Compiled)
    (hc : qrCompile simp W.P = some c) (hb : TypedProblem W)
    (hnp : ∀ a ∈ W.P.actions, ∀ p ∈ a.pre, qNodup p = true)
    (hne : ∀ a ∈ W.P.actions, ∀ x ∈ expandEffs W.P a.effs, qNodup x.cond = true ∧ qNodup x.value = true)
    (hng : ∀ e ∈ W.P.goals, qNodup e = true)
    (hna : stateInvariants W.P = []) (hnc : stateInvariants c.prob = [])
    (π : List Nat) (hv : (tsOf W).Valid π) :
    ∃ π', (tsOf (withProblem W c.prob)).Valid π' ∧ mapBack (backOf c) π' = π ∧ π'.length ≤ π.length :=
  qr_complete_partial simp W c hc ⟨hs, hnp, hne, hng, hna, hnc, typed_defined simp hb⟩ π hv

/-- the same with the hypotheses in the executable form the driver evaluates on every generated problem -/
theorem qr_complete_of_clauses_partial (simp : Expr → Expr) (hs : SimpDen simp) (W : World) (c : Compiled)
    (hc : qrCompile simp W.P = some c) (h : (qrClauses W.P c).all (·.2) = true)
    (hb : (typedClauses W.P).all (·.2) = true) (π : List Nat) (hv : (tsOf W).Valid π) :
    ∃ π', (tsOf (withProblem W c.prob)).Valid π' ∧ mapBack (backOf c) π' = π ∧ π'.length ≤ π.length :=
  qr_complete_partial simp W c hc (QrOK.of_clauses hs h hb) π hv

/-- full clause for QuantifiersRemover; proved part: `qr_complete_partial`.  Missing: parameters, `Always`
    constraints; FALSE without a definedness hypothesis (an `Exists` that is true by an early witness while a later
    instance reads a fluent without value: the expanded disjunction is not applicable). -/
def qr_complete_full (simp : Expr → Expr) : Prop := SimpDen simp → CompleteOnAllInstances (qrCompile simp) 0

/-! ## a pipeline of three modelled compilers -/

/-- quantifiers removed, then conditional effects, then bounded types: complete with the SAME plan length whenever
    its stages are (the hypotheses of the middle stage are those of `cer_complete_partial`) -/
theorem qr_then_cer_then_btr_complete_partial (simp : Expr → Expr) (hse : SimpExact simp) (W : World)
    (c₁ c₂ c₃ : Compiled)
    (h₁ : qrCompile simp W.P = some c₁) (hok₁ : QrOK simp W c₁)
    (h₂ : cerCompile simp c₁.prob = some c₂) (hok₂ : ∀ a ∈ c₁.prob.actions, cerOK (cerExpand c₁.prob a) = true)
    (hnc₂ : ∀ a ∈ c₁.prob.actions, Action.isConditional a = true →
      cerNoConflict (cerExpand c₁.prob a) = true ∧ cerHasUncond (cerExpand c₁.prob a) = true)
    (hr₂ : ∀ a ∈ c₁.prob.actions, cerRooted (cerExpand c₁.prob a) = true)
    (h₃ : btrCompile simp c₂.prob = some c₃) (hok₃ : BtrOK simp (withProblem (withProblem W c₁.prob) c₂.prob) c₃)
    (π : List Nat) (hv : (tsOf W).Valid π) :
    ∃ π', (tsOf (withProblem (withProblem (withProblem W c₁.prob) c₂.prob) c₃.prob)).Valid π' ∧
      mapBack (compBack (compBack (backOf c₁) (backOf c₂)) (backOf c₃)) π' = π ∧ π'.length ≤ π.length := by
  have := pipeline_complete
    (pipeline_complete (e₁ := 0) (e₂ := 0) (qr_complete_partial simp W c₁ h₁ hok₁)
      (cer_complete_partial simp hse (withProblem W c₁.prob) c₂ h₂ hok₂ hnc₂ hr₂))
    (e₂ := 0) (btr_complete_partial simp (withProblem (withProblem W c₁.prob) c₂.prob) c₃ h₃ hok₃) π hv
  simpa using this

namespace BTQR
open UPVerif.C06 UPVerif.C06.BTQR
/-! ## non-vacuity (the problems of `Props/C06BTQR.lean`) -/

/-- BoundedTypesRemover on `P6`: the valid original plan `[a0]` has the compiled counterpart `[0]` -/
example : validB W6 [0] = true ∧ validB W6c [0] = true ∧ mapBack (backOf cBtr) [0] = [0] := by decide +kernel
example : ∃ π', (tsOf W6c).Valid π' ∧ mapBack (backOf cBtr) π' = [0] ∧ π'.length ≤ 1 :=
  btr_complete_of_clauses_partial id SimpTruth_id W6 cBtr (SimpTruthOn_id _) (SimpTruthOn_id _)
    (some_getD (by decide +kernel)) (by decide +kernel) [0] (validB_sound (by decide +kernel))
/-- the hypotheses of `btr_step_complete` are met by the initial states and the step of `a0` -/
example : ∃ gB gA gA', Rel (declared W6.P) gB gA ∧ invB W6 (ctxOf W6 gA) = true ∧ (tsOf W6).step gA 0 = some gA' := by
  have hc : btrCompile id W6.P = some cBtr := some_getD (by decide +kernel)
  have hok : BtrOK id W6 cBtr :=
    BtrOK.of_clauses SimpTruth_id (SimpTruthOn_id _) (SimpTruthOn_id _) (by decide +kernel)
  have h0 : validB W6 [0] = true := by decide +kernel
  obtain ⟨gA, gf, hi, hr, _⟩ := validB_sound h0
  obtain ⟨gB, _, hR, hV⟩ := (btr_bwd W6 hc hok).init gA hi
  simp only [Simulation.TS.run] at hr
  cases hs : (tsOf W6).step gA 0 with
  | none => rw [hs] at hr; cases hr
  | some gA' => exact ⟨gB, gA, gA', hR, hV, hs⟩
/-- QuantifiersRemover on the typed problem `P7` -/
example : ∃ π', (tsOf W7c).Valid π' ∧ mapBack (backOf cQr) π' = [0] ∧ π'.length ≤ 1 :=
  qr_complete_typed_partial id SimpDen_id W7 cQr (some_getD (by decide +kernel))
    (TypedProblem.of_clauses (by decide +kernel))
    (by decide +kernel) (by decide +kernel) (by decide +kernel) (by decide +kernel) (by decide +kernel) [0]
    (validB_sound (by decide +kernel))
/-! ### the pipeline quantifiers → conditional effects → bounded types on `P8` (Props/C06BTQR.lean) -/
/-- the hypotheses of the middle stage (no effect-less variant: `n += 1` is unconditional; conditions rooted in a
    connective) -/
example : (∀ a ∈ c8a.prob.actions, Action.isConditional a = true →
      cerNoConflict (cerExpand c8a.prob a) = true ∧ cerHasUncond (cerExpand c8a.prob a) = true) ∧
    (∀ a ∈ c8a.prob.actions, cerRooted (cerExpand c8a.prob a) = true) := by decide +kernel
/-- the valid original plan `[qb]` has a counterpart of the same length in the final problem -/
example : ∃ π', (tsOf W8c).Valid π' ∧
    mapBack (compBack (compBack (backOf c8a) (backOf c8b)) (backOf c8c)) π' = [0] ∧ π'.length ≤ 1 :=
  qr_then_cer_then_btr_complete_partial id SimpExact_id W8 c8a c8b c8c (some_getD (by decide +kernel))
    (QrOK.of_clauses SimpDen_id (by decide +kernel) (by decide +kernel)) (some_getD (by decide +kernel))
    (by decide +kernel) (by decide +kernel) (by decide +kernel) (some_getD (by decide +kernel))
    (BtrOK.of_clauses SimpTruth_id (SimpTruthOn_id _) (SimpTruthOn_id _) (by decide +kernel)) [0]
    (validB_sound (by decide +kernel))
end BTQR

end UPVerif.C07
