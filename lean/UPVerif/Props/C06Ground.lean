import UPVerif.Lemmas.CompileGroundSim
import UPVerif.Lemmas.CompileGroundNames
import UPVerif.Lemmas.CompileGroundSimSem
import UPVerif.Lemmas.CompileGroundExamples
/-!
# C06 — Plans of compiled problems map back to valid plans: the GROUNDER

Statements only (the example problems and their helper lemmas: `Lemmas/CompileGroundExamples.lean`; helper lemmas: `Lemmas/CompileGround.lean` — bookkeeping —, `Lemmas/CompileGroundStep.lean` — the step
lemma —, `Lemmas/CompileGroundStatic.lean` — static fluents keep their initial value —, `Lemmas/CompileGroundPrune.lean`,
`Lemmas/CompileGroundSim.lean` — the simulations; frame: `Lemmas/Simulation.lean`).

* `Ground.grounderCompile simp prune P` (Core/Compile/Grounder.lean) mirrors `Grounder(prune_actions = prune)._compile`:
  `get_possible_parameters` with the static-fluent pruning of `_purge_items_list`, `create_action_with_given_subs`
  (= `Sim.ground` of Core/Sim.lean), the naming of the ground actions, the `trace_back_map` of `lift_action_instance`
  (`Ground.groundBack`).  The correspondence check compares it, for both values of `prune_actions`, with the real
  compiler action by action (name, origin, arguments, preconditions, effects).
* the ORIGINAL problem is read with the transition system of ALL INSTANCES of its actions (`Compile.tsLifted`: action
  position × argument tuple; a step is C01's documented successor `Spec.successorOf` of the instance `instAct P a args`:
  parameters substituted, NOTHING simplified, nothing pruned), the GROUND problem with the transition system of its
  parameterless actions (`Compile.tsOf`).
* the grounder's simplifier is a PARAMETER `simp` with the hypothesis `GroundHyp.exact`: in every state that agrees with
  the initial state on the static fluents, `simp` does not change what a closed instance of an expression evaluates to
  (`SimpInstExact`).  The restriction to such states is what makes `Simplifier(env, problem)` — which replaces static
  fluents by their initial values — admissible; that every reachable state IS such a state is proved
  (`grounder_static_fluents_keep_initial_value`).  The other fields of `GroundHyp` are DECIDABLE checks on the problem.
* the real `UPSequentialSimulator` / `SequentialPlanValidator` read the original problem differently: they ground every
  instance with their own helper first and reject it when that fails (`tsSim`, C01's `Spec.apply`).  The two readings agree
  unless the simulator's grounding rejects an instance (`grounder_sound_simulator_partial`); where it does — two
  assignments whose value expressions differ but become the same constant under the compiler's static simplifier — the
  Grounder IS unsound for the library's own validator: finding C06-static-conflict-coinciding-values, kernel-checked witness
  `GroundEx3.grounder_sound_simulator_needs_accepts`.
-/
namespace UPVerif.C06
open UPVerif UPVerif.Expr UPVerif.Sim UPVerif.Spec UPVerif.Simulation UPVerif.Compile UPVerif.Compile.Ground

/-- THE STEP LEMMA.  In a state that agrees with the initial state on the static fluents, the ground action at position
    `j` makes exactly the step of the instance `(i, args)` it maps back to — applicable in the same states, same
    successor. -/
theorem grounder_step_is_instance_step (simp : Expr → Expr) (prune : Bool) (W : World) (c : GroundCompiled)
    (hc : grounderCompile simp prune W.P = some c) (hyp : GroundHyp simp prune W) (g : St) (hinv : StaticInv W g)
    (j : Nat) (ga : Action) (hj : c.prob.actions[j]? = some ga) :
    ∃ i a args, groundBack c j = some (i, args) ∧ W.P.actions[i]? = some a ∧ args ∈ instancesOf W.P a ∧
      ga.params = [] ∧ stepAct (withProblem W c.prob) g ga = stepInst W g a args := by
  obtain ⟨i, a, args, gact, hback, ha, hargs, hg, h1, h2, h3⟩ := ground_at hc hj
  exact ⟨i, a, args, hback, ha, possibleParameters_subset W.P prune a hargs, h1,
    ground_step_eq hyp hc hinv ha hargs hg h1 h2 h3⟩

/-- static fluents keep their initial value in every state reachable by instances of the problem's actions -/
theorem grounder_static_fluents_keep_initial_value (W : World) (hwf : effTargetsWF W.P = true) (g0 gf : St)
    (π : List (Nat × List String)) (hi : initOf W = some g0) (hr : (tsLifted W).run g0 π = some gf) :
    ∀ f ∈ staticFluents W.P, ∀ vs, gf (f, vs) = g0 (f, vs) := by
  obtain ⟨g0', h0, hall⟩ := staticInv_run hwf π g0 gf (StaticInv_init hi) hr
  rw [hi] at h0
  cases h0
  exact hall

/-- SOUNDNESS of the Grounder (`prune_actions` False or True) for every plan of every length: a valid plan of the ground
    problem maps back, through `lift_action_instance`, to a valid plan of the original problem.
    Remaining hypotheses: `GroundHyp` = exactness of the simplifier parameter on closed instances in static-respecting
    states + the decidable checks `groundOK` (instances closed; no forall variable vanishes in the simplification — the
    shape C06's ASSUMPTIONS keep out: the real grounder then loses the multiplicity of the instances; an effect dropped
    because its condition simplified to FALSE has constants / bound variables as target arguments) and `effTargetsWF`. -/
theorem grounder_sound_partial (simp : Expr → Expr) (prune : Bool) (W : World) (c : GroundCompiled)
    (hc : grounderCompile simp prune W.P = some c) (hyp : GroundHyp simp prune W) (π : List Nat)
    (hv : (tsOf (withProblem W c.prob)).Valid π) : (tsLifted W).Valid (mapBack (groundBack c) π) :=
  (ground_fwd hyp hc).sound π hv

/-- … and the mapped-back plan visits exactly the same states (no ground action is dropped by the map-back), so the
    trajectory constraints, which the Grounder keeps, have the same PDDL3 verdict on both plans -/
theorem grounder_same_trace (simp : Expr → Expr) (prune : Bool) (W : World) (c : GroundCompiled)
    (hc : grounderCompile simp prune W.P = some c) (hyp : GroundHyp simp prune W) (π : List Nat) (g0 gf : St)
    (t : List St) (hi : initOf W = some g0) (hr : (tsOf (withProblem W c.prob)).run g0 π = some gf)
    (hg : (tsOf (withProblem W c.prob)).goal gf) (ht : (tsOf (withProblem W c.prob)).trace g0 π = some t) :
    ∃ tA, (tsLifted W).trace g0 (mapBack (groundBack c) π) = some tA ∧
      TraceRel (fun x y => x = y ∧ StaticInv W y) t tA := by
  have hfw := ground_fwd hyp hc
  refine hfw.trace π ?_ g0 gf g0 t ⟨rfl, StaticInv_init hi⟩ hr hg ht
  have : ∀ (π : List Nat) (g gf : St), (tsOf (withProblem W c.prob)).run g π = some gf →
      ∀ b ∈ π, (groundBack c b).isSome := by
    intro π
    induction π with
    | nil => intro _ _ _ b hb; cases hb
    | cons x xs ih =>
      intro g gf hr b hb
      simp only [TS.run] at hr
      cases hs : (tsOf (withProblem W c.prob)).step g x with
      | none => rw [hs] at hr; cases hr
      | some g' =>
        rw [hs] at hr
        rcases List.mem_cons.1 hb with rfl | hb'
        · obtain ⟨ga, hj, _⟩ := tsOf_step hs
          obtain ⟨i, a, args, _, hback, _⟩ := ground_at hc hj
          rw [hback]; rfl
        · exact ih g' gf hr b hb'
  exact this π g0 gf hr

/-- the Grounder as the first stage of a pipeline: soundness composes (frame: `sound_comp`) -/
theorem grounder_then_sound (simp : Expr → Expr) (prune : Bool) (W : World) (c : GroundCompiled)
    (hc : grounderCompile simp prune W.P = some c) (hyp : GroundHyp simp prune W) {SC AC : Type} (C : TS SC AC)
    (β₂ : AC → Option Nat) (h₂ : ∀ π, C.Valid π → (tsOf (withProblem W c.prob)).Valid (mapBack β₂ π)) (π : List AC)
    (hv : C.Valid π) : (tsLifted W).Valid (mapBack (compBack (groundBack c) β₂) π) :=
  sound_comp (grounder_sound_partial simp prune W c hc hyp) h₂ π hv

/-- the names of the ground actions (an action without parameters keeps its name, every other instance is named by
    `get_fresh_name` against the original problem and the names handed out so far) are pairwise distinct, and a name
    shared with the original problem is the kept name of a parameterless action: identifying ground actions by their
    position, as `tsOf` / `groundBack` do, is the same as identifying them by name, as `trace_back_map` does -/
theorem grounder_action_names_distinct (simp : Expr → Expr) (prune : Bool) (P : Problem) (c : GroundCompiled)
    (hc : grounderCompile simp prune P = some c) (hN : (problemNames P).Nodup) :
    (c.prob.actions.map (·.name)).Nodup ∧
    ∀ n ∈ c.prob.actions.map (·.name), n ∈ problemNames P →
      n ∈ (P.actions.filter (fun a => a.params.isEmpty)).map (·.name) := ground_names_nodup hc hN

/-- `split_all_ands` terminates: the fuel of the model suffices (more fuel gives the same list) -/
theorem grounder_split_all_ands_fuel (l : List Expr) (n : Nat) (h : Expr.sizeList l < n) :
    splitAllAndsFuel n l = splitAllAnds l :=
  splitAllAnds_fuel n _ l h (Nat.lt_succ_self _)

/-! ## the original problem as the REAL SIMULATOR reads it

`tsLifted` applies an instance as written.  `UPSequentialSimulator` / `SequentialPlanValidator` first ground the instance with
their own `GrounderHelper(prune_actions = False)` and reject it when that answers `None` (C01: `Spec.apply`); `tsSim`
(Lemmas/CompileGroundSimSem.lean) is that reading. -/

/-- `tsSim` steps are C01's documented result of `UPSequentialSimulator.apply` -/
theorem grounder_simulator_step_is_spec_apply (W : World) (s : SimState) (a : Action) (args : List String)
    (h : args ∈ instancesOf W.P a) : stepSim W (s.get W.P) a args = Spec.apply W s a args :=
  stepSim_is_spec_apply W s a args h

/-- SOUNDNESS for the simulator's reading of the original problem: additionally the simulator's own simplifier must be
    exact (`SimHyp.exact`), and NO instance may be rejected by the simulator's grounding (`SimHyp.accepts`, decidable) —
    the cause of finding C06-static-conflict-coinciding-values -/
theorem grounder_sound_simulator_partial (simp : Expr → Expr) (prune : Bool) (W : World) (c : GroundCompiled)
    (hc : grounderCompile simp prune W.P = some c) (hyp : GroundHyp simp prune W) (hsim : SimHyp W) (π : List Nat)
    (hv : (tsOf (withProblem W c.prob)).Valid π) : (tsSim W).Valid (mapBack (groundBack c) π) :=
  lifted_valid_sim hsim hyp.targets (grounder_sound_partial simp prune W c hc hyp π hv)

/-- the statement for the simulator's reading WITHOUT the hypothesis that excludes the finding (everything else kept) -/
def grounder_sound_simulator_full (simp : Expr → Expr) (prune : Bool) : Prop :=
  ∀ (W : World) (c : GroundCompiled), grounderCompile simp prune W.P = some c → GroundHyp simp prune W →
    (∀ g, StaticInv W g → SimpInstExact (ctxOf W g) W.P W.simp) → simInstOK W = true → ∀ π : List Nat,
    (tsOf (withProblem W c.prob)).Valid π → (tsSim W).Valid (mapBack (groundBack c) π)

/-- the full clause: soundness on every problem for every simplifier that is exact on closed instances in
    static-respecting states.  Proved part: `grounder_sound_partial`.  Missing: the decidable side conditions `groundOK`
    and `effTargetsWF` — a forall effect whose bound variable vanishes in the simplification (kept out by C06's
    ASSUMPTIONS; the statement is FALSE without it: `GroundEx2.grounder_sound_needs_forall_kept`), a dropped effect
    whose target reads the state, an effect whose target is not a fluent expression (impossible in the library). -/
def grounder_sound_full (simp : Expr → Expr) (prune : Bool) : Prop :=
  ∀ (W : World) (c : GroundCompiled), grounderCompile simp prune W.P = some c →
    (∀ g, StaticInv W g → SimpInstExact (ctxOf W g) W.P simp) → ∀ π : List Nat,
    (tsOf (withProblem W c.prob)).Valid π → (tsLifted W).Valid (mapBack (groundBack c) π)

namespace GroundEx
/-! ## non-vacuity: one concrete problem

types `T`; objects `o1 o2 : T`; fluents `road(T) : bool = false` (STATIC: no action writes it), `at(T) : bool = false`,
`q(T) : bool = false`, `x : int = 0`; initially `road(o1)`; goal `at(o1)`.
* `mv(p : T)`: pre `road(p) and x <= 3` (one nested AND), `not at(p)`;
  effects `at(p) := true`, `x += 1 if road(p)`, `x += 2 if not road(p)`, `forall w:T. q(w) := true`
* `nop()`: effect `x := 5` -/
/-- `road` is the only static fluent; the pruning conditions of `mv` are found inside the nested AND -/
example : staticFluents PG = [fRoad] ∧ boolStaticConds PG mv = [road pP] ∧
    possibleParameters PG true mv = [["o1"]] ∧ possibleParameters PG false mv = [["o1"], ["o2"]] := by decide +kernel

/-- with pruning and the static simplifier: `mv(o2)` is pruned; in `mv_o1` the effect conditioned on `road(o1)` became
    unconditional and the one conditioned on `not road(o1)` was dropped; names and map-back -/
example : (grounderCompile simpRoad true PG).isSome = true ∧ cPrune.prob.actions.map (·.name) = ["mv_o1", "nop"] ∧
    cPrune.back = [(0, ["o1"]), (1, [])] ∧
    (cPrune.prob.actions.map (fun a => a.effs.length)) = [3, 1] ∧
    (cPrune.prob.actions.map (fun a => a.effs.map (fun e => e.cond))) = [[Expr.tt, Expr.tt, Expr.tt], [Expr.tt]] := by
  decide +kernel

/-- the hypothesis of `grounder_action_names_distinct` holds, and a name clash is resolved by the counter: with a fluent
    called `mv_o1` the instance `mv(o1)` is named `mv_o1_0` -/
example : (problemNames PG).Nodup ∧
    ((grounderCompile id false { PG with fluents := PG.fluents ++ [⟨⟨"mv_o1", .bool, []⟩, none⟩] }).map
      (fun c => c.prob.actions.map (·.name))) = some ["mv_o1_0", "mv_o2", "nop"] := by decide +kernel

/-- without pruning and with the identity simplifier both instances are kept -/
example : cAll.prob.actions.map (·.name) = ["mv_o1", "mv_o2", "nop"] ∧
    cAll.back = [(0, ["o1"]), (0, ["o2"]), (1, [])] := by decide +kernel

/-- THE HYPOTHESES OF THE THEOREMS HOLD for the static simplifier with pruning … -/
theorem hypPrune : GroundHyp simpRoad true WG where
  exact := simpRoad_exact
  effs := by decide +kernel
  targets := by decide +kernel

/-- … and for the identity simplifier without pruning -/
theorem hypAll : GroundHyp id false WG where
  exact := fun g _ => SimpInstExact_id _ _
  effs := by decide +kernel
  targets := by decide +kernel

/-- a valid plan of the pruned ground problem, its map-back, and the validity of the map-back computed directly -/
example : validB (withProblem WG cPrune.prob) [0] = true ∧ mapBack (groundBack cPrune) [0] = [(0, ["o1"])] ∧
    validLB WG [(0, ["o1"])] = true ∧ validB (withProblem WG cPrune.prob) [1, 0] = false := by decide +kernel

/-- the theorem applied: the mapped-back plan is valid -/
example : (tsLifted WG).Valid [(0, ["o1"])] := by
  have hc : grounderCompile simpRoad true WG.P = some cPrune := some_getD _ (by decide +kernel)
  have hv : (tsOf (withProblem WG cPrune.prob)).Valid [0] := validB_sound (by decide +kernel)
  have := grounder_sound_partial simpRoad true WG cPrune hc hypPrune [0] hv
  have hm : mapBack (groundBack cPrune) [0] = [(0, ["o1"])] := by decide +kernel
  rw [hm] at this
  exact this

/-- in the unpruned ground problem the instance `mv(o2)` exists but never applies (its static precondition is false) -/
example : validB (withProblem WG cAll.prob) [0] = true ∧ validB (withProblem WG cAll.prob) [1] = false ∧
    validB (withProblem WG cAll.prob) [1, 0] = false := by decide +kernel
/-- the hypotheses of `grounder_step_is_instance_step` and `grounder_static_fluents_keep_initial_value` are met: the
    initial state satisfies the static invariant, position 0 holds a ground action, and `[mv(o1), nop]` is a run -/
example : (∃ g0, initOf WG = some g0 ∧ StaticInv WG g0) ∧ (cPrune.prob.actions[0]?).isSome = true ∧
    effTargetsWF PG = true ∧
    ((initOf WG).bind (fun g0 => (tsLifted WG).run g0 [(0, ["o1"]), (1, [])])).isSome = true := by
  refine ⟨?_, by decide +kernel, by decide +kernel, by decide +kernel⟩
  cases h : initOf WG with
  | none => exact absurd h (by decide +kernel)
  | some g0 => exact ⟨g0, rfl, StaticInv_init h⟩

/-- the hypotheses of `grounder_sound_simulator_partial` hold for the simulator's own grounding of `PG` (identity
    simplifier: both conditional increases stay conditional, nothing conflicts statically) -/
theorem simHypG : SimHyp WG where
  exact := fun g _ => SimpInstExact_id _ _
  inst := by decide +kernel
  accepts := by decide +kernel

example : validSB WG [(0, ["o1"])] = true := by decide +kernel

end GroundEx

namespace GroundEx2
open GroundEx
/-! ## the decidable hypothesis `groundOK` is NEEDED: a kernel-checked refutation of `grounder_sound_full`

types `T`; objects `o1 o2 : T`; fluents `k(T) : int = 1` (static), `x : int = 0`; goal `x = 1`;
`inc()`: effect `forall w:T. x += k(w)`.  The simplifier `simpK` replaces `k(w)` by `1`, the value of the static fluent `k`
on every object — it IS exact on closed instances in every state that agrees with the initial state on the static fluents
(the real `Simplifier(env, problem)` replaces static fluents on CONSTANT arguments only; it makes a bound variable vanish
through arithmetic instead, e.g. `1 + 0 * k(w)` becomes `1`: same effect on the grounder, checked on the real code).
In the ground effect the bound variable no longer occurs: `Effect.__init__` drops the quantifier, the ground action adds 1
ONCE (plan `[inc]` reaches the goal), the instances of the original effect add 1 for EACH object (`x = 2`: the mapped-back
plan is invalid for the documented semantics).  This is the shape C06's ASSUMPTIONS keep out of the generators (the real
simulator grounds through the same helper and agrees with the ground problem: C01's reading of the grounder contract). -/
/-- the witness: the ground plan `[inc]` is valid, its map-back is not; the decidable hypothesis fails -/
theorem vanish_facts : (grounderCompile simpK true PV).isSome = true ∧ groundOK simpK true PV = false ∧
    validB (withProblem WV cV.prob) [0] = true ∧ mapBack (groundBack cV) [0] = [(0, [])] ∧
    validLB WV [(0, [])] = false := by decide +kernel

/-- THE UNRESTRICTED SOUNDNESS STATEMENT IS FALSE for a simplifier that replaces static fluents by their values -/
theorem grounder_sound_needs_forall_kept : ¬ grounder_sound_full simpK true := by
  intro h
  obtain ⟨h1, _, h3, h4, h5⟩ := vanish_facts
  have hc : grounderCompile simpK true WV.P = some cV := some_getD _ h1
  have := h WV cV hc simpK_exact [0] (validB_sound h3)
  rw [h4] at this
  rw [validLB_complete this] at h5
  cases h5
end GroundEx2

namespace GroundEx3
open GroundEx
/-! ## finding C06-static-conflict-coinciding-values: a kernel-checked witness that `SimHyp.accepts` is needed

types `T`; object `o1 : T`; fluents `z : int = 0` (static), `zb : int = 5`, `b : bool = false`; goal `b`;
`a(p : T)`: effects `zb := 0`, `zb := z`, `b := true`.
The compiler's simplifier `simpZ` replaces the static `z` by its initial value `0` (as `Simplifier(env, problem)` does): the
ground action assigns `zb := 0` twice, passes the static conflict check and applies.  The simulator grounds the instance
`a(o1)` of the ORIGINAL with the plain simplifier (`W.simp = id`): `0` and `z` are different value expressions,
`_add_effect_instance` raises, the instance is rejected — the mapped-back plan is invalid for the real simulator (it IS
valid for the instance as written: both assignments give `0`). -/
/-- the witness: the ground plan `[a_o1]` is valid, its map-back is rejected by the simulator (and valid as written);
    the decidable hypothesis fails, every other one holds -/
theorem static_conflict_facts : (grounderCompile simpZ true PS).isSome = true ∧ groundOK simpZ true PS = true ∧
    effTargetsWF PS = true ∧ simInstOK WS = true ∧ simAccepts WS = false ∧
    validB (withProblem WS cS.prob) [0] = true ∧ mapBack (groundBack cS) [0] = [(0, ["o1"])] ∧
    validSB WS [(0, ["o1"])] = false ∧ validLB WS [(0, ["o1"])] = true := by decide +kernel

/-- THE UNRESTRICTED STATEMENT IS FALSE for the simulator's reading (finding C06-static-conflict-coinciding-values) -/
theorem grounder_sound_simulator_needs_accepts : ¬ grounder_sound_simulator_full simpZ true := by
  intro h
  obtain ⟨h1, h2, h3, h4, _, h6, h7, h8, _⟩ := static_conflict_facts
  have hc : grounderCompile simpZ true WS.P = some cS := some_getD _ h1
  have hyp : GroundHyp simpZ true WS := ⟨simpZ_exact, h2, h3⟩
  have := h WS cS hc hyp (fun g _ => SimpInstExact_id _ _) h4 [0] (validB_sound h6)
  rw [h7] at this
  rw [validSB_complete this] at h8
  cases h8
end GroundEx3

end UPVerif.C06
