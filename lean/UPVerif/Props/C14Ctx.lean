import UPVerif.Lemmas.DagCtxLemmas
import UPVerif.Lemmas.DagCtxSim
/-!
# C14 — history independence when a call's arguments include a MUTABLE context

`Props/C14.lean` proves that the stack-and-cache machine answers every call with the plain recursion on
that call's argument VALUE (`C14_history_independent`).  That statement does not yet say what the
property demands of walkers that are handed REFERENCES to mutable objects (a problem whose objects are
read, a dict) and keep instance fields besides `memoization`/`stack`: for them "depends only on that
call's arguments" means *a function of the expression and of the CURRENT content of the objects
passed* — what a brand-new instance would answer now.  Two things escape the generic theorem:

* how the entry method turns the references into what the node functions read (a field assigned
  only when a DIFFERENT object is passed keeps what an earlier call saw — the seeded change C14-2);
* a cache kept across calls (`invalidate_memoization=False`) whose node functions read the context:
  the hypothesis `ArgIndep` of the generic theorem is exactly what excludes it, but with a VALUE
  argument it looked like a technicality.

Here (`Core/DagCtx.lean`): `Entry` = the entry method (`enter` the field assignments, `view` what node
functions read through the fields in the current world, `leave` the fields written during the walk),
`runOps` = one long-lived instance through a history of world MUTATIONS and calls, `pureOps` = each call
answered from (expression, current world) alone.  The theorems hold for every node function, both cache
policies, every world, every mutation function and every history; the one new hypothesis is `Resets`
(the entry method re-derives everything the node functions read from the call's own arguments and the
world as it is now), met by `ExpressionQuantifiersRemover.remove_quantifiers` as found and refuted for
the seeded variant on a kernel-checked three-operation history.
-/
namespace UPVerif.C14
open UPVerif UPVerif.Dag

variable {Arg Val ε Wd F Key Mut : Type}

/-! ## the generic statement -/

/-- **One call, no hypothesis on the entry method**: on an instance whose machine is clean the call
    returns the plain recursion on what the node functions see — the fields as the entry method
    left them, and the world AS IT IS NOW through them — and the machine is clean again (also when
    the walk raised). -/
theorem C14_ctx_result (S : Spec Arg Val ε) (hS : ArgIndep S) (En : Entry Wd F Key Arg) (W : Wd)
    (I : Inst F Val) (k : Key) (e : Expr) (hw : Clean S I.walker) :
    (ctxCall S En W I k e).1 = liftPure (pureWalk S (En.view W (En.enter W I.fields k)) e) ∧
    Clean S (ctxCall S En W I k e).2.walker :=
  ctxCall_spec S hS En W I k e hw

/-- **History independence with a mutable context**: through any interleaving of world mutations and
    calls (any keys, failing or not) one long-lived instance answers every call with the value
    computed from the expression and the world at the moment of the call — whatever the instance
    saw, or was left holding, by earlier calls. -/
theorem C14_ctx_history_independent (S : Spec Arg Val ε) (hS : ArgIndep S) (En : Entry Wd F Key Arg)
    (hR : Resets En) (apply : Mut → Wd → Wd) (init : F) (W : Wd) (I : Inst F Val)
    (hw : Clean S I.walker) (ops : List (CtxOp Mut Key)) :
    (runOps S En apply W I ops).1 = pureOps S En apply init W ops :=
  (runOps_spec S hS En hR apply init ops W I hw).1

/-- … which is what a BRAND-NEW instance answers to the same call at that moment (the fresh-instance
    comparison of the property) -/
theorem C14_ctx_same_as_fresh_instance (S : Spec Arg Val ε) (hS : ArgIndep S) (En : Entry Wd F Key Arg)
    (hR : Resets En) (apply : Mut → Wd → Wd) (init : F) (W : Wd) (I : Inst F Val)
    (hw : Clean S I.walker) (ops : List (CtxOp Mut Key)) :
    (runOps S En apply W I ops).1 = freshOps S En apply init W ops := by
  rw [C14_ctx_history_independent S hS En hR apply init W I hw ops, freshOps_eq_pureOps S hS En apply init ops W]

/-- and the machine of the instance is clean after the whole history -/
theorem C14_ctx_history_clean (S : Spec Arg Val ε) (hS : ArgIndep S) (En : Entry Wd F Key Arg)
    (hR : Resets En) (apply : Mut → Wd → Wd) (init : F) (W : Wd) (I : Inst F Val)
    (hw : Clean S I.walker) (ops : List (CtxOp Mut Key)) :
    Clean S (runOps S En apply W I ops).2.2.walker :=
  (runOps_spec S hS En hR apply init ops W I hw).2

/-- the same with fields fixed by the CONSTRUCTOR (`Inv`: e.g. the problem the walker was built on):
    the comparison is with a brand-new instance built with the same constructor arguments -/
theorem C14_ctx_history_independent_on (S : Spec Arg Val ε) (hS : ArgIndep S) (En : Entry Wd F Key Arg)
    (Inv : F → Prop) (hR : ResetsOn En Inv) (apply : Mut → Wd → Wd) (init : F) (hi : Inv init) (W : Wd)
    (I : Inst F Val) (hw : Clean S I.walker) (hf : Inv I.fields) (ops : List (CtxOp Mut Key)) :
    (runOps S En apply W I ops).1 = pureOps S En apply init W ops ∧
    (runOps S En apply W I ops).1 = freshOps S En apply init W ops := by
  have h := (runOps_spec_on S hS En Inv hR apply init hi ops W I hw hf).1
  exact ⟨h, by rw [h, freshOps_eq_pureOps S hS En apply init ops W]⟩

/-! ## `QuantifierSimplifier(env, problem)` / `StateEvaluator(problem)`: entry methods as found,
    node functions arbitrary -/

/-- **Whatever the node functions are** (any one-time-cache `Spec` reading the objects of the problem
    and the assignments / state of the running call): a walker built on problem `p` and used for a
    whole history — objects added to `p` (or to other problems) between calls, calls that raise —
    answers each call from the expression, that call's assignments and the objects `p` has at that
    moment, like a walker just built on `p`. -/
theorem C14_qs_history_independent {A : Type} (S : Spec (ObjView × Option A) Val ε) (hS : S.invalidate = true)
    (p : Nat) (W : QWorld) (I : Inst (QsFields A) Val) (hw : Clean S I.walker) (hp : I.fields.pb = p)
    (ops : List (CtxOp QMut A)) :
    (runOps S (qsEntry A) QMut.apply W I ops).1 =
      pureOps S (qsEntry A) QMut.apply { pb := p, cur := none } W ops :=
  (C14_ctx_history_independent_on S (argIndep_of_invalidate hS) (qsEntry A) (fun f => f.pb = p)
    (qsEntry_resetsOn A p) QMut.apply { pb := p, cur := none } rfl W I hw hp ops).1

/-- what `pureOps` is here: the recursion on (objects of `p` NOW, this call's assignments) -/
example {A : Type} (S : Spec (ObjView × Option A) Val ε) (p : Nat) (W : QWorld) (a : A) (e : Expr)
    (ops : List (CtxOp QMut A)) :
    pureOps S (qsEntry A) QMut.apply { pb := p, cur := none } W (.call a e :: ops) =
      some (liftPure (pureWalk S (W.objects p, some a) e)) ::
        pureOps S (qsEntry A) QMut.apply { pb := p, cur := none } W ops := rfl

example {A : Type} (p : Nat) : ResetsOn (qsEntry A) (fun f => f.pb = p) := qsEntry_resetsOn A p

/-- non-vacuity: a one-time-cache node-function table reading both the objects and the assignments -/
example : ∃ S : Spec (ObjView × Option Nat) Nat Empty, S.invalidate = true :=
  ⟨{ invalidate := true, fn := fun a _ args => .ok ((a.1 "T").length + a.2.getD 0 + args.length),
     special := fun _ _ => none }, rfl⟩

/-! ## `ExpressionQuantifiersRemover` as found -/

/-- non-vacuity of `Resets`: `remove_quantifiers` assigns `self._objects_set` at every call and its
    node functions read the problem through it when they run -/
theorem C14_qrm_entry_resets : Resets qrmEntry := qrmEntry_resets

example (reject : Expr → Bool) : ArgIndep (qrmSpec reject) := argIndep_of_invalidate rfl

/-- what `pureOps` is for the remover: the recursion on the objects the passed problem has NOW -/
example (reject : Expr → Bool) (W : QWorld) (p : Nat) (e : Expr) (ops : List (CtxOp QMut Nat)) :
    pureOps (qrmSpec reject) qrmEntry QMut.apply none W (.call p e :: ops) =
      some (liftPure (qrmPure reject (W.objects p) e)) ::
        pureOps (qrmSpec reject) qrmEntry QMut.apply none W ops := rfl

/-- **The long-lived quantifier remover**: any interleaving of `add_object` on any of the problems and
    `remove_quantifiers(e, problems[p])` (problems alternating or not) answers each call with
    `qrmPure` on the objects the passed problem has at that moment. -/
theorem C14_qrm_history_independent (reject : Expr → Bool) (W : QWorld) (I : Inst (Option Nat) Expr)
    (hw : Clean (qrmSpec reject) I.walker) (ops : List (CtxOp QMut Nat)) :
    (runOps (qrmSpec reject) qrmEntry QMut.apply W I ops).1 =
      pureOps (qrmSpec reject) qrmEntry QMut.apply none W ops :=
  C14_ctx_history_independent _ (argIndep_of_invalidate rfl) _ qrmEntry_resets _ none W I hw ops

/-- the machine instantiated for the remover computes the shared core's `Sim.removeQuantifiers` — the
    function the simulator / compiler properties (C01, C06, …) are stated with — on the objects the
    problem has NOW, whenever the manager refuses nothing (object names are unique: `add_object`
    refuses a second object of the same name) -/
theorem C14_qrm_pure_is_removeQuantifiers (P : Problem) (hN : (P.objects.map (·.1)).Nodup) (e : Expr) :
    qrmPure (fun _ => false) (objsOfProblem P) e = .ok (Sim.removeQuantifiers P e) :=
  qrmPure_eq P hN e

/-- non-vacuity: a problem with two objects; the theorem's value re-checked by evaluation -/
def twoObjects : Problem :=
  { name := "p", types := { fathers := [("T", none)] }, objects := [("t1", "T"), ("t2", "T")], fluents := [],
    init := [], actions := [], goals := [], traj := [], metrics := [] }

example : (twoObjects.objects.map (·.1)).Nodup := by decide

example :
    qrmPure (fun _ => false) (objsOfProblem twoObjects)
        (.quant .all [{ name := "v", ty := .user "T" }]
          (.app (.fluent { name := "bq", ty := .bool, sig := [.user "T"] }) [.leaf (.var { name := "v", ty := .user "T" })])) =
      .ok (.app .and [.app (.fluent { name := "bq", ty := .bool, sig := [.user "T"] }) [.leaf (.obj "t1" "T")],
                      .app (.fluent { name := "bq", ty := .bool, sig := [.user "T"] }) [.leaf (.obj "t2" "T")]]) := by
  decide +kernel

/-- **One environment — shared Substituter, free-variables oracle, fluents extractor — plus a
    long-lived remover and mutable problems**: every operation of any history is answered from its
    own arguments and the current objects alone. -/
theorem C14_envx_history_independent (reject : Expr → Bool) (X : EnvX) (hX : EnvXClean reject X)
    (os : List OpX) : (X.run reject os).1 = pureX reject X.world os :=
  (envxRun_spec reject os X hX).1

theorem C14_envx_stays_clean (reject : Expr → Bool) (X : EnvX) (hX : EnvXClean reject X)
    (os : List OpX) : EnvXClean reject (X.run reject os).2 :=
  (envxRun_spec reject os X hX).2

example (reject : Expr → Bool) (W : QWorld) :
    EnvXClean reject { env := Env.fresh, world := W, qrm := { fields := none, walker := Walker.fresh } } :=
  ⟨EnvClean.fresh reject, Clean.fresh _⟩

/-! ## the seeded change C14-2 violates the property

`qrmCachedEntry`: the objects of each quantified type are kept in a per-instance table that is
dropped only when a DIFFERENT problem object is passed.  One problem with `t1 : T`; call 1 removes
`forall v:T. bq(v)`; the caller adds `t2 : T`; call 3 is call 1 again. -/

def noReject : Expr → Bool := fun _ => false
def vT : Var := { name := "v", ty := .user "T" }
def bq (a : Expr) : Expr := .app (.fluent { name := "bq", ty := .bool, sig := [.user "T"] }) [a]
def allBq : Expr := .quant .all [vT] (bq (.leaf (.var vT)))
def o1 : Expr := .leaf (.obj "t1" "T")
def o2 : Expr := .leaf (.obj "t2" "T")
def world0 : QWorld := { types := { fathers := [("T", none)] }, problems := [[("t1", "T")], []] }
def growHistory : List (CtxOp QMut Nat) := [.call 0 allBq, .mutate (.addObject 0 ("t2", "T")), .call 0 allBq]
def cachedInit : CachedFields := { ref := none, cache := [] }

/-- the seeded variant: the third operation still grounds over `t1` only -/
theorem seeded_witness :
    (runOps (qrmSpec noReject) qrmCachedEntry QMut.apply world0
        { fields := cachedInit, walker := Walker.fresh } growHistory).1 =
      [some (.ok (bq o1)), none, some (.ok (bq o1))] := by decide +kernel

/-- … although its own arguments — the expression and the problem as it is then — give both objects -/
theorem seeded_witness_pure :
    pureOps (qrmSpec noReject) qrmCachedEntry QMut.apply cachedInit world0 growHistory =
      [some (.ok (bq o1)), none, some (.ok (.app .and [bq o1, bq o2]))] := by decide +kernel

/-- so history independence is FALSE for the seeded variant … -/
theorem seeded_not_history_independent :
    ¬ ∀ ops : List (CtxOp QMut Nat),
      (runOps (qrmSpec noReject) qrmCachedEntry QMut.apply world0
          { fields := cachedInit, walker := Walker.fresh } ops).1 =
        pureOps (qrmSpec noReject) qrmCachedEntry QMut.apply cachedInit world0 ops := by
  intro H
  have := H growHistory
  rw [seeded_witness, seeded_witness_pure] at this
  exact absurd this (by decide)

/-- … because its entry method does not meet `Resets` (the hypothesis is not a technicality) -/
theorem seeded_entry_not_resets : ¬ Resets qrmCachedEntry := by
  intro H
  have h := congrFun (H world0 { ref := some 0, cache := [("T", [])] } cachedInit 0) "T"
  revert h
  decide +kernel

/-- the code as found answers the same history correctly (instance of the theorem, re-checked by
    evaluation), also when a second problem is passed in between -/
theorem asFound_grow_witness :
    (runOps (qrmSpec noReject) qrmEntry QMut.apply world0
        { fields := none, walker := Walker.fresh }
        [.call 0 allBq, .mutate (.addObject 0 ("t2", "T")), .call 1 allBq, .call 0 allBq]).1 =
      [some (.ok (bq o1)), none, some (.ok Expr.tt), some (.ok (.app .and [bq o1, bq o2]))] := by
  decide +kernel

/-! ## a cache kept across calls must not read a mutable context

`keptCtxSpec` keeps its cache (`invalidate_memoization=False`) and its node function reads the world
(the salt).  The entry method is blameless (`Resets` holds: there are no fields) — what fails is
`ArgIndep`.  This is why `Simplifier(env, problem)` / `LinearChecker(problem)`, which keep their
cache and read the problem, declare their behaviour undefined once the problem is modified, and why
every walker of the library that reads a mutable context is built with a one-time cache. -/

def yParam : Expr := .leaf (.param "y" .bool)
def saltHistory : List (CtxOp Nat Unit) := [.call () yParam, .mutate 2, .call () yParam]

example : Resets keptCtxEntry := fun _ _ _ _ => rfl

theorem keptCtx_witness :
    (runOps keptCtxSpec keptCtxEntry (fun m _ => m) 1 { fields := (), walker := Walker.fresh } saltHistory).1 =
      [some (.ok 1), none, some (.ok 1)] := by decide +kernel

theorem keptCtx_witness_pure :
    pureOps keptCtxSpec keptCtxEntry (fun m _ => m) () 1 saltHistory =
      [some (.ok 1), none, some (.ok 2)] := by decide +kernel

theorem keptCtx_not_history_independent :
    ¬ ∀ ops : List (CtxOp Nat Unit),
      (runOps keptCtxSpec keptCtxEntry (fun m _ => m) 1 { fields := (), walker := Walker.fresh } ops).1 =
        pureOps keptCtxSpec keptCtxEntry (fun m _ => m) () 1 ops := by
  intro H
  have := H saltHistory
  rw [keptCtx_witness, keptCtx_witness_pure] at this
  exact absurd this (by decide)

theorem keptCtx_not_argIndep : ¬ ArgIndep keptCtxSpec := by
  intro H
  have h := H rfl { salt := 1, bad := [] } { salt := 2, bad := [] } yParam
  revert h
  decide +kernel

end UPVerif.C14
