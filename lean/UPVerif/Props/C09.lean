import UPVerif.Lemmas.KindProgLemmas
import UPVerif.Gen.Features
import UPVerif.Gen.Kinds
/-!
# C09 — Declared resulting problem kind over-approximates the compiled problem's kind

Statements only (helper lemmas live in `Lemmas/KindProgLemmas.lean`).

The property has two clauses.

1. *Per compiler*: `kind(compile P) <= resulting_problem_kind(kind P)` for `P` in the supported
   kind.  This needs executable models of the compilers and of `Problem.kind` (owned by the
   C06/C07/C10 developments); it is kept here at full strength as `C09_compiler_full`
   (a `def … : Prop` over an arbitrary problem type, `kindOf` and `compile`) and is covered, for
   every compiler class, by the correspondence check / oracle of `harness/props/C09.py`.
2. *"Therefore a compiler pipeline selected by the factory from a problem kind accepts each
   intermediate problem it produces."*  This is proved in full, for ALL pipelines and ALL kinds:
   `C09_pipeline_accepts` (generic in the stages), `C09_compiles_of_compilers` (clause 1 for the
   stage compilers gives its hypothesis) and `C09_factory_pipeline_accepts` (instantiated to the
   model of `Factory._get_engine` over the declarations regenerated from /repo).

The inference from 1 to 2 is NOT a consequence of the order axioms alone: it needs every declared
transformer to be monotone (`resulting(k₁) <= resulting(k₂)` whenever `k₁ <= k₂`), because the
factory chains the transformers on DECLARED kinds while the pipeline runs on ACTUAL ones.
Monotonicity is decided for the regenerated programs by a syntactic condition (`Prog.monoB`) and
"the declared result never contains the feature the compiler exists to remove" by a finite check
(run on a copy of each program with features renamed to indices); both are evaluated by
`decide +kernel` and their soundness for ALL input kinds is proved generically
(`C09_monoB_sound`, `C09_transformer_monotone`, `C09_never_declares`); totality (no failing
assertion at the latest version) is `C09_transformer_total`.  Kinds of OLDER versions (a declaration
first upgrades them, `utils._kind_at_latest_version`): `Props/C09Versions.lean`.
-/
namespace UPVerif.C09
open UPVerif.Kind UPVerif.KindProg UPVerif.Gen.Kinds

abbrev T : Tables := UPVerif.Gen.tables

/-! ## clause 1 (per compiler) — full statement, not proved here -/

/-- C09 for one compiler class `d`, over any model of problems: `kindOf` is `Problem.kind`,
    `compile` the compiler (`none` = no problem produced).
    KNOWN FINDING D-C09a (known_findings.json, witness `(probs (ex counter))`): on the real code this is
    FALSE for problems containing `iff` / `implies`, because `Problem.kind` does not report the
    negation / disjunction hidden in them while DNF/NNF/constant folding expose it; there is no
    compiler model here on which the refutation could be kernel-checked, the oracle replays it. -/
def C09_compiler_full {Problem : Type} (T : Tables) (kindOf : Problem → Kind)
    (compile : Problem → Option Problem) (d : Decl) : Prop :=
  ∀ P P', (kindOf P).le T (supportedOf T d.supports) = true → compile P = some P' →
    (kindOf P').le T (execKind d.resulting (kindOf P)) = true

/-- … and for every compiler class of /repo -/
def C09_all_compilers_full {Problem : Type} (kindOf : Problem → Kind)
    (compileOf : Decl → Problem → Option Problem) : Prop :=
  ∀ d ∈ decls, C09_compiler_full T kindOf (compileOf d) d

/-! ## generic facts about kind transformers (every table, every program) -/

/-- membership of a feature in a transformer's output depends only on that feature and on the
    features the body reads -/
theorem C09_transformer_local (p : Prog Feature) (f : Feature) (a b : List Feature)
    (hf : f ∈ a ↔ f ∈ b) (ht : ∀ g ∈ p.tests, (g ∈ a ↔ g ∈ b)) :
    f ∈ p.exec a a ↔ f ∈ p.exec b b := by
  have hag : AgreeOn (fun x => x = f ∨ x ∈ p.tests) a b := by
    intro x hx
    rcases hx with rfl | hx
    · exact hf
    · exact ht x hx
  exact exec_congr p (U := fun x => x = f ∨ x ∈ p.tests) (fun g hg => Or.inr hg) hag hag f (Or.inl rfl)

/-- soundness of the syntactic monotonicity condition `monoB` (every `if` has no `else`, and is
    either `if <positive condition>: <sets, and unsets of features whose presence makes the condition
    true>` or `if not <positive condition>: <unsets only>`): such a body is monotone, jointly in the
    `problem_kind` argument and in the kind it starts from -/
theorem C09_monoB_sound (p : Prog Feature) (h : p.monoB = true) (inp inp' cur cur' : List Feature)
    (hi : ∀ x, x ∈ inp → x ∈ inp') (hc : ∀ x, x ∈ cur → x ∈ cur') :
    ∀ f, f ∈ p.exec inp cur → f ∈ p.exec inp' cur' :=
  monoB_sound p inp inp' cur cur' h hi hc

/-- a monotone body that reads only features valid at `v` is monotone for `<=` on kinds of the
    explicit version `v` (`<=` ignores features that are not valid at `v`) -/
theorem C09_transformer_monotone (T : Tables) (p : Prog Feature) (v : Nat)
    (hmono : p.Monotone) (hvalid : ∀ f ∈ p.tests, isValid T v f = true)
    (a b : Kind) (ha : a.version = some v) (hb : b.version = some v) (hle : a.le T b = true) :
    (execKind p a).le T (execKind p b) = true :=
  execKind_mono_le T p v hmono hvalid a b ha hb hle

/-- a body never fails the version assertion of `_set` on a kind that is new enough for what the
    body adds, so `run` (the model with assertions, used by the driver) is `exec` -/
theorem C09_transformer_total (T : Tables) (ver : Option Nat) (p : Prog Feature)
    (inp cur : List Feature) (hv : ∀ f ∈ p.sets, ∀ v, ver = some v → added T f ≤ v) :
    p.run T ver inp cur = some (p.exec inp cur) :=
  run_eq_exec T ver p inp cur hv

/-- soundness of the finite "never in the output" check run on the renamed copy: `f` is in no
    declared result for an input kind without the features `blockers` -/
theorem C09_never_declares (p : Prog Feature) (names : List Feature) (q : Prog Nat)
    (hq : p.map (fun x => names.idxOf x) = q) (hn : ∀ x ∈ p.feats, x ∈ names)
    (f : Feature) (hf : f ∈ names) (blockers : List Feature) (hbn : ∀ x ∈ blockers, x ∈ names)
    (hchk : q.neverCheck (names.idxOf f) (blockers.map (fun x => names.idxOf x)) = true)
    (k : Kind) (hbl : ∀ x ∈ blockers, x ∉ k.feats) : f ∉ (execKind p k).feats := by
  simp only [Prog.feats, List.mem_append] at hn
  exact neverCheck_sound_map names (idxOf_injOn names) p (fun x hx => hn x (Or.inl hx))
    (fun x hx => hn x (Or.inr hx)) f hf blockers hbn (by rw [hq]; exact hchk) k.feats hbl

/-! ## clause 2 — pipelines -/

/-- THE PIPELINE THEOREM.  Stages with monotone, version-preserving transformers; `d` the kind
    the factory started from; `a, as` the kinds of the problems actually flowing through the
    pipeline.  If the factory's checks hold on the DECLARED chain (`Declared`), the first problem
    is within the declared kind, and every stage compiler satisfies C09 on its ACTUAL input
    (`Compiles`), then every stage accepts the problem it receives (`Accepted`) and the final
    problem's kind is within the kind the factory ends with. -/
theorem C09_pipeline_accepts (T : Tables) (v : Nat) (stages : List Stage)
    (hgood : ∀ s ∈ stages, s.Good T v) (d a : Kind) (as : List Kind)
    (hd : d.version = some v) (ha : a.version = some v) (has : ∀ k ∈ as, k.version = some v)
    (hdecl : Declared T stages d) (hle : a.le T d = true) (hc : Compiles T stages a as) :
    Accepted T stages a as ∧
    ((a :: as).getLast (List.cons_ne_nil _ _)).le T (finalDeclared stages d) = true :=
  pipeline_accepts T v stages hgood d a as hd ha has hdecl hle hc

/-- the problems `P, P₁, …, Pₙ` are produced one from the other by the compilers `cs` -/
def Produces {Problem : Type} : List (Decl × (Problem → Option Problem)) → Problem → List Problem → Prop
  | [], _, rest => rest = []
  | _ :: _, _, [] => False
  | c :: cs, P, P' :: Ps => c.2 P = some P' ∧ Produces cs P' Ps

/-- clause 1 for the stage compilers yields the hypothesis `Compiles` of the pipeline theorem -/
theorem C09_compiles_of_compilers {Problem : Type} (T : Tables) (kindOf : Problem → Kind) :
    ∀ (cs : List (Decl × (Problem → Option Problem))) (P : Problem) (Ps : List Problem),
      (∀ c ∈ cs, C09_compiler_full T kindOf c.2 c.1) → Produces cs P Ps →
      Compiles T (cs.map (fun c => stageOf T c.1)) (kindOf P) (Ps.map kindOf) := by
  intro cs
  induction cs with
  | nil =>
    intro P Ps _ hp
    simp only [Produces] at hp
    subst hp
    simp [Compiles]
  | cons c cs ih =>
    intro P Ps hfull hp
    cases Ps with
    | nil => exact absurd hp (by simp [Produces])
    | cons P' Ps =>
      simp only [Produces] at hp
      simp only [List.map_cons, Compiles]
      exact ⟨fun hsup => hfull c List.mem_cons_self P P' hsup hp.1,
        ih P' Ps (fun c' hc' => hfull c' (List.mem_cons_of_mem _ hc')) hp.2⟩

/-! ## the declarations of /repo (regenerated on every run; re-decided here) -/

/-- no feature is newer than the latest problem-kind version (so no `set_*` of a compiler can fail
    its version assertion on a kind of the latest version) -/
theorem versions_ok : versionsOK T = true := by decide +kernel

/-- for every compiler class, `resultingIdx` is `resulting` with features replaced by their
    indices in `names` (the only string comparisons the kernel does for the checks below) -/
theorem decls_indexed : decls.all (fun d => d.idxOK) = true := by decide +kernel

/-- every declared transformer passes the syntactic monotonicity condition -/
theorem decls_monotone : decls.all (fun d => d.resulting.monoB) = true := by decide +kernel

/-- every declared transformer reads only features that are valid at the latest version -/
theorem decls_read_valid :
    decls.all (fun d => d.resulting.tests.all (fun f => isValid T T.latest f)) = true := by
  decide +kernel

/-- the compilers registered in the factory's preference list are compiler classes listed above -/
theorem preference_decls : preference.all (fun e => decls.any (fun d => d.name == e.2.name)) = true := by
  decide +kernel

/-- the feature(s) each compilation kind exists to remove (from the docstrings of
    `CompilationKind` / of the compilers), each with the input features in whose presence the
    compiler is documented NOT to remove it (`blockers`); `GROUNDING` removes no feature -/
def targets : List (String × List (Feature × List Feature)) := [
  ("CONDITIONAL_EFFECTS_REMOVING", [("CONDITIONAL_EFFECTS", [])]),
  -- a disjunction in the scope of a quantifier is not removed (the normal form stops at quantifiers)
  ("DISJUNCTIVE_CONDITIONS_REMOVING",
    [("DISJUNCTIVE_CONDITIONS", ["EXISTENTIAL_CONDITIONS", "UNIVERSAL_CONDITIONS"])]),
  ("NEGATIVE_CONDITIONS_REMOVING", [("NEGATIVE_CONDITIONS", [])]),
  ("QUANTIFIERS_REMOVING", [("EXISTENTIAL_CONDITIONS", []), ("UNIVERSAL_CONDITIONS", []), ("FORALL_EFFECTS", [])]),
  ("TRAJECTORY_CONSTRAINTS_REMOVING", [("TRAJECTORY_CONSTRAINTS", [])]),
  ("USERTYPE_FLUENTS_REMOVING", [("OBJECT_FLUENTS", [])]),
  ("BOUNDED_TYPES_REMOVING", [("BOUNDED_TYPES", [])]),
  ("STATE_INVARIANTS_REMOVING", [("STATE_INVARIANTS", [])]),
  ("INTERPRETED_FUNCTIONS_REMOVING",
    -- the condition of a conditional effect is not rewritten
    [("INTERPRETED_FUNCTIONS_IN_CONDITIONS", ["CONDITIONAL_EFFECTS"]), ("INTERPRETED_FUNCTIONS_IN_DURATIONS", []),
     ("INTERPRETED_FUNCTIONS_IN_BOOLEAN_ASSIGNMENTS", []), ("INTERPRETED_FUNCTIONS_IN_NUMERIC_ASSIGNMENTS", []),
     ("INTERPRETED_FUNCTIONS_IN_OBJECT_ASSIGNMENTS", [])]),
  ("TIMED_TO_SEQUENTIAL", [("CONTINUOUS_TIME", []), ("DISCRETE_TIME", []), ("TIMED_EFFECTS", []), ("TIMED_GOALS", []),
     ("INTERMEDIATE_CONDITIONS_AND_EFFECTS", []), ("DURATION_INEQUALITIES", [])]),
  ("DURATIVE_ACTIONS_TO_PROCESSES", [("INTERMEDIATE_CONDITIONS_AND_EFFECTS", []), ("DURATION_INEQUALITIES", [])]),
  ("UNDEFINED_INITIAL_NUMERIC_REMOVING", [("UNDEFINED_INITIAL_NUMERIC", [])]),
  ("CONFORMANT_TO_CLASSICAL", [("CONTINGENT", [])]),
  ("GROUNDING", [])]

def targetsOf (d : Decl) : List (Feature × List Feature) :=
  (targets.filter (fun t => d.cks.contains t.1)).flatMap (·.2)

/-- no compiler declares, for any input kind without the blockers, a feature its compilation kind
    exists to remove (finite check on the indexed copies) -/
theorem decls_remove_targets :
    decls.all (fun d => (targetsOf d).all (fun t =>
      d.names.contains t.1 && t.2.all (fun x => d.names.contains x) &&
      d.resultingIdx.neverCheck (d.names.idxOf t.1) (t.2.map (fun x => d.names.idxOf x)))) = true := by
  decide +kernel

/-- every compilation kind some compiler supports has an entry in `targets` -/
theorem targets_cover : decls.all (fun d => d.cks.all (fun ck => targets.any (fun t => t.1 == ck))) = true := by
  decide +kernel

/-- every compiler of /repo declares a monotone transformer -/
theorem C09_decl_monotone (d : Decl) (hd : d ∈ decls) : d.resulting.Monotone := by
  have hm := decls_monotone
  rw [List.all_eq_true] at hm
  exact monotone_of_monoB d.resulting (hm d hd)

/-- for every compiler of /repo and every kind (without the blockers), the declared result does
    not contain a target feature -/
theorem C09_declared_removes_target (d : Decl) (hd : d ∈ decls) (t : Feature × List Feature)
    (ht : t ∈ targetsOf d) (k : Kind) (hbl : ∀ x ∈ t.2, x ∉ k.feats) :
    t.1 ∉ (execKind d.resulting k).feats := by
  have hi := decls_indexed
  have h := decls_remove_targets
  rw [List.all_eq_true] at h hi
  have h1 := h d hd
  rw [List.all_eq_true] at h1
  have h2 := h1 t ht
  simp only [Bool.and_eq_true, List.contains_iff_mem, List.all_eq_true] at h2
  exact decl_never d (hi d hd) t.1 h2.1.1 t.2 h2.1.2 h2.2 k.feats hbl

/-- every compiler of /repo is a good pipeline stage at the latest version -/
theorem C09_decl_good (d : Decl) (hd : d ∈ decls) : (stageOf T d).Good T T.latest := by
  have hv := decls_read_valid
  rw [List.all_eq_true] at hv
  have hv1 := hv d hd
  rw [List.all_eq_true] at hv1
  exact stageOf_good T d (C09_decl_monotone d hd) hv1

/-- on kinds of the latest version, the model with assertions (`Decl.resultingKind`, what the
    driver runs and the correspondence compares with the code) never fails and equals `execKind` -/
theorem C09_resulting_total (d : Decl) (k : Kind) (hk : k.version = some T.latest) :
    d.resultingKind T k = some (execKind d.resulting k) :=
  resultingKind_eq T versions_ok d k hk

/-- THE FACTORY INSTANCE.  `pref` = the compilers registered in a factory, in preference order
    (any list of compiler classes of /repo).  If `Factory._get_engine` returns a pipeline for the
    problem kind `pk` and the compilation kinds `cks` (`chain … = .ok stages fin`), and the
    problems flowing through it have kinds `a, as` with `a <= pk` and every stage compiler
    satisfying C09 on its actual input, then every stage's `supports` check in
    `CompilersPipeline.compile` succeeds. -/
theorem C09_factory_pipeline_accepts (pref : List (String × Decl)) (hpref : ∀ e ∈ pref, e.2 ∈ decls)
    (pk : Kind) (hpk : pk.version = some T.latest) (cks : List String)
    (stages : List (String × Decl × Kind)) (fin : Kind)
    (hchain : chain T pref pk cks = .ok stages fin)
    (a : Kind) (as : List Kind) (ha : a.version = some T.latest)
    (has : ∀ k ∈ as, k.version = some T.latest) (hle : a.le T pk = true)
    (hc : Compiles T (stages.map (fun s => stageOf T s.2.1)) a as) :
    Accepted T (stages.map (fun s => stageOf T s.2.1)) a as := by
  obtain ⟨hdecl, hmem, _⟩ := chain_declared T versions_ok pref cks pk stages fin hpk hchain
  have hgood : ∀ s ∈ stages.map (fun s => stageOf T s.2.1), s.Good T T.latest := by
    intro s hs
    rw [List.mem_map] at hs
    obtain ⟨e, he, rfl⟩ := hs
    exact C09_decl_good e.2.1 (hpref _ (hmem e he))
  exact (C09_pipeline_accepts T T.latest _ hgood pk a as hpk ha has hdecl hle hc).1

/-! ## non-vacuity -/
section examples

def kP : Kind := { feats := ["ACTION_BASED", "CONDITIONAL_EFFECTS", "EXISTENTIAL_CONDITIONS", "FLAT_TYPING"], version := some 3 }
def kQ : Kind := { feats := ["ACTION_BASED", "NEGATIVE_CONDITIONS", "EXISTENTIAL_CONDITIONS", "FLAT_TYPING"], version := some 3 }
def kR : Kind := { feats := ["ACTION_BASED", "NEGATIVE_CONDITIONS", "DISJUNCTIVE_CONDITIONS", "FLAT_TYPING"], version := some 3 }

/-- the factory model selects a two-stage pipeline for `kP` … -/
example : (match chain T preference kP ["CONDITIONAL_EFFECTS_REMOVING", "QUANTIFIERS_REMOVING"] with
           | .ok st fin => st.map (·.1) == ["up_conditional_effects_remover", "up_quantifiers_remover"] &&
                           fin.le T kR && kR.le T fin
           | _ => false) = true := by decide +kernel

/-- … the kinds `kP, kQ, kR` satisfy `Compiles` for it, so `C09_factory_pipeline_accepts` applies
    (the premise `kP <= supported` of the first conjunct is what the factory just checked) -/
example : Compiles T [stageOf T ConditionalEffectsRemover, stageOf T QuantifiersRemover] kP [kQ, kR] := by
  refine ⟨fun _ => by decide +kernel, fun _ => by decide +kernel, rfl⟩

/-- a transformer that is NOT monotone is rejected by the condition (so `decls_monotone` says
    something): `if has_negative_conditions: unset DISJUNCTIVE_CONDITIONS` -/
example : (Prog.ite (.has .cur [0]) (.unset 1 .done) .done .done : Prog Nat).monoB = false := by
  decide +kernel

/-- … and a declaration that leaves the target in is rejected by `neverCheck`:
    `if has_equalities: unset DISJUNCTIVE_CONDITIONS` -/
example : (Prog.ite (.has .cur [0]) (.unset 1 .done) .done .done : Prog Nat).neverCheck 1 = false := by
  decide +kernel

/-- the version assertion of `_set` is modelled: the body of `DurativeActionToProcesses` started from
    `problem_kind.clone()` (what every class did before `utils._kind_at_latest_version`) sets the
    version-3 feature PROCESSES on a version-2 kind … -/
example : ({ DurativeActionToProcesses with atLatest := false } : Decl).resultingKind T
    { feats := ["ACTION_BASED"], version := some 2 } = none := by
  decide +kernel

/-- … the declaration as it is starts from the kind upgraded to the latest version and declares a
    version-3 kind (all versions: `Props/C09Versions.lean`) -/
example : (DurativeActionToProcesses.resultingKind T { feats := ["ACTION_BASED"], version := some 2 }).map
    (fun k => (k.version, k.feats.contains "PROCESSES")) = some (some 3, true) := by
  decide +kernel

end examples

end UPVerif.C09
