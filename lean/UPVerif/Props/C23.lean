import UPVerif.Lemmas.BuildInv
/-!
# C23 — The model only stores type-correct values

Statements only (helper lemmas: `Lemmas/BuildInv.lean`).  Model: `Core/Build.lean`, mirroring the code
after the fix (default initial values — per fluent and per type — get the checks explicit initial
values always had; `set_initial_value` rejects non-constant values).  "Type-compatible" is the
library's `is_compatible_type` (`Build.compatTy`: subtype for user types, OVERLAP of the intervals
for numbers); the type of a value comes from the type checker, a parameter `E.typeOf` of the model.
-/
namespace UPVerif.C23
open UPVerif UPVerif.Build

/-- `Problem(name, initial_defaults=…)` only stores checked per-type defaults -/
theorem C23_new_typeCorrect {E : Env} {name : String} {d : List (Ty × Expr)} {s : State}
    (h : newProblem E name d = .ok s) : typeCorrect E s = true :=
  (typeCorrect_iff E s).2 (tc_newProblem h)

/-- the invariant is preserved by EVERY building call, accepted or rejected -/
theorem C23_preserved (E : Env) (s : State) (op : Build.Op) (h : typeCorrect E s = true) :
    typeCorrect E (apply E s op).st = true :=
  (typeCorrect_iff E _).2 (tc_apply E op ((typeCorrect_iff E s).1 h))

/-- … hence holds after every history of calls on a new problem -/
theorem C23_histories {E : Env} {name : String} {d : List (Ty × Expr)} {s0 : State}
    (h : newProblem E name d = .ok s0) (ops : List Build.Op) :
    typeCorrect E (runOps E s0 ops).1 = true :=
  (typeCorrect_iff E _).2 (tc_runOps E ops (tc_newProblem h))

/-- every problem (every state reachable through the API) satisfies the invariant -/
theorem C23_reachable {E : Env} {s : State} (h : Reachable E s) : typeCorrect E s = true :=
  (typeCorrect_iff E s).2 (tc_reachable h)

/-- what the invariant says, spelled out: explicit initial values, per-fluent defaults and per-type
    defaults are constants compatible with their fluent / type; the value of every effect of every
    action and every timed effect is compatible with the fluent it modifies -/
theorem C23_stored_values {E : Env} {s : State} (h : typeCorrect E s = true) :
    (∀ fv ∈ s.init, ∃ f args, fv.1 = Expr.mkFluent f args ∧ fv.2.isConstant = true ∧ valueOK E f.ty fv.2 = true) ∧
    (∀ fd ∈ s.fluentsDefaults, fd.2.isConstant = true ∧ valueOK E fd.1.ty fd.2 = true) ∧
    (∀ td ∈ s.initialDefaults, td.2.isConstant = true ∧ valueOK E td.1 td.2 = true) ∧
    (∀ a ∈ s.actions, ∀ e ∈ a.effs, ∃ f args, e.fluent = Expr.mkFluent f args ∧ valueOK E f.ty e.value = true) ∧
    (∀ te ∈ s.timedEffects, ∀ e ∈ te.2, ∃ f args, e.fluent = Expr.mkFluent f args ∧ valueOK E f.ty e.value = true) := by
  have tc := (typeCorrect_iff E s).1 h
  have effx : ∀ e : Effect, effOK E e = true →
      ∃ f args, e.fluent = Expr.mkFluent f args ∧ valueOK E f.ty e.value = true := by
    intro e he
    unfold effOK at he
    cases hf : e.fluent with
    | leaf l => simp [hf, asFluentExp] at he
    | quant q vs b => simp [hf, asFluentExp] at he
    | app o args =>
      cases o <;> simp [hf, asFluentExp] at he
      rename_i f
      exact ⟨f, args, rfl, he⟩
  refine ⟨?_, ?_, ?_, ?_, ?_⟩
  · intro fv hfv
    have := tc.init fv hfv
    unfold initOK at this
    cases hf : fv.1 with
    | leaf l => simp [hf, asFluentExp] at this
    | quant q vs b => simp [hf, asFluentExp] at this
    | app o args =>
      cases o <;> simp [hf, asFluentExp] at this
      rename_i f
      exact ⟨f, args, rfl, this.1, this.2⟩
  · intro fd hfd
    have := tc.fdef fd hfd
    simpa [checkDefault] using this
  · intro td htd
    have := tc.idef td htd
    simpa [checkDefault] using this
  · intro a ha e he; exact effx e (tc.aeff a ha e he)
  · intro te hte e he; exact effx e (tc.teff te hte e he)

/-- a call that raises anything but the `UPProblemDefinitionError` of a name clash leaves the problem
    exactly as it was — in particular every call rejected with `UPTypeError` for an incompatible or
    non-constant value -/
theorem C23_reject_leaves_unchanged (E : Env) (s : State) (op : Build.Op) (e : Err)
    (h : (apply E s op).err = some e) (hne : e ≠ .problemDef) : (apply E s op).st = s :=
  apply_err_unchanged E s op e h hne

theorem C23_type_error_leaves_unchanged (E : Env) (s : State) (op : Build.Op)
    (h : (apply E s op).err = some .typeError) : (apply E s op).st = s :=
  apply_err_unchanged E s op .typeError h (by decide)

/-- incompatible or non-constant values ARE rejected, with `UPTypeError`: explicit initial value … -/
theorem C23_rejects_bad_initial_value (E : Env) (s : State) (f : FluentRef) (args : List Expr) (v : Expr)
    (harity : args.length = f.sig.length) (hargs : args.all Expr.isConstant = true)
    (hbad : valueOK E f.ty v = false ∨ v.isConstant = false) :
    (apply E s (.setInit (Expr.mkFluent f args) v)).err = some .typeError := by
  simp only [apply, setInit, Expr.mkFluent, asFluentExp, harity, hargs]
  rcases hbad with hb | hb
  · simp [hb]
  · cases hv : valueOK E f.ty v <;> simp [hb]

/-- … default initial value of a fluent (when the name is free) … -/
theorem C23_rejects_bad_default (E : Env) (s : State) (f : FluentRef) (v : Expr)
    (hname : hasName s f.name = false)
    (hbad : valueOK E f.ty v = false ∨ v.isConstant = false) :
    (apply E s (.addFluent f (some v))).err = some .typeError := by
  have hb : checkDefault E f.ty v = false := by
    unfold checkDefault
    rcases hbad with hb | hb <;> simp [hb]
  simp [apply, addFluent, hname, defaultBad, hb]

/-- … per-type defaults of the constructor … -/
theorem C23_rejects_bad_type_default (E : Env) (name : String) (d : List (Ty × Expr)) (tv : Ty × Expr)
    (hmem : tv ∈ d) (hbad : valueOK E tv.1 tv.2 = false ∨ tv.2.isConstant = false) :
    newProblem E name d = .error .typeError := by
  have hb : checkDefault E tv.1 tv.2 = false := by
    unfold checkDefault
    rcases hbad with hb | hb <;> simp [hb]
  unfold newProblem
  rw [if_neg]
  intro hall
  rw [List.all_eq_true] at hall
  have := hall tv hmem
  rw [hb] at this
  cases this

/-- … and the value of an effect added to an action (when the action exists, the target is a
    well-formed fluent expression and the condition is Boolean) -/
theorem C23_rejects_bad_effect_value (E : Env) (s : State) (an : String) (a : ActionSt) (k : EffKind)
    (f : FluentRef) (args : List Expr) (v c : Expr) (vs : List Var)
    (ha : findAction s.actions an = some a) (harity : args.length = f.sig.length)
    (hc : E.typeOf c = some .bool) (hbad : valueOK E f.ty v = false) :
    (apply E s (.actAddEff an k (Expr.mkFluent f args) v c vs)).err = some .typeError := by
  simp [apply, actAddEff, ha, Expr.mkFluent, asFluentExp, harity, buildEffect, hc, hbad]

/-- `ActionInstance(action, params)`: the stored actual parameters are exactly the given ones, each
    a constant compatible with the parameter it instantiates; anything else is rejected -/
theorem C23_action_instance (E : Env) (params : List (String × Ty)) (args stored : List Expr)
    (h : mkInstance E params args = .ok stored) :
    stored = args ∧ args.length = params.length ∧
      ∀ pa ∈ params.zip args, valueOK E pa.1.2 pa.2 = true ∧ pa.2.isConstant = true := by
  unfold mkInstance at h
  split at h
  · cases h
  · rename_i hl
    split at h
    · rename_i hall
      simp only [Except.ok.injEq] at h
      refine ⟨h.symm, ?_, ?_⟩
      · omega
      · intro pa hpa
        rw [List.all_eq_true] at hall
        simpa using hall pa hpa
    · cases h

theorem C23_action_instance_rejects (E : Env) (params : List (String × Ty)) (args : List Expr)
    (hlen : params.length = args.length) (pa : (String × Ty) × Expr) (hmem : pa ∈ params.zip args)
    (hbad : valueOK E pa.1.2 pa.2 = false ∨ pa.2.isConstant = false) :
    mkInstance E params args = .error .typeError := by
  unfold mkInstance
  rw [if_neg (by simp [hlen]), if_neg]
  intro hall
  rw [List.all_eq_true] at hall
  have := hall pa hmem
  rcases hbad with hb | hb <;> simp [hb] at this

/-! ### non-vacuity, and what the code did before the fix -/

def E0 : Env := { types := ⟨[("T", none), ("S", some "T")]⟩, errorUsedName := true,
                  typeOf := tableTypeOf [], simplify := id }

def bRef : FluentRef := { name := "b", ty := .bool, sig := [] }
def nRef : FluentRef := { name := "n", ty := .int (some 0) (some 10), sig := [] }
def rRef : FluentRef := { name := "r", ty := .real none none, sig := [] }
def oRef : FluentRef := { name := "at", ty := .user "T", sig := [] }

/-- the witness of the property text: a Boolean fluent with default 5 -/
example : (apply E0 (freshProblem "p") (.addFluent bRef (some (Expr.int 5)))).err = some .typeError := by decide
/-- legitimate defaults: an int for a real fluent, an object of a subtype, a value inside the bounds -/
example : (runOps E0 (freshProblem "p")
    [.addFluent rRef (some (Expr.int 1)), .addFluent oRef (some (.leaf (.obj "s1" "S"))),
     .addFluent nRef (some (Expr.int 10))]).2 = [none, none, none] := by decide
/-- out of the bounds / not a constant -/
example : (apply E0 (freshProblem "p") (.addFluent nRef (some (Expr.int 11)))).err = some .typeError := by decide
example : (apply E0 (freshProblem "p") (.addFluent nRef (some (Expr.mkFluent nRef [])))).err = some .typeError := by
  decide
example : newProblem E0 "p" [(.bool, Expr.int 5)] = .error .typeError := by rfl
example : ∃ s, newProblem E0 "p" [(.bool, Expr.ff), (.real none none, Expr.int 0)] = .ok s ∧
    typeCorrect E0 s = true := ⟨_, rfl, by decide⟩
/-- a non-constant initial value (type-compatible!) is rejected -/
example : (apply E0 (runOps E0 (freshProblem "p") [.addFluent nRef none]).1
    (.setInit (Expr.mkFluent nRef []) (Expr.mkFluent nRef []))).err = some .typeError := by decide

example : mkInstance E0 [("p0", .bool), ("p1", .user "T")] [Expr.tt, .leaf (.obj "s1" "S")]
    = .ok [Expr.tt, .leaf (.obj "s1" "S")] := by rfl
example : mkInstance E0 [("p1", .user "S")] [.leaf (.obj "t1" "T")] = .error .typeError := by rfl
example : mkInstance E0 [("p1", .user "T")] [.leaf (.param "q" (.user "T"))] = .error .typeError := by rfl

/-- `add_fluent` as found (before the fix): the default is stored unchecked -/
def addFluentAsFound (E : Env) (s : State) (f : FluentRef) (d : Option Expr) : Res :=
  if hasName s f.name && (E.errorUsedName || s.fluents.any (fun g => g.name == f.name)) then
    ⟨some .problemDef, s⟩
  else
    addUserTypes E { s with fluents := s.fluents ++ [f], fluentsDefaults := newDefaults s f d }
      (userTypeNames (f.ty :: f.sig))

/-- refutation of the property for the code as found: the call is accepted and the invariant broken -/
theorem asFound_stores_ill_typed_default :
    (addFluentAsFound E0 (freshProblem "p") bRef (some (Expr.int 5))).err = none ∧
    typeCorrect E0 (addFluentAsFound E0 (freshProblem "p") bRef (some (Expr.int 5))).st = false := by
  decide

/-- an observation outside the property's statement: `add_fluent` / `add_object` / `add_action`
    append BEFORE `_add_user_type` may raise for a name clash, so that one rejected call does leave
    a partial update behind (here: a fluent called `T` of user type `T`) -/
theorem name_clash_leaves_partial_update :
    (apply E0 (freshProblem "p") (.addFluent { name := "T", ty := .user "T", sig := [] } none)).err
      = some .problemDef ∧
    (apply E0 (freshProblem "p") (.addFluent { name := "T", ty := .user "T", sig := [] } none)).st
      ≠ freshProblem "p" := by
  decide

end UPVerif.C23
