import UPVerif.Lemmas.SimplifyElim
import UPVerif.Lemmas.SimplifyFV
import UPVerif.Lemmas.SimplifyIdem
import UPVerif.Lemmas.SimplifyExample
/-!
# C11 — Simplification preserves the meaning of expressions

Statements only (helper lemmas live in `Lemmas/Simplify*.lean`, the hypotheses are defined in
`Lemmas/SimplifySpec.lean`).  `simplify` is the executable model of `Simplifier.simplify`
(`Core/Walkers/Simplify.lean`, mirroring the code repaired by
`notes/patches/C11-simplifier-soundness.patch`); it is tied to the real code by the correspondence
check.  The theorems are stated against the shared reference denotation `den` (exact `Int`/`Rat`, so
"arbitrarily large constants" needs no separate argument) and hold for every fuel of the model
(`Simp.simpF`), hence for `simplify`.

Hypotheses (all defined in `SimplifySpec.lean`):
* `Respects cfg ι oty` — the interpretation is within the declared types (objects, user-typed
  fluents/functions, single-inheritance hierarchy), fixes the static fluents of the problem to their
  initial values and agrees with the interpreted-function tables;
* `cfg.constTables` — initial values / defaults are constants (decidable);
* `WF ι oty e` — object leaves carry their declared type, user-typed parameters have values of their
  type (decidable);
* `EnvOK ι ρ` — free variables are bound to values of their type;
* `QuantInhabited ι e` — every quantifier of `e` ranges over a non-empty domain.  This excludes
  exactly the known finding D-C11e (`walk_forall`/`walk_exists` drop a quantifier whose variable
  does not occur in the body; over an object-less type that changes the value): the full statement
  without it is refuted on a concrete witness below.
-/
namespace UPVerif.C11
open UPVerif UPVerif.Simp UPVerif.Expr

/-! ## clause 1: the simplified expression has the same value -/

/-- the clause at full strength: every defined value of a well-formed expression is preserved -/
def C11_sound_full : Prop :=
  ∀ (cfg : SimpCfg) (ι : Interp) (oty : String → Option String) (e e' : Expr) (ρ : VEnv) (v : Val),
    Respects cfg ι oty → cfg.constTables = true → WF ι oty e → EnvOK ι ρ →
    simplify cfg e = .ok e' → den ι ρ e = some v → den ι ρ e' = some v

/-- proved part: the same, for expressions whose quantifiers range over non-empty domains.
    Missing for the full statement: nothing provable — it is false (D-C11e, next theorem). -/
theorem C11_sound_partial (cfg : SimpCfg) (ι : Interp) (oty : String → Option String)
    (e e' : Expr) (ρ : VEnv) (v : Val)
    (R : Respects cfg ι oty) (hct : cfg.constTables = true) (hwf : WF ι oty e)
    (hqi : QuantInhabited ι e) (hρ : EnvOK ι ρ)
    (h : simplify cfg e = .ok e') (hv : den ι ρ e = some v) : den ι ρ e' = some v :=
  (simpF_sound R hct _ e e' h hwf hqi).2.2 ρ v hρ hv

/-- the same for every fuel of the model (what other models reusing `simpF` need), together with
    the preservation of the hypotheses -/
theorem C11_sound_fuel (cfg : SimpCfg) (ι : Interp) (oty : String → Option String)
    (n : Nat) (e e' : Expr)
    (R : Respects cfg ι oty) (hct : cfg.constTables = true) (hwf : WF ι oty e)
    (hqi : QuantInhabited ι e) (h : simpF cfg n e = .ok e') :
    WF ι oty e' ∧ QuantInhabited ι e' ∧
      ∀ ρ v, EnvOK ι ρ → den ι ρ e = some v → den ι ρ e' = some v :=
  simpF_sound R hct n e e' h hwf hqi

/-! ### D-C11e: the witness `Forall ve : E. b0` over the object-less type `E` -/

def b0 : Expr := .app (.fluent ⟨"b0", .bool, []⟩) []
def cfgE : SimpCfg := SimpCfg.empty ⟨[("E", none)]⟩
/-- `Forall ve : E. b0` -/
def witnessE : Expr := .quant .all [⟨"ve", .user "E"⟩] b0
/-- no objects at all; every Boolean fluent is false -/
def interpE : Interp where
  fl := fun f _ => if f.ty = .bool then some (.b false) else none
  fn := fun _ _ => none
  par := fun _ => none
  dom := fun _ => []

theorem witnessE_simplifies : simplify cfgE witnessE = .ok b0 := by rfl

theorem interpE_respects : Respects cfgE interpE (fun _ => none) where
  objTy := by intro n t h; cases h
  domUp := by intro a b _ v hv; cases hv
  domTree := by intro a b v hv; cases hv
  flTy := by
    intro f args v t hf h
    simp only [interpE, hf] at h
    cases h
  fnTy := by intro g args v t _ h; cases h
  static := by intro f args v hf; cases hf
  funs := by intro g vs r e' h; simp [cfgE, SimpCfg.empty, SimpCfg.funLookup] at h
  tables := by rfl

/-- kernel-checked refutation of the full statement: the original is `true` (empty domain), the
    simplified expression `b0` is `false` -/
theorem C11_sound_full_refuted : ¬ C11_sound_full := by
  intro h
  have := h cfgE interpE (fun _ => none) witnessE b0 [] (.b true) interpE_respects (by rfl) (by rfl)
    (by intro x v hx; cases hx) witnessE_simplifies (by rfl)
  revert this
  decide

/-! ## clause 2: no new free variable -/

theorem C11_no_new_free_vars (cfg : SimpCfg) (hct : cfg.constTables = true) (e e' : Expr)
    (h : simplify cfg e = .ok e') : ∀ x, x ∈ freeVars e' → x ∈ freeVars e :=
  simpF_freeVars cfg hct _ e e' h

/-! ## clause 3: simplifying a simplified expression changes nothing -/

theorem C11_idempotent (cfg : SimpCfg) (hct : cfg.constTables = true) (e e' : Expr)
    (h : simplify cfg e = .ok e') : simplify cfg e' = .ok e' :=
  simplify_idem cfg hct e e' h

/-- for every fuel of the model: a result is a fixed point for every fuel above its depth -/
theorem C11_idempotent_fuel (cfg : SimpCfg) (hct : cfg.constTables = true) (n : Nat) (e e' : Expr)
    (h : simpF cfg n e = .ok e') : ∀ m, depth e' < m → simpF cfg m e' = .ok e' :=
  simpF_idem cfg hct n e e' h

/-! ## the fuel of the model is immaterial -/

/-- a result other than "out of fuel" is the same for every larger fuel -/
theorem C11_fuel_independent (cfg : SimpCfg) (n m : Nat) (hnm : n ≤ m) (e : Expr)
    (r : Except SimpErr Expr) (h : simpF cfg n e = r) (hr : r ≠ .error .fuel) : simpF cfg m e = r :=
  simpF_mono_le cfg hnm e r h hr

/-! ## non-vacuity: a concrete problem, interpretation and expression meeting every hypothesis -/

namespace Ex
example : simplify cfg e = .ok (.app (.fluent bs) [.leaf (.obj "s1" "S")]) := by rfl
example : cfg.constTables = true := by rfl
example : Respects cfg ι oty := respects
example : WF ι oty e := by rfl
example : QuantInhabited ι e := by rfl
example : EnvOK ι [] := by intro x v hx; cases hx
example : den ι [] e = some (.b true) := by decide +kernel

/-- `C11_sound_partial` applies to this instance: the simplified expression `bs(s1)` is true -/
example : den ι [] (.app (.fluent bs) [.leaf (.obj "s1" "S")]) = some (.b true) :=
  C11_sound_partial cfg ι oty e _ [] (.b true) respects (by rfl) (by rfl) (by rfl)
    (by intro x v hx; cases hx) (by rfl) (by decide +kernel)
/-- D-C11c / D-C11f witnesses: one pass reaches the fixed point -/
example : simplify cfg (.quant .ex [q] (.app .and [.app .eq [.leaf (.var q), .leaf (.obj "s1" "S")],
    .app .not [.app .eq [.leaf (.var q), .leaf (.obj "s2" "S")]]])) = .ok tt := by rfl
example : simplify cfg (.app .minus [.app .plus [.app (.fluent at_) [], Expr.int 2], Expr.int (-3)]) =
    .ok (.app .plus [.app (.fluent at_) [], Expr.int 5]) := by rfl
end Ex

/-! arbitrarily large constants: exact integer division far above 2^53 (D-C11a) -/
set_option exponentiation.threshold 500
example : simplify cfgE (.app .div [Expr.int (3 * (2 ^ 60 + 1)), Expr.int 3]) = .ok (Expr.int (2 ^ 60 + 1)) := by rfl
example : simplify cfgE (.app .div [Expr.int (7 * 10 ^ 400), Expr.int 7]) = .ok (Expr.int (10 ^ 400)) := by rfl
example : simplify cfgE (.app .div [Expr.int (10 ^ 400 + 1), Expr.int 10]) =
    .ok (Expr.real ((10 ^ 400 + 1 : Int) / (10 : Int))) := by rfl

end UPVerif.C11
