import UPVerif.Core.PddlRead
import UPVerif.Core.FromPddl
import UPVerif.Lemmas.FromPddlExample
import UPVerif.Lemmas.FromPddlWhole
/-!
# C21 — The two PDDL readers produce equivalent problems

The FIRST reader (`UPPDDLReader`, pyparsing) is modelled by `Pddl.pddlRead` (Core/PddlRead.lean, shared with C18);
the SECOND (`PDDLReader(force_ai_planning_reader=True)`: external `pddl` package + `unified_planning/interop/from_pddl.py`)
by `FromPddl.aiRead = fromPddl ∘ astOf` (Core/FromPddl.lean): `fromPddl` mirrors the converter function by function,
`astOf` states what the external parser builds (the trusted, sampled piece: compared on every run with a dump of the real
package's objects).  Both models are functions of the two token trees; the theorems below relate them FOR ALL TREES, by
structural induction — no size bound.

What "equivalent" means (Lemmas/FromPddlSem.lean, FromPddlRel.lean, FromPddlEffDefs.lean):
* `FRel e e'`   numeric expressions / terms: same free variables and `EqW` — the same value, or both undefined, under
                every instantiation of parameters and variables, in every well-typed state, for every variable assignment;
* `GdRel e e'`  conditions: both built like conditions, same free variables, same truth value (hence `EqW`);
* `EffRel`, `EffsRel`  effects: same target, kind and quantified variables, `FRel` values, `GdRel` conditions; lists of
                effects up to ORDER (the first reader walks breadth first, the converter depth first with a stack);
* `ActRel`      actions: same name and parameters, `GdRel` preconditions (as conjunctions), `EffsRel` effects, the cost the
                converter extracts being the `increase` of `total-cost` the first reader keeps as an effect.
`C21_related_actions_same_successor` ties these relations to C01: related preconditions and effects have the same
documented successor (`Spec.successorOf`) from every well-typed state under every instantiation.

Status
* `C21_numeric_expressions`, `C21_conditions`, `C21_effects`, `C21_actions` — FULL for their syntactic class: for every
  tree on which both models are defined and that satisfies the decidable side conditions `fexpOK` / `gdOK` / `effOK` /
  `actionOK` (Lemmas/FromPddlFrag.lean, FromPddlEffLeaf.lean, FromPddlAction.lean), which exclude exactly the three
  behaviours of the external parser recorded as findings D-C21a/b/c (each refuted below on a concrete witness), ill-typed
  atoms (rejected by both real readers' type checker, which the models do not contain) and quantifiers declaring one name
  twice.  Hypotheses `EnvAgree` / `NamesOK` / `CostAgree`: the two readers' symbol tables describe the same declarations.
* `C21_related_actions_same_successor` — FULL (semantics of the relations w.r.t. C01's successor).
* `C21_readers_equivalent_partial` — the WHOLE PROBLEM, for every pair of token trees both readers accept: same name,
  same fluents, same objects, same initial values, related goals, related actions (pairwise, in order), related metric.
  PARTIAL in two respects, stated by `C21_readers_equivalent_full` (a `def … : Prop`, not proved):
    - no function called `total-cost` (`FilesOK.noTC`): the action-cost bookkeeping that moves `total-cost` into a
      `MinimizeActionCosts` metric is proved per action (`C21_actions` with `CostAgree`, cost = the `increase` the first
      reader keeps) but not assembled over the problem;
    - the user-type hierarchy (`Problem.types`) is not in `ProblemRel`: the first reader's `resolveTypes` and the
      converter's `userTypes` build it in different orders; it is compared (sorted) by the correspondence only.
  Remaining hypotheses: `NamesOK` (no fluent or object is spelled like a number, no object like a fluent) and the
  decidable `FilesOK` (= `filesOKb`): the side conditions above on every action, goal and metric, and no verbatim
  repetition among predicate declarations, actions and `:init` items (the external parser keeps these in sets).
* the instantiation in `EqW` is the structural `inst` (parameters / variables replaced by the substitution's values); it
  coincides with the simulator's `Sim.substE` on expressions built by the expression manager (not proved here).
-/
namespace UPVerif.C21
open UPVerif UPVerif.Expr UPVerif.Pddl UPVerif.FromPddl UPVerif.Sim UPVerif.Spec

/-- the reference reader is a function of the two trees (kept from the translation-validation stage) -/
theorem C21_reference_reader_functional (dom prob : Sexp) (P Q : Problem)
    (h1 : pddlRead dom prob = some P) (h2 : pddlRead dom prob = some Q) : P = Q := by
  rw [h1] at h2
  exact Option.some.inj h2

/-! ## expressions -/

/-- **Numeric expressions.**  On every tree that both readers accept as a numeric expression — nested and n-ary `+`/`*`
    (the external parser splices them), `/`, unary minus (folded on constants by the converter, `-1 * e` for the first
    reader), numbers, function applications — the two results have the same free variables and the same value under every
    instantiation in every well-typed state.  `fexpOK`: no operand is dropped by the external parser (D-C21a). -/
theorem C21_numeric_expressions {E : REnv} {CE : CEnv} {ps : List (String × Ty)} (ag : EnvAgree E CE ps) (nm : NamesOK E)
    (C : PCtx) (t : Sexp) (sc qv : List Var) (e : Expr) (φ : Form) (e' : Expr) (hs : ScopeAgree sc qv)
    (hU : readExpr E sc t = some e) (hA : astFexp C t = some φ) (hQ : convExpr CE ps qv φ = some e')
    (hok : fexpOK C t = true) : FRel e e' :=
  fexp_agree ag nm C t sc qv e φ e' hs hU hA hQ hok

/-- **Conditions.**  On every tree that both readers accept as a condition — nested / repeated / empty `and`, `or` (spliced
    and de-duplicated by the external parser, kept by the first reader), `not` (double negations collapsed by the manager),
    `imply`, `exists` / `forall` (a quantified variable may re-use the name of a parameter or of an enclosing variable:
    the innermost binding wins in both), `<`, `<=`, `>`, `>=`, `=` on numbers in either operand order, `=` on terms,
    atoms — the two results are built like conditions, have the same free variables and the same truth value under every
    instantiation in every well-typed state. -/
theorem C21_conditions {E : REnv} {CE : CEnv} {ps : List (String × Ty)} (ag : EnvAgree E CE ps) (nm : NamesOK E)
    (C : PCtx) (t : Sexp) (sc qv : List Var) (e : Expr) (φ : Form) (e' : Expr) (hs : ScopeAgree sc qv)
    (hU : readExpr E sc t = some e) (hA : astGd C t = some φ) (hQ : convExpr CE ps qv φ = some e')
    (hok : gdOK E.fluents C t = true) : GdRel e e' :=
  gd_agree ag nm C t sc qv e φ e' hs hU hA hQ hok

/-- related conditions are interchangeable: same value or both undefined, everywhere -/
theorem C21_related_conditions_equivalent {e e' : Expr} (h : GdRel e e') : EqW e e' := h.eqW

-- non-vacuity: concrete symbol tables meet `EnvAgree` / `NamesOK`, and a condition with nested and repeated conjuncts, an
-- empty `and`, a double negation, a quantifier shadowing the parameter `?u`, `>=`, a nested sum, a unary minus, an equality
-- of terms and one of numbers is accepted by both models and meets `gdOK`
example : EnvAgree Example.E0 Example.CE0 Example.ps0 := Example.envAgree0
example : NamesOK Example.E0 := Example.namesOK0
example : ScopeAgree [] [] := scope_refl []
example : (readExpr Example.E0 [] Example.cond0).isSome = true ∧
    ((astGd Example.C0 Example.cond0).bind (convExpr Example.CE0 Example.ps0 [])).isSome = true ∧
    gdOK Example.E0.fluents Example.C0 Example.cond0 = true := by decide +kernel
example : (readExpr Example.E0 [] (Example.l [Example.a "*", Example.l [Example.a "y"], Example.l [Example.a "*", Example.a "2", Example.l [Example.a "x"]]])).isSome = true ∧
    fexpOK Example.C0 (Example.l [Example.a "*", Example.l [Example.a "y"], Example.l [Example.a "*", Example.a "2", Example.l [Example.a "x"]]]) = true := by
  decide +kernel

/-! ## effects and actions -/

/-- **Effects.**  On every `:effect` both readers accept — conjunctions, `when`, `forall` (also shadowing a parameter),
    atoms, negated atoms, `assign` / `increase` / `decrease`, the cost effect on `total-cost` — the effects the first
    reader's breadth-first walk yields and those the converter's stack yields (plus, for a cost, the `increase` of
    `total-cost` that the first reader keeps) are the same up to order, pairwise related. -/
theorem C21_effects {E : REnv} {CE : CEnv} {ps : List (String × Ty)} {hc : Bool} {tc : Expr} (ag : EnvAgree E CE ps)
    (nm : NamesOK E) (C : PCtx) (ca : CostAgree E hc tc) (t : Sexp) (φ : Form) (es out : List Effect) (cost : Option Expr)
    (hU : readEffects E t = some es) (hA : astEffect C t = some φ)
    (hQ : convEffects CE hc ps φ = some (out, cost)) (hok : effOK E.fluents C t = true) :
    EffsRel es (out ++ cost.toList.map (costEff tc)) :=
  effects_agree ag nm C ca t φ es out cost hU hA hQ hok

/-- **Actions.**  On every `(:action …)` form both readers accept: same name, same parameters, related preconditions,
    related effects.  `actionOK`: the precondition is not `()` (D-C21b), `gdOK` on it, `effOK` on the effect. -/
theorem C21_actions {E : REnv} {CE : CEnv} {hc : Bool} {tc : Expr} (C : PCtx) (nm : NamesOK E) (ca : CostAgree E hc tc)
    (hfl : ∀ n f, CE.fluent? n = some f → E.fluent? n = some f)
    (hobj : ∀ s, E.objects.lookup s = CE.objects.lookup s ∨ E.objects.lookup s = none)
    (hof : ∀ s t, CE.objects.lookup s = some t → E.fluent? s = none)
    (hid : ∀ t n, (CE.types.lookup t).join = some n → n = t)
    (t : Sexp) (a : Action) (pa : PAction) (a' : Action) (cost : Option Expr)
    (hU : readAction E t = some a) (hA : astAction C t = some pa) (hQ : convAction CE hc pa = some (a', cost))
    (hok : actionOK E.fluents C t = true) : ActRel tc a a' cost :=
  action_agree C nm ca hfl hobj hof hid t a pa a' cost hU hA hQ hok

-- non-vacuity: an action with the condition above as precondition and conditional, universal (shadowing) and numeric effects
example : NamesOK Example.E1 := Example.namesOK1
example : CostAgree Example.E1 false Expr.tt := ⟨fun h => by cases h⟩
example : (readAction Example.E1 Example.act0).isSome = true ∧
    ((astAction Example.C0 Example.act0).bind (convAction Example.CE0 false)).isSome = true ∧
    actionOK Example.E1.fluents Example.C0 Example.act0 = true := by decide +kernel

/-- **What the relations mean for C01.**  Preconditions related as conjunctions and effects related up to order have the
    same documented successor (`Spec.successorOf`: applicability and resulting state) from every well-typed state, under
    every instantiation of parameters and universally quantified variables. -/
theorem C21_related_actions_same_successor (W : World) (s : SimState) (w : WTCtx (ctx W s)) {tc : Expr} {a a' : Action}
    (h : ActRel tc a a' none) (σs : List Subst) :
    successorOf W s (a.pre.map (instAll σs)) (a.effs.map (instEff σs)) =
      successorOf W s (a'.pre.map (instAll σs)) (a'.effs.map (instEff σs)) := by
  have he : EffsRel a.effs a'.effs := by simpa using h.effs
  exact successorOf_congr W s w h.pre he σs

/-! ## the three behaviours of the external parser that break the equivalence (findings D-C21a, D-C21b, D-C21c)

Each `_unrestricted` statement is the theorem above WITHOUT its side condition; it is refuted on a concrete witness. -/

def C21_numeric_expressions_unrestricted : Prop :=
  ∀ (E : REnv) (CE : CEnv) (ps : List (String × Ty)) (C : PCtx) (t : Sexp) (e : Expr) (φ : Form) (e' : Expr),
    EnvAgree E CE ps → NamesOK E → readExpr E [] t = some e → astFexp C t = some φ → convExpr CE ps [] φ = some e' → EqW e e'

/-- D-C21a: `(+ (x) (x) (y))` — the external parser drops the second `(x)`: in a state with `x = 1`, `y = 0` the first
    reader's expression is worth 2, the second reader's 1 -/
theorem C21_repeated_operands_witness : ¬ C21_numeric_expressions_unrestricted := by
  intro h
  have hU : readExpr Example.E0 [] Example.sum0 = some
      (.app .plus [.app (.fluent Example.fx) [], .app (.fluent Example.fx) [], .app (.fluent Example.fy) []]) := by
    decide +kernel
  have hA : (astFexp Example.C0 Example.sum0).bind (convExpr Example.CE0 Example.ps0 []) = some
      (.app .plus [.app (.fluent Example.fx) [], .app (.fluent Example.fy) []]) := by decide +kernel
  rw [Option.bind_eq_some_iff] at hA
  obtain ⟨φ, hφ, hc⟩ := hA
  have := h Example.E0 Example.CE0 Example.ps0 Example.C0 Example.sum0 _ φ _ Example.envAgree0 Example.namesOK0 hU hφ hc
    [] Example.c0 [] Example.wt_c0
  revert this
  decide +kernel

def C21_actions_unrestricted : Prop :=
  ∀ (E : REnv) (CE : CEnv) (C : PCtx) (t : Sexp) (a : Action) (pa : PAction) (a' : Action),
    NamesOK E → (∀ n f, CE.fluent? n = some f → E.fluent? n = some f) → CE.objects = E.objects →
    (∀ s t, CE.objects.lookup s = some t → E.fluent? s = none) →
    (∀ t n, (CE.types.lookup t).join = some n → n = t) →
    readAction E t = some a → astAction C t = some pa → convAction CE false pa = some (a', none) →
    GdRel (mkAnd a.pre) (mkAnd a'.pre)

/-- D-C21b: `:precondition ()` — TRUE for the first reader, `(or)` = FALSE for the external parser -/
theorem C21_empty_precondition_witness : ¬ C21_actions_unrestricted := by
  intro h
  have hU : (readAction Example.E1 Example.actB).map (·.pre) = some [] := by decide +kernel
  have hA : ((astAction Example.C0 Example.actB).bind (convAction Example.CE0 false)).map (fun r => (r.1.pre, r.2)) =
      some ([Expr.ff], none) := by decide +kernel
  rw [Option.map_eq_some_iff] at hU hA
  obtain ⟨a, ha, hpre⟩ := hU
  obtain ⟨⟨a', cost⟩, haa, hpre'⟩ := hA
  rw [Option.bind_eq_some_iff] at haa
  obtain ⟨pa, hpa, hcv⟩ := haa
  simp only [Prod.mk.injEq] at hpre'
  obtain ⟨hp', rfl⟩ := hpre'
  have hr := h Example.E1 Example.CE0 Example.C0 Example.actB a pa a' Example.namesOK1 (fun _ _ x => x) rfl Example.objFluent0 Example.types_id0
    ha hpa hcv
  rw [hpre, hp'] at hr
  have := hr.eq [] Example.c0 [] Example.wt_c0
  revert this
  decide +kernel

def C21_effects_unrestricted : Prop :=
  ∀ (E : REnv) (CE : CEnv) (ps : List (String × Ty)) (C : PCtx) (t : Sexp) (φ : Form) (es out : List Effect),
    EnvAgree E CE ps → NamesOK E → readEffects E t = some es → astEffect C t = some φ →
    convEffects CE false ps φ = some (out, none) → es.length = out.length

/-- D-C21c: `(and (increase (y) 1) (increase (y) 1))` — two effects for the first reader (`y += 2`), one for the second -/
theorem C21_repeated_effects_witness : ¬ C21_effects_unrestricted := by
  intro h
  have hU : (readEffects Example.E0 Example.effC).map List.length = some 2 := by decide +kernel
  have hA : ((astEffect Example.C0 Example.effC).bind (convEffects Example.CE0 false Example.ps0)).map
      (fun r => (r.1.length, r.2)) = some (1, none) := by decide +kernel
  rw [Option.map_eq_some_iff] at hU hA
  obtain ⟨es, hes, hl⟩ := hU
  obtain ⟨⟨out, cost⟩, hoc, hl'⟩ := hA
  rw [Option.bind_eq_some_iff] at hoc
  obtain ⟨φ, hφ, hcv⟩ := hoc
  simp only [Prod.mk.injEq] at hl'
  obtain ⟨hlo, rfl⟩ := hl'
  have := h Example.E0 Example.CE0 Example.ps0 Example.C0 Example.effC φ es out Example.envAgree0 Example.namesOK0 hes hφ hcv
  omega

/-! ## the whole problem

`ProblemRel P R` (Lemmas/FromPddlWhole.lean): same name, fluents, objects and initial values; `GdRel` goals; actions
pairwise `ActRel … none`, in order; metrics pairwise `MetricRel` (`FRel` expressions).  `FilesOK` = `filesOKb`, decidable. -/

/-- **The two readers on a whole pair of files.**  For every domain tree and problem tree that both readers accept and in
    which no function is called `total-cost`: the problems they produce are related by `ProblemRel`.
    Hypotheses: `NamesOK` — no fluent or object is spelled like a number, no object like a fluent; `FilesOK` — on the
    sections of the two files: `actionOK` on every action (which excludes D-C21a/b/c), `gdOK` on the goal, `fexpOK` on the
    metric, and no verbatim repetition among predicate declarations, actions, `:init` items. -/
theorem C21_readers_equivalent_partial (dom prob : Sexp) (P R : Problem) (A : PddlAst) (hU : pddlRead dom prob = some P)
    (hA : astOf dom prob = some A) (hR : fromPddl A = some R) (nm : NamesOK (envOf P))
    (hntc : ∀ D, splitDomain (lowerSexp dom) = some D → noTotalCost D.functions = true)
    (hok : ∀ D Q, splitDomain (lowerSexp dom) = some D → splitProblem (lowerSexp prob) = some Q →
      FilesOK (P.fluents.map (·.ref)) (ctxOf A) D Q) : ProblemRel P R :=
  problems_agree hU hA hR nm hntc hok

/-- related problems have, action by action, the same documented successor -/
theorem C21_related_problems_same_successors (W : World) (s : SimState) (w : WTCtx (ctx W s)) {P R : Problem}
    (h : ProblemRel P R) (i : Nat) (h1 : i < P.actions.length) (h2 : i < R.actions.length) (σs : List Subst) :
    successorOf W s (P.actions[i].pre.map (instAll σs)) (P.actions[i].effs.map (instEff σs)) =
      successorOf W s (R.actions[i].pre.map (instAll σs)) (R.actions[i].effs.map (instEff σs)) :=
  C21_related_actions_same_successor W s w (h.actions.get i h1 h2) σs

-- non-vacuity: a domain with the action above (typed, constants, predicates, numeric functions) and a problem with
-- `:init`, goal and metric: both readers accept it, and every hypothesis of the theorem holds
example : ∃ P R A, pddlRead Example.dom0 Example.prob0 = some P ∧ astOf Example.dom0 Example.prob0 = some A ∧
    fromPddl A = some R ∧ NamesOK (envOf P) ∧
    (∀ D, splitDomain (lowerSexp Example.dom0) = some D → noTotalCost D.functions = true) ∧
    (∀ D Q, splitDomain (lowerSexp Example.dom0) = some D → splitProblem (lowerSexp Example.prob0) = some Q →
      FilesOK (P.fluents.map (·.ref)) (ctxOf A) D Q) := by
  have h1 : ((pddlRead Example.dom0 Example.prob0).bind fun P => (astOf Example.dom0 Example.prob0).bind fun A =>
      (fromPddl A).bind fun _ => (splitDomain (lowerSexp Example.dom0)).bind fun D =>
      (splitProblem (lowerSexp Example.prob0)).map fun Q =>
        (decide (P.fluents.map (·.ref) = Example.E1.fluents) && decide (P.objects = Example.E1.objects) &&
          noTotalCost D.functions && filesOKb (P.fluents.map (·.ref)) (ctxOf A) D Q)) = some true := by decide +kernel
  simp only [Option.bind_eq_some_iff, Option.map_eq_some_iff] at h1
  obtain ⟨P, hP, A, hA, R, hR, D, hD, Q, hQ, hb⟩ := h1
  simp only [Bool.and_eq_true, decide_eq_true_eq] at hb
  obtain ⟨⟨⟨hf, ho⟩, hn⟩, hok⟩ := hb
  refine ⟨P, R, A, hP, hA, hR, ?_, ?_, ?_⟩
  · exact namesOK_congr (E := Example.E1) (by simp [envOf, hf]) (by simp [envOf, ho]) Example.namesOK1
  · intro D' hD'
    rw [hD] at hD'; cases hD'; exact hn
  · intro D' Q' hD' hQ'
    rw [hD] at hD'; cases hD'
    rw [hQ] at hQ'; cases hQ'
    exact filesOKb_sound hok

/-- what the full statement adds: the metric of an action-cost problem, and the user-type hierarchy -/
inductive MetricRelC : Metric → Metric → Prop
  | plain {m m' : Metric} : MetricRel m m' → MetricRelC m m'
  | minLength : MetricRelC .minLength .minLength
  | minActionCosts {cs cs' : List (String × Expr)} {d : Option Expr} :
      All2 (fun c c' => c.1 = c'.1 ∧ FRel c.2 c'.2) cs cs' → MetricRelC (.minActionCosts cs d) (.minActionCosts cs' d)

/-- **Full statement** (NOT proved; see the header): as `C21_readers_equivalent_partial` without the hypothesis that no
    function is called `total-cost` — an action-cost metric on either side is then related by `MetricRelC` — and with the
    user types: the same (type, father) pairs on both sides. -/
def C21_readers_equivalent_full : Prop :=
  ∀ (dom prob : Sexp) (P R : Problem) (A : PddlAst), pddlRead dom prob = some P → astOf dom prob = some A →
    fromPddl A = some R → NamesOK (envOf P) →
    (∀ D Q, splitDomain (lowerSexp dom) = some D → splitProblem (lowerSexp prob) = some Q →
      FilesOK (P.fluents.map (·.ref)) (ctxOf A) D Q) →
    P.name = R.name ∧ P.fluents = R.fluents ∧ P.objects = R.objects ∧ P.init = R.init ∧
    GdRel (mkAnd P.goals) (mkAnd R.goals) ∧ All2 (fun a a' => ActRel Expr.tt a a' none) P.actions R.actions ∧
    All2 MetricRelC P.metrics R.metrics ∧ (∀ tf, tf ∈ P.types.fathers ↔ tf ∈ R.types.fathers)

end UPVerif.C21
