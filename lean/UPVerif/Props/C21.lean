import UPVerif.Core.PddlRead
/-!
# C21 — The two PDDL readers produce equivalent problems

Level `translation_validation`: there is NO theorem about the external `pddl` parser or pyparsing.  Equivalence of
`PDDLReader(force_up_pddl_reader=True)` and `PDDLReader(force_ai_planning_reader=True)` is established per input by
comparing EACH real reader with the one reference reader `UPVerif.Pddl.pddlRead` (harness/props/C21.py), which is
a function: two readers that both agree with it agree with each other.  The only fact recorded here is that
determinism, so that the audit has an obligation to check.
-/
namespace UPVerif.C21
open UPVerif UPVerif.Pddl

/-- the reference reader is a function of the two trees: readers that agree with it agree with each other -/
theorem C21_reference_reader_functional (dom prob : Sexp) (P Q : Problem)
    (h1 : pddlRead dom prob = some P) (h2 : pddlRead dom prob = some Q) : P = Q := by
  rw [h1] at h2
  exact Option.some.inj h2

end UPVerif.C21
