import UPVerif.Lemmas.LinearSimp
import UPVerif.Lemmas.LinearNonlin
/-!
# C17 — Linearity and monotonicity analysis is sound

Statements only (helper lemmas: `Lemmas/LinearLemmas.lean`, `LinearTimes.lean`, `LinearSimp.lean`,
`LinearNonlin.lean`; the notions used in the statements are defined in `Lemmas/LinearSpec.lean`).

`linear cfg e` is the executable model of `LinearChecker(problem).get_fluents(e)`
(`Core/Walkers/Linear.lean`, one function per `walk_*` method, mirroring the code repaired by
`notes/patches/C17-linear-checker-divisor-sign.patch`): simplify with the problem's simplifier
(C11's model `simplify`), then walk, reading the sign of fluent-free factors / divisors off the
inferred type (C15's model `typeOf`).  It is tied to the real code by the correspondence check.
The theorems are stated against the shared reference denotation `den` over exact rationals and hold
for EVERY arithmetic expression, problem table and interpretation; there is no size bound.

Reading of the property (`LinearSpec.lean`):
* domain `arith e`: expressions over `+ − × /`, arbitrary leaves (constants of any magnitude,
  parameters) and fluent applications with constant arguments (DESIGN §2.11);
* a *fluent* is a ground fluent `k = (fluent, argument values)`; `key? f = some k` says that the
  reported expression `f` denotes `k`, and `hasKey k l` that some member of the reported set `l` does.
  (For fluent expressions whose arguments are objects this is plain membership; `C17_mono` states
  the nullary case literally with `f ∈ pos`, `f ∉ neg`.)
* `Bump k ι ι'` — "`ι'` differs from `ι` only in giving `k` a larger (or equal) value";
* `Within cfg oty O ι ρ e` — `ι` is within the declared types: the union of the hypotheses of
  `C11_sound_fuel` and `C15_sound_interval`, with static fluents fixed to their initial values.
  The second interpretation only needs `Respects` (everything else transfers along `Bump`).
* values: the claims are made wherever both `den ι ρ e` and `den ι' ρ e` are numbers (a divisor that
  evaluates to `0` has no value).
-/
namespace UPVerif.C17
open UPVerif UPVerif.Lin UPVerif.Simp

variable {cfg : SimpCfg} {oty O : String → Option String} {ι ι' : Interp} {ρ : VEnv}

/-! ## clause 1: monotonicity in a fluent reported on one side only -/

/-- **Reported only among the positive fluents ⇒ non-decreasing.**  If the analysis answers
    `(true, pos, neg)`, `f ∈ pos` denotes the ground fluent `k` and no member of `neg` denotes `k`,
    then raising the value of `k` (everything else fixed, all values within the declared types)
    does not lower the value of `e`. -/
theorem C17_mono_pos (e : Expr) (r : LinRes) (f : Expr) (k : GFluent) (q q' : Rat)
    (ha : arith e = true) (hct : cfg.constTables = true)
    (hι : Within cfg oty O ι ρ e) (hι' : Respects cfg ι' oty) (hB : Bump k ι ι')
    (h : linear cfg e = .ok r) (hlin : r.lin = true)
    (_hf : f ∈ r.pos) (_hk : key? f = some k) (hneg : hasKey k r.neg = false)
    (hq : den ι ρ e = some (.n q)) (hq' : den ι' ρ e = some (.n q')) : q ≤ q' :=
  (linear_claim hι.respects hι' hct hι.wf hι.env hι.interp hι.venv hι.leaves hι.tables ha hB h hlin
    q q' hq hq').1 hneg

/-- **Reported only among the negative fluents ⇒ non-increasing.** -/
theorem C17_mono_neg (e : Expr) (r : LinRes) (f : Expr) (k : GFluent) (q q' : Rat)
    (ha : arith e = true) (hct : cfg.constTables = true)
    (hι : Within cfg oty O ι ρ e) (hι' : Respects cfg ι' oty) (hB : Bump k ι ι')
    (h : linear cfg e = .ok r) (hlin : r.lin = true)
    (_hf : f ∈ r.neg) (_hk : key? f = some k) (hpos : hasKey k r.pos = false)
    (hq : den ι ρ e = some (.n q)) (hq' : den ι' ρ e = some (.n q')) : q' ≤ q :=
  (linear_claim hι.respects hι' hct hι.wf hι.env hι.interp hι.venv hι.leaves hι.tables ha hB h hlin
    q q' hq hq').2 hpos

/-- (stronger than the property asks) a linear expression does not depend on a ground fluent that
    is reported in neither set -/
theorem C17_unreported_constant (e : Expr) (r : LinRes) (k : GFluent) (q q' : Rat)
    (ha : arith e = true) (hct : cfg.constTables = true)
    (hι : Within cfg oty O ι ρ e) (hι' : Respects cfg ι' oty) (hB : Bump k ι ι')
    (h : linear cfg e = .ok r) (hlin : r.lin = true)
    (hpos : hasKey k r.pos = false) (hneg : hasKey k r.neg = false)
    (hq : den ι ρ e = some (.n q)) (hq' : den ι' ρ e = some (.n q')) : q = q' := by
  have := linear_claim hι.respects hι' hct hι.wf hι.env hι.interp hι.venv hι.leaves hι.tables ha hB h
    hlin q q' hq hq'
  rw [hpos, hneg] at this
  exact claim_none.1 this

/-- **The statement of DESIGN §5 literally**, for a nullary fluent `g`: `f = g()` reported in `pos`
    and `f ∉ neg` ⇒ non-decreasing in `g`; dually for `neg`. -/
theorem C17_mono (e : Expr) (r : LinRes) (g : FluentRef) (q q' : Rat)
    (ha : arith e = true) (hct : cfg.constTables = true)
    (hι : Within cfg oty O ι ρ e) (hι' : Respects cfg ι' oty) (hB : Bump (g, []) ι ι')
    (h : linear cfg e = .ok r) (hlin : r.lin = true)
    (hq : den ι ρ e = some (.n q)) (hq' : den ι' ρ e = some (.n q')) :
    (.app (.fluent g) [] ∈ r.pos → .app (.fluent g) [] ∉ r.neg → q ≤ q') ∧
    (.app (.fluent g) [] ∈ r.neg → .app (.fluent g) [] ∉ r.pos → q' ≤ q) := by
  have hc := linear_claim hι.respects hι' hct hι.wf hι.env hι.interp hι.venv hι.leaves hι.tables ha hB h
    hlin q q' hq hq'
  exact ⟨fun _ hn => hc.1 (hasKey_nullary_of_not_mem hn), fun _ hn => hc.2 (hasKey_nullary_of_not_mem hn)⟩

/-- the same claims for the walker alone, on any (already simplified) arithmetic expression -/
theorem C17_walk_sound (E : TypeEnv) (e : Expr) (r : LinRes) (k : GFluent) (q q' : Rat)
    (ha : arith e = true) (hI : InterpOK E O ι) (hρ : VEnvOK E O ρ) (hl : LeavesOK E O ι e)
    (hB : Bump k ι ι') (h : linWalk E e = .ok r) (hlin : r.lin = true)
    (hq : den ι ρ e = some (.n q)) (hq' : den ι' ρ e = some (.n q')) :
    Claim (hasKey k r.pos) (hasKey k r.neg) q q' :=
  linWalk_sound hB hI hρ e r ha hl h hlin q q' hq hq'

/-! ## clause 2: products of two fluent-dependent factors, fluent-dependent divisors -/

/-- **Never reported linear.**  If the expression the analysis inspects (the simplified expression
    `e'`) contains — anywhere — a product two of whose factors contain a fluent application, or a
    quotient whose divisor contains a fluent application, the answer is "not linear".  (No domain
    restriction: this holds for every expression.) -/
theorem C17_nonlinear_products_divisors (e e' : Expr) (r : LinRes)
    (hs : simplify cfg e = .ok e') (h : linear cfg e = .ok r) :
    (∀ pre a mid b post, Sub (.app .times (pre ++ a :: (mid ++ b :: post))) e' →
        hasFluent a = true → hasFluent b = true → r.lin = false) ∧
    (∀ a d, Sub (.app .div [a, d]) e' → hasFluent d = true → r.lin = false) := by
  unfold linear at h
  rw [hs] at h
  simp only [] at h
  constructor
  · intro pre a mid b post hsub ha hb
    rw [Bool.eq_false_iff]
    intro hl
    obtain ⟨r', hr', hl'⟩ := sub_lin hsub h hl
    rw [times_two_not_lin hr' ha hb] at hl'
    cases hl'
  · intro a d hsub hd
    rw [Bool.eq_false_iff]
    intro hl
    obtain ⟨r', hr', hl'⟩ := sub_lin hsub h hl
    rw [div_divisor_not_lin hr' hd] at hl'
    cases hl'

/-- the simplifier keeps the expression inside the domain of clause 1 (so that the hypotheses of the
    walker theorem are met by what `get_fluents` walks) -/
theorem C17_simplify_stays_arithmetic (e e' : Expr) (hct : cfg.constTables = true)
    (hs : simplify cfg e = .ok e') (ha : arith e = true) : arith e' = true :=
  simpF_arith cfg hct _ e e' hs ha

/-! ## non-vacuity, and the defect witness D-C17 -/
section examples

def zF : FluentRef := { name := "z", ty := .real none none, sig := [] }
def xF : FluentRef := { name := "x", ty := .int none none, sig := [] }
def yF : FluentRef := { name := "y", ty := .int (some 0) (some 10), sig := [] }
def z : Expr := .app (.fluent zF) []
def x : Expr := .app (.fluent xF) []
def y : Expr := .app (.fluent yF) []
/-- a parameter `p : int[-5,-1]` -/
def p : Expr := .leaf (.param "p" (.int (some (-5)) (some (-1))))
/-- a parameter `m : int[-3,4]` (sign unknown) -/
def m : Expr := .leaf (.param "m" (.int (some (-3)) (some 4)))
def cfg0 : SimpCfg := SimpCfg.empty ⟨[]⟩

/-- what `get_fluents` answers, as a comparable value -/
def answer (e : Expr) : Option (Bool × List Expr × List Expr) :=
  match linear cfg0 e with
  | .ok r => some (r.lin, r.pos, r.neg)
  | .error _ => none

/-- D-C17: `z / p` with `p ∈ [-5,-1]` is decreasing in `z` (the unrepaired code answered
    `(True, {z}, {})`) … -/
example : answer (.app .div [z, p]) = some (true, [], [z]) := by decide +kernel
/-- … its sibling `(p * x) / p`, which is `x` … -/
example : answer (.app .div [.app .times [p, x], p]) = some (true, [x], []) := by decide +kernel
/-- … a divisor that is negative by interval arithmetic (`[-5,-1] - 3`), one of unknown sign (both
    sets), a negative constant divisor -/
example : answer (.app .div [x, .app .minus [p, Expr.int 3]]) = some (true, [], [x]) := by decide +kernel
example : answer (.app .div [.app .minus [x, y], m]) = some (true, [x, y], [x, y]) := by decide +kernel
example : answer (.app .div [x, Expr.real (-1/2)]) = some (true, [], [x]) := by decide +kernel
/-- sign tracking of `walk_times` / `walk_minus`: two negative factors cancel (the simplifier
    flattens the product first), nested subtraction -/
example : answer (.app .times [z, .app .times [p, p]]) = some (true, [z], []) := by decide +kernel
example : answer (.app .minus [x, .app .minus [y, z]]) = some (true, [x, z], [y]) := by decide +kernel
/-- clause 2 -/
example : answer (.app .times [x, y]) = some (false, [], []) := by decide +kernel
example : answer (.app .div [p, .app .plus [y, Expr.int 20]]) = some (false, [], []) := by decide +kernel
example : answer (.app .plus [.app .times [x, .app .minus [y, y]], p]) = some (false, [], []) := by
  decide +kernel

/-- `z = 3`, `x = 1`, `y = 2`, `p = -2` -/
def ιa : Interp :=
  { fl := fun f _ => if f = zF then some (.n 3) else if f = xF then some (.n 1)
                     else if f = yF then some (.n 2) else none
    fn := fun _ _ => none
    par := fun n => if n = "p" then some (.n (-2)) else none
    dom := fun _ => [] }
/-- the same with `z = 5` -/
def ιb : Interp := { ιa with fl := fun f vs => if f = zF ∧ vs = [] then some (.n 5) else ιa.fl f vs }

theorem respects_a : Respects cfg0 ιa (fun _ => none) where
  objTy := by intro n t h; cases h
  domUp := by intro a b _ v hv; cases hv
  domTree := by intro a b v hv; cases hv
  flTy := by
    intro f args v t hf h
    by_cases h1 : f = zF
    · subst h1; simp [zF] at hf
    · by_cases h2 : f = xF
      · subst h2; simp [xF] at hf
      · by_cases h3 : f = yF
        · subst h3; simp [yF] at hf
        · simp [ιa, h1, h2, h3] at h
  fnTy := by intro g args v t _ h; cases h
  static := by intro f args v hf; cases hf
  funs := by intro g vs r e' h; simp [cfg0, SimpCfg.empty, SimpCfg.funLookup] at h
  tables := by rfl

theorem respects_b : Respects cfg0 ιb (fun _ => none) where
  objTy := by intro n t h; cases h
  domUp := by intro a b _ v hv; cases hv
  domTree := by intro a b v hv; cases hv
  flTy := by
    intro f args v t hf h
    by_cases h1 : f = zF
    · subst h1; simp [zF] at hf
    · by_cases h2 : f = xF
      · subst h2; simp [xF] at hf
      · by_cases h3 : f = yF
        · subst h3; simp [yF] at hf
        · simp [ιb, ιa, h1, h2, h3] at h
  fnTy := by intro g args v t _ h; cases h
  static := by intro f args v hf; cases hf
  funs := by intro g vs r e' h; simp [cfg0, SimpCfg.empty, SimpCfg.funLookup] at h
  tables := by rfl

theorem interpOK_a : InterpOK cfg0.tenv (fun _ => none) ιa := by
  constructor
  · intro f vs v h
    simp only [ιa] at h
    split at h
    · rename_i hf; subst hf; cases h; decide +kernel
    · split at h
      · rename_i hf; subst hf; cases h; decide +kernel
      · split at h
        · rename_i hf; subst hf; cases h; decide +kernel
        · cases h
  · intro g vs v h; cases h

/-- `ιa ≤_z ιb` -/
theorem bump_ab : Bump (zF, []) ιa ιb where
  par := rfl
  fn := rfl
  dom := rfl
  others := by
    intro f vs hne
    have : ¬(f = zF ∧ vs = []) := fun h => hne (by rw [h.1, h.2])
    simp only [ιb, this, if_false]
  up := by
    intro q q' h1 h2
    simp [ιa, zF] at h1
    simp [ιb, zF] at h2
    subst h1; subst h2
    decide +kernel

/-- the D-C17 witness `z / p` meets every hypothesis of `C17_mono_neg` … -/
theorem within_a : Within cfg0 (fun _ => none) (fun _ => none) ιa [] (.app .div [z, p]) where
  respects := respects_a
  wf := by rfl
  env := by intro x v hx; cases hx
  interp := interpOK_a
  venv := by intro v x h; cases h
  leaves := by
    intro l hl
    simp [Expr.leaves, Expr.leavesList, z, p] at hl
    subst hl
    intro v hv
    simp [ιa] at hv
    subst hv
    decide +kernel
  tables := by intro v hv; simp [tableValues, cfg0, SimpCfg.empty] at hv

example : arith (.app .div [z, p]) = true := by rfl
example : cfg0.constTables = true := by rfl
example : den ιa [] (.app .div [z, p]) = some (.n (-3/2)) := by decide +kernel
example : den ιb [] (.app .div [z, p]) = some (.n (-5/2)) := by decide +kernel

/-- … and the theorem applies to it: raising `z` from 3 to 5 lowers `z / p` from -3/2 to -5/2 -/
example : (-5/2 : Rat) ≤ -3/2 := by
  have ha : answer (.app .div [z, p]) = some (true, [], [z]) := by decide +kernel
  unfold answer at ha
  split at ha
  · rename_i r hr
    simp only [Option.some.injEq, Prod.mk.injEq] at ha
    exact C17_mono_neg (cfg := cfg0) _ r z (zF, []) (-3/2) (-5/2) (by rfl) (by rfl) within_a respects_b
      bump_ab hr ha.1 (by rw [ha.2.2]; simp) (by rfl) (by rw [ha.2.1]; rfl)
      (by decide +kernel) (by decide +kernel)
  · cases ha

/-- clause 2 applies to `x * y + p` (its simplified form is itself) -/
example : ∀ r, linear cfg0 (.app .plus [.app .times [x, y], p]) = .ok r → r.lin = false := by
  intro r h
  exact (C17_nonlinear_products_divisors (cfg := cfg0) _ (.app .plus [.app .times [x, y], p]) r
    (by decide +kernel) h).1 [] x [] y []
    (.app (a := .app .times [x, y]) (by simp) (.refl _)) (by rfl) (by rfl)

end examples

end UPVerif.C17
