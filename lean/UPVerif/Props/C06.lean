import UPVerif.Lemmas.CompileCERSim
import UPVerif.Lemmas.CompileSIR
import UPVerif.Lemmas.CompileDCR
import UPVerif.Lemmas.CompileDCRGoal
/-!
# C06 — Plans of compiled problems map back to valid plans (compiler soundness)

Statements only (helper lemmas: `Lemmas/Simulation.lean` — the frame —, `Lemmas/CompileBasic.lean`,
`Lemmas/CompileTS.lean`, `Lemmas/CompileCER.lean`, `Lemmas/CompileCERSim.lean`, `Lemmas/CompileSIR.lean`,
`Lemmas/CompileDCR.lean`, `Lemmas/CompileDCRGoal.lean`, `Lemmas/CompileAgree.lean`, `Lemmas/CompileFresh.lean`).

* `Simulation.TS` is an abstract transition system; `Fwd A B β R V` a forward simulation of the compiled
  system `B` by the original `A` through the map-back `β` (`none` = the instance disappears from the
  mapped-back plan), up to a viability predicate `V` on compiled states.
* `Compile.tsOf W` is the transition system of a problem: states are the maps `GKey → Option Val`, a step
  is C01's DOCUMENTED successor (`Spec.successorOf`, Spec/Successor.lean — `step_is_documented_successor`
  below) of the action as written, the goal test is `is_goal`.  It contains the PARAMETERLESS actions of
  the problem (the theorems are stated for this fragment: `…_partial`; the full statements quantify over
  all instances, `tsLifted`).  The grounder's pre-processing of an instance is not part of this semantics.
* `Compile.cerCompile`, `Compile.sirCompile`, `Compile.dcrCompile` (Core/Compile/*.lean) mirror the `_compile`
  methods of ConditionalEffectsRemover (REPAIRED: patches C06-cer-conflicting-variant and
  C06-cer-forall-conditional-effect), StateInvariantsRemover
  and DisjunctiveConditionsRemover; the correspondence check compares their output with the real compiled
  problems.  The simplifier and the DNF walker the compilers call are PARAMETERS with the hypotheses
  `SimpExact` (evaluation is preserved) and `DnfSplits` (an expression is true iff a disjunct of its DNF is).
  These are idealisations — exactness in EVERY evaluation context, satisfied by the identity; the real walkers
  are exact where the expression is defined (theorems C11_sound_fuel / C12.dnf_equiv, not composed here).

QuantifiersRemover and BoundedTypesRemover: see `Props/C06BTQR.lean` / `Props/C07BTQR.lean`.  No theorem for
NegativeConditionsRemover, Grounder, UsertypeFluentsRemover, TrajectoryConstraintsRemover,
UndefinedInitialNumericRemover (end-to-end differential only).
-/
namespace UPVerif.C06
open UPVerif UPVerif.Expr UPVerif.Sim UPVerif.Spec UPVerif.Simulation UPVerif.Compile

/-! ## the frame (abstract, every plan length) -/

/-- SOUNDNESS from a forward simulation: every valid plan of the compiled system maps back to a valid
    plan of the original system -/
theorem forward_simulation_sound {SA SB AA AB : Type} {A : TS SA AA} {B : TS SB AB} {β : AB → Option AA}
    {R : SB → SA → Prop} {V : SB → Prop} (h : Fwd A B β R V) (π : List AB) (hv : B.Valid π) :
    A.Valid (mapBack β π) := h.sound π hv

/-- … and the visited states are related one by one when the map-back drops no instance (this is what
    carries trajectory constraints, judged on the state sequence, from the compiled to the original plan) -/
theorem forward_simulation_trace {SA SB AA AB : Type} {A : TS SA AA} {B : TS SB AB} {β : AB → Option AA}
    {R : SB → SA → Prop} {V : SB → Prop} (h : Fwd A B β R V) (π : List AB) (hβ : ∀ b ∈ π, (β b).isSome)
    (sB sf : SB) (sA : SA) (tB : List SB) (hR : R sB sA) (hr : B.run sB π = some sf) (hg : B.goal sf)
    (ht : B.trace sB π = some tB) : ∃ tA, A.trace sA (mapBack β π) = some tA ∧ TraceRel R tB tA :=
  h.trace π hβ sB sf sA tB hR hr hg ht

/-- pipelines: soundness composes, the map-back functions are applied last compiler first
    (`compilers_pipeline.map_back_action_instance`) -/
theorem pipeline_sound {SA SB SC AA AB AC : Type} {A : TS SA AA} {B : TS SB AB} {C : TS SC AC}
    {β₁ : AB → Option AA} {β₂ : AC → Option AB}
    (h₁ : ∀ π, B.Valid π → A.Valid (mapBack β₁ π)) (h₂ : ∀ π, C.Valid π → B.Valid (mapBack β₂ π))
    (π : List AC) (hv : C.Valid π) : A.Valid (mapBack (compBack β₁ β₂) π) := sound_comp h₁ h₂ π hv

/-! ## the semantics the instances are stated for -/

/-- a step of the transition system IS the documented successor of C01 (`Spec.successorOf`), which
    `UPSequentialSimulator.apply` computes on a grounded action with these preconditions and effects
    (`C01.apply_eq_spec`, `applyGround_spec`) -/
theorem step_is_documented_successor (W : World) (s : SimState) (a : Action) (h : a.params.isEmpty = true) :
    stepAct W (s.get W.P) a = Spec.successor W s { pre := a.pre, effs := a.effs } := by
  unfold stepAct Spec.successor
  simp only [h, if_true]
  rfl

/-! ## ConditionalEffectsRemover (repaired) -/

/-- the step lemma: a variant that applies in a state gives exactly the original action's successor -/
theorem cer_variant_sound (simp : Expr → Expr) (hs : SimpExact simp) (W : World) (a a' : Action) (p : List Nat)
    (hok : cerOK a = true) (hv : cerVariant simp a p = some a') (g g' : St)
    (h : stepAct W g a' = some g') : stepAct W g a = some g' := cer_sound_step hs W hok hv h

/-- SOUNDNESS of ConditionalEffectsRemover for every plan of every length (parameterless fragment;
    conditional effects whose instances target fluents on constants; a conditional forall effect whose condition
    depends on the bound variable is expanded into its instances first, `cerExpand`) -/
theorem cer_sound_partial (simp : Expr → Expr) (hs : SimpExact simp) (W : World) (c : Compiled)
    (hc : cerCompile simp W.P = some c) (hok : ∀ a ∈ W.P.actions, cerOK (cerExpand W.P a) = true) (π : List Nat)
    (hv : (tsOf (withProblem W c.prob)).Valid π) : (tsOf W).Valid (mapBack (backOf c) π) :=
  (cer_fwd hs W hc hok).sound π hv

/-! ## StateInvariantsRemover -/

/-- SOUNDNESS of StateInvariantsRemover for every plan of every length: the invariant conjunction added to
    every precondition and to the goal makes every state of a valid compiled plan satisfy the invariants -/
theorem sir_sound_partial (simp : Expr → Expr) (W : World) (c : Compiled) (hc : sirCompile simp W.P = some c)
    (hok : SirOK simp W c) (π : List Nat) (hv : (tsOf (withProblem W c.prob)).Valid π) :
    (tsOf W).Valid (mapBack (backOf c) π) := (sir_fwd W hc hok).sound π hv

/-- … and the mapped-back plan visits exactly the same states (so the remaining trajectory constraints,
    which StateInvariantsRemover keeps, have the same PDDL3 verdict on both plans) -/
theorem sir_same_trace (simp : Expr → Expr) (W : World) (c : Compiled) (hc : sirCompile simp W.P = some c)
    (hok : SirOK simp W c) (π : List Nat) (g gf : St) (t : List St)
    (hr : (tsOf (withProblem W c.prob)).run g π = some gf) (hg : (tsOf (withProblem W c.prob)).goal gf)
    (ht : (tsOf (withProblem W c.prob)).trace g π = some t) :
    ∃ tA, (tsOf W).trace g (mapBack (backOf c) π) = some tA ∧ TraceRel (fun x y => x = y) t tA := by
  have hfw := sir_fwd W hc hok
  refine hfw.trace π ?_ g gf g t rfl hr hg ht
  intro b hb
  -- every compiled action of StateInvariantsRemover maps back to an original action
  obtain ⟨_, _, _, hall, _⟩ := sirCompile_some hc
  have : ∀ (π : List Nat) (g : St) gf, (tsOf (withProblem W c.prob)).run g π = some gf → ∀ b ∈ π, (backOf c b).isSome := by
    intro π
    induction π with
    | nil => intro _ _ _ b hb; cases hb
    | cons x xs ih =>
      intro g gf hr b hb
      simp only [TS.run] at hr
      cases hs : (tsOf (withProblem W c.prob)).step g x with
      | none => rw [hs] at hr; cases hr
      | some g' =>
        rw [hs] at hr
        rcases List.mem_cons.1 hb with rfl | hb'
        · obtain ⟨a', ha', _⟩ := tsOf_step hs
          obtain ⟨j, a, hbj, _⟩ := hall b a' ha'
          rw [hbj]; rfl
        · exact ih g' gf hr b hb'
  exact this π g gf hr b hb

/-! ## DisjunctiveConditionsRemover -/

/-- SOUNDNESS of the action split of DisjunctiveConditionsRemover for every plan of every length, for problems
    whose goal needs no goal action and whose conditional effects are not split (finding D-C06b excluded:
    `DcrOK.effs`) -/
theorem dcr_sound_partial (simp dnfE : Expr → Expr) (W : World) (c : Compiled)
    (hc : dcrCompile simp dnfE W.P = some c) (hok : DcrOK simp dnfE W) (π : List Nat)
    (hv : (tsOf (withProblem W c.prob)).Valid π) : (tsOf W).Valid (mapBack (backOf c) π) :=
  (dcr_fwd W hc hok).sound π hv

/-- … and for problems whose goal DNF IS a disjunction: the goal becomes the fresh fluent `dcrm_fake_goal`, set by
    one goal action per disjunct (mapped back to nothing) and reset by every other action.  `DcrGoalOK` adds the
    freshness of that fluent to the hypotheses. -/
theorem dcr_goal_action_sound_partial (simp dnfE : Expr → Expr) (W : World) (c : Compiled) (args : List Expr)
    (hg : dnfE (mkAnd W.P.goals) = .app .or args) (hc : dcrCompile simp dnfE W.P = some c)
    (hok : DcrGoalOK simp dnfE W) (π : List Nat) (hv : (tsOf (withProblem W c.prob)).Valid π) :
    (tsOf W).Valid (mapBack (backOf c) π) := (dcrGoal_fwd W hg hc hok).sound π hv

/-- a pipeline of two of the modelled compilers is sound whenever its stages are: e.g. state invariants removed,
    then conditional effects (the second stage runs on the first stage's compiled problem) -/
theorem sir_then_cer_sound_partial (simp : Expr → Expr) (W : World) (c₁ c₂ : Compiled)
    (h₁ : sirCompile simp W.P = some c₁) (hok₁ : SirOK simp W c₁)
    (h₂ : cerCompile simp c₁.prob = some c₂) (hok₂ : ∀ a ∈ c₁.prob.actions, cerOK (cerExpand c₁.prob a) = true) (π : List Nat)
    (hv : (tsOf (withProblem (withProblem W c₁.prob) c₂.prob)).Valid π) :
    (tsOf W).Valid (mapBack (compBack (backOf c₁) (backOf c₂)) π) :=
  sound_comp (sir_sound_partial simp W c₁ h₁ hok₁)
    (cer_sound_partial simp hok₁.simp (withProblem W c₁.prob) c₂ h₂ hok₂) π hv

/-! ## the full statements (NOT proved: what is missing is said beside each) -/

/-- soundness of a compiler model on ALL instances of lifted actions -/
def SoundOnAllInstances (compile : Problem → Option Compiled) : Prop :=
  ∀ (W : World) (c : Compiled), compile W.P = some c → ∀ π : List (Nat × List String),
    (tsLifted (withProblem W c.prob)).Valid π → (tsLifted W).Valid (mapBack (backLifted c) π)

/-- full clause for ConditionalEffectsRemover; proved part: `cer_sound_partial` (parameterless actions,
    conditional effects without forall and with constant targets).  Missing: instantiation of parameters
    commutes with the split (substitution lemma for the state evaluator), conditional forall effects. -/
def cer_sound_full (simp : Expr → Expr) : Prop := SimpExact simp → SoundOnAllInstances (cerCompile simp)

/-- full clause for StateInvariantsRemover; proved part: `sir_sound_partial` (parameterless actions,
    quantifier-free invariants).  Missing: parameters; `eval (remove_quantifiers e) = eval e`. -/
def sir_sound_full (simp : Expr → Expr) : Prop := SimpExact simp → SoundOnAllInstances (sirCompile simp)

/-- full clause for DisjunctiveConditionsRemover; proved parts: `dcr_sound_partial`, `dcr_goal_action_sound_partial`.
    Missing: parameters; split effect conditions, which are UNSOUND for increase/decrease effects as the code
    stands (finding C06-dcr-overlapping-disjuncts). -/
def dcr_sound_full (simp dnfE : Expr → Expr) : Prop :=
  SimpExact simp → DnfSplits dnfE → SoundOnAllInstances (dcrCompile simp dnfE)

section examples
/-! ## non-vacuity: one concrete problem

fluents `b : bool = false`, `x : int[0,10] = 1`, `y : int = 5`; state invariant `x <= 8`; goal `b`, `3 <= x`.
* `a0`: pre `x <= 5`; effects `b := true`, `x += 2 if y <= 5`, `y := 0 if not b`
* `a1`: pre —; effects `x += 9` (breaks the invariant and the bound) -/
def fb : FluentRef := ⟨"b", .bool, []⟩
def fx : FluentRef := ⟨"x", .int (some 0) (some 10), []⟩
def fy : FluentRef := ⟨"y", .int none none, []⟩
def eb : Expr := .app (.fluent fb) []
def ex : Expr := .app (.fluent fx) []
def ey : Expr := .app (.fluent fy) []
def eff (f v c : Expr) (k : EffKind) : Effect := { fluent := f, value := v, cond := c, kind := k, forall_ := [] }
def a0 : Action := { name := "a0", params := [], pre := [Expr.mkLE ex (Expr.int 5)], effs := [
  eff eb Expr.tt Expr.tt .assign, eff ex (Expr.int 2) (Expr.mkLE ey (Expr.int 5)) .increase,
  eff ey (Expr.int 0) (Expr.mkNot eb) .assign ] }
def a1 : Action := { name := "a1", params := [], pre := [], effs := [eff ex (Expr.int 9) Expr.tt .increase] }
def P1 : Problem where
  name := "ex"
  types := ⟨[]⟩
  objects := []
  fluents := [⟨fb, some Expr.ff⟩, ⟨fx, some (Expr.int 1)⟩, ⟨fy, some (Expr.int 5)⟩]
  init := []
  actions := [a0, a1]
  goals := [eb, Expr.mkLE (Expr.int 3) ex]
  traj := [.app .always [Expr.mkLE ex (Expr.int 8)]]
  metrics := []
def W1 : World := { P := P1, simp := id, fn := fun _ _ => none }
def cCer : Compiled := (cerCompile id P1).getD ⟨P1, []⟩
def cSir : Compiled := (sirCompile id P1).getD ⟨P1, []⟩

/-- the conditional action `a0` is split into its four variants after the unconditional `a1` -/
example : (cerCompile id P1).isSome = true ∧ cCer.prob.actions.length = 5 ∧
    cCer.back = [some 1, some 0, some 0, some 0, some 0] := by decide +kernel
/-- the hypotheses of `cer_sound_partial` hold, and the compiled problem has a valid plan: the variant
    "both conditions true" (position 4); its map-back `[a0]` is valid -/
example : (∀ a ∈ P1.actions, cerOK (cerExpand P1 a) = true) ∧ validB (withProblem W1 cCer.prob) [4] = true ∧
    mapBack (backOf cCer) [4] = [0] ∧ validB W1 [0] = true := by decide +kernel
/-- a variant whose added preconditions are false does not apply -/
example : validB (withProblem W1 cCer.prob) [1] = false := by decide +kernel
/-- StateInvariantsRemover: hypotheses of `sir_sound_partial`, a valid compiled plan and its map-back -/
example : (sirCompile id P1).isSome = true ∧ stateInvariants cSir.prob = [] ∧
    (∀ si ∈ stateInvariants P1, removeQuantifiers P1 si = si) ∧
    (∀ a ∈ P1.actions, ∀ e ∈ a.effs, applyFnEffect id e = some e) ∧
    validB (withProblem W1 cSir.prob) [0] = true ∧ mapBack (backOf cSir) [0] = [0] ∧ validB W1 [0] = true := by
  decide +kernel
/-- the compiled `a1` can be applied (no invariant is checked in the successor any more) but leads nowhere:
    the invariant is a precondition of every action and a goal -/
example : validB (withProblem W1 cSir.prob) [1, 0] = false ∧ validB W1 [1, 0] = false := by decide +kernel
example : SirOK id W1 cSir :=
  ⟨SimpExact_id, SimpExact_id, by decide +kernel, by decide +kernel, by decide +kernel⟩

/-! the PDDL idiom `forall w:T. when p(w): q(w) := true` (objects `o1 o2`, `p(o1)` true): the conditional forall
    effect is expanded into two conditional effects; three variants are yielded (the one without effects is
    pruned), the first one — `p(o1)`, `not p(o2)` — applies and maps back to the original action -/
def tT : Ty := .user "T"
def fp : FluentRef := ⟨"p", .bool, [tT]⟩
def fq : FluentRef := ⟨"q", .bool, [tT]⟩
def vw : Var := ⟨"w", tT⟩
def o1 : Expr := .leaf (.obj "o1" "T")
def fa : Action where
  name := "fa"
  params := []
  pre := []
  effs := [{ fluent := .app (.fluent fq) [.leaf (.var vw)], value := Expr.tt,
             cond := .app (.fluent fp) [.leaf (.var vw)], kind := .assign, forall_ := [vw] }]
def P4 : Problem where
  name := "forall"
  types := ⟨[("T", none)]⟩
  objects := [("o1", "T"), ("o2", "T")]
  fluents := [⟨fp, some Expr.ff⟩, ⟨fq, some Expr.ff⟩]
  init := [(.app (.fluent fp) [o1], Expr.tt)]
  actions := [fa]
  goals := [.app (.fluent fq) [o1]]
  traj := []
  metrics := []
def W4 : World := { P := P4, simp := id, fn := fun _ _ => none }
def cFa : Compiled := (cerCompile id P4).getD ⟨P4, []⟩
example : (cerExpand P4 fa).effs.length = 2 ∧ cerOK (cerExpand P4 fa) = true ∧ cFa.prob.actions.length = 3 ∧
    validB (withProblem W4 cFa.prob) [0] = true ∧ mapBack (backOf cFa) [0] = [0] ∧ validB W4 [0] = true ∧
    validB (withProblem W4 cFa.prob) [1] = false := by decide +kernel

/-! DisjunctiveConditionsRemover on `d0`: pre `b or x <= 5`; effect `y := 7`; goal `7 <= y`, with C12's DNF
    model (`Expr.dnf id`): two variants, one per disjunct; the plan through the second one maps back to `[d0]` -/
def d0 : Action where
  name := "d0"
  params := []
  pre := [Expr.mkOr [eb, (Expr.mkLE ex (Expr.int 5))]]
  effs := [eff ey (Expr.int 7) Expr.tt .assign]
def P3 : Problem := { P1 with actions := [d0], goals := [Expr.mkLE (Expr.int 7) ey], traj := [] }
def W3 : World := { P := P3, simp := id, fn := fun _ _ => none }
def cDcr : Compiled := (dcrCompile id (Expr.dnf id) P3).getD ⟨P3, []⟩
example : (dcrCompile id (Expr.dnf id) P3).isSome = true ∧ cDcr.prob.actions.length = 2 ∧
    cDcr.back = [some 0, some 0] ∧ cDcr.prob.goals = P3.goals ∧
    validB (withProblem W3 cDcr.prob) [0] = false ∧ validB (withProblem W3 cDcr.prob) [1] = true ∧
    mapBack (backOf cDcr) [1] = [0] ∧ validB W3 [0] = true := by decide +kernel
/-- the hypotheses of `dcr_sound_partial` are consistent: the identity simplifier and the DNF walker that never
    splits (`e ↦ And(e)`) satisfy them on `P3` -/
example : DcrOK id (fun e => .app .and [e]) W3 := by
  refine ⟨SimpExact_id, fun c e => by simp [disjuncts, eval_and_true], ?_, ?_⟩
  · intro a ha e he hc
    have ha' : a = d0 := by simpa [W3, P3] using ha
    subst ha'
    have he' : e = eff ey (Expr.int 7) Expr.tt .assign := by simpa [d0] using he
    subst he'
    cases hc
  · intro args h
    injection h with h1 _
    cases h1

/-! the goal-action case: goal `7 <= y`, and a DNF walker that answers the one-element disjunction
    `Or(And(7 <= y))` for it (and `And(e)` for every other `e`, so that `DnfSplits` holds in EVERY context):
    the compiled problem has the action `d1` (resetting the goal fluent) and one goal action; the compiled plan
    `[d1, goal action]` is valid and maps back to `[d1]` -/
def d1 : Action where
  name := "d1"
  params := []
  pre := []
  effs := [eff ey (Expr.int 7) Expr.tt .assign]
def G5 : Expr := Expr.mkLE (Expr.int 7) ey
def P5 : Problem := { P1 with actions := [d1], goals := [G5], traj := [] }
def W5 : World := { P := P5, simp := id, fn := fun _ _ => none }
def dnfG (e : Expr) : Expr := if e = G5 then .app .or [.app .and [e]] else .app .and [e]
def cGoal : Compiled := (dcrCompile id dnfG P5).getD ⟨P5, []⟩
example : dnfG (mkAnd P5.goals) = .app .or [.app .and [G5]] ∧ (dcrCompile id dnfG P5).isSome = true ∧
    cGoal.back = [some 0, none] ∧ cGoal.prob.goals = [mkFluent fakeFluent []] ∧
    validB (withProblem W5 cGoal.prob) [0, 1] = true ∧ validB (withProblem W5 cGoal.prob) [0] = false ∧
    validB (withProblem W5 cGoal.prob) [1] = false ∧ validB (withProblem W5 cGoal.prob) [0, 1, 0] = false ∧
    mapBack (backOf cGoal) [0, 1] = [0] ∧ validB W5 [0] = true := by decide +kernel
example : DcrGoalOK id dnfG W5 := by
  refine ⟨SimpExact_id, ?_, ?_, by decide +kernel, by decide +kernel, by decide +kernel, by decide +kernel,
    by decide +kernel, by decide +kernel, by decide +kernel⟩
  · intro c e
    unfold dnfG
    split <;> simp [disjuncts, eval_and_true]
  · intro a ha e he hc
    have ha' : a = d1 := by simpa [W5, P5] using ha
    subst ha'
    have he' : e = eff ey (Expr.int 7) Expr.tt .assign := by simpa [d1] using he
    subst he'
    cases hc
end examples

end UPVerif.C06
