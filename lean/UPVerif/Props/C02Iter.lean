import UPVerif.Lemmas.SimIter
import UPVerif.Props.C02
/-!
# C02 — incomplete enumerations: `get_applicable_actions` as a generator inside query histories

`Props/C02.lean` treats `get_applicable_actions` as a query answered at once (`Sim.applicableActions`, the
completely consumed generator) and proves `queries_pure` for histories of such complete queries.  The code
returns a GENERATOR (sequential_simulator.py:436-450, model `Core/SimIter.lean`): a client may take some
elements and drop it, pull from several generators alternately, ask the other queries in between, close it or
leave it by an exception.  These theorems cover such histories: every answer — of a complete query, of the
k-th `next` on a generator — is independent of everything else the simulator instance was asked before,
completed or not.  (That the CODE behaves like this model on such histories is what the correspondence of
`harness/props/C02.py` checks: op heads `open`/`next`/`close`/`throw`/`drain`.)

Statements only; helper lemmas in `Lemmas/SimIter.lean`.
-/
namespace UPVerif.C02
open UPVerif UPVerif.Sim

/-- consuming a fresh generator completely is the query `get_applicable_actions` of `Props/C02.lean`
    (so `applicableActions_eq_filter`, `…_raises_only_with_apply`, `…_total` speak about it) -/
theorem drain_fresh_eq_applicableActions (W : World) (s : SimState) :
    Sim.applicableActions W s = ofDrain ((openIter W s).drain W) :=
  applicableActions_go_eq_drain W s (allInstances W.P)

/-- one `next` in terms of `apply`: it skips only instances on which `apply` returns None, and stops at an
    instance on which `apply` succeeds (yielding it), at the end of the groundings (StopIteration), or at an
    instance on which `apply` raises (the same exception) -/
theorem next_agrees_with_apply (W : World) (it : Iter) :
    ∃ skipped, (∀ x ∈ skipped, Sim.apply W it.s x.1 x.2 = .ok none) ∧
      match (it.next W).1 with
      | .done => it.rest = skipped
      | .item ai => it.rest = skipped ++ ai :: (it.next W).2.rest ∧ succeeds W it.s ai = true
      | .raised e => ∃ x post, it.rest = skipped ++ x :: post ∧ Sim.apply W it.s x.1 x.2 = .error e :=
  nextGo_spec W it.s it.rest

/-- a complete enumeration continues a partial one: the element `next` gives, then the complete
    enumeration of what is left -/
theorem drain_after_next (W : World) (it : Iter) :
    it.drain W = drainOfNext W it.s (nextGo W it.s it.rest) :=
  drainGo_eq_next W it.s it.rest

/-- taking `k` elements (and then dropping the generator, or not) shows exactly the first `k` entries of what
    the generator would ever answer: the items of its complete enumeration, how that ends, StopIteration for ever after -/
theorem take_k_is_prefix_of_complete (W : World) (it : Iter) (k : Nat) :
    (it.pull W k).1 = (it.trace W ++ List.replicate k Step.done).take k :=
  pullGo_eq_take W it.s k it.rest

/-- … for a fresh generator whose complete enumeration succeeds: the first `k` of the instances on which `apply`
    succeeds, in grounding order -/
theorem take_k_of_fresh (W : World) (s : SimState) (k : Nat) (l : List (Action × List String))
    (h : Sim.applicableActions W s = .ok l) :
    ((openIter W s).pull W k).1 =
      (((allInstances W.P).filter (succeeds W s)).map Step.item ++ List.replicate (k + 1) Step.done).take k := by
  have hl := applicableActions_eq_filter W s l h
  rw [take_k_is_prefix_of_complete, ← hl]
  rw [drain_fresh_eq_applicableActions] at h
  have h1 : ((openIter W s).drain W).2 = none ∧ ((openIter W s).drain W).1 = l := by
    unfold ofDrain at h
    cases hd : ((openIter W s).drain W).2 with
    | none => rw [hd] at h; exact ⟨rfl, by simpa using h⟩
    | some e => rw [hd] at h; cases h
  have h2 : (openIter W s).trace W = l.map Step.item ++ [Step.done] := by
    show (drainGo W s (allInstances W.P)).1.map Step.item ++ [terminal (drainGo W s (allInstances W.P)).2] = _
    have h1' : (drainGo W s (allInstances W.P)).2 = none ∧ (drainGo W s (allInstances W.P)).1 = l := h1
    rw [h1'.1, h1'.2]; rfl
  rw [h2, List.append_assoc, List.singleton_append, ← List.replicate_succ]

/-- the complete queries are pure in ANY history — whatever was asked before on this simulator instance,
    enumerations left incomplete included, the answer is the answer of the query asked alone, and asking it
    changes no generator the client holds -/
theorem query_pure_in_any_history (W : World) (its : List Iter) (before after : List HistOp) (q : Query) :
    run W its (before ++ .query q :: after) =
      ((run W its before).1 ++ .q (answer W q) :: (run W (run W its before).2 after).1,
       (run W (run W its before).2 after).2) := by
  rw [run_append]; rfl

/-- histories of complete queries only are the histories of `Props/C02.lean` -/
theorem run_of_complete_queries (W : World) (its : List Iter) : ∀ qs : List Query,
    run W its (qs.map HistOp.query) = ((runHistory W qs).map HistAns.q, its)
  | [] => rfl
  | q :: qs => by
    simp only [List.map_cons, run, stepOp, runHistory]
    rw [run_of_complete_queries W its qs]; rfl

/-- a generator is not influenced by anything else in the history: the answers given to the operations on the
    generator with handle `h` are those of that generator used ALONE — other generators (opened before or after,
    on the same or on other states, pulled in between, abandoned) and other queries do not matter -/
theorem generator_noninterference (W : World) (h : Nat) (its : List Iter) (it : Iter) (ops : List HistOp)
    (hh : its[h]? = some it) :
    answersOn h ops (run W its ops).1 = (Iter.acts W it (ops.filterMap (HistOp.act h))).map HistAns.it :=
  answersOn_eq_acts W h ops its it hh

/-- a generator obtained after ANY history is the fresh generator of its state … -/
theorem open_after_any_history (W : World) (its : List Iter) (before : List HistOp) (s : SimState) :
    (run W its (before ++ [.it (.openIt s)])).2 = (run W its before).2 ++ [openIter W s] := by
  rw [run_append]; rfl

/-- … hence what it answers — to any operations on it, interleaved with any others — depends only on the
    state it was asked for: it is what `get_applicable_actions(s)` answers on a fresh simulator -/
theorem enumeration_independent_of_history (W : World) (its : List Iter) (before after : List HistOp) (s : SimState) :
    answersOn (run W its before).2.length after
        (run W (run W its (before ++ [.it (.openIt s)])).2 after).1 =
      (Iter.acts W (openIter W s) (after.filterMap (HistOp.act (run W its before).2.length))).map HistAns.it := by
  apply generator_noninterference
  rw [open_after_any_history]
  simp

/-- … in particular `k` elements taken from it, with anything in between, are the first `k` of the complete
    enumeration (previous theorem + `take_k_is_prefix_of_complete`) -/
theorem acts_next_k (W : World) (it : Iter) (k : Nat) :
    Iter.acts W it (List.replicate k .next) = ((it.trace W ++ List.replicate k Step.done).take k).map IAns.step := by
  rw [acts_replicate_next, take_k_is_prefix_of_complete]

/-! non-vacuity on the example problem of `Props/C01.lean` (instances: act, clash, rd, big; only `act` is
    applicable in `s0`): a history with two generators on one state pulled alternately, a complete query in
    between, one generator closed early, the other consumed to the end -/
section examples
open UPVerif.C01

def stepName : Step → String
  | .item ai => ai.1.name
  | .done => "end"
  | .raised _ => "raise"

def ansName : HistAns → String
  | .q (.bool (.ok b)) => toString b
  | .q _ => "other"
  | .it (.opened k) => s!"iter{k}"
  | .it (.step r) => stepName r
  | .it .closed => "closed"
  | .it (.drained l e) => String.intercalate "," (l.map (·.1.name)) ++ (if e.isSome then "!raise" else "!end")
  | .it .noHandle => "no-iter"

def hist0 : List HistOp :=
  [.it (.openIt s0), .it (.openIt s0), .it (.next 0), .query (.isApplicable s0 big []), .it (.next 1),
   .it (.close 1), .it (.next 0), .it (.next 1), .it (.openIt s0), .it (.drain 2), .it (.next 2)]

example : (run W0 [] hist0).1.map ansName =
    ["iter0", "iter1", "act", "false", "act", "closed", "end", "end", "iter2", "act!end", "end"] := by decide +kernel
example : ((openIter W0 s0).pull W0 3).1.map stepName = ["act", "end", "end"] := by decide +kernel
example : (Sim.applicableActions W0 s0).map (fun l => l.map (·.1.name)) = .ok ["act"] := by decide +kernel
example : (answersOn 0 hist0 (run W0 [] hist0).1).map ansName = ["act", "end"] := by decide +kernel
end examples

end UPVerif.C02
