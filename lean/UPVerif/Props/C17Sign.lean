import UPVerif.Props.C17
/-!
# C17 — the sign decision of `LinearChecker._sign` (addendum to `Props/C17.lean`)

`LinearChecker._sign` decides the sign of a fluent-free factor / of a divisor from the INTERVAL that
`TypeChecker.get_type` infers for it.  In the model nothing about that decision is supplied from
outside: `Lin.signOf E a` runs C15's model `typeOf E a` (Core/Walkers/TypeOf.lean: `walk_plus`,
`walk_minus`, `walk_times`, `walk_div` interval arithmetic over exact rationals) and applies the test
of linear_checker.py:123-132 to the resulting bounds.  Hence a change of the library's interval
inference that alters a sign decision shows up in the correspondence check of C17 (model ≠ code), and
— when it makes the analysis claim a sign that the values do not have — in the property oracle.

This file states the bridge explicitly (the sign the model decides is the sign of every value within
the declared types, for EVERY expression: C15's `C15_sound_interval` is the only ingredient) and pins,
by kernel evaluation, the model's answers on the class of seeded change C17-2: factors whose sign
hangs on one bound of a difference / sum / product / quotient of bounded parameters.
-/
namespace UPVerif.C17
open UPVerif UPVerif.Lin

/-- **The sign decision is sound.**  If `_sign` answers "positive" (`True`) for an expression `a`, every
    value `a` takes under an interpretation within the declared types is `> 0`; if it answers
    "negative" (`False`), every value is `< 0`.  No restriction on `a` (any operators, any nesting). -/
theorem C17_sign_sound {E : TypeEnv} {O : String → Option String} {ι : Interp} {ρ : VEnv}
    (hI : InterpOK E O ι) (hρ : VEnvOK E O ρ) (a : Expr) (s : Sign) (w : Rat)
    (hl : LeavesOK E O ι a) (hs : signOf E a = .ok s) (hd : den ι ρ a = some (.n w)) :
    (s = .pos → 0 < w) ∧ (s = .neg → w < 0) :=
  signOf_sound hI hρ hl hs hd

/-- the test of linear_checker.py:123-132 on a type: "positive" exactly for a numeric type with both
    bounds present and a lower bound `> 0` … -/
theorem signOfTy_pos_iff (t : Ty) :
    signOfTy t = some .pos ↔ ∃ l u, t.isNum = true ∧ t.lb = some l ∧ t.ub = some u ∧ 0 < l := by
  unfold signOfTy
  cases hn : t.isNum <;> cases hl : t.lb <;> cases hu : t.ub <;> simp
  rename_i l u
  by_cases h0 : 0 < l
  · simp [h0]
  · by_cases h1 : u < 0 <;> simp [h0, h1]

/-- … "negative" exactly for a numeric type with both bounds present, a lower bound that is not `> 0`
    and an upper bound `< 0` -/
theorem signOfTy_neg_iff (t : Ty) :
    signOfTy t = some .neg ↔
      ∃ l u, t.isNum = true ∧ t.lb = some l ∧ t.ub = some u ∧ ¬ 0 < l ∧ u < 0 := by
  unfold signOfTy
  cases hn : t.isNum <;> cases hl : t.lb <;> cases hu : t.ub <;> simp
  rename_i l u
  by_cases h0 : 0 < l
  · simp [h0]
  · by_cases h1 : u < 0 <;> simp [h0, h1]
    exact not_lt.1 h0

theorem signOf_ok_iff (E : TypeEnv) (a : Expr) (s : Sign) :
    signOf E a = .ok s ↔ ∃ t, typeOf E a = some t ∧ signOfTy t = some s := by
  unfold signOf
  cases ht : typeOf E a with
  | none => simp
  | some t =>
    cases hs : signOfTy t with
    | none => simp [hs]
    | some s' => simp [hs]

/-- **What the decision is made of**: `_sign` answers "positive" exactly when the type inferred by the
    C15 model is numeric with both bounds present and a lower bound `> 0` … -/
theorem C17_sign_pos_iff (E : TypeEnv) (a : Expr) :
    signOf E a = .ok .pos ↔
      ∃ t l u, typeOf E a = some t ∧ t.isNum = true ∧ t.lb = some l ∧ t.ub = some u ∧ 0 < l := by
  rw [signOf_ok_iff]
  constructor
  · rintro ⟨t, ht, hs⟩
    obtain ⟨l, u, h⟩ := (signOfTy_pos_iff t).1 hs
    exact ⟨t, l, u, ht, h⟩
  · rintro ⟨t, l, u, ht, h⟩
    exact ⟨t, ht, (signOfTy_pos_iff t).2 ⟨l, u, h⟩⟩

/-- … and "negative" exactly when it is numeric with both bounds present, a lower bound that is not
    `> 0`, and an upper bound `< 0` -/
theorem C17_sign_neg_iff (E : TypeEnv) (a : Expr) :
    signOf E a = .ok .neg ↔
      ∃ t l u, typeOf E a = some t ∧ t.isNum = true ∧ t.lb = some l ∧ t.ub = some u ∧ ¬ 0 < l ∧ u < 0 := by
  rw [signOf_ok_iff]
  constructor
  · rintro ⟨t, ht, hs⟩
    obtain ⟨l, u, h⟩ := (signOfTy_neg_iff t).1 hs
    exact ⟨t, l, u, ht, h⟩
  · rintro ⟨t, l, u, ht, h⟩
    exact ⟨t, ht, (signOfTy_neg_iff t).2 ⟨l, u, h⟩⟩

/-! ## the model's answers on the class of seeded change C17-2 (kernel-evaluated) -/
section examples

/-- an integer parameter `n : int[l,u]` -/
def ip (n : String) (l u : Int) : Expr := .leaf (.param n (.int (some l) (some u)))
def fF : FluentRef := { name := "f", ty := .int (some 0) (some 3), sig := [] }
def f : Expr := .app (.fluent fF) []

/-- the demo of C17-2: `(p - q) * f`, `p ∈ [0,5]`, `q ∈ [0,10]`: `p - q ∈ [-10,5]`, sign unknown,
    `f` in both sets (with the upper bound `5 - 10` the factor would be "negative") -/
example : answer (.app .times [.app .minus [ip "p" 0 5, ip "q" 0 10], f]) = some (true, [f], [f]) := by
  decide +kernel
/-- the sign hangs on one bound of the difference: `[6,9] - [0,5] = [1,9]` is positive, `[5,9] - [0,5]`
    touches `0` … -/
example : answer (.app .times [f, .app .minus [ip "p" 6 9, ip "q" 0 5]]) = some (true, [f], []) := by
  decide +kernel
example : answer (.app .times [f, .app .minus [ip "p" 5 9, ip "q" 0 5]]) = some (true, [f], [f]) := by
  decide +kernel
/-- … and on the other side: `[0,4] - [5,9] = [-9,-1]` is negative, `[0,5] - [5,9]` touches `0` -/
example : answer (.app .div [f, .app .minus [ip "p" 0 4, ip "q" 5 9]]) = some (true, [], [f]) := by
  decide +kernel
example : answer (.app .div [f, .app .minus [ip "p" 0 5, ip "q" 5 9]]) = some (true, [f], [f]) := by
  decide +kernel
/-- a product interval needs all four corner products: `a*b + 2`, `a ∈ [1,3]`, `b ∈ [-4,-1]` is in
    `[-10,1]`; `a*b` with both factors straddling `0` is in `[-8,12]`; `a*b - 1` with both negative is
    in `[1,11]` -/
example : answer (.app .times [f, .app .plus [.app .times [ip "a" 1 3, ip "b" (-4) (-1)], Expr.int 2]])
    = some (true, [f], [f]) := by decide +kernel
example : answer (.app .div [f, .app .times [ip "a" (-2) 3, ip "b" (-1) 4]]) = some (true, [f], [f]) := by
  decide +kernel
example : answer (.app .times [.app .minus [.app .times [ip "a" (-3) (-1), ip "b" (-4) (-2)], Expr.int 1], f])
    = some (true, [f], []) := by decide +kernel
/-- sums: `[0,3] + [1,2] + [0,4]` is positive, minus `1` it touches `0` -/
example : answer (.app .times [f, .app .plus [ip "a" 0 3, ip "b" 1 2, ip "c" 0 4]]) = some (true, [f], []) := by
  decide +kernel
example : answer (.app .times [f, .app .minus [.app .plus [ip "a" 0 3, ip "b" 1 2, ip "c" 0 4], Expr.int 1]])
    = some (true, [f], [f]) := by decide +kernel
/-- a quotient by a negative constant swaps the bounds: `([1,4] - [0,0]) / -2 ∈ [-2,-1/2]` -/
example : answer (.app .times [.app .div [.app .minus [ip "a" 1 4, ip "z" 0 0], Expr.int (-2)], f])
    = some (true, [], [f]) := by decide +kernel
/-- touching `0` is not a sign; two interval-signed negative factors cancel -/
example : answer (.app .times [ip "p" 0 5, f]) = some (true, [f], [f]) := by decide +kernel
example : answer (.app .times [.app .minus [ip "a" 0 2, ip "b" 3 5], f, .app .minus [ip "c" (-4) (-3), ip "d" (-2) 0]])
    = some (true, [f], []) := by decide +kernel

/-- the decision itself, on the demo's factor and on its tight neighbour -/
example : (signOf cfg0.tenv (.app .minus [ip "p" 0 5, ip "q" 0 10])).toOption = some .unknown := by decide +kernel
example : (signOf cfg0.tenv (.app .minus [ip "p" 6 9, ip "q" 0 5])).toOption = some .pos := by decide +kernel
example : (signOf cfg0.tenv (.app .minus [ip "p" 0 4, ip "q" 5 9])).toOption = some .neg := by decide +kernel

end examples

end UPVerif.C17
