import UPVerif.Core.PddlNorm
import UPVerif.Lemmas.PddlNumRat
import UPVerif.Lemmas.PddlExprLemmas
import UPVerif.Lemmas.PddlPlanLemmas
import UPVerif.Lemmas.PddlExample
/-!
# C18 — PDDL write/read round trip preserves problem semantics and plans

The theorems are about the executable models `Core/PddlPrint.lean` (the writer), `Core/PddlRead.lean` (the UP
reader) and the specification `Core/PddlNorm.lean` (what the round trip is claimed to yield); the models are tied
to `unified_planning/io/pddl_writer.py` and `up_pddl_reader.py` by the correspondence of `harness/props/C18.py`.

Status
* `C18_decimal_roundtrip`, `C18_int_roundtrip` — full (numeric constants);
* `C18_expr_roundtrip` — full for every expression of the fragment (nested numeric expressions, quantifiers,
  renamed identifiers), under the hypotheses `EnvOK` on the renaming (C38's clauses) and `WF` on the expression;
* `C18_plan_roundtrip` — full (sequential plan text);
* `C18_roundtrip_full` — the whole-problem statement, kept as a `def … : Prop`; proved for its expression, number
  and plan components above (`C18_roundtrip_partial`), evaluated by the compiled model on every generated problem
  (`rt` cases of the correspondence: `pddlRead (pddlPrint P) = pddlNorm P` is decided case by case).
  Missing for the full theorem: the section / typed-list /
  effect-queue layers of the reader (list plumbing, no new idea), and the link from `pddlNorm` to the simulator's
  successor function (C01's `Sim`), which is another builder's model.
-/
namespace UPVerif.C18
open UPVerif UPVerif.Pddl

/-! ## numeric constants -/

/-- The text the (repaired) writer prints for a rational constant with a finite decimal expansion is read back by
    both readers (`Fraction(token)`) as exactly that rational — whatever its number of digits. -/
theorem C18_decimal_roundtrip (r : Rat) (s : String) (h : decimalStr r = some s) : parseNumber s = some r :=
  parseNumber_decimalStr r s h

/-- Integer constants (`str(int)`) are read back exactly, whatever their magnitude and sign. -/
theorem C18_int_roundtrip (z : Int) : parseNumber (intStr z) = some (z : Rat) :=
  parseNumber_intStr z

-- non-vacuity: an 11-significant-digit decimal (rounded to 123456789.0 before the repair), a tiny one, an integral one
example : decimalStr ((12345678901 : Rat) / 100) = some "123456789.01" := by decide +kernel
example : decimalStr ((1 : Rat) / 10000000) = some "0.0000001" := by decide +kernel
example : decimalStr (2 : Rat) = some "2.0" := by decide +kernel
example : decimalStr ((-7 : Rat) / 4) = some "-1.75" := by decide +kernel
example : decimalStr ((1 : Rat) / 3) = none := by decide +kernel

/-! ## expressions -/

/-- **Expression round trip.**  Every expression of the fragment that the writer model prints is read back, by
    the reader model, as its renamed normal form `normExpr ρ e` — for all nestings, operand counts and quantifier
    depths.  `EnvOK` collects what is needed of the renaming and of the reader's symbol tables (the new names
    denote the renamed declarations and are not operators, quantifiers or numerals; variables and parameters do
    not clash); `WF` says the expression only mentions declared symbols and bound variables; `ScopeOK`/`ScopeVars`
    relate the enclosing variable scope on both sides (both hold trivially for the empty scope). -/
theorem C18_expr_roundtrip {ρ : Ren} {D : Decls} {E : REnv} (ok : EnvOK ρ D E)
    (e : Expr) (sc rsc : List Var) (t : Sexp) (e' : Expr)
    (hwf : WF D sc e) (hsc : ScopeOK ρ sc rsc) (hrv : ScopeVars ρ rsc)
    (hp : printExpr ρ e = some t) (hn : normExpr ρ e = some e') :
    readExpr E rsc t = some e' :=
  readExpr_printExpr parseNumber_decimalStr ok e sc rsc t e' hwf hsc hrv hp hn

-- non-vacuity: a concrete renaming (upper-case names, `?`-prefixed parameters and variables), symbol tables and a
-- quantified expression with `iff`, a ternary `+`, an 11-digit decimal and a negation meet every hypothesis
example : EnvOK Example.ρ0 Example.D0 Example.E0 := Example.envOK
example : WF Example.D0 [] Example.e0 ∧ (printExpr Example.ρ0 Example.e0).isSome = true ∧
    (normExpr Example.ρ0 Example.e0).isSome = true :=
  ⟨Example.e0_wf, Example.e0_printed, Example.e0_normed⟩

/-- the empty scope satisfies the scope hypotheses -/
theorem C18_empty_scope (ρ : Ren) : ScopeOK ρ [] [] ∧ ScopeVars ρ [] := by
  constructor
  · intro v hv
    cases hv
  · intro w hw
    cases hw

/-! ## plans -/

/-- **Plan round trip.**  A sequential plan written by the writer model (one `(action object…)` line per step,
    under the renaming) parses back to the same plan when names are resolved through the inverse renaming
    (`get_item_named`), provided that table inverts the renaming of actions and objects on lower-cased names
    (C38: `otn`/`nto` are mutually inverse and the new names are lower case). -/
theorem C18_plan_roundtrip (ρ : Ren) (inv : Inv)
    (hinv : ∀ k s, (∃ n, k = .action n ∨ k = .obj n) → ρ k = some s → inv (lowerStr s) = some k)
    (plan : List (String × List String)) (trees : List Sexp) (h : printPlan ρ plan = some trees) :
    readPlan inv trees = some plan :=
  readPlan_printPlan ρ inv hinv plan trees h

/-! ## the whole problem -/

/-- words the reader gives a meaning of their own -/
def reservedTokens : List String :=
  ["total-cost", "object", "number", "either", "when", "assign", "increase", "decrease", "scale-up", "scale-down",
   "exists", "forall", "at", "oneof", "unknown", "define", "domain", "problem"]

/-- Hypotheses of the full statement.  `ren_*`: what C38 proves of the writer's renaming (total on the problem's
    names, injective, lower case, `?` exactly on parameters and variables, never an operator / keyword / numeral).
    `wf_*`: the problem only mentions what it declares, its kind features are those of the problem, it has at
    most one metric, no trajectory constraint, unbounded numeric fluents, and an initial state listed once per
    ground fluent. -/
structure InFragment (ρ : Ren) (K : PKind) (P : Problem) : Prop where
  ren_inj : ∀ k1 k2 s, ρ k1 = some s → ρ k2 = some s → k1 = k2
  ren_lower : ∀ k s, ρ k = some s → lowerStr s = s
  ren_q : ∀ k s, ρ k = some s → ((stripQ s).isSome = true ↔ ∃ n t, k = .param n t ∨ k = .var n t)
  ren_plain : ∀ k s, ρ k = some s → isOperator s = false ∧ isTrajOp s = false ∧ parseNumber s = none ∧
    s ∉ reservedTokens
  wf_actions : ∀ a ∈ P.actions,
    let D : Decls := { fluents := P.fluents.map (·.ref), objects := P.objects, params := a.params }
    WFs D [] a.pre ∧ ∀ e ∈ a.effs, WF D e.forall_ e.fluent ∧ WF D e.forall_ e.value ∧ WF D e.forall_ e.cond
  wf_goals : WFs { fluents := P.fluents.map (·.ref), objects := P.objects, params := [] } [] P.goals
  wf_init : ∀ p ∈ P.init, WF { fluents := P.fluents.map (·.ref), objects := P.objects, params := [] } [] p.1 ∧
    Expr.isConstant p.2 = true
  wf_init_keys : (P.init.map (·.1)).Nodup
  wf_types : ∀ p ∈ P.types.fathers, ∀ f, p.2 = some f → ∃ q ∈ P.types.fathers, q.1 = f
  wf_objects : ∀ o ∈ P.objects, ∃ q ∈ P.types.fathers, q.1 = o.2
  wf_kind_hier : K.has "HIERARCHICAL_TYPING" = true ↔ ∃ p ∈ P.types.fathers, p.2.isSome = true
  wf_kind_cost : hasCosts K = true ↔ ∃ m ∈ P.metrics, (match m with
    | .minActionCosts _ _ => True | .minLength => True | _ => False)
  wf_unsupported : unsupportedFeatures.any K.has = false ∧ P.metrics.length ≤ 1 ∧ P.traj = []

/-- **Full statement** (not proved in full): writing a problem of the fragment and reading the two texts back
    yields exactly the specification `pddlNorm`. -/
def C18_roundtrip_full : Prop :=
  ∀ (ρ : Ren) (K : PKind) (P : Problem) (dom prob : Sexp) (N : Problem), InFragment ρ K P →
    printDomain ρ K P = some dom → printProblem ρ K P = some prob → pddlNorm ρ K P = some N →
    pddlRead dom prob = some N

/-- What is proved of `C18_roundtrip_full`: its expression layer.  Each precondition conjunct, effect condition,
    effect value, goal conjunct, cost and metric expression that the writer model prints is read back as the
    corresponding expression of `pddlNorm` (which is built from `normExpr` of exactly those expressions). -/
theorem C18_roundtrip_partial {ρ : Ren} {D : Decls} {E : REnv} (ok : EnvOK ρ D E)
    (es : List Expr) (ts : List Sexp) (es' : List Expr) (hwf : WFs D [] es)
    (hp : printExprs ρ es = some ts) (hn : normExprs ρ es = some es') :
    readExprs E [] ts = some es' :=
  readExprs_printExprs parseNumber_decimalStr ok es [] [] ts es' hwf (C18_empty_scope ρ).1 (C18_empty_scope ρ).2 hp hn

end UPVerif.C18
