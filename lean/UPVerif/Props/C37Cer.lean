import UPVerif.Props.C37
import UPVerif.Lemmas.MACerBridge
/-!
# C37 — what the multi-agent conditional-effects remover shares with the single-agent one

`MAConditionalEffectsRemover` inherits `_create_unconditional_actions` and
`_instances_of_conditional_effect` from `ConditionalEffectsRemover` (C06/C07: `Core/Compile/CER.lean`).

* `C37_cond_variant_is_cer`, `C37_cond_bodies_are_cer`: C37's own executable copy of the per-action split
  (`MA.condVariant`, `MA.condBodies`) IS the single-agent model (`Compile.cerVariant`, `Compile.cerVariants`):
  the two correspondence checks (C06/C07 on `Problem`s, C37 on `MultiAgentProblem`s) tie the same function
  to the same Python code.
* FORALL EFFECTS.  The multi-agent model takes the expansion step from `Core/Compile/CER.lean` as it is
  (`Compile.cerExpand` over `MAProblem.objProblem`; `Sim.expandEffect` = `Effect.expand_effect`).
  `C37_forall_expansion_preserves`: the step does not change the reference successor (`MASpec.successorIn`:
  a forall effect stands for its instances over all objects) — this is C06/C07's lemma
  `Compile.expandEffs_cerExpand`, reused.  `C37_cond_forall_partial`: for an action all of whose forall effects are
  conditional with a condition that mentions a variable — the ones the step expands — the four clauses of
  `C37_cond` hold between the ORIGINAL action (with its forall effects) and the variants the compiler yields.
  Forall effects the step keeps (unconditional ones, conditional ones with a closed condition) are inside
  the model, the correspondence check and the property oracle, but outside `C37_cond_forall_partial`
  (`C37_cond_forall_full` states the clause without that restriction; it is not proved).
-/
namespace UPVerif.C37
open UPVerif UPVerif.Expr UPVerif.Sim UPVerif.MA UPVerif.MASpec

/-! ## the two models of `_create_unconditional_actions` are one -/

/-- one subset: C37's `condVariant` yields exactly what the single-agent `cerVariant` yields (for an action
    the library accepted; otherwise `condVariant` reports the escaping exception) -/
theorem C37_cond_variant_is_cer (simp : Expr → Expr) (a : Action) (p : List Nat) :
    condVariant simp a p = if Accepted a then some ((Compile.cerVariant simp a p).map bodyOf) else none :=
  condVariant_eq_cerVariant simp a p

/-- the whole helper: same variants, same order -/
theorem C37_cond_bodies_are_cer (simp : Expr → Expr) (a : Action) (h : Accepted a) :
    condBodies simp a = some ((Compile.cerVariants simp a).map bodyOf) :=
  condBodies_eq_cerVariants simp a h

/-! ## forall effects -/

/-- `_instances_of_conditional_effect` does not change what the action does: the action with its conditional
    forall effects expanded has the successor of the original in every state -/
theorem C37_forall_expansion_preserves (O : Problem) (V : View) (g : GState) (a : Action) :
    successorIn O V g a.pre (Compile.cerExpand O a).effs = successorIn O V g a.pre a.effs := by
  unfold successorIn
  have := Compile.expandEffs_cerExpand O a.effs
  unfold Compile.expandEffs at this
  unfold Compile.cerExpand
  simp only
  rw [this]

/-- on forall-free effects `successorIn` is `successor` -/
theorem C37_successorIn_ground (O : Problem) (V : View) (g : GState) (pre : List Expr) (E : List Effect)
    (h : ∀ e ∈ E, e.forall_ = []) : successorIn O V g pre E = successor V g pre E := by
  unfold successorIn
  have := Compile.expandEffs_simple O E h
  unfold Compile.expandEffs at this
  rw [this]

/-- the step leaves no forall effect: every forall effect of the action is conditional with a condition that
    mentions a variable (decidable; `Compile.cerInstances` is the test of the Python code) -/
def GroundAfter (O : Problem) (a : Action) : Prop := ∀ e ∈ (Compile.cerExpand O a).effs, e.forall_ = []

instance (O : Problem) (a : Action) : Decidable (GroundAfter O a) := by unfold GroundAfter; infer_instance

/-- MAIN THEOREM with forall effects.  `a` is an action of an agent of a problem with objects `O`; `a'` is what
    `_create_unconditional_actions` works on (conditional forall effects expanded).  When that step leaves no
    forall effect, then for every state in which `a'` is defined the clauses of `C37_cond` hold between the
    ORIGINAL `a`, forall effects included, and the variants yielded for `a'`:
    (1) variants of other subsets are inapplicable, (2) the selected variant has the original's successor,
    (3) nothing is raised, (4) the selected variant is dropped only for an inapplicable or no-op original,
    provided no two firing assignments of different value expressions coincide. -/
theorem C37_cond_forall_partial (O : Problem) (simp : Expr → Expr) (V : View) (g : GState) (a : Action)
    (hgr : GroundAfter O a) (hs : SimpSound V g simp) (hP : AllDefined V g a.pre)
    (hD : ∀ e ∈ (Compile.cerExpand O a).effs, EffDefined V g e) :
    (∀ p ∈ powerset (List.range (condEffects (Compile.cerExpand O a)).length),
      p ≠ selIdx V g (enumFrom 0 (condEffects (Compile.cerExpand O a))) →
      ∀ b, condVariant simp (Compile.cerExpand O a) p = some (some b) → successorIn O V g b.pre b.effs = none) ∧
    (∀ b, condVariant simp (Compile.cerExpand O a) (selIdx V g (enumFrom 0 (condEffects (Compile.cerExpand O a)))) = some (some b) →
      successorIn O V g b.pre b.effs = successorIn O V g a.pre a.effs) ∧
    (Accepted (Compile.cerExpand O a) →
      condVariant simp (Compile.cerExpand O a) (selIdx V g (enumFrom 0 (condEffects (Compile.cerExpand O a)))) ≠ none) ∧
    (coincide V g (Compile.cerExpand O a) = false →
      condVariant simp (Compile.cerExpand O a) (selIdx V g (enumFrom 0 (condEffects (Compile.cerExpand O a)))) = some none →
        successorIn O V g a.pre a.effs = none ∨
        (uncondEffects (Compile.cerExpand O a) = [] ∧ successorIn O V g a.pre a.effs = some g)) := by
  have hpre : (Compile.cerExpand O a).pre = a.pre := rfl
  obtain ⟨c1, c2, c3, c4⟩ := C37_cond simp V g (Compile.cerExpand O a) hs (hpre ▸ hP) hD
  have horig : successorIn O V g a.pre a.effs = successor V g (Compile.cerExpand O a).pre (Compile.cerExpand O a).effs := by
    rw [← C37_forall_expansion_preserves, C37_successorIn_ground O V g _ _ hgr]
    rfl
  refine ⟨fun p hp hne b hb => ?_, fun b hb => ?_, c3, fun hco hn => ?_⟩
  · rw [C37_successorIn_ground O V g _ _ (variant_ground hgr hb)]
    exact c1 p hp hne b hb
  · rw [C37_successorIn_ground O V g _ _ (variant_ground hgr hb), horig]
    exact c2 b hb
  · rw [horig]
    exact c4 hco hn

/-- the same clauses WITHOUT `GroundAfter` (forall effects the step keeps: unconditional ones and conditional
    ones with a closed condition): stated, not proved — the variants then carry forall effects themselves and
    the static conflict check compares their unexpanded targets -/
def C37_cond_forall_full : Prop :=
  ∀ (O : Problem) (simp : Expr → Expr) (V : View) (g : GState) (a : Action),
    SimpSound V g simp → AllDefined V g a.pre →
    (∀ e ∈ (Compile.cerExpand O a).effs.flatMap (Sim.expandEffect O), EffDefined V g e) →
    (∀ b, condVariant simp (Compile.cerExpand O a) (selIdx V g (enumFrom 0 (condEffects (Compile.cerExpand O a)))) = some (some b) →
      successorIn O V g b.pre b.effs = successorIn O V g a.pre a.effs)

/-! ## non-vacuity -/

section examples
/-- objects `o1 o2 : T`; agent `a1` declares `at(T) : bool`, `cnt(T) : int[0,2]` -/
def OT : Problem :=
  { name := "", types := { fathers := [("T", none)] }, objects := [("o1", "T"), ("o2", "T")], fluents := [],
    init := [], actions := [], goals := [], traj := [], metrics := [] }
def fat : FluentRef := ⟨"at", .bool, [.user "T"]⟩
def fcnt : FluentRef := ⟨"cnt", .int (some 0) (some 2), [.user "T"]⟩
def vx : Var := ⟨"x", .user "T"⟩
def ob (o : String) : Expr := .leaf (.obj o "T")
def VT : View := { agent := "a1", own := [fat, fcnt] }
/-- `at(o1)`, not `at(o2)`, `cnt(o1) = cnt(o2) = 0` -/
def gT : GState := fun k =>
  if k = (qual "a1" fat, [.o "o1"]) then some (.b true)
  else if k = (qual "a1" fat, [.o "o2"]) then some (.b false)
  else if k = (qual "a1" fcnt, [.o "o1"]) then some (.n 0)
  else if k = (qual "a1" fcnt, [.o "o2"]) then some (.n 0) else none
/-- `act`: `forall x : T. when at(x): cnt(x) := 1`, `cnt(o2) += 1` -/
def aForall : Action :=
  { name := "act", params := [], pre := [],
    effs := [{ fluent := mkFluent fcnt [.leaf (.var vx)], value := int 1, cond := mkFluent fat [.leaf (.var vx)],
               kind := .assign, forall_ := [vx] },
             { fluent := mkFluent fcnt [ob "o2"], value := int 1, cond := tt, kind := .increase, forall_ := [] }] }

/-- the step replaces the forall effect by its two instances … -/
example : (Compile.cerExpand OT aForall).effs =
    [eff (mkFluent fcnt [ob "o1"]) (int 1) (mkFluent fat [ob "o1"]) .assign,
     eff (mkFluent fcnt [ob "o2"]) (int 1) (mkFluent fat [ob "o2"]) .assign,
     eff (mkFluent fcnt [ob "o2"]) (int 1) tt .increase] := by decide +kernel
/-- … leaves no forall effect, the library's check accepts the action … -/
example : GroundAfter OT aForall := by decide +kernel
example : Accepted (Compile.cerExpand OT aForall) := by decide +kernel
/-- … the state selects the first instance, nothing coincides, and of the four subsets the two that select
    `cnt(o2) := 1` beside `cnt(o2) += 1` are dropped for the static conflict -/
example : selIdx VT gT (enumFrom 0 (condEffects (Compile.cerExpand OT aForall))) = [0] := by decide +kernel
example : coincide VT gT (Compile.cerExpand OT aForall) = false := by decide +kernel
example : (condBodies id (Compile.cerExpand OT aForall)).map List.length = some 2 := by decide +kernel
/-- the original, forall effect included, is applicable in that state -/
example : (successorIn OT VT gT aForall.pre aForall.effs).isSome = true := by decide +kernel
/-- the hypotheses on the state: every effect of the expanded action is defined -/
example : ∀ e ∈ (Compile.cerExpand OT aForall).effs, EffDefined VT gT e := by
  have h : (Compile.cerExpand OT aForall).effs =
    [eff (mkFluent fcnt [ob "o1"]) (int 1) (mkFluent fat [ob "o1"]) .assign,
     eff (mkFluent fcnt [ob "o2"]) (int 1) (mkFluent fat [ob "o2"]) .assign,
     eff (mkFluent fcnt [ob "o2"]) (int 1) tt .increase] := by decide +kernel
  rw [h]
  intro e he
  simp only [List.mem_cons, List.not_mem_nil, or_false] at he
  rcases he with rfl | rfl | rfl
  · exact ⟨⟨.setV (qual "a1" fcnt, [.o "o1"]) (.n 1), by decide +kernel⟩, ⟨true, by decide +kernel⟩⟩
  · exact ⟨⟨.setV (qual "a1" fcnt, [.o "o2"]) (.n 1), by decide +kernel⟩, ⟨false, by decide +kernel⟩⟩
  · exact ⟨⟨.delta (qual "a1" fcnt, [.o "o2"]) 1, by decide +kernel⟩, ⟨true, by decide +kernel⟩⟩
end examples

end UPVerif.C37
