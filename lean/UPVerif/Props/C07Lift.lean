import UPVerif.Props.C07
import UPVerif.Props.C06Lift
import UPVerif.Lemmas.CompileLiftDCRGoal
import UPVerif.Lemmas.CompileLiftWalkers
/-!
# C07 on ALL action instances — compiler completeness lifted from parameterless actions to `tsLifted`

Counterpart of `Props/C06Lift.lean` (read its header first): the backward simulations of ConditionalEffectsRemover,
StateInvariantsRemover and DisjunctiveConditionsRemover between the transition systems of ALL instances, hence
completeness with the same plan length (`k + 1` with goal actions) and "unsolvable compiled ⇒ unsolvable original" on all
instances.  The hypotheses that exclude the open findings stay what they were, read on the LIFTED actions (they decide
which variants the compiler yields): `cerHasUncond` (C07-noop-variant-pruned), `cerNoConflict`
(C07-static-conflict-coinciding-values), `dcrKeepsEffects`.

The literal statement `cer_complete_full` is false on the lifted system as well (`cer_complete_full_refuted`, the witness
of `Props/C07.lean` replayed on `tsLifted`).
-/
namespace UPVerif.C07
open UPVerif UPVerif.Expr UPVerif.Sim UPVerif.Spec UPVerif.Simulation UPVerif.Compile

/-! ## ConditionalEffectsRemover -/

/-- the step lemma on one instance `σ`: whenever the instance of the original action applies, the variant selected by
    the truth values of the instantiated conditions is among the yielded ones, its instance applies and gives the same
    successor.  The simplifier is asked ONE implication (truth of the instantiated conjunction of a variant's
    preconditions is kept by simplification). -/
theorem cer_variant_complete_instance (simp : Expr → Expr) (W : World) (σ : Subst) (hσ : IsParamSubst σ) (a : Action)
    (hst : ∀ e ∈ a.effs, condStable σ e = true) (hok : cerOK (instOf σ a) = true)
    (hnc : cerNoConflict a = true) (hu : cerHasUncond a = true) (g g' : St)
    (hb : BoolConds (instOf σ a) (ctxOf W g))
    (hpres : ∀ p, Spec.isTrue (eval (ctxOf W g) [] (substE σ (cerPreExpr a p))) = true →
      Spec.isTrue (eval (ctxOf W g) [] (substE σ (simp (cerPreExpr a p)))) = true)
    (h : stepI W g a σ = some g') : ∃ a' ∈ cerVariants simp a, stepI W g a' σ = some g' :=
  cer_complete_stepI W hσ hst hok hnc hu hb hpres h

/-- COMPLETENESS of ConditionalEffectsRemover on ALL instances with the SAME plan length, for problems where no variant
    is pruned and the instantiated effect conditions are rooted in a connective or comparison -/
theorem cer_complete_lifted_partial (simp : Expr → Expr) (W : World) (c : Compiled)
    (hc : cerCompile simp W.P = some c) (hs : SimpExactInst simp W.P) (hok : cerLiftOK W.P = true)
    (hnc : ∀ a ∈ W.P.actions, Action.isConditional a = true →
      cerNoConflict (cerExpand W.P a) = true ∧ cerHasUncond (cerExpand W.P a) = true)
    (hr : cerLiftRooted W.P = true) (π : List (Nat × List String)) (hv : (tsLifted W).Valid π) :
    ∃ π', (tsLifted (withProblem W c.prob)).Valid π' ∧ mapBack (backLifted c) π' = π ∧ π'.length ≤ π.length := by
  have := (cer_bwd_lifted W hc hok hnc (fun _ => True) (fun _ _ => trivial) (fun _ _ _ _ _ => trivial)
    (fun g _ _ ha _ hin => boolConds_of_rooted (cerLiftRooted_at hr ha hin) (ctxOf W g))
    (cerSimpAt_of_exact hs _)).complete π hv
  simpa using this

/-- the same with an arbitrary typing invariant `T` of the original runs instead of the syntactic restriction -/
theorem cer_complete_typed_lifted_partial (simp : Expr → Expr) (W : World) (c : Compiled)
    (hc : cerCompile simp W.P = some c) (hs : SimpExactInst simp W.P) (hok : cerLiftOK W.P = true)
    (hnc : ∀ a ∈ W.P.actions, Action.isConditional a = true →
      cerNoConflict (cerExpand W.P a) = true ∧ cerHasUncond (cerExpand W.P a) = true)
    (T : St → Prop) (hT0 : ∀ g, (tsLifted W).init = some g → T g)
    (hTs : ∀ g ia g', T g → (tsLifted W).step g ia = some g' → T g')
    (hb : ∀ g, T g → ∀ a ∈ W.P.actions, ∀ args ∈ instancesOf W.P a,
      BoolConds (instOf (paramSubst W.P a args) (cerExpand W.P a)) (ctxOf W g))
    (π : List (Nat × List String)) (hv : (tsLifted W).Valid π) :
    ∃ π', (tsLifted (withProblem W c.prob)).Valid π' ∧ mapBack (backLifted c) π' = π ∧ π'.length ≤ π.length := by
  have := (cer_bwd_lifted W hc hok hnc T hT0 hTs hb (cerSimpAt_of_exact hs _)).complete π hv
  simpa using this

theorem cer_unsolvable_lifted_partial (simp : Expr → Expr) (W : World) (c : Compiled)
    (hc : cerCompile simp W.P = some c) (hs : SimpExactInst simp W.P) (hok : cerLiftOK W.P = true)
    (hnc : ∀ a ∈ W.P.actions, Action.isConditional a = true →
      cerNoConflict (cerExpand W.P a) = true ∧ cerHasUncond (cerExpand W.P a) = true)
    (hr : cerLiftRooted W.P = true) (hB : ¬ (tsLifted (withProblem W c.prob)).Solvable) : ¬ (tsLifted W).Solvable :=
  (cer_bwd_lifted W hc hok hnc (fun _ => True) (fun _ _ => trivial) (fun _ _ _ _ _ => trivial)
    (fun g _ _ ha _ hin => boolConds_of_rooted (cerLiftRooted_at hr ha hin) (ctxOf W g))
    (cerSimpAt_of_exact hs _)).unsolvable hB

/-! ## StateInvariantsRemover -/

/-- COMPLETENESS of StateInvariantsRemover on ALL instances with the SAME plan length -/
theorem sir_complete_lifted_partial (simp : Expr → Expr) (W : World) (c : Compiled) (hc : sirCompile simp W.P = some c)
    (hok : SirOK simp W c) (hs : SimpExactInst simp W.P) (hl : sirLiftOK W.P = true)
    (π : List (Nat × List String)) (hv : (tsLifted W).Valid π) :
    ∃ π', (tsLifted (withProblem W c.prob)).Valid π' ∧ mapBack (backLifted c) π' = π ∧ π'.length ≤ π.length := by
  have := (sir_bwd_lifted W hc (hok.liftOK hl) (fun _ => True) (fun _ _ => trivial) (fun _ _ _ _ _ => trivial)
    (hok.walkAt hs _)).complete π hv
  simpa using this

theorem sir_unsolvable_lifted_partial (simp : Expr → Expr) (W : World) (c : Compiled)
    (hc : sirCompile simp W.P = some c) (hok : SirOK simp W c) (hs : SimpExactInst simp W.P)
    (hl : sirLiftOK W.P = true) (hB : ¬ (tsLifted (withProblem W c.prob)).Solvable) : ¬ (tsLifted W).Solvable :=
  (sir_bwd_lifted W hc (hok.liftOK hl) (fun _ => True) (fun _ _ => trivial) (fun _ _ _ _ _ => trivial)
    (hok.walkAt hs _)).unsolvable hB

/-! ## DisjunctiveConditionsRemover -/

/-- COMPLETENESS of the action split of DisjunctiveConditionsRemover on ALL instances with the SAME plan length (no goal
    action, no split effect condition, no action loses all its effects) -/
theorem dcr_complete_lifted_partial (simp dnfE : Expr → Expr) (W : World) (c : Compiled)
    (hc : dcrCompile simp dnfE W.P = some c) (hok : DcrLiftOK simp dnfE W) (hw : DcrWalkExact simp dnfE W)
    (hke : ∀ a ∈ W.P.actions, dcrKeepsEffects simp dnfE a = true) (π : List (Nat × List String))
    (hv : (tsLifted W).Valid π) :
    ∃ π', (tsLifted (withProblem W c.prob)).Valid π' ∧ mapBack (backLifted c) π' = π ∧ π'.length ≤ π.length := by
  have := (dcr_bwd_lifted W hc hok hke (fun _ => True) (fun _ _ => trivial) (fun _ _ _ _ _ => trivial)
    (hw.at _)).complete π hv
  simpa using this

/-- COMPLETENESS with bound `k + 1` on ALL instances when goal actions are added -/
theorem dcr_goal_action_complete_lifted_partial (simp dnfE : Expr → Expr) (W : World) (c : Compiled) (args : List Expr)
    (hg : dnfE (mkAnd W.P.goals) = .app .or args) (hc : dcrCompile simp dnfE W.P = some c)
    (hok : DcrGoalLiftOK simp dnfE W) (hke : ∀ a ∈ W.P.actions, dcrKeepsEffects simp dnfE a = true)
    (π : List (Nat × List String)) (hv : (tsLifted W).Valid π) :
    ∃ π', (tsLifted (withProblem W c.prob)).Valid π' ∧ mapBack (backLifted c) π' = π ∧ π'.length ≤ π.length + 1 :=
  (dcrGoal_bwd_lifted W hg hc hok hke).complete π hv

theorem dcr_unsolvable_lifted_partial (simp dnfE : Expr → Expr) (W : World) (c : Compiled)
    (hc : dcrCompile simp dnfE W.P = some c) (hok : DcrLiftOK simp dnfE W) (hw : DcrWalkExact simp dnfE W)
    (hke : ∀ a ∈ W.P.actions, dcrKeepsEffects simp dnfE a = true)
    (hB : ¬ (tsLifted (withProblem W c.prob)).Solvable) : ¬ (tsLifted W).Solvable :=
  (dcr_bwd_lifted W hc hok hke (fun _ => True) (fun _ _ => trivial) (fun _ _ _ _ _ => trivial)
    (hw.at _)).unsolvable hB

/-! ## with the walker MODELS in place of the parameters (see `Props/C06Lift.lean`)

`T` is here an invariant of the ORIGINAL problem's runs. -/

/-- COMPLETENESS of ConditionalEffectsRemover on all instances with C11's simplifier model -/
theorem cer_complete_simplifier_partial (cfg : SimpCfg) (W : World) (c : Compiled)
    (hc : cerCompile (Drv.C06.simpTotal cfg) W.P = some c) (hok : cerLiftOK W.P = true)
    (hnc : ∀ a ∈ W.P.actions, Action.isConditional a = true →
      cerNoConflict (cerExpand W.P a) = true ∧ cerHasUncond (cerExpand W.P a) = true)
    (T : St → Prop) (hT0 : ∀ g, (tsLifted W).init = some g → T g)
    (hTs : ∀ g ia g', T g → (tsLifted W).step g ia = some g' → T g')
    (hb : ∀ g, T g → ∀ a ∈ W.P.actions, ∀ args ∈ instancesOf W.P a,
      BoolConds (instOf (paramSubst W.P a args) (cerExpand W.P a)) (ctxOf W g))
    (hwalk : ∀ g, T g → ∀ a ∈ W.P.actions, ∀ args ∈ instancesOf W.P a, ∀ p, ∃ oty,
      WalkOK cfg (ctxOf W g) (paramSubst W.P a args) oty (cerPreExpr (cerExpand W.P a) p))
    (π : List (Nat × List String)) (hv : (tsLifted W).Valid π) :
    ∃ π', (tsLifted (withProblem W c.prob)).Valid π' ∧ mapBack (backLifted c) π' = π ∧ π'.length ≤ π.length := by
  have := (cer_bwd_lifted W hc hok hnc T hT0 hTs hb (cerSimpAt_of_walkOK hwalk)).complete π hv
  simpa using this

/-- COMPLETENESS of StateInvariantsRemover on all instances with C11's simplifier model -/
theorem sir_complete_simplifier_partial (cfg : SimpCfg) (W : World) (c : Compiled)
    (hc : sirCompile (Drv.C06.simpTotal cfg) W.P = some c) (hok : SirLiftOK W c) (T : St → Prop)
    (hT0 : ∀ g, (tsLifted W).init = some g → T g)
    (hTs : ∀ g ia g', T g → (tsLifted W).step g ia = some g' → T g')
    (hwalk : ∀ g, T g → SirWalkOK cfg W g) (π : List (Nat × List String)) (hv : (tsLifted W).Valid π) :
    ∃ π', (tsLifted (withProblem W c.prob)).Valid π' ∧ mapBack (backLifted c) π' = π ∧ π'.length ≤ π.length := by
  have := (sir_bwd_lifted W hc hok T hT0 hTs (sirWalkAt_of_walkOK hwalk)).complete π hv
  simpa using this

/-- COMPLETENESS of DisjunctiveConditionsRemover (no goal action) on all instances with C12's DNF model `Expr.dnf simp` -/
theorem dcr_complete_walkers_partial (simp : Expr → Expr) (W : World) (c : Compiled)
    (hc : dcrCompile simp (Expr.dnf simp) W.P = some c)
    (hok : DcrLiftOK simp (Expr.dnf simp) W)
    (hke : ∀ a ∈ W.P.actions, dcrKeepsEffects simp (Expr.dnf simp) a = true)
    (T : St → Prop) (hT0 : ∀ g, (tsLifted W).init = some g → T g)
    (hTs : ∀ g ia g', T g → (tsLifted W).step g ia = some g' → T g')
    (hwalk : ∀ g, T g → DcrWalkOKIn simp W g) (π : List (Nat × List String)) (hv : (tsLifted W).Valid π) :
    ∃ π', (tsLifted (withProblem W c.prob)).Valid π' ∧ mapBack (backLifted c) π' = π ∧ π'.length ≤ π.length := by
  have := (dcr_bwd_lifted W hc hok hke T hT0 hTs (dcrWalkAt_of_walkOK hwalk)).complete π hv
  simpa using this

section witness
/-! ## the pruning of effect-less variants refutes `cer_complete_full` on the lifted system too

the witness `P2` of `Props/C07.lean` (action `n`: `b := true if x <= 0`, `x = 1`, goal `not b`): the plan `[n()]` is valid,
the only compiled action (the variant "condition true") does not apply in the initial state. -/

def firstStepFailsL (ia : Nat × List String) : Bool :=
  match (tsLifted (withProblem W2 c2.prob)).init with
  | some g => ((tsLifted (withProblem W2 c2.prob)).step g ia).isNone
  | none => true

theorem cer_noop_witness_lifted :
    (tsLifted W2).Valid [(0, [])] ∧
    ¬ ∃ π', (tsLifted (withProblem W2 c2.prob)).Valid π' ∧ mapBack (backLifted c2) π' = [(0, [])] := by
  refine ⟨validLB_sound (by decide +kernel), ?_⟩
  rintro ⟨π', ⟨s0, sf, hi, hr, _⟩, hm⟩
  cases π' with
  | nil => simp [mapBack] at hm
  | cons ia rest =>
    obtain ⟨i, args⟩ := ia
    have h0 : firstStepFailsL (0, []) = true := by decide +kernel
    simp only [TS.run] at hr
    cases hs : (tsLifted (withProblem W2 c2.prob)).step s0 (i, args) with
    | none => rw [hs] at hr; cases hr
    | some s1 =>
      obtain ⟨a', ha', hin, _⟩ := tsLifted_step hs
      dsimp only at ha' hin
      have hacts : (withProblem W2 c2.prob).P.actions.length = 1 := by decide +kernel
      have hi0 : i = 0 := by
        have hlt : i < (withProblem W2 c2.prob).P.actions.length := (List.getElem?_eq_some_iff.1 ha').1
        omega
      subst hi0
      have hpar : ((withProblem W2 c2.prob).P.actions.all (fun a => a.params.isEmpty)) = true := by decide +kernel
      have ha0 : a'.params = [] := by
        have := List.all_eq_true.1 hpar a' (List.mem_of_getElem? ha')
        simpa using this
      have hargs : args = [] := by
        have := mem_instancesOf.1 hin
        unfold instancesOf at this
        rw [ha0] at this
        simpa [cartesian] using this
      subst hargs
      unfold firstStepFailsL at h0
      rw [hi] at h0
      dsimp only at h0
      rw [hs] at h0
      cases h0

theorem cer_complete_full_refuted : ¬ cer_complete_full id := by
  intro h
  have hc : cerCompile id W2.P = some c2 := by unfold c2 cerCompile; rfl
  obtain ⟨π', hv, hm, _⟩ := h SimpExact_id W2 c2 hc [(0, [])] cer_noop_witness_lifted.1
  exact cer_noop_witness_lifted.2 ⟨π', hv, hm⟩
end witness

section examples
/-! ## non-vacuity: the lifted problem of `Props/C06Lift.lean`'s examples, re-stated

type `T` with objects `o1 o2`; fluents `p(T)`, `q(T)` (false), `x : int[0,10] = 1`; `p(o1)` true; invariant `x <= 8`;
goal `q(o1)`, `3 <= x`;  `m(?w : T)`: pre `x <= 5`; effects `q(?w) := true`, `x += 2 if p(?w) and 0 <= x` -/
def tT : Ty := .user "T"
def fp : FluentRef := ⟨"p", .bool, [tT]⟩
def fq : FluentRef := ⟨"q", .bool, [tT]⟩
def o1 : Expr := .leaf (.obj "o1" "T")
def pw : Expr := .leaf (.param "w" tT)
def am : Action where
  name := "m"
  params := [("w", tT)]
  pre := [Expr.mkLE exb (Expr.int 5)]
  effs := [eff (.app (.fluent fq) [pw]) Expr.tt Expr.tt .assign,
           eff exb (Expr.int 2) (.app .and [.app (.fluent fp) [pw], Expr.mkLE (Expr.int 0) exb]) .increase]
def PL : Problem where
  name := "lifted"
  types := ⟨[("T", none)]⟩
  objects := [("o1", "T"), ("o2", "T")]
  fluents := [⟨fp, some Expr.ff⟩, ⟨fq, some Expr.ff⟩, ⟨fxb, some (Expr.int 1)⟩]
  init := [(.app (.fluent fp) [o1], Expr.tt)]
  actions := [am]
  goals := [.app (.fluent fq) [o1], Expr.mkLE (Expr.int 3) exb]
  traj := [.app .always [Expr.mkLE exb (Expr.int 8)]]
  metrics := []
def WL : World := { P := PL, simp := id, fn := fun _ _ => none }
def cCerL : Compiled := (cerCompile id PL).getD ⟨PL, []⟩
def cSirL : Compiled := (sirCompile id PL).getD ⟨PL, []⟩

/-- the hypotheses of `cer_complete_lifted_partial` hold for `PL`, whose plan `[m(o1)]` is valid; the counterpart the
    theorem promises is the instance `o1` of the variant at position 1 -/
example : (cerCompile id PL).isSome = true ∧ cerLiftOK PL = true ∧ cerLiftRooted PL = true ∧
    PL.actions.all (fun a => !Action.isConditional a ||
      (cerNoConflict (cerExpand PL a) && cerHasUncond (cerExpand PL a))) = true ∧
    validLB WL [(0, ["o1"])] = true ∧ validLB (withProblem WL cCerL.prob) [(1, ["o1"])] = true ∧
    mapBack (backLifted cCerL) [(1, ["o1"])] = [(0, ["o1"])] := by decide +kernel
example : SimpExactInst id PL := simpExactInst_id PL
/-- the hypotheses of `sir_complete_lifted_partial` -/
example : (sirCompile id PL).isSome = true ∧ sirLiftOK PL = true ∧ validLB WL [(0, ["o1"])] = true ∧
    validLB (withProblem WL cSirL.prob) [(0, ["o1"])] = true := by decide +kernel
example : SirOK id WL cSirL :=
  ⟨SimpExact_id, SimpExact_id, by decide +kernel, by decide +kernel, by decide +kernel⟩
/-- the hypotheses of `dcr_complete_lifted_partial` on the problem `PD` of `Props/C06Lift.lean` (`d(?w)`: pre
    `p(?w) or x <= 0`), with the never-splitting DNF walker; with C12's model the valid plan `[d(o1)]` has the counterpart
    `[variant 0 (o1)]` -/
example : DcrLiftOK id (fun e => .app .and [e]) C06.WD ∧ DcrWalkExact id (fun e => .app .and [e]) C06.WD ∧
    (∀ a ∈ C06.WD.P.actions, dcrKeepsEffects id (fun e => .app .and [e]) a = true) :=
  ⟨C06.dcrLift_example.1, C06.dcrLift_example.2, by decide +kernel⟩
example : (∀ a ∈ C06.WD.P.actions, dcrKeepsEffects id (Expr.dnf id) a = true) ∧ validLB C06.WD [(0, ["o1"])] = true ∧
    validLB (withProblem C06.WD C06.cDcrL.prob) [(0, ["o1"])] = true ∧
    mapBack (backLifted C06.cDcrL) [(0, ["o1"])] = [(0, ["o1"])] := by decide +kernel
/-- the hypotheses of `dcr_goal_action_complete_lifted_partial` on the problem `PG` of `Props/C06Lift.lean`: the valid
    plan `[g(o1)]` has the counterpart `[g(o1), goal action]`, one step longer -/
example : DcrGoalLiftOK id C06.dnfGL C06.WG ∧ (∀ a ∈ C06.WG.P.actions, dcrKeepsEffects id C06.dnfGL a = true) ∧
    validLB C06.WG [(0, ["o1"])] = true ∧
    validLB (withProblem C06.WG C06.cGoalL.prob) [(0, ["o1"]), (1, [])] = true ∧
    mapBack (backLifted C06.cGoalL) [(0, ["o1"]), (1, [])] = [(0, ["o1"])] :=
  ⟨C06.dcrGoalLift_example, by decide +kernel, by decide +kernel, by decide +kernel, by decide +kernel⟩
end examples

end UPVerif.C07
