import UPVerif.Props.C35
/-!
# C35, hidden fluents that ALSO carry a declaration (explicit initial value, per-fluent / per-type default)

`ContingentProblem.set_initial_value` accepts a fluent expression that an initial constraint names, and
`add_fluent` gives every fluent — hidden or not — a resolved default.  The property text lets the
environment PICK the hidden state ("picks a hidden initial state that satisfies all oneof and or
constraints"), so neither declaration may leak into the state the environment starts from.  The model
(`Core/ExecEnv.lean`) mirrors the two places of execution_environment.py that decide this:

* `_get_stateless_deterministic_problem_clone` (l.97-100) copies `explicit_initial_values` EXCEPT the
  entries whose key is one of `_hidden_atoms(problem)`            — `detClone … init := filter …`;
* `_randomly_set_full_initial_state` (l.179-182) stores EVERY value of the sampled model with
  `set_initial_value`, whether or not it equals the fluent's default — `setAll`, no test on the value.

The theorems of `Props/C35.lean` are stated for every `CProblem`, hence already cover such inputs; the
statements below say explicitly what that means for them, and the examples run the model on the shapes
the generator of harness/props/C35.py now produces (seeded change C35-2: filter dropped + default-valued
choices not stored ⇒ a hidden fluent whose explicit value differs from its default keeps the stale value).
-/
namespace UPVerif.C35
open UPVerif UPVerif.Sim UPVerif.ExecEnv UPVerif.Spec

/-- the same contingent problem with other explicit initial values -/
def withInit (C : CProblem) (init : List (Expr × Expr)) : CProblem :=
  { C with base := { C.base with init := init } }

/-- the explicit initial values the environment looks at: those whose key is not a hidden atom -/
def visibleEntries (C : CProblem) (init : List (Expr × Expr)) : List (Expr × Expr) :=
  init.filter (fun fv => !(hiddenAtoms C).contains fv.1)

/-- explicit initial values of hidden atoms are IGNORED: two contingent problems that differ only in
    explicit initial values given to hidden atoms (any number of them, anywhere in the dict, equal to the
    default or not) yield the same environment — same error or same simulator world, same initial state —
    for every `max_constraints`, simplifier and choice of the random generator.  No hypothesis on `C`. -/
theorem C35_explicit_values_of_hidden_atoms_ignored (C : CProblem) (init' : List (Expr × Expr))
    (mc : Option Nat) (simp : Expr → Expr) (fn : FunRef → List Val → Option Val) (choice : Asg)
    (hvis : visibleEntries C init' = visibleEntries C C.base.init) :
    (mkEnv (withInit C init') mc simp fn choice).toOption.map (fun E => (E.W.P, E.st, E.sensing)) =
    (mkEnv C mc simp fn choice).toOption.map (fun E => (E.W.P, E.st, E.sensing)) ∧
    ∀ E E', mkEnv (withInit C init') mc simp fn choice = .ok E' → mkEnv C mc simp fn choice = .ok E →
      E'.W = E.W ∧ E'.st = E.st ∧ E'.sensing = E.sensing := by
  have hfull : fullProblem (withInit C init') choice = fullProblem C choice := by
    show ({ detClone (withInit C init') with init := setAll (detClone (withInit C init')).init choice } : Problem) =
         { detClone C with init := setAll (detClone C).init choice }
    have h1 : (detClone (withInit C init')).init = (detClone C).init := hvis
    have h2 : detClone (withInit C init') = { detClone C with init := (detClone (withInit C init')).init } := rfl
    rw [h2, h1]
  have hmk : mkEnv (withInit C init') mc simp fn choice = mkEnv C mc simp fn choice := by
    unfold mkEnv
    rw [hfull]
    rfl
  refine ⟨by rw [hmk], fun E E' h' h => ?_⟩
  rw [hmk, h] at h'
  cases h'
  exact ⟨rfl, rfl, rfl⟩

/-- in particular deleting every explicit initial value of a hidden atom changes nothing -/
theorem C35_hidden_explicit_values_can_be_dropped (C : CProblem) (mc : Option Nat) (simp : Expr → Expr)
    (fn : FunRef → List Val → Option Val) (choice : Asg) (E E' : Env)
    (h' : mkEnv (withInit C (visibleEntries C C.base.init)) mc simp fn choice = .ok E')
    (h : mkEnv C mc simp fn choice = .ok E) : E'.W = E.W ∧ E'.st = E.st ∧ E'.sensing = E.sensing := by
  refine (C35_explicit_values_of_hidden_atoms_ignored C _ mc simp fn choice ?_).2 E E' h' h
  unfold visibleEntries
  rw [List.filter_filter]
  congr 1
  funext fv
  simp

/-- EVERY hidden atom — whatever explicit value and whatever default its fluent was declared with — is
    a ground fluent that has a chosen value and reads as that value in the initial state; nothing of the
    declaration survives.  (`C35_hidden_reads_choice` per successful lookup; here total over the atoms.) -/
theorem C35_every_hidden_atom_reads_choice {C : CProblem} {mc : Option Nat} {simp : Expr → Expr}
    {fn : FunRef → List Val → Option Val} {choice : Asg} {E : Env}
    (h : mkEnv C mc simp fn choice = .ok E) (hinj : keysInjective C = true) :
    ∀ a ∈ hiddenAtoms C, ∃ k b, keyOf? a = some k ∧ choice.lookup a = some b ∧ E.st.get E.W.P k = some (.b b) := by
  intro a ha
  have hkeys := (mem_models (mkEnv_ok h).1).1
  have hmem : a ∈ choice.map (·.1) := by rw [hkeys]; exact ha
  have hl : ∃ b, choice.lookup a = some b := by
    clear hkeys h
    induction choice with
    | nil => simp at hmem
    | cons p ps ih =>
      simp only [List.lookup]
      by_cases hp : a = p.1
      · subst hp
        exact ⟨p.2, by simp⟩
      · have hne : (a == p.1) = false := by simpa using hp
        rw [hne]
        simp only [List.map_cons, List.mem_cons] at hmem
        rcases hmem with hm | hm
        · exact absurd hm hp
        · exact ih hm
  obtain ⟨b, hb⟩ := hl
  obtain ⟨k, hk, hget⟩ := env_get_hidden h hinj hb
  exact ⟨k, b, hk, hb, hget⟩

section examples
/-! ## the shapes of seeded change C35-2, run through the model by the kernel

`hx0`: fluents `a b c k : bool`, all with per-fluent default FALSE; explicit values `a := TRUE` (on a HIDDEN
atom, different from its default) and `k := TRUE`; `oneof(a, b)`, `unknown(c)`.  For the sampled model
`a = FALSE, b = TRUE, c = FALSE` — `a` takes its DEFAULT — the environment starts with `a = FALSE`: the stale
explicit `TRUE` is gone and `oneof(a, b)` holds.  (The seeded code starts with `a = b = TRUE`.) -/
def hb (n : String) : FluentRef := ⟨n, .bool, []⟩
def he (n : String) : Expr := .app (.fluent (hb n)) []
def hxProblem (defaults : List (String × Option Expr)) (init : List (Expr × Expr)) (tds : List (Ty × Expr))
    (oneofs ors : List (List Expr)) (hidden : List Expr) : CProblem where
  base := { name := "hx", types := ⟨[]⟩, objects := [],
            fluents := defaults.map (fun nd => ⟨hb nd.1, nd.2⟩),
            init := init, actions := [], goals := [], traj := [], metrics := [] }
  typeDefaults := tds
  sensing := []
  hidden := hidden
  oneofs := oneofs
  ors := ors
def hx0 : CProblem :=
  hxProblem [("a", some Expr.ff), ("b", some Expr.ff), ("c", some Expr.ff), ("k", some Expr.ff)]
    [(he "a", Expr.tt), (he "k", Expr.tt)] [] [[he "a", he "b"]] [[.app .not [he "c"], he "c"]]
    [he "a", he "b", he "c", .app .not [he "c"]]
def hxKeys : List GKey := [(hb "a", []), (hb "b", []), (hb "c", []), (hb "k", [])]
def hxRead (r : Except InitErr Env) : Option (List (Option Val)) :=
  match r with
  | .ok E => some (hxKeys.map (E.st.get E.W.P))
  | .error _ => none

/-- hypotheses of the theorems above on `hx0`, and its initial state for the choice "a takes its default" -/
example : keysInjective hx0 = true ∧
    hxRead (mkEnv hx0 none id noFn [(he "a", false), (he "b", true), (he "c", false)]) =
      some [some (.b false), some (.b true), some (.b false), some (.b true)] := by decide +kernel
/-- … and for the other models (4 in all); the explicit `a := TRUE` never shows unless chosen -/
example : (models hx0 none).map (fun m => m.map (·.2)) =
    [[false, true, false], [false, true, true], [true, false, false], [true, false, true]] ∧
    (models hx0 none).map (fun m => hxRead (mkEnv hx0 none id noFn m)) =
      [some [some (.b false), some (.b true), some (.b false), some (.b true)],
       some [some (.b false), some (.b true), some (.b true), some (.b true)],
       some [some (.b true), some (.b false), some (.b false), some (.b true)],
       some [some (.b true), some (.b false), some (.b true), some (.b true)]] := by decide +kernel
/-- `C35_explicit_values_of_hidden_atoms_ignored` is not vacuous: `hx0` without / with other explicit values on
    its hidden atoms has the same visible entries (only `k := TRUE`), and a non-hidden entry is NOT ignored -/
example : visibleEntries hx0 [(he "k", Expr.tt)] = visibleEntries hx0 hx0.base.init ∧
    visibleEntries hx0 [(he "b", Expr.tt), (he "k", Expr.tt), (he "c", Expr.ff), (he "a", Expr.ff)] =
      visibleEntries hx0 hx0.base.init ∧
    visibleEntries hx0 [(he "a", Expr.tt)] ≠ visibleEntries hx0 hx0.base.init := by decide +kernel
/-- the clone keeps exactly the visible entries; the full problem appends the chosen values -/
example : (detClone hx0).init = [(he "k", Expr.tt)] ∧
    (fullProblem hx0 [(he "a", false), (he "b", true), (he "c", false)]).init =
      [(he "k", Expr.tt), (he "a", Expr.ff), (he "b", Expr.tt), (he "c", Expr.ff)] := by decide +kernel

/-- per-TYPE default TRUE, explicit FALSE on both members of `or(a, b)`: for the model `a = b = TRUE` (both take
    their default) both stale FALSE values are gone — with them the or-constraint would have no true member -/
def hx1 : CProblem :=
  hxProblem [("a", none), ("b", none)] [(he "a", Expr.ff), (he "b", Expr.ff)] [(.bool, Expr.tt)] [] [[he "a", he "b"]]
    [he "a", he "b"]
example : keysInjective hx1 = true ∧
    (models hx1 none).map (fun m => (m.map (·.2), (hxRead (mkEnv hx1 none id noFn m)).map (fun l => l.take 2))) =
      [([false, true], some [some (.b false), some (.b true)]), ([true, false], some [some (.b true), some (.b false)]),
       ([true, true], some [some (.b true), some (.b true)])] := by decide +kernel

/-- NO default at all, an explicit TRUE on one member of `oneof(a, b, c)`, `a` hidden only through `Not(a)` in a
    second constraint: every model is reproduced exactly -/
def hx2 : CProblem :=
  hxProblem [("a", none), ("b", none), ("c", none)] [(he "b", Expr.tt), (he "a", Expr.tt)] []
    [[he "c", he "b"], [.app .not [he "a"], he "b"]] [] [he "c", he "b", .app .not [he "a"]]
example : keysInjective hx2 = true ∧ hiddenAtoms hx2 = [he "c", he "b", he "a"] ∧ (detClone hx2).init = [] ∧
    (models hx2 none).map (fun m => (m.map (·.2), (hxRead (mkEnv hx2 none id noFn m)).map (fun l => l.take 3))) =
      [([false, true, true], some [some (.b true), some (.b true), some (.b false)]),
       ([true, false, false], some [some (.b false), some (.b false), some (.b true)])] := by decide +kernel
end examples

end UPVerif.C35
