import UPVerif.Lemmas.TTAdmissible
import UPVerif.Lemmas.TTDuration
/-!
# C05 — Time-triggered validation matches the reference temporal semantics

Statements only (helper lemmas: `Lemmas/TTInterval.lean` — the interval lemma —, `Lemmas/TTMerge.lean`
and `Lemmas/TTApply.lean` — the merge lemma —, `Lemmas/TTTimes.lean`, `Lemmas/TTLoop.lean` — the loop
lemma —, `Lemmas/TTFinish.lean`, `Lemmas/TTMain.lean`, `Lemmas/TTPerm.lean`, `Lemmas/TTAdmissible.lean`,
`Lemmas/TTDuration.lean`).

* `TT.*` (`Core/TT.lean`) is the executable model that mirrors `TimeTriggeredPlanValidator` function by
  function (event list popped by least `(time, id)`, `_apply_effects` with its `updates`/`assigned`
  accumulators tagged by action instance, the trace dict, `_states_in_interval`, the final loops);
  the correspondence check ties it to /repo (repaired by notes/patches/C04-*.patch, C05-*.patch).
* `Spec.Temporal.*` (`Spec/Temporal.lean`) is the reference semantics, declarative: events and
  conditions of the plan, distinct event times in ascending order, all events of one instant applied
  together (order-free), a condition TRUE in the state in force at EVERY time point of its interval —
  the state in force at an instant being the one before the effects of that instant.

Everything is proved for every world (problem, simplifier, interpreted-function tables), temporal
extension and plan, with no bound on sizes.  Scope of the model (hence of the theorems): effects at
start / end / with constant delays, timed effects, timed goals, state invariants and bounded types,
duration intervals with open/closed ends; NOT modelled: simulated effects, continuous effects (the
validator rejects them), quality metrics.
-/
namespace UPVerif.C05
open UPVerif UPVerif.Expr UPVerif.Sim UPVerif.TT UPVerif.Spec UPVerif.Spec.Temporal

/-- "every condition holds in each state inside its (possibly open) time interval; conditions at an
    instant are evaluated in the state before the effects of that instant": on a trace with distinct
    keys that records the initial state under `-1`, `_states_in_interval` yields exactly the states
    recorded under the greatest key strictly below SOME time point `p` of the interval — whatever the
    openness of the right end, which the validator never reads.
    (`Proper`: the interval contains a time point.) -/
theorem C05_states_in_interval {tr : Trace} {s : Rat} {e : Option Rat} {lopen ropen : Bool}
    (hnd : tr.keys.Nodup) (h1 : (-1 : Rat) ∈ tr.keys) (hs : (-1 : Rat) < s) (hp : Proper s e lopen ropen) :
    ∃ L, statesInInterval tr s e lopen = some L ∧
      ∀ (φ : SimState → Prop), (∀ x ∈ L, φ x.2) ↔
        (∀ p, InInterval s e lopen ropen p → ∀ t st, IsPred tr.keys t p → tr.lookup t = some st → φ st) :=
  statesInInterval_spec hnd h1 hs hp

/-- … in particular the state recorded AT an instant is not the one in force at that instant -/
theorem C05_conditions_read_state_before (σ0 σ : SMap) (t : Rat) (r : List (Rat × SMap)) :
    stateAt σ0 ((t, σ) :: r) t = σ0 := by
  have : ¬ t < t := by grind
  simp [stateAt, this]

/-- "every durative action's duration lies in its (possibly open) duration interval": what the
    duration constraint checked at the start of the instance says -/
theorem C05_duration {P : Problem} {c : EvalCtx} {d : DurAction} {args : List String} {du : Rat} :
    evalBool c (durationCond P d args du) = .ok true ↔
      ∃ lo hi, eval c [] (substE (paramSubst' P d.params args) d.durLo) = .ok (.n lo) ∧
        eval c [] (substE (paramSubst' P d.params args) d.durHi) = .ok (.n hi) ∧
        (if d.durLeftOpen then lo < du else lo ≤ du) ∧ (if d.durRightOpen then du < hi else du ≤ hi) :=
  durationCond_holds

/-- "all effects scheduled at the same instant are applied together without conflicting assignments":
    `_apply_effects` returns a state exactly when the instant has a successor in the reference
    semantics — every effect instance evaluated in the state before the instant, the fired effects
    consistent (`Spec.Cons`) and no fluent assigned by two different action instances
    (`Exclusive`) — and the state reads as that successor (`succGet`: order-free new values) -/
theorem C05_simultaneous_effects_merged (W : World) (s : SimState) (gs : List Group) :
    (∀ s', applyEffects W s gs = .ok s' → instantSucc W (s.get W.P) gs = some (s'.get W.P)) ∧
    (∀ σ', instantSucc W (s.get W.P) gs = some σ' → ∃ s', applyEffects W s gs = .ok s' ∧ s'.get W.P = σ') :=
  ⟨fun _ h => applyEffects_ok h, fun _ h => applyEffects_of_succ h⟩

/-- … and the successor does not depend on the order in which the events of the instant are taken -/
theorem C05_instant_order_free (W : World) (σ : SMap) (gs gs' : List Group) (h : gs.Perm gs') :
    instantSucc W σ gs = instantSucc W σ gs' := instantSucc_perm h

/-- the reference semantics does not depend on the order in which the plan lists its entries -/
theorem C05_spec_order_free (W : World) (T : TProblem) (A B : List (Step × Nat)) (h : A.Perm B) :
    ValidOf W T A ↔ ValidOf W T B := validOf_perm h

/-- MAIN THEOREM.  On every admissible plan (nothing scheduled before the start of its action
    instance nor before time 0; conditions over non-empty intervals) the validator returns VALID
    exactly when the plan is valid in the reference semantics: durations in their intervals,
    every condition true in the state in force at every time point of its interval, the events of
    each instant applied together, timed effects and timed goals honoured, goals true in the last
    state.  Both directions are equalities of results: the validator neither raises nor rejects a
    valid plan, and accepts nothing else. -/
theorem C05_valid_iff_spec (W : World) (T : TProblem) (π : List Step) (hadm : Admissible W T π = true) :
    validate W T π = .ok .valid ↔ Valid W T π :=
  validate_valid_iff_listing W T π hadm

/-- the fuel of the model's main loop always suffices -/
theorem C05_fuel_suffices (W : World) (T : TProblem) (π : List Step) : validate W T π ≠ .error .fuel :=
  validate_no_fuel W T π

section examples
/-! ## non-vacuity: one concrete temporal problem

fluents `p : bool = false`, `q : bool = false`, `n : int[0,3] = 1`; goal `q`.
* durative `d`: duration in `(1, 2]`; condition `p` over `(start, end]` (left-open), effects `p := true`
  at start, `n += 1` at start, `q := true` at end;
* instantaneous `i`: precondition `n <= 2`, effect `n += 1`;
* timed effect `n -= 1` at time 3; timed goal `n <= 2` over `[3, 4)`. -/
def fp : FluentRef := ⟨"p", .bool, []⟩
def fq : FluentRef := ⟨"q", .bool, []⟩
def fn : FluentRef := ⟨"n", .int (some 0) (some 3), []⟩
def ep : Expr := .app (.fluent fp) []
def eq_ : Expr := .app (.fluent fq) []
def en : Expr := .app (.fluent fn) []
def eff (f v c : Expr) (k : EffKind) : Effect := { fluent := f, value := v, cond := c, kind := k, forall_ := [] }
def S0 : Timing := ⟨.start, 0⟩
def E0 : Timing := ⟨.end, 0⟩
def dA : DurAction :=
  { name := "d", params := [], durLo := Expr.int 1, durHi := Expr.int 2, durLeftOpen := true, durRightOpen := false,
    conds := [(⟨S0, E0, true, false⟩, [ep])],
    effs := [(S0, [eff ep Expr.tt Expr.tt .assign, eff en (Expr.int 1) Expr.tt .increase]),
             (E0, [eff eq_ Expr.tt Expr.tt .assign])] }
def iA : Action := { name := "i", params := [], pre := [Expr.mkLE en (Expr.int 2)], effs := [eff en (Expr.int 1) Expr.tt .increase] }
def P0 : Problem where
  name := "ex"
  types := ⟨[]⟩
  objects := []
  fluents := [⟨fp, some Expr.ff⟩, ⟨fq, some Expr.ff⟩, ⟨fn, some (Expr.int 1)⟩]
  init := []
  actions := [iA]
  goals := [eq_]
  traj := []
  metrics := []
def W0 : World := { P := P0, simp := id, fn := fun _ _ => none }
def T0 : TProblem :=
  { dactions := [dA],
    timedEffs := [(⟨.gstart, 3⟩, [eff en (Expr.int 1) Expr.tt .decrease])],
    timedGoals := [(⟨⟨.gstart, 3⟩, ⟨.gstart, 4⟩, false, true⟩, [Expr.mkLE en (Expr.int 2)])] }
/-- `d` over `[1, 3]` (duration 2, the closed end of its interval), `i` at 3 — at the same instant as the
    end of `d` and the timed effect -/
def plan1 : List Step := [⟨3, .inst iA, [], none⟩, ⟨1, .dur dA, [], some 2⟩]
/-- the same with duration 1: the OPEN end of the duration interval -/
def plan2 : List Step := [⟨3, .inst iA, [], none⟩, ⟨1, .dur dA, [], some 1⟩]
/-- `i` three times in a row: the third pushes `n` out of `[0,3]` … unless the timed effect comes first -/
def plan3 : List Step := [⟨0, .inst iA, [], none⟩, ⟨1, .inst iA, [], none⟩, ⟨2, .inst iA, [], none⟩]

example : Admissible W0 T0 plan1 = true ∧ Admissible W0 T0 plan2 = true ∧ Admissible W0 T0 plan3 = true := by
  decide +kernel
example : validate W0 T0 plan1 = .ok .valid := by decide +kernel
/-- hence, by the main theorem, `plan1` is valid in the reference semantics -/
example : Valid W0 T0 plan1 := (C05_valid_iff_spec W0 T0 plan1 (by decide +kernel)).1 (by decide +kernel)
/-- the open end of the duration interval is enforced (reported on entry 1 of the plan) … -/
example : validate W0 T0 plan2 = .ok (.invalid .inapplicable (some 1)) := by decide +kernel
/-- … and so `plan2` is NOT valid in the reference semantics -/
example : ¬ Valid W0 T0 plan2 := fun h =>
  absurd ((C05_valid_iff_spec W0 T0 plan2 (by decide +kernel)).2 h) (by decide +kernel)
/-- the bounded type `n : int[0,3]` is enforced in the state after the LAST happening of its instant -/
example : validate W0 T0 plan3 = .ok (.invalid .goals none) := by decide +kernel
/-- the hypotheses of `C05_states_in_interval` are met by the trace of `plan1` and the left-open
    interval `(1, 3]` of the condition of `d`; the states it yields are the ones recorded at 1 only
    (the one recorded at 3 is not in force at 3) -/
def s0 : SimState := ⟨[]⟩
def tr1 : Trace := [(-1, s0), (1, ⟨[((fp, []), .b true)]⟩), (3, ⟨[((fq, []), .b true)]⟩)]
example : tr1.keys.Nodup ∧ (-1 : Rat) ∈ tr1.keys ∧ (-1 : Rat) < 1 ∧ Proper 1 (some 3) true false ∧
    (statesInInterval tr1 1 (some 3) true).map (fun l => l.map (·.1)) = some [1] := by
  refine ⟨by decide +kernel, by decide +kernel, by decide +kernel, Or.inl (by decide +kernel), by decide +kernel⟩
/-- two events at one instant, of two different action instances, assigning one fluent: no successor;
    of the same instance: the Boolean ends true (delete-before-add) -/
def gT (tag : Nat) : Group := ⟨[eff ep Expr.tt Expr.tt .assign], [], some tag⟩
def gF (tag : Nat) : Group := ⟨[eff ep Expr.ff Expr.tt .assign], [], some tag⟩
example : applyEffects W0 s0 [gF 0, gT 1] = .error .conflict := by decide +kernel
example : (match applyEffects W0 s0 [gT 0, gF 0] with
    | .ok s' => s'.get P0 (fp, [])
    | .error _ => none) = some (.b true) := by decide +kernel
end examples

end UPVerif.C05
