import UPVerif.Props.C09
/-!
# C09 — the number types a compilation can change are declared

Some features of a `ProblemKind` classify a NUMBER by its type or value: `INT_/REAL_NUMBERS_IN_ACTIONS_COST`
(the type of a cost expression), `INT_/REAL_TYPE_DURATIONS` (the type of a duration bound),
`INT_/REAL_NUMBERS_IN_OVERSUBSCRIPTION` (whether a gain is an `int` or a `Fraction`).  A compilation that
rewrites such a number can change its class although it introduces no new construct:

* `Grounder` (`grounder.py:510-523`, `GrounderHelper`), `TrajectoryConstraintsRemover` (it grounds first) and
  `UsertypeFluentsRemover` (`UsertypeFluentsWalker.remove_usertype_fluents_from_condition` ends with
  `.simplify()`, applied to durations and costs, `usertype_fluents_remover.py:268-272, 331-343`) SIMPLIFY the
  durations / action costs: a real expression with an integer value (`1/2 * 2`, `4 / 2`) becomes an integer
  constant (defect F-C09-3: this was not declared; `notes/patches/C09-real-numbers-simplified-to-integers.patch`);
* `BoundedTypesRemover` and `StateInvariantsRemover` (`utils.add_invariant_condition_apply_function_to_problem_expressions`,
  `utils.py:567-595`) SUM the gains of the (temporal) oversubscription goals that become the same expression:
  `1/2 + 1/2` is the integer gain `1`.

Which classes do this is read from the code by hand (the table `numberRewriters` below) and watched by the
oracle of `harness/props/C09.py` on real compilations (distribution tags `number-type-gained:<class>:<feature>`;
any class gaining such a feature outside its declaration is a VIOLATION).  What is PROVED here, over the
declarations regenerated from /repo on every run and for ALL input kinds: each of these classes declares the
integer counterpart whenever the input kind has the real feature (`C09_declares_integer_counterpart`) — a
necessary condition of clause 1 for them, so a declaration that drops it is refuted by the kernel, not sampled.
The proof needs one evaluation per (class, feature) on the one-feature kind plus the monotonicity of the
declared transformers (`C09_decl_monotone`).
-/
namespace UPVerif.C09
open UPVerif.Kind UPVerif.KindProg UPVerif.Gen.Kinds

/-- real feature ↦ the integer feature a simplification / summation of that number can produce -/
def costs : Feature × Feature := ("REAL_NUMBERS_IN_ACTIONS_COST", "INT_NUMBERS_IN_ACTIONS_COST")
def durations : Feature × Feature := ("REAL_TYPE_DURATIONS", "INT_TYPE_DURATIONS")
def gains : Feature × Feature := ("REAL_NUMBERS_IN_OVERSUBSCRIPTION", "INT_NUMBERS_IN_OVERSUBSCRIPTION")

/-- the compiler classes that rewrite a number whose type the kind reports (see the header) -/
def numberRewriters : List (String × List (Feature × Feature)) := [
  ("Grounder", [costs, durations]),
  ("TrajectoryConstraintsRemover", [costs, durations]),
  ("UsertypeFluentsRemover", [costs, durations]),
  ("BoundedTypesRemover", [gains]),
  ("StateInvariantsRemover", [gains])]

def numberPairsOf (d : Decl) : List (Feature × Feature) :=
  (numberRewriters.filter (fun r => r.1 == d.name)).flatMap (·.2)

/-- every class of the table exists among the declarations of /repo (a renamed class must not make
    the theorem below vacuous) -/
theorem number_rewriters_exist :
    numberRewriters.all (fun r => decls.any (fun d => d.name == r.1)) = true := by decide +kernel

/-- on the kind that has only the real feature, each of these classes declares the integer one -/
theorem number_pairs_declared :
    decls.all (fun d => (numberPairsOf d).all (fun t => (d.resulting.exec [t.1] [t.1]).contains t.2)) = true := by
  decide +kernel

/-- THE STATEMENT: for every class that simplifies durations / action costs or sums oversubscription gains,
    and EVERY input kind with the real-number feature, the declared resulting kind has the integer-number
    feature the rewriting can produce. -/
theorem C09_declares_integer_counterpart (d : Decl) (hd : d ∈ decls) (t : Feature × Feature)
    (ht : t ∈ numberPairsOf d) (k : Kind) (hk : t.1 ∈ k.feats) :
    t.2 ∈ (execKind d.resulting k).feats := by
  have h := number_pairs_declared
  rw [List.all_eq_true] at h
  have h1 := h d hd
  rw [List.all_eq_true] at h1
  have h2 : t.2 ∈ d.resulting.exec [t.1] [t.1] := by simpa using h1 t ht
  refine C09_decl_monotone d hd [t.1] k.feats ?_ t.2 h2
  intro x hx
  rw [List.mem_singleton] at hx
  exact hx ▸ hk

/-- the real feature itself stays declared (a superset of the input on these features): the compiled
    problem may keep non-integer numbers as well -/
theorem number_pairs_keep_real :
    decls.all (fun d => (numberPairsOf d).all (fun t => (d.resulting.exec [t.1] [t.1]).contains t.1)) = true := by
  decide +kernel

theorem C09_keeps_real_number_feature (d : Decl) (hd : d ∈ decls) (t : Feature × Feature)
    (ht : t ∈ numberPairsOf d) (k : Kind) (hk : t.1 ∈ k.feats) :
    t.1 ∈ (execKind d.resulting k).feats := by
  have h := number_pairs_keep_real
  rw [List.all_eq_true] at h
  have h1 := h d hd
  rw [List.all_eq_true] at h1
  have h2 : t.1 ∈ d.resulting.exec [t.1] [t.1] := by simpa using h1 t ht
  refine C09_decl_monotone d hd [t.1] k.feats ?_ t.1 h2
  intro x hx
  rw [List.mem_singleton] at hx
  exact hx ▸ hk

/-! non-vacuity: the hypotheses are met by a concrete class and a concrete kind, and the table is not
    empty for any listed class -/

example : numberPairsOf Grounder = [costs, durations] := by decide +kernel

example : decls.any (fun d => d.name == Grounder.name) = true := by decide +kernel

example : numberRewriters.all (fun r => decls.any (fun d => d.name == r.1 && (numberPairsOf d).length == r.2.length)) = true := by
  decide +kernel

/-- the witness kind of F-C09-3 (real costs and durations only): the repaired `Grounder` declares both
    integer features -/
example : let k : Kind := { feats := ["ACTION_BASED", "CONTINUOUS_TIME", "ACTIONS_COST", "REAL_NUMBERS_IN_ACTIONS_COST",
                                      "REAL_TYPE_DURATIONS"], version := some 3 }
    "INT_NUMBERS_IN_ACTIONS_COST" ∈ (execKind Grounder.resulting k).feats ∧
    "INT_TYPE_DURATIONS" ∈ (execKind Grounder.resulting k).feats := by
  decide +kernel

/-- and a class that only copies the costs (`ConditionalEffectsRemover`) declares no integer cost for that
    kind: the closure is specific to the rewriting classes, not a blanket over-approximation -/
example : let k : Kind := { feats := ["ACTION_BASED", "ACTIONS_COST", "REAL_NUMBERS_IN_ACTIONS_COST"], version := some 3 }
    "INT_NUMBERS_IN_ACTIONS_COST" ∉ (execKind ConditionalEffectsRemover.resulting k).feats := by
  decide +kernel

end UPVerif.C09
