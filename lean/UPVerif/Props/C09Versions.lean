import UPVerif.Props.C09
import UPVerif.Lemmas.KindVersionLemmas
/-!
# C09 — the declared resulting kinds on problem kinds of EVERY version

`Props/C09.lean` speaks about kinds of the latest `ProblemKind` version (what `Problem.kind` builds).
A `ProblemKind` can also carry an explicit OLDER version, and `Factory._get_engine` chains
`resulting_problem_kind` on whatever kind it is given.  The declarations add features that do not
exist in the older versions (`INT_FLUENTS` is version 2, `PROCESSES` version 3), and
`ProblemKindMeta._set` asserts that a feature exists at the kind's declared version: with a body
that starts from `problem_kind.clone()` the method raised `AssertionError` on such kinds.
`engines/compilers/utils._kind_at_latest_version` (modelled by `KindProg.kindAtLatest`; which classes
go through it is re-read from the source on every run: `Decl.atLatest`) upgrades an older kind first.

Proved here, over the declarations regenerated from /repo, for ALL constructible kinds (`Kind.wf` is
exactly the `ProblemKind` constructor's assertions; every version, with or without declared version):
no `resulting_problem_kind` fails an assertion (`C09_resulting_never_asserts`) and what it returns
(`C09_resulting_total_versions`); the upgrade neither loses nor adds anything w.r.t. `<=`
(`C09_upgrade_equivalent`) and is the identity at the latest version (`C09_upgrade_identity_at_latest`,
so every theorem of `Props/C09.lean` stands as stated); upgrading commutes with every declaration that
upgrades (`C09_resulting_commutes_with_upgrade`); the declared transformers are monotone ACROSS versions
(`C09_resulting_monotone_versions`); and the factory's pipeline theorem holds for a problem kind of an
older version (`C09_factory_pipeline_accepts_versions_partial`: for the classes that upgrade, i.e. all
of /repo but `Ks0Compiler`).
-/
namespace UPVerif.C09
open UPVerif.Kind UPVerif.KindProg UPVerif.Gen.Kinds

/-! ## side conditions, re-decided on the regenerated tables and declarations -/

/-- every upgrade rule adds declared features only (the constructor accepts an upgraded feature set) -/
theorem upgrades_in_all : upgradesInAll T = true := by decide +kernel

/-- the upgrade rules are triggered by features valid at their source version and add features that
    exist at their target version (as in C33) -/
theorem upgrade_tables_ok : tablesOK T = true := by decide +kernel

/-- there is an upgrade function for every step up to the latest version and none beyond -/
theorem latest_ok : latestOK T = true := by decide +kernel

/-- every class either starts from `_kind_at_latest_version` or sets only features of version 1 -/
theorem decls_start_ok : decls.all (fun d => d.startOK T) = true := by decide +kernel

/-- … the only class of /repo that starts from `problem_kind.clone()` is `Ks0Compiler` -/
theorem decls_at_latest : decls.all (fun d => d.atLatest || d.name == "Ks0Compiler") = true := by
  decide +kernel

/-- what a declaration tests on its `problem_kind` ARGUMENT (not on the upgraded local kind) are
    features that no upgrade function adds or removes -/
theorem decls_inp_stable : decls.all (fun d => d.inpStable T) = true := by decide +kernel

/-! ## (i) no declaration fails an assertion, whatever the version of the kind -/

/-- for every compiler class of /repo and EVERY constructible kind — any features, any declared version
    or none — `resulting_problem_kind` fails no assertion, and returns `resultOf`: the body run on the
    kind upgraded to the latest version (on the kind itself for `Ks0Compiler`) -/
theorem C09_resulting_total_versions (d : Decl) (hd : d ∈ decls) (k : Kind) (hk : k.wf T = true) :
    d.resultingKind T k = some (d.resultOf T k) := by
  have h := decls_start_ok
  rw [List.all_eq_true] at h
  exact resultingKind_total versions_ok upgrades_in_all d (h d hd) k hk

theorem C09_resulting_never_asserts (d : Decl) (hd : d ∈ decls) (k : Kind) (hk : k.wf T = true) :
    d.resultingKind T k ≠ none := by
  rw [C09_resulting_total_versions d hd k hk]; exact Option.some_ne_none _

/-- consistency with `Props/C09.lean`: at the latest version `resultOf` is `execKind` -/
theorem C09_resultOf_latest (d : Decl) (k : Kind) (hk : k.version = some T.latest) :
    d.resultOf T k = execKind d.resulting k :=
  resultOf_latest T d k hk

/-! ## (ii) the upgrade -/

/-- `_kind_at_latest_version` fails no assertion on a kind over declared features, and the kind it returns
    is `<=`-EQUIVALENT to the given one: nothing is lost by upgrading, and nothing is gained -/
theorem C09_upgrade_equivalent (k : Kind) (hk : ∀ f ∈ k.feats, f ∈ T.all) :
    ∃ k0, kindAtLatest T k = some k0 ∧ k.le T k0 = true ∧ k0.le T k = true :=
  ⟨upgraded T k, kindAtLatest_eq versions_ok upgrades_in_all k hk, le_upgraded T k⟩

/-- the kind it returns is of the latest version, or is the given kind when that is not older -/
theorem C09_upgrade_version (k : Kind) : (upgraded T k).ver T = max (k.ver T) T.latest :=
  upgraded_ver T k

/-- at the latest version the upgrade is the identity (a clone): the statements of `Props/C09.lean`
    are about the same function as before -/
theorem C09_upgrade_identity_at_latest (k : Kind) (hk : k.version = some T.latest) :
    kindAtLatest T k = some k :=
  kindAtLatest_of_le T k (by rw [ver_of_version hk]; exact Nat.le_refl _)

/-- UPGRADING COMMUTES WITH THE DECLARATIONS: for a class that starts from `_kind_at_latest_version`,
    the declared result for a kind IS the declared result for the upgraded kind -/
theorem C09_resulting_commutes_with_upgrade (d : Decl) (hd : d ∈ decls) (hat : d.atLatest = true)
    (k : Kind) (hk : k.wf T = true) : d.resultingKind T k = d.resultingKind T (upgraded T k) := by
  have h := decls_inp_stable
  rw [List.all_eq_true] at h
  exact resultingKind_upgraded versions_ok upgrades_in_all d hat (h d hd) k hk

/-- the declared transformers are monotone ACROSS versions: `a <= b` for constructible kinds of any
    two versions up to the latest gives `resulting(a) <= resulting(b)` (`Props/C09.lean` has it for
    two kinds of one explicit version).  `hau/hbu` exclude only a version-less kind that already
    is at the latest version (its result is version-less too): see `upgraded_version_some/older`. -/
theorem C09_resulting_monotone_versions (d : Decl) (hd : d ∈ decls) (hat : d.atLatest = true)
    (a b : Kind) (ha : a.wf T = true) (hb : b.wf T = true)
    (hav : a.ver T ≤ T.latest) (hbv : b.ver T ≤ T.latest)
    (hau : (upgraded T a).version = some T.latest) (hbu : (upgraded T b).version = some T.latest)
    (hle : a.le T b = true) : (d.resultOf T a).le T (d.resultOf T b) = true := by
  have hs := decls_inp_stable
  have hv := decls_read_valid
  rw [List.all_eq_true] at hs hv
  have hv1 := hv d hd
  rw [List.all_eq_true] at hv1
  exact resultOf_mono_versions upgrade_tables_ok latest_ok d hat (hs d hd) (C09_decl_monotone d hd) hv1
    a b ha hb hav hbv hau hbu hle

/-! ## the factory's pipeline for a problem kind of an older version -/

/-- `C09_factory_pipeline_accepts` with the problem kind `pk` given to the factory of ANY version up to
    the latest (the problems flowing through the pipeline have kinds of the latest version: that is
    what `Problem.kind` builds).  Full statement: any registered compiler classes of /repo. -/
def C09_factory_pipeline_accepts_versions_full : Prop :=
  ∀ (pref : List (String × Decl)), (∀ e ∈ pref, e.2 ∈ decls) →
  ∀ (pk : Kind), pk.wf T = true → pk.ver T ≤ T.latest → (upgraded T pk).version = some T.latest →
  ∀ (cks : List String) (stages : List (String × Decl × Kind)) (fin : Kind),
    chain T pref pk cks = .ok stages fin →
  ∀ (a : Kind) (as : List Kind), a.version = some T.latest → (∀ k ∈ as, k.version = some T.latest) →
    a.le T pk = true → Compiles T (stages.map (fun s => stageOf T s.2.1)) a as →
    Accepted T (stages.map (fun s => stageOf T s.2.1)) a as

/-- proved for preference lists of classes that start from `_kind_at_latest_version` (`hat`; all of
    /repo but `Ks0Compiler`, see `decls_at_latest`).  MISSING for the full statement: `Ks0Compiler`
    keeps the older version (it starts from `clone()`), so the chain on `pk` and the chain on the
    upgraded kind differ after it; that its body commutes with the upgrade functions up to `<=` is not
    proved (for a `pk` WITHOUT declared version it does not: unsetting the only newer feature of such a
    kind lowers its computed version, and the next upgrade then adds what the older version implied). -/
theorem C09_factory_pipeline_accepts_versions_partial
    (pref : List (String × Decl)) (hpref : ∀ e ∈ pref, e.2 ∈ decls) (hat : ∀ e ∈ pref, e.2.atLatest = true)
    (pk : Kind) (hpk : pk.wf T = true) (hv : pk.ver T ≤ T.latest)
    (hup : (upgraded T pk).version = some T.latest) (cks : List String)
    (stages : List (String × Decl × Kind)) (fin : Kind)
    (hchain : chain T pref pk cks = .ok stages fin)
    (a : Kind) (as : List Kind) (ha : a.version = some T.latest)
    (has : ∀ k ∈ as, k.version = some T.latest) (hle : a.le T pk = true)
    (hc : Compiles T (stages.map (fun s => stageOf T s.2.1)) a as) :
    Accepted T (stages.map (fun s => stageOf T s.2.1)) a as := by
  have hs := decls_inp_stable
  rw [List.all_eq_true] at hs
  obtain ⟨stages', fin', hch', hmap⟩ := chain_upgraded versions_ok upgrades_in_all pref
    (fun e he => ⟨hat e he, hs e.2 (hpref e he)⟩) pk hpk hv cks stages fin hchain
  have hle' : a.le T (upgraded T pk) = true := by
    rw [← latest_le_upgraded a pk hv (ver_of_version ha)]; exact hle
  have hst : stages'.map (fun s => stageOf T s.2.1) = stages.map (fun s => stageOf T s.2.1) := by
    have := congrArg (List.map (fun e : String × Decl => stageOf T e.2)) hmap
    rw [List.map_map, List.map_map] at this
    exact this
  have hacc := C09_factory_pipeline_accepts pref hpref (upgraded T pk) hup cks stages' fin' hch' a as ha has hle'
    (by rw [hst]; exact hc)
  rw [hst] at hacc
  exact hacc

/-! ## non-vacuity, and the behaviour before the repair -/
section examples

/-- the kind of the report (explicit version 1) -/
def kOld : Kind :=
  { feats := ["ACTIONS_COST", "ACTION_BASED", "CONDITIONAL_EFFECTS", "CONTINUOUS_TIME", "DISJUNCTIVE_CONDITIONS",
              "OBJECT_FLUENTS", "PLAN_LENGTH", "STATIC_FLUENTS_IN_ACTIONS_COST", "UNIVERSAL_CONDITIONS"],
    version := some 1 }

/-- a version-1 kind with the deprecated way of saying "real fluents" -/
def kDep : Kind :=
  { feats := ["ACTION_BASED", "NUMERIC_FLUENTS", "CONTINUOUS_NUMBERS", "NEGATIVE_CONDITIONS"], version := some 1 }

/-- the same features without declared version (its version is computed: 1) -/
def kNone : Kind := { kDep with version := none }

example : kOld.wf T = true ∧ kDep.wf T = true ∧ kNone.wf T = true := by decide +kernel
example : kOld.ver T ≤ T.latest ∧ (upgraded T kOld).version = some T.latest := by decide +kernel
example : kNone.ver T ≤ T.latest ∧ (upgraded T kNone).version = some T.latest := by decide +kernel

/-- BEFORE THE REPAIR (the same body started from `problem_kind.clone()`): `AssertionError`, the
    unrestricted totality statement is false for that code … -/
example : ({ DisjunctiveConditionsRemover with atLatest := false } : Decl).resultingKind T kOld = none := by
  decide +kernel

/-- … now: a version-3 kind that contains what the upgrade adds (`REAL_TYPE_DURATIONS` for `CONTINUOUS_TIME`)
    and what the body adds (`INT_FLUENTS`, `NEGATIVE_CONDITIONS`) -/
example : (DisjunctiveConditionsRemover.resultingKind T kOld).map (fun k =>
    (k.version, ["REAL_TYPE_DURATIONS", "INT_NUMBERS_IN_ACTIONS_COST", "INT_FLUENTS", "NEGATIVE_CONDITIONS"].all
      (fun f => k.feats.contains f))) = some (some 3, true) := by
  decide +kernel

/-- the upgrade rewrites the deprecated features: NUMERIC_FLUENTS + CONTINUOUS_NUMBERS become REAL_FLUENTS,
    with and without a declared version -/
example : (upgraded T kDep).feats = ["ACTION_BASED", "NEGATIVE_CONDITIONS", "REAL_FLUENTS"] ∧
          (upgraded T kNone).feats = ["ACTION_BASED", "NEGATIVE_CONDITIONS", "REAL_FLUENTS"] := by
  decide +kernel

/-- the hypotheses of `C09_resulting_monotone_versions` are met by kinds of two different versions -/
example : kDep.le T { feats := ["ACTION_BASED", "REAL_FLUENTS", "NEGATIVE_CONDITIONS", "EQUALITIES"], version := some 2 } = true := by
  decide +kernel

/-- WHY `hau/hbu`: a kind WITHOUT declared version that is at the latest version only through a feature the
    body removes (`PROCESSES`, unset by `TimedToSequential`): the result has no declared version either, its
    computed version drops to 1, and `<=` then upgrades it again (`ACTIONS_COST` at version 1 implies the
    number features), so it is NOT below the result for the same features with the version declared -/
example :
    ({ feats := ["ACTION_BASED", "PROCESSES", "ACTIONS_COST"], version := none } : Kind).le T
      { feats := ["ACTION_BASED", "PROCESSES", "ACTIONS_COST"], version := some 3 } = true ∧
    (TimedToSequential.resultOf T { feats := ["ACTION_BASED", "PROCESSES", "ACTIONS_COST"], version := none }).le T
      (TimedToSequential.resultOf T { feats := ["ACTION_BASED", "PROCESSES", "ACTIONS_COST"], version := some 3 }) = false := by
  decide +kernel

/-- the factory model selects a two-stage pipeline for the version-1 kind `kDep` (`hchain` of the
    pipeline theorem), by compilers that all upgrade (`hat`) -/
example : (match chain T preference kDep ["NEGATIVE_CONDITIONS_REMOVING", "DISJUNCTIVE_CONDITIONS_REMOVING"] with
           | .ok st fin => st.map (·.1) == ["up_negative_conditions_remover", "up_disjunctive_conditions_remover"] &&
                           st.all (fun s => s.2.1.atLatest) && fin.version == some 3
           | _ => false) = true := by decide +kernel

/-- a kind of the latest version below `kDep` (`hle`) -/
example : ({ feats := ["ACTION_BASED", "REAL_FLUENTS"], version := some 3 } : Kind).le T kDep = true := by
  decide +kernel

end examples

end UPVerif.C09
