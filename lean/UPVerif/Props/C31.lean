import UPVerif.Lemmas.OversubLemmas
import UPVerif.Lemmas.IFPlannerLemmas
/-!
# C31 — Meta-engines return only valid plans and truthful statuses

Statements about the executable models `Oversub.solve` (`OversubscriptionPlanner._solve`) and
`IFPlanner.solve` (`InterpretedFunctionsPlanner._solve`).  The underlying planner, the
interpreted-functions remover and the plan validator are ABSTRACT parameters of the models; what the
property assumes about them ("returns only valid plans and is complete on finite problems") appears as
explicit hypotheses.  Helper lemmas live in `Lemmas/OversubLemmas.lean`, `Lemmas/IFPlannerLemmas.lean`.
The models are tied to the code by the correspondence check (harness/props/C31.py).

Part A (oversubscription) is proved in full.  Part B: soundness, status truthfulness and termination of
the refine loop are proved in full; completeness is `C31_if_complete_partial`, under two named
assumptions on the (unmodelled) remover/validator pair - see `C31_if_complete_full`.
-/
namespace UPVerif.C31
open UPVerif.Oversub

/-! ## Part A — oversubscription -/

section Oversubscription
variable {G Plan : Type} [DecidableEq G]

/-- What a plan means for the ORIGINAL problem (reference semantics, abstract): whether it is executable and
    reaches the hard goals, and which oversubscription goals hold in its final state.  "Reachable states
    satisfying the hard goals" are exactly the final states of the plans with `validHard`. -/
structure Sem (Plan G : Type) where
  validHard : Plan → Prop
  holds : Plan → G → Bool

/-- the plan is a solution of the problem handed to the underlying planner for one query: hard goals plus,
    for every oversubscription goal, the goal or its negation -/
def Solves (S : Sem Plan G) (π : Plan) (Q : List (G × Bool)) : Prop :=
  S.validHard π ∧ ∀ gb ∈ Q, S.holds π gb.1 = gb.2

/-- oversubscription gain of a plan: sum of the weights of the goals true in its final state -/
def gain (S : Sem Plan G) (goals : List (G × Rat)) (π : Plan) : Rat :=
  wsum (goals.filter (fun gc => S.holds π gc.1))

/-- the queries the meta-engine can ask: the exact-subset encodings of the sub-lists of the goal list.  The
    hypotheses on the underlying planner below only concern these. -/
def IsQuery (goals : List (G × Rat)) (Q : List (G × Bool)) : Prop :=
  ∃ l : List (G × Rat), l.Sublist goals ∧ Q = encode goals (l.map Prod.fst)

/-- "the underlying planner returns only valid plans" -/
def Sound (S : Sem Plan G) (ans : List (G × Bool) → Answer Plan) (goals : List (G × Rat)) : Prop :=
  ∀ Q, IsQuery goals Q → ∀ π, (ans Q).status.isPositive = true → (ans Q).plan = some π → Solves S π Q

/-- UNSOLVABLE_PROVEN of the underlying planner is truthful -/
def Truthful (S : Sem Plan G) (ans : List (G × Bool) → Answer Plan) (goals : List (G × Rat)) : Prop :=
  ∀ Q, IsQuery goals Q → (ans Q).status = .unsolvableProven → ¬ ∃ π, Solves S π Q

/-- INTERMEDIATE is the status of callback reports, never of the result of `solve` -/
def NoIntermediate (ans : List (G × Bool) → Answer Plan) (goals : List (G × Rat)) : Prop :=
  ∀ Q, IsQuery goals Q → (ans Q).status ≠ .intermediate

/-- "complete on finite problems": a definite answer on every query, positive (with a plan) whenever the
    query has a solution -/
def Complete (S : Sem Plan G) (ans : List (G × Bool) → Answer Plan) (goals : List (G × Rat)) : Prop :=
  ∀ Q, IsQuery goals Q →
    ((ans Q).status.isPositive = true ∨ (ans Q).status = .unsolvableProven) ∧
    ((∃ π, Solves S π Q) → (ans Q).status.isPositive = true) ∧
    ((ans Q).status.isPositive = true → (ans Q).plan.isSome = true)

/-- **C31_oversub_plan_valid.** With a sound underlying planner every plan the meta-engine returns
    (whatever the status) is valid for the hard goals, and achieves exactly one of the subsets of
    oversubscription goals (the one it was found for). -/
theorem C31_oversub_plan_valid (S : Sem Plan G) (ans : List (G × Bool) → Answer Plan) (goals : List (G × Rat))
    (hs : Sound S ans goals) (π : Plan) (h : (solve ans goals).plan = some π) :
    S.validHard π ∧ ∃ l : List (G × Rat), l.Sublist goals ∧ Solves S π (encode goals (l.map Prod.fst)) := by
  obtain ⟨t, ht, hpos, hplan⟩ := loop_plan ans goals _ _ _ π h
  obtain ⟨l, hl, rfl⟩ := (mem_queue goals t).mp ht
  have := hs _ ⟨l, hl, rfl⟩ π hpos hplan
  exact ⟨this.1, l, hl, this⟩

/-- **C31_oversub_optimal.** If the underlying planner is sound and truthful, a SOLVED_OPTIMALLY result
    carries a plan that is valid for the hard goals and whose gain is maximal among ALL valid plans, i.e.
    among all reachable states satisfying the hard goals - for any weights (negative, tied, zero). -/
theorem C31_oversub_optimal (S : Sem Plan G) (ans : List (G × Bool) → Answer Plan) (goals : List (G × Rat))
    (nd : (goals.map Prod.fst).Nodup) (hs : Sound S ans goals) (ht : Truthful S ans goals)
    (hi : NoIntermediate ans goals)
    (π : Plan) (hst : (solve ans goals).status = .solvedOpt) (hpl : (solve ans goals).plan = some π) :
    S.validHard π ∧ ∀ π', S.validHard π' → gain S goals π' ≤ gain S goals π := by
  obtain ⟨_, _, pre, t, post, hq, hpre, hpos, hplan, _⟩ := loop_opt ans goals _ _ _ hst
  have hplan' : (ans (encode goals t.2)).plan = some π := by
    rw [← hplan]; exact hpl
  have htq : t ∈ queue goals := by rw [hq]; simp
  have hsol := hs _ (query_of_mem_queue goals t htq) π hpos hplan'
  refine ⟨hsol.1, ?_⟩
  intro π' hv'
  -- the subset achieved by π
  obtain ⟨l, hl, rfl⟩ := (mem_queue goals t).mp htq
  have hgain : gain S goals π = (entry l).1 := by
    unfold gain entry
    rw [weight_eq_wsum]
    congr 1
    rw [← filter_keys_sublist hl nd]
    apply List.filter_congr
    intro gc hgc
    have := hsol.2 (gc.1, decide (gc.1 ∈ (entry l).2)) (List.mem_map.mpr ⟨gc, hgc, rfl⟩)
    simp only [entry] at this
    by_cases hm : gc.1 ∈ l.map Prod.fst
    · simp only [hm, decide_true] at this ⊢
      exact this
    · simp only [hm, decide_false] at this ⊢
      exact this
  -- the subset achieved by π'
  let l' := goals.filter (fun gc => S.holds π' gc.1)
  have hl' : l'.Sublist goals := List.filter_sublist
  have hmem : entry l' ∈ queue goals := (mem_queue goals _).mpr ⟨l', hl', rfl⟩
  have hgain' : gain S goals π' = (entry l').1 := by
    unfold gain entry; rw [weight_eq_wsum]
  have hsol' : Solves S π' (encode goals (entry l').2) := ⟨hv', encode_filter_holds goals (S.holds π')⟩
  rw [hgain, hgain']
  obtain ⟨hbefore, hafter⟩ := desc_split (hq ▸ desc_queue goals)
  rw [hq, List.mem_append, List.mem_cons] at hmem
  rcases hmem with hin | heq | hin
  · -- a heavier subset asked before: it was answered UNSOLVABLE_PROVEN, so π' cannot exist
    exfalso
    rcases quiet_cases (hpre _ hin) with h | h
    · exact ht _ (⟨_, List.filter_sublist, rfl⟩) h ⟨π', hsol'⟩
    · exact hi _ (⟨_, List.filter_sublist, rfl⟩) h
  · rw [heq]
  · exact hafter _ hin

/-- **C31_oversub_status_truthful.** SOLVED_OPTIMALLY is reported only if every query asked before the accepted
    one got a definite negative answer (never after MEMOUT / INTERNAL_ERROR / UNSUPPORTED_PROBLEM /
    UNSOLVABLE_INCOMPLETELY / TIMEOUT) and there is at least one oversubscription goal; the queries asked before
    are the subsets at least as heavy that precede it in the queue, the subsets never asked are at most as heavy;
    `calls` counts exactly the queries asked. -/
theorem C31_oversub_status_truthful (ans : List (G × Bool) → Answer Plan) (goals : List (G × Rat))
    (hst : (solve ans goals).status = .solvedOpt) :
    goals ≠ [] ∧ ∃ pre t post, queue goals = pre ++ t :: post ∧
      (∀ u ∈ pre, t.1 ≤ u.1) ∧ (∀ u ∈ post, u.1 ≤ t.1) ∧
      (∀ u ∈ pre, (ans (encode goals u.2)).status = .unsolvableProven ∨
                  (ans (encode goals u.2)).status = .intermediate) ∧
      (ans (encode goals t.2)).status.isPositive = true ∧
      (solve ans goals).plan = (ans (encode goals t.2)).plan ∧
      (solve ans goals).calls = pre.length + 1 := by
  obtain ⟨_, hg, pre, t, post, hq, hpre, hpos, hplan, hcalls⟩ := loop_opt ans goals _ _ _ hst
  obtain ⟨hbefore, hafter⟩ := desc_split (hq ▸ desc_queue goals)
  exact ⟨hg, pre, t, post, hq, hbefore, hafter, fun u hu => quiet_cases (hpre u hu), hpos, hplan,
    by simpa [solve] using hcalls⟩

/-- **C31_oversub_unsolvable_truthful.** UNSOLVABLE_PROVEN is reported only after ALL subset queries got a
    definite negative answer; with a truthful underlying planner there is then no plan valid for the hard
    goals at all. -/
theorem C31_oversub_unsolvable_truthful (S : Sem Plan G) (ans : List (G × Bool) → Answer Plan)
    (goals : List (G × Rat)) (ht : Truthful S ans goals) (hi : NoIntermediate ans goals)
    (hst : (solve ans goals).status = .unsolvableProven) :
    (solve ans goals).plan = none ∧ (solve ans goals).calls = (queue goals).length ∧ ¬ ∃ π, S.validHard π := by
  obtain ⟨_, hall, hplan, hcalls⟩ := loop_proven ans goals _ _ _ hst
  refine ⟨hplan, by simpa [solve] using hcalls, ?_⟩
  rintro ⟨π, hv⟩
  have hmem : entry (goals.filter (fun gc => S.holds π gc.1)) ∈ queue goals :=
    (mem_queue goals _).mpr ⟨_, List.filter_sublist, rfl⟩
  rcases quiet_cases (hall _ hmem) with h | h
  · exact ht _ (⟨_, List.filter_sublist, rfl⟩) h ⟨π, ⟨hv, encode_filter_holds goals (S.holds π)⟩⟩
  · exact hi _ (⟨_, List.filter_sublist, rfl⟩) h

/-- **C31_oversub_status_origin.** The meta-engine only ever returns five statuses, and each of the three
    indefinite ones repeats what the underlying planner said on some subset query: TIMEOUT only after a TIMEOUT,
    UNSOLVABLE_INCOMPLETELY only after an incomplete sub-answer, SOLVED_SATISFICING only with the plan of a positive
    sub-answer. -/
theorem C31_oversub_status_origin (ans : List (G × Bool) → Answer Plan) (goals : List (G × Rat)) :
    (solve ans goals).status ∈
        [Status.solvedSat, .solvedOpt, .timeout, .unsolvableIncomplete, .unsolvableProven] ∧
    ((solve ans goals).status = .timeout →
        ∃ t ∈ queue goals, (ans (encode goals t.2)).status = .timeout) ∧
    ((solve ans goals).status = .unsolvableIncomplete →
        ∃ t ∈ queue goals, (ans (encode goals t.2)).status.isIncomplete = true) ∧
    ((solve ans goals).status = .solvedSat →
        ∃ t ∈ queue goals, (ans (encode goals t.2)).status.isPositive = true ∧
          (solve ans goals).plan = (ans (encode goals t.2)).plan) := by
  obtain ⟨h1, h2, h3⟩ := loop_origin ans goals (queue goals) false 0
  refine ⟨loop_status ans goals _ _ _, h1, ?_, h3⟩
  intro h
  rcases h2 h with hh | hh
  · simp at hh
  · exact hh

/-- **C31_oversub_complete.** With a complete underlying planner and at least one plan valid for the hard goals
    the meta-engine reports SOLVED_OPTIMALLY (SOLVED_SATISFICING when there is no oversubscription goal) and
    returns a plan. -/
theorem C31_oversub_complete (S : Sem Plan G) (ans : List (G × Bool) → Answer Plan) (goals : List (G × Rat))
    (hc : Complete S ans goals) (hex : ∃ π, S.validHard π) :
    (solve ans goals).status = (if goals.isEmpty then Status.solvedSat else .solvedOpt) ∧
    (solve ans goals).plan.isSome = true := by
  obtain ⟨π, hv⟩ := hex
  have hmem : entry (goals.filter (fun gc => S.holds π gc.1)) ∈ queue goals :=
    (mem_queue goals _).mpr ⟨_, List.filter_sublist, rfl⟩
  have hpos := (hc _ (⟨_, List.filter_sublist, rfl⟩)).2.1 ⟨π, ⟨hv, encode_filter_holds goals (S.holds π)⟩⟩
  have hst := loop_definite ans goals (queue goals) 0
    (fun u hu => (hc _ (query_of_mem_queue goals u hu)).1) ⟨_, hmem, hpos⟩
  refine ⟨hst, ?_⟩
  by_cases hg : goals.isEmpty = true
  · rw [if_pos hg] at hst
    obtain ⟨t, htq, htp, hpl⟩ := (loop_origin ans goals (queue goals) false 0).2.2 hst
    unfold solve; rw [hpl]; exact (hc _ (query_of_mem_queue goals t htq)).2.2 htp
  · rw [if_neg hg] at hst
    obtain ⟨_, _, pre, t, post, hq, _, htp, hpl, _⟩ := loop_opt ans goals _ _ _ hst
    have htq : t ∈ queue goals := by rw [hq]; simp
    unfold solve; rw [hpl]; exact (hc _ (query_of_mem_queue goals t htq)).2.2 htp

/-! ### non-vacuity: two goals with weights 2 and -1, only the states {} and {0,1} reachable -/

/-- plans are identified with the pair of truth values they achieve -/
def exSem : Sem (Bool × Bool) Nat where
  validHard := fun π => π = (false, false) ∨ π = (true, true)
  holds := fun π g => if g = 0 then π.1 else π.2

def exGoals : List (Nat × Rat) := [(0, 2), (1, -1)]

/-- an exact planner for `exSem` -/
def exAns (Q : List (Nat × Bool)) : Answer (Bool × Bool) :=
  if Q = [(0, false), (1, false)] then ⟨.solvedSat, some (false, false)⟩
  else if Q = [(0, true), (1, true)] then ⟨.solvedSat, some (true, true)⟩
  else ⟨.unsolvableProven, none⟩

example : (exGoals.map Prod.fst).Nodup := by decide

example : Sound exSem exAns exGoals := by
  intro Q hQ π hpos hplan
  rcases example_queries Q hQ with rfl | rfl | rfl | rfl <;> simp [exAns] at hplan hpos
  · subst hplan
    exact ⟨Or.inl rfl, by intro gb hgb; simp at hgb; rcases hgb with rfl | rfl <;> simp [exSem]⟩
  · subst hplan
    exact ⟨Or.inr rfl, by intro gb hgb; simp at hgb; rcases hgb with rfl | rfl <;> simp [exSem]⟩

example : Truthful exSem exAns exGoals := by
  intro Q hQ hst
  rcases example_queries Q hQ with rfl | rfl | rfl | rfl <;> simp [exAns] at hst
  · rintro ⟨π, hv, hh⟩
    have h0 := hh (0, true) (by simp)
    have h1 := hh (1, false) (by simp)
    rcases hv with rfl | rfl <;> simp [exSem] at h0 h1
  · rintro ⟨π, hv, hh⟩
    have h0 := hh (0, false) (by simp)
    have h1 := hh (1, true) (by simp)
    rcases hv with rfl | rfl <;> simp [exSem] at h0 h1

example : NoIntermediate exAns exGoals := by
  intro Q _; unfold exAns; split
  · simp
  · split <;> simp

example : Complete exSem exAns exGoals := by
  intro Q hQ
  rcases example_queries Q hQ with rfl | rfl | rfl | rfl
  · simp [exAns, Status.isPositive]
  · refine ⟨by simp [exAns], ?_, by simp [exAns, Status.isPositive]⟩
    rintro ⟨π, hv, hh⟩
    have h0 := hh (0, true) (by simp)
    have h1 := hh (1, false) (by simp)
    rcases hv with rfl | rfl <;> simp [exSem] at h0 h1
  · refine ⟨by simp [exAns], ?_, by simp [exAns, Status.isPositive]⟩
    rintro ⟨π, hv, hh⟩
    have h0 := hh (0, false) (by simp)
    have h1 := hh (1, true) (by simp)
    rcases hv with rfl | rfl <;> simp [exSem] at h0 h1
  · simp [exAns, Status.isPositive]

example : ∃ π, exSem.validHard π := ⟨(true, true), Or.inr rfl⟩

/-- the subset {0} alone (weight 2, the heaviest) is not reachable; the model asks it first, then {0,1}
    (weight 1), which succeeds: SOLVED_OPTIMALLY after 2 calls -/
example : (solve exAns exGoals).status = .solvedOpt ∧ (solve exAns exGoals).plan = some (true, true) ∧
    (solve exAns exGoals).calls = 2 := by decide +kernel

end Oversubscription

/-! ## Part B — interpreted-functions planner -/

section InterpretedFunctions
open UPVerif.IFPlanner
variable {K V Plan : Type} [DecidableEq K]

/-- **C31_if_sound.** Every plan returned by the interpreted-functions planner was ACCEPTED BY THE VALIDATOR ON THE
    ORIGINAL PROBLEM (so its validity reduces to the validator's correctness, C03), was produced by the
    underlying planner for a knowledge set made only of values reported by the validator, and comes with the
    positive status the underlying planner gave. -/
theorem C31_if_sound (solveAt : Nat → List (K × V) → Answer Plan) (validate : Plan → Bool × List (K × V))
    (fuel : Nat) (st : Status) (p : Plan) (m : Nat)
    (h : IFPlanner.solve solveAt validate fuel = (.done st (some p), m)) :
    (validate p).1 = true ∧ st.isPositive = true ∧
      ∃ j K', Reach validate [] K' ∧ (solveAt j K').status = st ∧ (solveAt j K').plan = some p :=
  loop_done_some solveAt validate fuel 0 [] st p m h

/-- the original problem has a valid plan (reference notion, abstract) -/
structure IFSem (Plan : Type) where
  validOrig : Plan → Prop

/-- "the validator accepts only valid plans" (C03) -/
def ValidatorSound (S : IFSem Plan) (validate : Plan → Bool × List (K × V)) : Prop :=
  ∀ p, (validate p).1 = true → S.validOrig p

/-- corollary: with a sound validator the returned plan is valid for the original problem -/
theorem C31_if_plan_valid (S : IFSem Plan) (solveAt : Nat → List (K × V) → Answer Plan)
    (validate : Plan → Bool × List (K × V)) (hv : ValidatorSound S validate)
    (fuel : Nat) (st : Status) (p : Plan) (m : Nat)
    (h : IFPlanner.solve solveAt validate fuel = (.done st (some p), m)) : S.validOrig p :=
  hv p (C31_if_sound solveAt validate fuel st p m h).1

/-- ASSUMPTION on the unmodelled `InterpretedFunctionsRemover` (+ truthful underlying planner): for every knowledge
    set the loop can hold, the compiled problem is a RELAXATION of the original one, so the underlying planner
    does not answer UNSOLVABLE_PROVEN on it while the original problem has a valid plan.
    Not proved; sampled by the correspondence oracle (exhaustive search of the original problem).  Known to FAIL for
    the real remover on three input shapes (open findings D-C31-nested-ifun, D-C31-stale-bounded-value,
    D-C31-unremoved-ifun in known_findings.json); several other failures were repaired (notes/patches/C31-*). -/
def RemoverRelaxes (S : IFSem Plan) (solveAt : Nat → List (K × V) → Answer Plan)
    (validate : Plan → Bool × List (K × V)) : Prop :=
  ∀ j K', Reach validate [] K' → (∃ p, S.validOrig p) → (solveAt j K').status ≠ .unsolvableProven

/-- **C31_if_status_truthful.** A result without plan carries a non-positive status which is exactly what the
    underlying planner answered for the relaxed problem of some reachable knowledge set; hence, if relaxed
    problems are relaxations, UNSOLVABLE_PROVEN is only reported for problems without valid plan. -/
theorem C31_if_status_truthful (S : IFSem Plan) (solveAt : Nat → List (K × V) → Answer Plan)
    (validate : Plan → Bool × List (K × V)) (fuel : Nat) (st : Status) (m : Nat)
    (h : IFPlanner.solve solveAt validate fuel = (.done st none, m)) :
    st.isPositive = false ∧ (∃ j K', Reach validate [] K' ∧ (solveAt j K').status = st) ∧
    (RemoverRelaxes S solveAt validate → st = .unsolvableProven → ¬ ∃ p, S.validOrig p) := by
  obtain ⟨h1, j, K', hr, h2⟩ := loop_done_none solveAt validate fuel 0 [] st m h
  refine ⟨h1, ⟨j, K', hr, h2⟩, ?_⟩
  intro hrel hst hex
  exact hrel j K' hr hex (h2.trans hst)

/-- **C31_if_terminates.** The `while True` loop ends: if the validator only ever reports values of interpreted-function
    applications from a finite universe `U` (finitely many ground applications are reachable in a finite
    problem), at most `U.length + 1` iterations are run - every iteration that goes on strictly enlarges the
    knowledge, the code raises otherwise.  So the model's fuel is not a restriction. -/
theorem C31_if_terminates (solveAt : Nat → List (K × V) → Answer Plan) (validate : Plan → Bool × List (K × V))
    (U : List K) (hU : ∀ p, ∀ kv ∈ (validate p).2, kv.1 ∈ U) (fuel : Nat) (hf : U.length + 1 ≤ fuel) :
    (IFPlanner.solve solveAt validate fuel).1 ≠ .outOfFuel := by
  apply loop_fuel solveAt validate U _ fuel 0 [] (by simp [keys]) (by simp [keys]) (by simpa using hf)
  intro p x hx
  obtain ⟨kv, hkv, rfl⟩ := List.mem_map.mp hx
  exact hU p kv hkv

/-- ASSUMPTION on the unmodelled validator/remover pair: when the validator rejects the plan found for the relaxed
    problem of a knowledge set, it has evaluated at least one interpreted-function application whose value is not in
    that knowledge set (the relaxed problem is exact on what is known).
    Not proved; the correspondence check observes the `noProgress` outcome (UPException) whenever it fails. -/
def ValidationProgress (solveAt : Nat → List (K × V) → Answer Plan) (validate : Plan → Bool × List (K × V)) : Prop :=
  ∀ j K' p, Reach validate [] K' → (solveAt j K').status.isPositive = true → (solveAt j K').plan = some p →
    (validate p).1 = false → K'.length < (update K' (validate p).2).length

/-- "the underlying planner is complete" on the relaxed problems: a positive answer with a plan whenever it does
    not answer UNSOLVABLE_PROVEN (no TIMEOUT, MEMOUT, ... ) -/
def UnderlyingDefinite (solveAt : Nat → List (K × V) → Answer Plan) : Prop :=
  ∀ j K', (solveAt j K').status = .unsolvableProven ∨
    ((solveAt j K').status.isPositive = true ∧ (solveAt j K').plan.isSome = true)

/-- the FULL completeness clause of the property needs the two assumptions for the REAL remover and validator,
    neither of which is modelled here: this is what is missing from `C31_if_complete_partial` -/
def C31_if_complete_full (S : IFSem Plan) (solveAt : Nat → List (K × V) → Answer Plan)
    (validate : Plan → Bool × List (K × V)) : Prop :=
  RemoverRelaxes S solveAt validate ∧ ValidationProgress solveAt validate

/-- **C31_if_complete_partial.** UNDER the assumptions `RemoverRelaxes` and `ValidationProgress` (checked by
    correspondence, not proved), with an underlying planner that always gives a definite answer and a finite
    universe of interpreted-function applications: if the original problem has a valid plan, the
    interpreted-functions planner returns a plan accepted by the validator, with a positive status. -/
theorem C31_if_complete_partial (S : IFSem Plan) (solveAt : Nat → List (K × V) → Answer Plan)
    (validate : Plan → Bool × List (K × V))
    (hfull : C31_if_complete_full S solveAt validate) (hdef : UnderlyingDefinite solveAt)
    (U : List K) (hU : ∀ p, ∀ kv ∈ (validate p).2, kv.1 ∈ U) (fuel : Nat) (hf : U.length + 1 ≤ fuel)
    (hex : ∃ p, S.validOrig p) :
    ∃ st p m, IFPlanner.solve solveAt validate fuel = (.done st (some p), m) ∧
      (validate p).1 = true ∧ st.isPositive = true := by
  obtain ⟨hrel, hprog⟩ := hfull
  have hterm := C31_if_terminates solveAt validate U hU fuel hf
  generalize hres : IFPlanner.solve solveAt validate fuel = res at hterm
  obtain ⟨out, m⟩ := res
  cases out with
  | done st plan =>
    cases plan with
    | some p =>
      obtain ⟨h1, h2, _⟩ := C31_if_sound solveAt validate fuel st p m hres
      exact ⟨st, p, m, rfl, h1, h2⟩
    | none =>
      exfalso
      obtain ⟨hneg, j, K', hr, hst⟩ := loop_done_none solveAt validate fuel 0 [] st m hres
      rcases hdef j K' with h | ⟨h, _⟩
      · exact hrel j K' hr hex h
      · rw [hst] at h; rw [h] at hneg; cases hneg
  | noProgress =>
    exfalso
    obtain ⟨j, K', p, hr, hpos, hpl, hv, hlen⟩ := loop_noProgress solveAt validate fuel 0 [] m hres
    have := hprog j K' p hr hpos hpl hv
    omega
  | noPlan =>
    exfalso
    -- a positive answer without plan contradicts `UnderlyingDefinite`
    obtain ⟨j, K', hpos, hnone⟩ := loop_noPlan solveAt validate fuel 0 [] m hres
    rcases hdef j K' with hh | ⟨_, hh⟩
    · rw [hh] at hpos; cases hpos
    · rw [hnone] at hh; cases hh
  | outOfFuel => exact absurd rfl hterm

/-! ### non-vacuity: one interpreted-function application `k`; the first relaxed plan (0) is rejected and teaches
    its value, the second (1) is accepted -/

def exSolveAt (_ : Nat) (know : List (Nat × Bool)) : Answer Nat :=
  if know.isEmpty then ⟨.solvedSat, some 0⟩ else ⟨.solvedSat, some 1⟩

def exValidate (p : Nat) : Bool × List (Nat × Bool) :=
  if p = 0 then (false, [(7, true)]) else (true, [(7, true)])

def exIFSem : IFSem Nat := ⟨fun p => p ≠ 0⟩

example : IFPlanner.solve exSolveAt exValidate 2 = (.done .solvedSat (some 1), 2) := by rfl

example : ValidatorSound exIFSem exValidate := by
  intro p h; unfold exValidate at h; split at h
  · simp at h
  · rename_i hp; exact hp

example : ∀ p, ∀ kv ∈ (exValidate p).2, kv.1 ∈ [7] := by
  intro p kv h; unfold exValidate at h; split at h <;> simp_all

example : UnderlyingDefinite exSolveAt := by
  intro j K'; right; unfold exSolveAt; split <;> simp [Status.isPositive]

example : RemoverRelaxes exIFSem exSolveAt exValidate := by
  intro j K' _ _; unfold exSolveAt; split <;> simp

example : ValidationProgress exSolveAt exValidate := by
  intro j K' p _ _ hpl hv
  unfold exSolveAt at hpl
  split at hpl
  · rename_i hK
    have : K' = [] := by simpa using hK
    subst this
    have hp : p = 0 := by simpa using hpl.symm
    subst hp
    decide
  · have hp : p = 1 := by simpa using hpl.symm
    subst hp
    simp [exValidate] at hv

end InterpretedFunctions
end UPVerif.C31
